(* C03 (fourth wave): the connStats state machine never fails a handler goroutine, and the laws its
   counters obey. *)
From CJ Require Import Common.Base C03.StatsModel.
From Coq Require Import Lia ZifyN ZifyNat ZifyBool.
Local Open Scope Z_scope.

(* ------------------------------------------------------------------ maps *)

Lemma amap_find_set_same a e m : amap_find a (amap_set a e m) = Some e.
Proof.
  induction m as [|[a0 e0] m IH]; cbn.
  - now rewrite N.eqb_refl.
  - destruct (a0 =? a)%N eqn:E; cbn; rewrite E; [reflexivity|exact IH].
Qed.

Lemma amap_find_set_other a b e m : a <> b -> amap_find b (amap_set a e m) = amap_find b m.
Proof.
  intros Hab. induction m as [|[a0 e0] m IH]; cbn.
  - destruct (a =? b)%N eqn:E; [apply N.eqb_eq in E; contradiction|reflexivity].
  - destruct (a0 =? a)%N eqn:E; cbn.
    + apply N.eqb_eq in E. subst a0. destruct (a =? b)%N eqn:E2; [apply N.eqb_eq in E2; contradiction|reflexivity].
    + destruct (a0 =? b)%N; [reflexivity|exact IH].
Qed.

Lemma amap_find_ensure a cc m : exists e, amap_find a (amap_ensure a cc m) = Some e.
Proof.
  unfold amap_ensure. destruct (amap_find a m) eqn:E.
  - rewrite E. eauto.
  - rewrite amap_find_set_same. eauto.
Qed.

Lemma geo_update_guarded a cc f m : exists m', geo_update true a cc f m = Ok m'.
Proof.
  unfold geo_update. destruct (amap_find_ensure a cc m) as [[cc0 c] H]. rewrite H. eauto.
Qed.

Lemma geo_update_unguarded_missing a cc f m : amap_find a m = None -> geo_update false a cc f m = Panic.
Proof. intros H. unfold geo_update. now rewrite H. Qed.

(* ------------------------------------------------------------------ totality *)

Lemma update_total fn k s : exists s', update code_guards fn k s = Ok s'.
Proof.
  unfold update, code_guards.
  destruct (k_v4 k); destruct (valid_cc (k_cc k)); eauto.
  - destruct (geo_update_guarded (k_asn k) (k_cc k) (match fn with None => add_counts | Some t => step_counts t end) (s_map4 s)) as [m H].
    rewrite H. eauto.
  - destruct (geo_update_guarded (k_asn k) (k_cc k) (match fn with None => add_counts | Some t => step_counts t end) (s_map6 s)) as [m H].
    rewrite H. eauto.
Qed.

Lemma apply_total s o : exists s', apply_op code_guards s o = Ok s'.
Proof. destruct o; cbn; [apply update_total|apply update_total|eauto]. Qed.

Lemma run_total : forall h s, exists s', run_ops code_guards s h = Ok s'.
Proof.
  induction h as [|o h IH]; intros s; cbn; [eauto|].
  destruct (apply_total s o) as [s' H]. rewrite H. apply IH.
Qed.

Lemma update_no_err g fn k s e : update g fn k s <> Err e.
Proof.
  unfold update, geo_update.
  destruct (k_v4 k); destruct (valid_cc (k_cc k)); try discriminate.
  - destruct (amap_find _ _) as [[? ?]|]; discriminate.
  - destruct (amap_find _ _) as [[? ?]|]; discriminate.
Qed.

Lemma run_no_err g : forall h s e, run_ops g s h <> Err e.
Proof.
  induction h as [|o h IH]; intros s e; cbn; [discriminate|].
  destruct (apply_op g s o) eqn:E; [apply IH| |discriminate].
  destruct o; cbn in E; try discriminate; exfalso; eapply update_no_err; eauto.
Qed.

Lemma run_ops_app g : forall h1 h2 s,
  run_ops g s (h1 ++ h2) = match run_ops g s h1 with Ok s' => run_ops g s' h2 | Err e => Err e | Panic => Panic end.
Proof.
  induction h1 as [|o h1 IH]; intros h2 s; cbn; [reflexivity|].
  destruct (apply_op g s o); [apply IH|reflexivity|reflexivity].
Qed.

Lemma update_ext g g' fn k s : g fn = g' fn -> update g fn k s = update g' fn k s.
Proof. intros H. unfold update. now rewrite H. Qed.

Lemma run_ops_ext g g' : (forall fn, g fn = g' fn) -> forall h s, run_ops g s h = run_ops g' s h.
Proof.
  intros H. induction h as [|o h IH]; intros s; cbn; [reflexivity|].
  assert (E : apply_op g s o = apply_op g' s o) by (destruct o; cbn; [apply update_ext, H|apply update_ext, H|reflexivity]).
  rewrite E. destruct (apply_op g' s o); [apply IH|reflexivity|reflexivity].
Qed.

(* ------------------------------------------------------------------ necessity of the guard *)

Lemma update_unguarded_panics g fn k s :
  g fn = false -> valid_cc (k_cc k) = true -> amap_find (k_asn k) (fam_map (k_v4 k) s) = None ->
  update g fn k s = Panic.
Proof.
  intros Hg Hcc Hm. unfold update. rewrite Hg, Hcc. unfold fam_map in Hm.
  destruct (k_v4 k); now rewrite geo_update_unguarded_missing.
Qed.

(* the transitions that bring a fresh connection into a given state *)
Definition path_to (s : cstate) : list trans :=
  match s with
  | SCreated => []
  | SChecking => [CreatedToCheck]
  | SReading => [CreatedToCheck; CheckToRead]
  | SDiscarding => [CreatedToDiscard]
  end.

(* one connection: it is accepted, reaches the source state of the update in question, a statistics
   epoch goes by, and it makes that update *)
Definition crash_hist (fn : option trans) (k : skey) : list sop :=
  match fn with
  | None => [SAdd k]
  | Some t => (SAdd k :: map (fun t' => STrans t' k) (path_to (src t))) ++ [SReset; STrans t k]
  end.

Lemma unguarded_crashes g fn k :
  g fn = false -> valid_cc (k_cc k) = true -> run_ops g init_stats (crash_hist fn k) = Panic.
Proof.
  intros Hg Hcc. destruct fn as [t|]; unfold crash_hist.
  - rewrite run_ops_app.
    destruct (run_ops g init_stats (SAdd k :: map (fun t' => STrans t' k) (path_to (src t)))) as [s| e |] eqn:E;
      [| exfalso; eapply run_no_err; eauto | reflexivity].
    cbn. rewrite update_unguarded_panics; auto.
    unfold fam_map, reset_stats. now destruct (k_v4 k).
  - cbn. rewrite update_unguarded_panics; auto.
    unfold fam_map, init_stats. now destruct (k_v4 k).
Qed.

Definition some_key : skey := {| k_asn := 64500%N; k_cc := [85%N; 83%N]; k_v4 := true |}.

Lemma total_iff_guarded g :
  (forall h, run_ops g init_stats h <> Panic) <-> (forall fn, g fn = true).
Proof.
  split.
  - intros H fn. destruct (g fn) eqn:E; [reflexivity|].
    exfalso. apply (H (crash_hist fn some_key)). now apply unguarded_crashes.
  - intros H h. rewrite (run_ops_ext g code_guards) by (intros fn; rewrite H; reflexivity).
    destruct (run_total h init_stats) as [s' E]. rewrite E. discriminate.
Qed.

(* ------------------------------------------------------------------ arithmetic of one block *)

Lemma sum_state_add c : sum_state (add_counts c) = sum_state c + 1.
Proof. unfold sum_state, sum_over, add_counts, bump; cbn. lia. Qed.

Lemma sum_state_step t c : sum_state (step_counts t c) = sum_state c - (if resolves t then 1 else 0).
Proof. destruct t; unfold sum_state, sum_over, step_counts, bump, resolves; cbn; lia. Qed.

Lemma sum_state_reset c : sum_state (reset_counts c) = sum_state c.
Proof. reflexivity. Qed.

Lemma sum_out_step t c : sum_out (step_counts t c) = sum_out c + (if resolves t then 1 else 0).
Proof. destruct t; unfold sum_out, sum_over, step_counts, bump, resolves; cbn; lia. Qed.

Lemma sum_tr_step t c : sum_tr (step_counts t c) = sum_tr c + 1.
Proof. destruct t; unfold sum_tr, sum_over, step_counts, bump, trans_eqb; cbn; lia. Qed.

Lemma trans_eqb_eq a b : trans_eqb a b = true <-> a = b.
Proof. split; [|intros ->; unfold trans_eqb; apply N.eqb_refl]. destruct a, b; cbn; intros H; try reflexivity; discriminate. Qed.

(* ------------------------------------------------------------------ the overall block of one family *)

Definition apply_fn (fn : option trans) : counts -> counts :=
  match fn with None => add_counts | Some t => step_counts t end.

Lemma fam_update g fn k s s' v :
  update g fn k s = Ok s' ->
  fam v s' = if Bool.eqb (k_v4 k) v then apply_fn fn (fam v s) else fam v s.
Proof.
  unfold update, fam, apply_fn. intros H.
  destruct (k_v4 k); destruct (valid_cc (k_cc k));
    try (destruct (geo_update _ _ _ _ _); try discriminate);
    inversion H; subst; destruct v; reflexivity.
Qed.

Lemma count_ops_app f h1 h2 : count_ops f (h1 ++ h2) = count_ops f h1 + count_ops f h2.
Proof. unfold count_ops. induction h1 as [|o h1 IH]; cbn [app fold_right]; [reflexivity|]. rewrite IH. lia. Qed.

Lemma since_reset_snoc h o :
  since_reset (h ++ [o]) = match o with SReset => [] | _ => since_reset h ++ [o] end.
Proof. unfold since_reset. rewrite fold_left_app. reflexivity. Qed.

Record block_inv (v : bool) (h : list sop) (c : counts) : Prop := {
  bi_state : sum_state c = count_ops (op_opens v) h - count_ops (op_resolves v) h;
  bi_total : n_total c = count_ops (op_moves v) (since_reset h);
  bi_new : n_new c = count_ops (op_opens v) (since_reset h);
  bi_resolved : n_resolved c = count_ops (op_resolves v) (since_reset h);
  bi_out : sum_out c = n_resolved c;
  bi_tr : forall t, t <> CreatedToClose -> n_tr c t = count_ops (op_is v t) (since_reset h);
  bi_c2c : n_tr c CreatedToClose = count_ops (op_is v CreatedToClose) h
}.

Lemma block_inv_init v : block_inv v [] zero_counts.
Proof. constructor; intros; reflexivity. Qed.

Lemma count_single f o : count_ops f [o] = f o.
Proof. cbn. lia. Qed.

Ltac prep E :=
  intros; rewrite ?since_reset_snoc, ?count_ops_app, ?count_single;
  cbn [op_opens op_resolves op_moves op_is apply_fn]; rewrite ?E; cbn [andb].

Lemma block_inv_step v h s o s' :
  block_inv v h (fam v s) -> apply_op code_guards s o = Ok s' -> block_inv v (h ++ [o]) (fam v s').
Proof.
  intros I H. destruct I as [I1 I2 I3 I4 I5 I6 I7].
  destruct o as [k|t k|]; cbn in H.
  - (* addCreated *)
    rewrite (fam_update _ _ _ _ _ v H).
    destruct (Bool.eqb (k_v4 k) v) eqn:E; constructor; prep E.
    + rewrite sum_state_add. lia.
    + cbn [add_counts n_total]. lia.
    + cbn [add_counts n_new]. lia.
    + cbn [add_counts n_resolved]. lia.
    + exact I5.
    + cbn [add_counts n_tr]. rewrite I6 by assumption. lia.
    + cbn [add_counts n_tr]. lia.
    + lia.
    + lia.
    + lia.
    + lia.
    + exact I5.
    + rewrite I6 by assumption. lia.
    + lia.
  - (* a transition *)
    rewrite (fam_update _ _ _ _ _ v H).
    destruct (Bool.eqb (k_v4 k) v) eqn:E; constructor; prep E.
    + rewrite sum_state_step. destruct (resolves t); lia.
    + cbn [step_counts n_total]. lia.
    + cbn [step_counts n_new]. lia.
    + cbn [step_counts n_resolved]. destruct (resolves t); lia.
    + rewrite sum_out_step. cbn [step_counts n_resolved]. destruct (resolves t); lia.
    + cbn [step_counts n_tr]. unfold bump. rewrite I6 by assumption. destruct (trans_eqb t0 t) eqn:E2.
      * apply trans_eqb_eq in E2. subst t0. rewrite (proj2 (trans_eqb_eq t t) eq_refl). lia.
      * replace (trans_eqb t t0) with false; [lia|]. symmetry. destruct (trans_eqb t t0) eqn:E3; [|reflexivity].
        apply trans_eqb_eq in E3. subst t0. rewrite (proj2 (trans_eqb_eq t t) eq_refl) in E2. discriminate.
    + cbn [step_counts n_tr]. unfold bump. rewrite I7. destruct (trans_eqb CreatedToClose t) eqn:E2.
      * apply trans_eqb_eq in E2. subst t. cbn. lia.
      * replace (trans_eqb t CreatedToClose) with false; [lia|]. symmetry. destruct (trans_eqb t CreatedToClose) eqn:E3; [|reflexivity].
        apply trans_eqb_eq in E3. subst t. discriminate.
    + lia.
    + lia.
    + lia.
    + lia.
    + exact I5.
    + rewrite I6 by assumption. lia.
    + lia.
  - (* the epoch *)
    inversion H; subst s'.
    replace (fam v (reset_stats s)) with (reset_counts (fam v s)) by (destruct v; reflexivity).
    constructor; intros; rewrite ?since_reset_snoc, ?count_ops_app, ?count_single; cbn [op_opens op_resolves op_moves op_is].
    + rewrite sum_state_reset. lia.
    + reflexivity.
    + reflexivity.
    + reflexivity.
    + reflexivity.
    + cbn [reset_counts n_tr]. destruct (trans_eqb t CreatedToClose) eqn:E; [apply trans_eqb_eq in E; contradiction|reflexivity].
    + cbn [reset_counts n_tr]. cbn. lia.
Qed.

Lemma block_inv_run v : forall h s,
  run_ops code_guards init_stats h = Ok s -> block_inv v h (fam v s).
Proof.
  induction h as [|o h IH] using rev_ind; intros s H.
  - inversion H; subst. destruct v; apply block_inv_init.
  - rewrite run_ops_app in H. destruct (run_ops code_guards init_stats h) as [s0| |] eqn:E; try discriminate.
    cbn in H. destruct (apply_op code_guards s0 o) as [s1| |] eqn:E1; try discriminate. inversion H; subst s1.
    eapply block_inv_step; eauto.
Qed.

(* ------------------------------------------------------------------ the per-ASN entries *)

Record entry_ok (c : counts) : Prop := {
  eo_total : n_total c = sum_tr c;
  eo_resolved : n_resolved c = sum_out c;
  eo_state : sum_state c = n_new c - n_resolved c
}.

Definition map_ok (m : asnmap) : Prop :=
  Forall (fun x => valid_cc (fst (snd x)) = true /\ entry_ok (snd (snd x))) m.

Lemma entry_ok_zero : entry_ok zero_counts.
Proof. constructor; reflexivity. Qed.

Lemma entry_ok_fn fn c : entry_ok c -> entry_ok (apply_fn fn c).
Proof.
  intros [H1 H2 H3]. destruct fn as [t|]; cbn [apply_fn].
  - constructor.
    + rewrite sum_tr_step. cbn [step_counts n_total]. lia.
    + rewrite sum_out_step. cbn [step_counts n_resolved]. destruct (resolves t); lia.
    + rewrite sum_state_step. cbn [step_counts n_new n_resolved]. destruct (resolves t); lia.
  - constructor.
    + exact H1.
    + exact H2.
    + rewrite sum_state_add. cbn [add_counts n_new n_resolved]. lia.
Qed.

Lemma map_ok_set a e m :
  map_ok m -> valid_cc (fst e) = true -> entry_ok (snd e) -> map_ok (amap_set a e m).
Proof.
  intros Hm H1 H2. induction m as [|[a0 e0] m IH]; cbn.
  - constructor; [split; assumption|constructor].
  - inversion Hm as [|? ? Hx Hm']; subst. destruct (a0 =? a)%N.
    + constructor; [split; assumption|assumption].
    + constructor; [assumption|apply IH; assumption].
Qed.

Lemma map_ok_find a e m : map_ok m -> amap_find a m = Some e -> valid_cc (fst e) = true /\ entry_ok (snd e).
Proof.
  intros Hm. induction m as [|[a0 e0] m IH]; cbn; [discriminate|].
  inversion Hm; subst. destruct (a0 =? a)%N; [intros H; inversion H; subst; assumption|auto].
Qed.

Lemma map_ok_geo g a cc fn m m' :
  valid_cc cc = true -> map_ok m -> geo_update g a cc (apply_fn fn) m = Ok m' -> map_ok m'.
Proof.
  intros Hcc Hm. unfold geo_update.
  assert (Hm1 : map_ok (if g then amap_ensure a cc m else m)).
  { destruct g; [|exact Hm]. unfold amap_ensure. destruct (amap_find a m); [exact Hm|].
    apply map_ok_set; [exact Hm|exact Hcc|apply entry_ok_zero]. }
  destruct (amap_find a (if g then amap_ensure a cc m else m)) as [[cc0 c]|] eqn:E; [|discriminate].
  intros H. inversion H; subst m'. destruct (map_ok_find _ _ _ Hm1 E) as [H1 H2].
  apply map_ok_set; [exact Hm1|exact H1|apply entry_ok_fn; exact H2].
Qed.

Lemma maps_ok_step g s o s' :
  map_ok (s_map4 s) -> map_ok (s_map6 s) -> apply_op g s o = Ok s' -> map_ok (s_map4 s') /\ map_ok (s_map6 s').
Proof.
  intros H4 H6 H.
  assert (U : forall fn k, update g fn k s = Ok s' -> map_ok (s_map4 s') /\ map_ok (s_map6 s')).
  { intros fn k. unfold update. fold (apply_fn fn).
    destruct (k_v4 k); destruct (valid_cc (k_cc k)) eqn:Ecc.
    - destruct (geo_update (g fn) (k_asn k) (k_cc k) (apply_fn fn) (s_map4 s)) eqn:E; try discriminate.
      intros X; inversion X; subst; cbn. split; [apply (map_ok_geo _ _ _ _ _ _ Ecc H4 E)|assumption].
    - intros X; inversion X; subst; cbn. split; assumption.
    - destruct (geo_update (g fn) (k_asn k) (k_cc k) (apply_fn fn) (s_map6 s)) eqn:E; try discriminate.
      intros X; inversion X; subst; cbn. split; [assumption|apply (map_ok_geo _ _ _ _ _ _ Ecc H6 E)].
    - intros X; inversion X; subst; cbn. split; assumption. }
  destruct o; cbn in H; [eapply U; eauto|eapply U; eauto|].
  inversion H; subst; cbn. split; constructor.
Qed.

Lemma maps_ok_run g : forall h s s',
  map_ok (s_map4 s) -> map_ok (s_map6 s) -> run_ops g s h = Ok s' -> map_ok (s_map4 s') /\ map_ok (s_map6 s').
Proof.
  induction h as [|o h IH]; intros s s' H4 H6 H; cbn in H.
  - inversion H; subst; split; assumption.
  - destruct (apply_op g s o) as [s1| |] eqn:E; try discriminate.
    destruct (maps_ok_step _ _ _ _ H4 H6 E). eapply IH; eauto.
Qed.

Lemma entries_ok h s v a cc c :
  run_ops code_guards init_stats h = Ok s -> amap_find a (fam_map v s) = Some (cc, c) ->
  valid_cc cc = true /\ entry_ok c.
Proof.
  intros H F.
  assert (E4 : map_ok (s_map4 init_stats)) by constructor.
  assert (E6 : map_ok (s_map6 init_stats)) by constructor.
  destruct (maps_ok_run code_guards h init_stats s E4 E6 H) as [H4 H6].
  destruct v; cbn in F; [apply (map_ok_find _ _ _ H4 F)|apply (map_ok_find _ _ _ H6 F)].
Qed.

(* ------------------------------------------------------------------ epochs do not touch the state counters *)

Definition not_reset (o : sop) : bool := match o with SReset => false | _ => true end.

Definition same_states (s1 s2 : cstats) : Prop :=
  forall v x, n_state (fam v s1) x = n_state (fam v s2) x.

Lemma n_state_fn fn c1 c2 : (forall x, n_state c1 x = n_state c2 x) -> forall x, n_state (apply_fn fn c1) x = n_state (apply_fn fn c2) x.
Proof.
  intros H x. destruct fn as [t|]; cbn [apply_fn step_counts add_counts n_state]; unfold bump.
  - destruct (dst t); unfold bump; rewrite !H; reflexivity.
  - rewrite H. reflexivity.
Qed.

Lemma states_ignore_resets : forall h s1 s2 r1 r2,
  same_states s1 s2 ->
  run_ops code_guards s1 h = Ok r1 -> run_ops code_guards s2 (filter not_reset h) = Ok r2 ->
  same_states r1 r2.
Proof.
  induction h as [|o h IH]; intros s1 s2 r1 r2 S H1 H2; cbn in H1, H2.
  - inversion H1; inversion H2; subst; exact S.
  - destruct (apply_op code_guards s1 o) as [s1'| |] eqn:E1; try discriminate.
    destruct o as [k|t k|]; cbn [not_reset filter] in H2.
    + cbn in H2. destruct (update code_guards None k s2) as [s2'| |] eqn:E2; try discriminate.
      apply (IH s1' s2' r1 r2); auto. intros v x. cbn in E1.
      rewrite (fam_update _ _ _ _ _ v E1), (fam_update _ _ _ _ _ v E2).
      destruct (Bool.eqb (k_v4 k) v); [apply n_state_fn; intros; apply S|apply S].
    + cbn in H2. destruct (update code_guards (Some t) k s2) as [s2'| |] eqn:E2; try discriminate.
      apply (IH s1' s2' r1 r2); auto. intros v x. cbn in E1.
      rewrite (fam_update _ _ _ _ _ v E1), (fam_update _ _ _ _ _ v E2).
      destruct (Bool.eqb (k_v4 k) v); [apply n_state_fn; intros; apply S|apply S].
    + cbn in E1. inversion E1; subst s1'. apply (IH (reset_stats s1) s2 r1 r2); auto.
      intros v x. rewrite <- S. destruct v; reflexivity.
Qed.

Lemma states_ignore_epochs h r1 r2 :
  run_ops code_guards init_stats h = Ok r1 -> run_ops code_guards init_stats (filter not_reset h) = Ok r2 ->
  same_states r1 r2.
Proof. apply states_ignore_resets. intros v x. reflexivity. Qed.

(* ------------------------------------------------------------------ the handler's projection *)

Definition w_of (v : bool) (x : skey * pstate) : Z :=
  if Bool.eqb (k_v4 (fst x)) v then match snd x with PDone => 0 | _ => 1 end else 0.

Lemma in_flight_cons v c x tb : in_flight v ((c, x) :: tb) = w_of v x + in_flight v tb.
Proof. unfold in_flight, w_of. cbn [fold_right]. destruct x as [k p]; cbn [fst snd]. destruct (Bool.eqb (k_v4 k) v); destruct p; lia. Qed.

Lemma in_flight_set_new v c y tb :
  ctab_find c tb = None -> in_flight v (ctab_set c y tb) = in_flight v tb + w_of v y.
Proof.
  induction tb as [|[c0 x0] tb IH]; cbn [ctab_find ctab_set]; intros H.
  - rewrite in_flight_cons. unfold in_flight; cbn [fold_right]. lia.
  - destruct (c0 =? c)%N; [discriminate|]. rewrite !in_flight_cons, (IH H). lia.
Qed.

Lemma in_flight_set_found v c x y tb :
  ctab_find c tb = Some x -> in_flight v (ctab_set c y tb) = in_flight v tb - w_of v x + w_of v y.
Proof.
  induction tb as [|[c0 x0] tb IH]; cbn [ctab_find ctab_set]; intros H; [discriminate|].
  destruct (c0 =? c)%N.
  - inversion H; subst x0. rewrite !in_flight_cons. lia.
  - rewrite !in_flight_cons, (IH H). lia.
Qed.

Definition net_of (v : bool) (ops : list sop) : Z := count_ops (op_opens v) ops - count_ops (op_resolves v) ops.

Lemma net_trans v k ts :
  net_of v (map (fun t => STrans t k) ts) =
  - (if Bool.eqb (k_v4 k) v then sum_over ts (fun t => if resolves t then 1 else 0) else 0).
Proof.
  unfold net_of, count_ops. induction ts as [|t ts IH]; cbn [map fold_right sum_over]; [destruct (Bool.eqb (k_v4 k) v); reflexivity|].
  cbn [op_opens op_resolves]. unfold sum_over in IH. destruct (Bool.eqb (k_v4 k) v); cbn [andb]; destruct (resolves t); lia.
Qed.

Lemma hev_step_net p e :
  sum_over (fst (hev_step p e)) (fun t => if resolves t then 1 else 0) =
  (match p with PDone => 0 | _ => 1 end) - (match snd (hev_step p e) with PDone => 0 | _ => 1 end).
Proof.
  destruct p as [had| |]; destruct e as [n o|k]; cbn.
  - destruct had; destruct o; destruct (n =? 0)%N; cbn; reflexivity.
  - destruct had; destruct k; reflexivity.
  - reflexivity.
  - destruct k; reflexivity.
  - reflexivity.
  - reflexivity.
Qed.

Lemma gev_ops_net v tb e :
  match e with GOpen c _ _ _ => ctab_find c tb = None | _ => True end ->
  net_of v (fst (gev_ops tb e)) = in_flight v (snd (gev_ops tb e)) - in_flight v tb.
Proof.
  destruct e as [c k nr nt|c ev|]; cbn [gev_ops].
  - intros F. unfold open_trans. destruct nr; [|destruct nt]; cbn [fst snd];
      rewrite (in_flight_set_new v c _ tb F); unfold net_of, w_of, count_ops; cbn;
      destruct (Bool.eqb (k_v4 k) v); cbn; lia.
  - intros _. destruct (ctab_find c tb) as [[k p]|] eqn:F; cbn [fst snd]; [|unfold net_of; cbn [count_ops fold_right]; lia].
    pose proof (hev_step_net p ev) as N. destruct (hev_step p ev) as [ts p'] eqn:E. cbn [fst snd] in *.
    rewrite (in_flight_set_found v c (k, p) _ tb F). rewrite net_trans. unfold w_of; cbn [fst snd].
    destruct (Bool.eqb (k_v4 k) v); lia.
  - intros _. unfold net_of; cbn [fst snd count_ops fold_right op_opens op_resolves]. lia.
Qed.

Lemma net_app v a b : net_of v (a ++ b) = net_of v a + net_of v b.
Proof. unfold net_of. rewrite !count_ops_app. lia. Qed.

Lemma gevs_ops_net v : forall es tb,
  fresh_opens tb es -> net_of v (gevs_ops tb es) = in_flight v (gevs_tab tb es) - in_flight v tb.
Proof.
  induction es as [|e es IH]; intros tb F; cbn [gevs_ops gevs_tab].
  - unfold net_of; cbn. lia.
  - destruct F as [F1 F2]. pose proof (gev_ops_net v tb e F1) as N.
    destruct (gev_ops tb e) as [ops tb'] eqn:E. cbn [fst snd] in *.
    rewrite net_app, N, (IH tb' F2). lia.
Qed.

(* the state counters of a family count the connections of that family that are being classified *)
Lemma state_counters_count_connections v es s :
  fresh_opens [] es -> run_ops code_guards init_stats (gevs_ops [] es) = Ok s ->
  sum_state (fam v s) = in_flight v (gevs_tab [] es).
Proof.
  intros F H. rewrite (bi_state _ _ _ (block_inv_run v _ _ H)).
  pose proof (gevs_ops_net v es [] F) as N. unfold net_of in N. cbn [in_flight fold_right] in N. lia.
Qed.

(* no history of connection events and statistics epochs fails a handler goroutine *)
Lemma handler_histories_total es : exists s, run_ops code_guards init_stats (gevs_ops [] es) = Ok s.
Proof. apply run_total. Qed.
