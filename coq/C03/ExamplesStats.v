(* C03 (fourth wave): non-vacuity of the statistics and address theorems - concrete histories and
   addresses that meet their hypotheses, and the failing shapes they exclude. *)
From CJ Require Import Common.Base C04.Model C03.Model C03.StatsModel C03.StatsProofs C03.ConnModel C03.ConnProofs C03.Props.
Local Open Scope Z_scope.

Definition de : bytes := [68; 69]%N.
Definition kA : skey := {| k_asn := 64501%N; k_cc := de; k_v4 := true |}.
Definition kB : skey := {| k_asn := 64501%N; k_cc := de; k_v4 := true |}.
Definition kC : skey := {| k_asn := 64502%N; k_cc := [70; 82]%N; k_v4 := false |}.

(* three connections and one epoch: A (registrations on its phantom) stays silent across the epoch
   and then closes with 0 bytes read; B is a silent bystander on the same ASN; C sends garbage to an
   IPv6 phantom without registrations *)
Definition hist1 : list gev :=
  [GOpen 0 kA false false; GOpen 1 kB false false; GEpoch; GOpen 2 kC true false;
   GEv 2 (HRead 100 IExhausted); GEv 0 (HReadErr KClosed)].

Example hist1_fresh : fresh_opens [] hist1.
Proof. cbn. repeat split. Qed.

Example hist1_ops :
  gevs_ops [] hist1 =
  [SAdd kA; SAdd kB; SReset; SAdd kC; STrans CreatedToDiscard kC; STrans CreatedToClose kA].
Proof. reflexivity. Qed.

(* with the code's guards the history runs; the entry of ASN 64501, recreated after the epoch by A's
   close, holds numCreated = -1 (A was counted before the epoch), B and C are still in flight *)
Example hist1_runs :
  exists s, run_ops code_guards init_stats (gevs_ops [] hist1) = Ok s /\
            n_state (s_v4 s) SCreated = 1 /\ n_out (s_v4 s) OClosed = 1 /\ n_tr (s_v4 s) CreatedToClose = 1 /\
            n_state (s_v6 s) SDiscarding = 1 /\
            (exists c, amap_find 64501%N (s_map4 s) = Some (de, c) /\ n_state c SCreated = -1 /\ n_new c = 0 /\ n_resolved c = 1) /\
            sum_state (s_v4 s) = in_flight true (gevs_tab [] hist1) /\ in_flight true (gevs_tab [] hist1) = 1 /\
            in_flight false (gevs_tab [] hist1) = 1.
Proof. eexists. split; [vm_compute; reflexivity|]. vm_compute. repeat split; try reflexivity. eexists. repeat split; reflexivity. Qed.

(* the shape seeded as C03e: createdToClose without the create-if-missing guard - the same history
   kills the goroutine *)
Definition unguarded_c2c : guards := fun fn => match fn with Some CreatedToClose => false | _ => true end.

Example hist1_crashes_unguarded : run_ops unguarded_c2c init_stats (gevs_ops [] hist1) = Panic.
Proof. vm_compute. reflexivity. Qed.

Example crash_witness_c2c : run_ops unguarded_c2c init_stats (crash_hist (Some CreatedToClose) kA) = Panic.
Proof. apply C03_unguarded_update_crashes; reflexivity. Qed.

(* ... while without an epoch, or with an empty country code, the unguarded shape survives: the seed's
   "needs" (epoch between accept and close, a GeoIP database that knows the country) are necessary *)
Example no_epoch_survives :
  exists s, run_ops unguarded_c2c init_stats [SAdd kA; STrans CreatedToClose kA] = Ok s.
Proof. eexists. vm_compute. reflexivity. Qed.
Example no_cc_survives :
  exists s, run_ops unguarded_c2c init_stats [SAdd {| k_asn := 1%N; k_cc := []; k_v4 := true |}; SReset;
                                               STrans CreatedToClose {| k_asn := 1%N; k_cc := []; k_v4 := true |}] = Ok s.
Proof. eexists. vm_compute. reflexivity. Qed.

(* the block laws on hist1: 3 transitions and 1 new connection since the epoch (family v4: 1 / 0) *)
Example hist1_block_v4 :
  forall s, run_ops code_guards init_stats (gevs_ops [] hist1) = Ok s ->
            n_total (s_v4 s) = 1 /\ n_new (s_v4 s) = 0 /\ n_resolved (s_v4 s) = 1 /\ sum_state (s_v4 s) = 1.
Proof.
  intros s H. destruct (C03_stats_block_laws true _ _ H) as [I1 I2 I3 I4 I5 I6 I7].
  cbn [fam] in *. rewrite I1, I2, I3, I4. vm_compute. repeat split.
Qed.

(* an ill-formed history (a step of a connection that was never counted, as the repository's
   TestConnForceRace makes them) is still total; counters go negative *)
Example ill_formed_total :
  exists s, run_ops code_guards init_stats [STrans ReadToCheck kA; SReset; STrans DiscardToClose kC] = Ok s /\
            n_state (s_v4 s) SReading = -1.
Proof. eexists. split; vm_compute; reflexivity. Qed.

(* ---- addresses *)
Local Open Scope nat_scope.

Definition ip4 : bytes := [198; 51; 100; 9]%N.
Definition ip4in6 : bytes := [0;0;0;0;0;0;0;0;0;0;255;255;198;51;100;7]%N.
Definition ip6 : bytes := [32;1;13;184;0;5;0;0;0;0;0;0;0;0;0;33]%N.
Definition lo6 : bytes := [0;0;0;0;0;0;0;0;0;0;0;0;0;0;0;1]%N.

Example fams : is_v4 ip4 = true /\ is_v4 ip4in6 = true /\ is_v4 ip6 = false /\ is_v4 lo6 = false.
Proof. repeat split. Qed.

Definition geo_cc_us (ip : bytes) : option bytes := Some [85; 83]%N.
Definition geo_asn_us (ip : bytes) : option N := Some 64500%N.

(* the same probe from an IPv6 peer to an IPv4 phantom and from an IPv4 peer to an IPv6 phantom *)
Example v6_peer_same_as_v4 :
  forall wrap cap D tracked ts script,
    handle geo_cc_us geo_asn_us wrap cap (RTcp ip6 []) ip4 D tracked ts script None =
    handle geo_cc_us geo_asn_us wrap cap (RTcp ip4in6 []) ip6 D tracked ts script None.
Proof.
  intros. apply (C03_peer_address_irrelevant geo_cc_us geo_asn_us wrap cap D tracked ts script None _ _ ip6 ip4in6); reflexivity.
Qed.

(* the seeded shape C03f (To4() on the peer address) is NOT this model: it would make remote_ip of an
   IPv6 address None, and then the handler returns at once *)
Example nil_ip_rejected :
  forall wrap cap D tracked ts script,
    handle geo_cc_us geo_asn_us wrap cap (RTcp [] []) ip4 D tracked ts script None = [AReturn 0%N].
Proof. reflexivity. Qed.

Example pipe_rejected :
  forall wrap cap D tracked ts script,
    handle geo_cc_us geo_asn_us wrap cap (ROther None) ip4 D tracked ts script None = [AReturn 0%N].
Proof. reflexivity. Qed.

(* a GeoIP database that cannot answer for IPv6 addresses (an IPv4-only database): the connection of an
   IPv6 peer is classified like any other, with an unknown country *)
Definition geo_cc_v4only (ip : bytes) : option bytes := if is_v4 ip then Some [85; 83]%N else None.
Example v4only_db_keeps_v6 :
  forall wrap cap D tracked ts script,
    handle geo_cc_v4only geo_asn_us wrap cap (RTcp ip6 []) ip4 D tracked ts script None = run wrap cap D tracked ts script /\
    conn_entry geo_cc_v4only geo_asn_us (RTcp ip6 []) ip4 = EAccept {| k_asn := 64500%N; k_cc := []; k_v4 := true |}.
Proof. intros. split; reflexivity. Qed.

(* ------------------------------------------------------------------ second pass: zoned peers, reloads *)
From CJ Require Import C03.ReloadModel.

Definition ll6 : bytes := [254;128;0;0;0;0;0;0;0;0;0;0;0;0;0;1]%N.   (* fe80::1 *)
Definition eth0 : bytes := [101;116;104;48]%N.
Example zoned_peer_accepted :
  forall wrap cap D tracked ts script,
    handle geo_cc_us geo_asn_us wrap cap (RTcp ll6 eth0) ip4 D tracked ts script None = run wrap cap D tracked ts script /\
    remote_ip_printed (RTcp ll6 eth0) = None /\ remote_ip_printed (RTcp ll6 []) = Some ll6.
Proof. intros. repeat split. Qed.

(* the C03h history: a station with a database, a reload with a corrupt country database, one connection *)
Definition corrupt_cc : option dbconf := Some {| c_asn := FAbsent; c_cc := FCorrupt |}.
Definition k_us : skey := {| k_asn := 64500%N; k_cc := [85;83]%N; k_v4 := true |}.
Example reload_corrupt_code_survives :
  match lrun false code_guards (station0 DEmpty) [LEv (GOpen 0 k_us false false); LReload corrupt_cc; LEv (GOpen 1 k_us false false)] with
  | Ok st => st_geo st = Some DEmpty
  | _ => False
  end.
Proof. vm_compute. reflexivity. Qed.
Example reload_corrupt_seeded_shape_panics :
  lrun true code_guards (station0 DEmpty) [LEv (GOpen 0 k_us false false); LReload corrupt_cc; LEv (GOpen 1 k_us false false)] = Panic.
Proof. vm_compute. reflexivity. Qed.
(* the seed's needs are necessary: a reload with unconfigured databases is harmless in the seeded shape too, and the
   same corrupt file at start-up keeps the station from starting *)
Example reload_absent_seeded_shape_survives :
  match lrun true code_guards (station0 (DMax (Some 1%N) (Some 2%N))) [LReload (Some {| c_asn := FAbsent; c_cc := FAbsent |}); LEv (GOpen 1 k_us false false)] with
  | Ok st => st_geo st = Some DEmpty
  | _ => False
  end.
Proof. vm_compute. reflexivity. Qed.
Example startup_corrupt_refused : at_startup corrupt_cc = None /\ at_startup None = Some (Some DEmpty) /\
  at_startup (Some {| c_asn := FGood 1; c_cc := FAbsent |}) = Some (Some (DMax (Some 1%N) None)).
Proof. repeat split. Qed.
