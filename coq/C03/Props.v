(* C03 property theorems: statements + `exact lemma` only. *)
From CJ Require Import Common.Base C04.Model C03.Model C03.Proofs.
Local Open Scope nat_scope.

(* A connection whose bytes (those that arrive before the deadline D) present no valid tag to the
   phantom's registry: for every registry (empty, one, many; any number of tracked-but-invalid
   registrations), every set of enabled transports, every content, length, segmentation and pacing
   of the peer's data, every deadline D and every order in which Go visits its maps, the handler's
   trace is: set the deadline, successful Reads only, a Read that times out at D, return at D.
   Hence nothing is written to the peer, the relay is never entered, the handler neither sleeps
   nor returns (= closes) before D; and at every instant before D it has read everything that had
   arrived by then.  Cryptography is universally quantified. *)
Theorem C03_no_tag_no_reaction :
  forall (reveal : bytes -> list bytes) (mark : reginfo -> bytes -> bytes) (hs_ok : reginfo -> bytes -> bool)
         (tbl : list pfx) (R : registry) (tracked : nat) (ts : list tid) (drain_cap : nat) (D : N)
         (script : list (N * bytes)),
    prefix_table_wfb tbl = true ->
    paced 0%N script ->
    ~ presents_tag reveal mark tbl R (stream_of (heard D script)) ->
    let tr := run (cwrap reveal mark hs_ok tbl R) drain_cap D tracked ts script in
    only_reads_until D tr /\
    (forall tau, (tau < D)%N -> read_by tr tau = arrived_by script tau).
Proof. exact no_tag_no_reaction. Qed.
Print Assumptions C03_no_tag_no_reaction.

(* Two such connections whose chunks arrive at the same instants with the same sizes - whatever
   their contents (random bytes, a static prefix followed by garbage, a genuine flight with one bit
   flipped, ...), and whatever the two registries - are indistinguishable to the peer: the same
   non-read actions (deadline, time-out and return at D) and, at every instant, the same number of
   bytes taken off the connection.  Individual Read sizes may differ (4096-byte reads in the loop,
   larger ones while draining); that is all. *)
Theorem C03_identical_reaction :
  forall (reveal : bytes -> list bytes) (mark : reginfo -> bytes -> bytes) (hs_ok : reginfo -> bytes -> bool)
         tbl1 tbl2 R1 R2 tracked1 tracked2 ts1 ts2 cap1 cap2 D script1 script2,
    prefix_table_wfb tbl1 = true -> prefix_table_wfb tbl2 = true ->
    paced 0%N script1 -> paced 0%N script2 ->
    shape script1 = shape script2 ->
    ~ presents_tag reveal mark tbl1 R1 (stream_of (heard D script1)) ->
    ~ presents_tag reveal mark tbl2 R2 (stream_of (heard D script2)) ->
    let tr1 := run (cwrap reveal mark hs_ok tbl1 R1) cap1 D tracked1 ts1 script1 in
    let tr2 := run (cwrap reveal mark hs_ok tbl2 R2) cap2 D tracked2 ts2 script2 in
    non_reads tr1 = non_reads tr2 /\
    (forall tau, (tau < D)%N -> read_by tr1 tau = read_by tr2 tau).
Proof. exact identical_reaction. Qed.
Print Assumptions C03_identical_reaction.

(* The path on which the handler stops reading (time.Sleep until the deadline) needs a decisive
   answer of some transport, and without a valid tag no transport ever gives one, on any prefix of
   the stream. *)
Theorem C03_no_tag_no_decisive_answer :
  forall (reveal : bytes -> list bytes) (mark : reginfo -> bytes -> bytes) (hs_ok : reginfo -> bytes -> bool)
         tbl R s ts,
    prefix_table_wfb tbl = true ->
    ~ presents_tag reveal mark tbl R s ->
    forall k t, In t ts -> is_decisive (cwrap reveal mark hs_ok tbl R t (firstn k s)) = false.
Proof. exact no_tag_quiet. Qed.
Print Assumptions C03_no_tag_no_decisive_answer.

(* the boolean used by the correspondence run to decide "presents no valid tag" is sound *)
Theorem C03_presents_tagb_sound :
  forall reveal mark tbl R s, presents_tagb reveal mark tbl R s = false -> ~ presents_tag reveal mark tbl R s.
Proof. exact presents_tagb_sound. Qed.
Print Assumptions C03_presents_tagb_sound.

(* The boundary of the two theorems above: they are about a peer that keeps its side open.  When the
   PEER itself ends the connection before the deadline - a FIN (Read returns io.EOF) or a reset,
   at instant tf after its last chunk - the station does not hold the connection until D: every
   Read-error branch of the loop and the drain (io.Copy) return, so the handler returns (its caller
   closes) at tf.  Still: nothing is written, everything the peer sent has been read, the return is
   never BEFORE the peer's own close, and the reaction does not depend on content or registry
   (C03_peer_close_identical).  The property's "does not close before its deadline" is therefore
   established for connections the peer keeps open (content, length and pacing of the data being
   arbitrary), and "closes when the peer closes" is what the code does otherwise. *)
Theorem C03_peer_close_answered_at_once :
  forall (reveal : bytes -> list bytes) (mark : reginfo -> bytes -> bytes) (hs_ok : reginfo -> bytes -> bool)
         (tbl : list pfx) (R : registry) (tracked : nat) (ts : list tid) (drain_cap : nat) (D : N)
         (script : list (N * bytes)) (tf : N) (e : rerr),
    prefix_table_wfb tbl = true ->
    paced_until 0%N script tf -> (tf < D)%N ->
    ~ presents_tag reveal mark tbl R (stream_of script) ->
    let tr := run_end (cwrap reveal mark hs_ok tbl R) drain_cap D tracked ts script tf e in
    only_reads_until_peer_close D tf e tr /\
    (forall tau, read_by tr tau = arrived_by script tau).
Proof. exact peer_close_answered_at_once. Qed.
Print Assumptions C03_peer_close_answered_at_once.

Theorem C03_peer_close_identical :
  forall (reveal : bytes -> list bytes) (mark : reginfo -> bytes -> bytes) (hs_ok : reginfo -> bytes -> bool)
         tbl1 tbl2 R1 R2 tracked1 tracked2 ts1 ts2 cap1 cap2 D script1 script2 tf e,
    prefix_table_wfb tbl1 = true -> prefix_table_wfb tbl2 = true ->
    paced_until 0%N script1 tf -> paced_until 0%N script2 tf -> (tf < D)%N ->
    shape script1 = shape script2 ->
    ~ presents_tag reveal mark tbl1 R1 (stream_of script1) ->
    ~ presents_tag reveal mark tbl2 R2 (stream_of script2) ->
    let tr1 := run_end (cwrap reveal mark hs_ok tbl1 R1) cap1 D tracked1 ts1 script1 tf e in
    let tr2 := run_end (cwrap reveal mark hs_ok tbl2 R2) cap2 D tracked2 ts2 script2 tf e in
    non_reads tr1 = non_reads tr2 /\ (forall tau, read_by tr1 tau = read_by tr2 tau).
Proof. exact peer_close_identical. Qed.
Print Assumptions C03_peer_close_identical.
