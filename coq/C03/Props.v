(* C03 property theorems: statements + `exact lemma` only. *)
From CJ Require Import Common.Base C04.Model C03.Model C03.Proofs C03.StatsModel C03.StatsProofs C03.ConnModel C03.ConnProofs C03.FootProofs C03.ReloadModel C03.ReloadProofs.
Local Open Scope nat_scope.

(* A connection whose bytes (those that arrive before the deadline D) present no valid tag to the
   phantom's registry: for every registry (empty, one, many; any number of tracked-but-invalid
   registrations), every set of enabled transports, every content, length, segmentation and pacing
   of the peer's data, every deadline D and every order in which Go visits its maps, the handler's
   trace is: set the deadline, successful Reads only, a Read that times out at D, return at D.
   Hence nothing is written to the peer, the relay is never entered, the handler neither sleeps
   nor returns (= closes) before D; and at every instant before D it has read everything that had
   arrived by then.  Cryptography is universally quantified. *)
Theorem C03_no_tag_no_reaction :
  forall (reveal : bytes -> list bytes) (mark : reginfo -> bytes -> bytes) (hs_ok : reginfo -> bytes -> bool)
         (tbl : list pfx) (R : registry) (tracked : nat) (ts : list tid) (drain_cap : nat) (D : N)
         (script : list (N * bytes)),
    prefix_table_wfb tbl = true ->
    paced 0%N script ->
    ~ presents_tag reveal mark tbl R (stream_of (heard D script)) ->
    let tr := run (cwrap reveal mark hs_ok tbl R) drain_cap D tracked ts script in
    only_reads_until D tr /\
    (forall tau, (tau < D)%N -> read_by tr tau = arrived_by script tau).
Proof. exact no_tag_no_reaction. Qed.
Print Assumptions C03_no_tag_no_reaction.

(* Two such connections whose chunks arrive at the same instants with the same sizes - whatever
   their contents (random bytes, a static prefix followed by garbage, a genuine flight with one bit
   flipped, ...), and whatever the two registries - are indistinguishable to the peer: the same
   non-read actions (deadline, time-out and return at D) and, at every instant, the same number of
   bytes taken off the connection.  Individual Read sizes may differ (4096-byte reads in the loop,
   larger ones while draining); that is all. *)
Theorem C03_identical_reaction :
  forall (reveal : bytes -> list bytes) (mark : reginfo -> bytes -> bytes) (hs_ok : reginfo -> bytes -> bool)
         tbl1 tbl2 R1 R2 tracked1 tracked2 ts1 ts2 cap1 cap2 D script1 script2,
    prefix_table_wfb tbl1 = true -> prefix_table_wfb tbl2 = true ->
    paced 0%N script1 -> paced 0%N script2 ->
    shape script1 = shape script2 ->
    ~ presents_tag reveal mark tbl1 R1 (stream_of (heard D script1)) ->
    ~ presents_tag reveal mark tbl2 R2 (stream_of (heard D script2)) ->
    let tr1 := run (cwrap reveal mark hs_ok tbl1 R1) cap1 D tracked1 ts1 script1 in
    let tr2 := run (cwrap reveal mark hs_ok tbl2 R2) cap2 D tracked2 ts2 script2 in
    non_reads tr1 = non_reads tr2 /\
    (forall tau, (tau < D)%N -> read_by tr1 tau = read_by tr2 tau).
Proof. exact identical_reaction. Qed.
Print Assumptions C03_identical_reaction.

(* The path on which the handler stops reading (time.Sleep until the deadline) needs a decisive
   answer of some transport, and without a valid tag no transport ever gives one, on any prefix of
   the stream. *)
Theorem C03_no_tag_no_decisive_answer :
  forall (reveal : bytes -> list bytes) (mark : reginfo -> bytes -> bytes) (hs_ok : reginfo -> bytes -> bool)
         tbl R s ts,
    prefix_table_wfb tbl = true ->
    ~ presents_tag reveal mark tbl R s ->
    forall k t, In t ts -> is_decisive (cwrap reveal mark hs_ok tbl R t (firstn k s)) = false.
Proof. exact no_tag_quiet. Qed.
Print Assumptions C03_no_tag_no_decisive_answer.

(* the boolean used by the correspondence run to decide "presents no valid tag" is sound *)
Theorem C03_presents_tagb_sound :
  forall reveal mark tbl R s, presents_tagb reveal mark tbl R s = false -> ~ presents_tag reveal mark tbl R s.
Proof. exact presents_tagb_sound. Qed.
Print Assumptions C03_presents_tagb_sound.

(* The boundary of the two theorems above: they are about a peer that keeps its side open.  When the
   PEER itself ends the connection before the deadline - a FIN (Read returns io.EOF) or a reset,
   at instant tf after its last chunk - the station does not hold the connection until D: every
   Read-error branch of the loop and the drain (io.Copy) return, so the handler returns (its caller
   closes) at tf.  Still: nothing is written, everything the peer sent has been read, the return is
   never BEFORE the peer's own close, and the reaction does not depend on content or registry
   (C03_peer_close_identical).  The property's "does not close before its deadline" is therefore
   established for connections the peer keeps open (content, length and pacing of the data being
   arbitrary), and "closes when the peer closes" is what the code does otherwise. *)
Theorem C03_peer_close_answered_at_once :
  forall (reveal : bytes -> list bytes) (mark : reginfo -> bytes -> bytes) (hs_ok : reginfo -> bytes -> bool)
         (tbl : list pfx) (R : registry) (tracked : nat) (ts : list tid) (drain_cap : nat) (D : N)
         (script : list (N * bytes)) (tf : N) (e : rerr),
    prefix_table_wfb tbl = true ->
    paced_until 0%N script tf -> (tf < D)%N ->
    ~ presents_tag reveal mark tbl R (stream_of script) ->
    let tr := run_end (cwrap reveal mark hs_ok tbl R) drain_cap D tracked ts script tf e in
    only_reads_until_peer_close D tf e tr /\
    (forall tau, read_by tr tau = arrived_by script tau).
Proof. exact peer_close_answered_at_once. Qed.
Print Assumptions C03_peer_close_answered_at_once.

Theorem C03_peer_close_identical :
  forall (reveal : bytes -> list bytes) (mark : reginfo -> bytes -> bytes) (hs_ok : reginfo -> bytes -> bool)
         tbl1 tbl2 R1 R2 tracked1 tracked2 ts1 ts2 cap1 cap2 D script1 script2 tf e,
    prefix_table_wfb tbl1 = true -> prefix_table_wfb tbl2 = true ->
    paced_until 0%N script1 tf -> paced_until 0%N script2 tf -> (tf < D)%N ->
    shape script1 = shape script2 ->
    ~ presents_tag reveal mark tbl1 R1 (stream_of script1) ->
    ~ presents_tag reveal mark tbl2 R2 (stream_of script2) ->
    let tr1 := run_end (cwrap reveal mark hs_ok tbl1 R1) cap1 D tracked1 ts1 script1 tf e in
    let tr2 := run_end (cwrap reveal mark hs_ok tbl2 R2) cap2 D tracked2 ts2 script2 tf e in
    non_reads tr1 = non_reads tr2 /\ (forall tau, read_by tr1 tau = read_by tr2 tau).
Proof. exact peer_close_identical. Qed.
Print Assumptions C03_peer_close_identical.

(* ================================================================== fourth wave *)

(* ---- the peer / phantom ADDRESS dimension.  The whole handler (getRemoteAsIP, the GeoIP lookups,
   then the classification) for every accepted socket whose peer address denotes an IP address - a
   4-byte IPv4 address, an IPv4 address in its 16-byte ::ffff: form, a genuine IPv6 address; held in a
   TCP or UDP address object or parsed from another address's string - and every phantom (IPv4 or
   IPv6): the headline statement holds unchanged.  The GeoIP database is a parameter about which
   nothing is assumed: its lookups may answer anything or fail. *)
Theorem C03_every_ip_peer_no_reaction :
  forall (reveal : bytes -> list bytes) (mark : reginfo -> bytes -> bytes) (hs_ok : reginfo -> bytes -> bool)
         (geo_cc : bytes -> option bytes) (geo_asn : bytes -> option N)
         (tbl : list pfx) (R : registry) (tracked : nat) (ts : list tid) (drain_cap : nat) (D : N)
         (script : list (N * bytes)) (peer : raddr) (ip phantom : bytes),
    remote_ip peer = Some ip ->
    prefix_table_wfb tbl = true ->
    paced 0%N script ->
    ~ presents_tag reveal mark tbl R (stream_of (heard D script)) ->
    let tr := handle geo_cc geo_asn (cwrap reveal mark hs_ok tbl R) drain_cap peer phantom D tracked ts script None in
    only_reads_until D tr /\
    (forall tau, (tau < D)%N -> read_by tr tau = arrived_by script tau).
Proof. exact every_ip_peer_no_reaction. Qed.
Print Assumptions C03_every_ip_peer_no_reaction.

Theorem C03_every_ip_peer_close_answered_at_once :
  forall (reveal : bytes -> list bytes) (mark : reginfo -> bytes -> bytes) (hs_ok : reginfo -> bytes -> bool)
         (geo_cc : bytes -> option bytes) (geo_asn : bytes -> option N)
         (tbl : list pfx) (R : registry) (tracked : nat) (ts : list tid) (drain_cap : nat) (D : N)
         (script : list (N * bytes)) (tf : N) (e : rerr) (peer : raddr) (ip phantom : bytes),
    remote_ip peer = Some ip ->
    prefix_table_wfb tbl = true ->
    paced_until 0%N script tf -> (tf < D)%N ->
    ~ presents_tag reveal mark tbl R (stream_of script) ->
    let tr := handle geo_cc geo_asn (cwrap reveal mark hs_ok tbl R) drain_cap peer phantom D tracked ts script (Some (tf, e)) in
    only_reads_until_peer_close D tf e tr /\
    (forall tau, read_by tr tau = arrived_by script tau).
Proof. exact every_ip_peer_close_answered_at_once. Qed.
Print Assumptions C03_every_ip_peer_close_answered_at_once.

(* two connections that differ only in their addresses - and in what the GeoIP database says about
   them, lookup failures included - are handled identically, for every WrapConnection behaviour,
   tagged or not *)
Theorem C03_peer_address_irrelevant :
  forall (geo_cc : bytes -> option bytes) (geo_asn : bytes -> option N)
         (wrap : tid -> bytes -> wres) drain_cap D tracked ts script fin peer1 peer2 ip1 ip2 phantom1 phantom2
         (geo_cc' : bytes -> option bytes) (geo_asn' : bytes -> option N),
    remote_ip peer1 = Some ip1 -> remote_ip peer2 = Some ip2 ->
    handle geo_cc geo_asn wrap drain_cap peer1 phantom1 D tracked ts script fin =
    handle geo_cc' geo_asn' wrap drain_cap peer2 phantom2 D tracked ts script fin.
Proof. exact peer_address_irrelevant. Qed.
Print Assumptions C03_peer_address_irrelevant.

(* every form in which Go holds an IP address is accepted by getRemoteAsIP *)
(* ... whatever Zone the TCP / UDP address object carries (a scoped link-local peer, fe80::1%eth0) *)
Theorem C03_ip_addresses_accepted :
  forall ip zone, is_ip ip ->
    remote_ip (RTcp ip zone) = Some ip /\ remote_ip (RUdp ip zone) = Some ip /\ remote_ip (ROther (Some ip)) = Some ip.
Proof. exact ip_addresses_accepted. Qed.
Print Assumptions C03_ip_addresses_accepted.

(* the zone of the address object is irrelevant to the whole handler: same trace for the zoned and the
   unzoned address, TCP or UDP, for every wrap (with C03_peer_address_irrelevant: for any two IP peers) *)
Theorem C03_zone_irrelevant :
  forall (geo_cc : bytes -> option bytes) (geo_asn : bytes -> option N) (wrap : tid -> bytes -> wres)
         drain_cap D tracked ts script fin ip z1 z2 phantom,
    handle geo_cc geo_asn wrap drain_cap (RTcp ip z1) phantom D tracked ts script fin =
    handle geo_cc geo_asn wrap drain_cap (RTcp ip z2) phantom D tracked ts script fin /\
    handle geo_cc geo_asn wrap drain_cap (RUdp ip z1) phantom D tracked ts script fin =
    handle geo_cc geo_asn wrap drain_cap (RTcp ip z2) phantom D tracked ts script fin.
Proof. intros. split; reflexivity. Qed.
Print Assumptions C03_zone_irrelevant.

(* refuted: taking the IP from the PRINTED form of the address for every address type (seed C03g) agrees with
   getRemoteAsIP on every unzoned address and every other net.Addr, and rejects every zoned TCP / UDP peer *)
Theorem C03_printed_form_refuted :
  (forall ip, remote_ip_printed (RTcp ip []) = remote_ip (RTcp ip []) /\ remote_ip_printed (RUdp ip []) = remote_ip (RUdp ip [])) /\
  (forall p, remote_ip_printed (ROther p) = remote_ip (ROther p)) /\
  (forall ip zone, is_ip ip -> zone <> [] ->
     remote_ip_printed (RTcp ip zone) = None /\ remote_ip_printed (RUdp ip zone) = None /\
     remote_ip (RTcp ip zone) = Some ip /\ remote_ip (RUdp ip zone) = Some ip).
Proof. exact printed_form_refuted. Qed.
Print Assumptions C03_printed_form_refuted.

(* the boundary: the handler returns at once (its caller closes the connection) exactly when the
   peer address is not an IP address (a pipe in a unit test); no GeoIP answer or failure leads there *)
Theorem C03_immediate_return_iff :
  forall (geo_cc : bytes -> option bytes) (geo_asn : bytes -> option N) (wrap : tid -> bytes -> wres)
         drain_cap peer phantom D tracked ts script fin,
    handle geo_cc geo_asn wrap drain_cap peer phantom D tracked ts script fin = [AReturn 0%N] <->
    remote_ip peer = None.
Proof. exact immediate_return_iff. Qed.
Print Assumptions C03_immediate_return_iff.

(* ---- the handler's side effects on shared station state: the connStats bookkeeping.

   No history of update calls and statistics epochs - whatever its order, whether or not the
   connection it belongs to was ever counted, whether or not the per-ASN entry still exists - makes an
   update fail: with the code's shape (every update function creates a missing entry before it
   dereferences it) the state machine is total, from every state. *)
Theorem C03_stats_total :
  forall (h : list sop) (s : cstats), exists s', run_ops code_guards s h = Ok s'.
Proof. exact run_total. Qed.
Print Assumptions C03_stats_total.

(* ... in particular every interleaving of the events of any number of connections (what their
   Reads return, what the transports answer) with any number of epochs *)
Theorem C03_handler_histories_total :
  forall (es : list gev), exists s, run_ops code_guards init_stats (gevs_ops [] es) = Ok s.
Proof. exact handler_histories_total. Qed.
Print Assumptions C03_handler_histories_total.

(* the guard is exactly what this rests on: a shape of the code is safe for all histories iff every
   one of the 20 update functions has it; for a function without it, ONE connection that is accepted,
   reaches the state the function leaves, sees an epoch go by and then makes that step, kills the
   goroutine (and with it the process and every other open connection) *)
Theorem C03_stats_total_iff_guarded :
  forall (g : guards), (forall h, run_ops g init_stats h <> Panic) <-> (forall fn, g fn = true).
Proof. exact total_iff_guarded. Qed.
Print Assumptions C03_stats_total_iff_guarded.

Theorem C03_unguarded_update_crashes :
  forall (g : guards) (fn : option trans) (k : skey),
    g fn = false -> valid_cc (k_cc k) = true -> run_ops g init_stats (crash_hist fn k) = Panic.
Proof. exact unguarded_crashes. Qed.
Print Assumptions C03_unguarded_update_crashes.

(* conservation laws of one overall block (ipv4 / ipv6), for EVERY history from the initial state:
   the state counters sum to (connections counted) - (connections resolved) over the whole history -
   epochs do not touch them; total / new / resolved and every transition counter but
   numCreatedToClose count the steps since the last epoch; numCreatedToClose is never cleared and
   counts over the whole history; the outcome counters sum to numResolved *)
Theorem C03_stats_block_laws :
  forall (v : bool) (h : list sop) (s : cstats),
    run_ops code_guards init_stats h = Ok s -> block_inv v h (fam v s).
Proof. exact block_inv_run. Qed.
Print Assumptions C03_stats_block_laws.

(* every per-ASN entry (recreated empty after an epoch) has a valid country code and obeys:
   totalTransitions = sum of its transition counters, numResolved = sum of its outcome counters,
   sum of its state counters = numNewConns - numResolved (which is negative for an entry recreated
   by a connection that was counted before the epoch) *)
Theorem C03_stats_entry_laws :
  forall h s v a cc c,
    run_ops code_guards init_stats h = Ok s -> amap_find a (fam_map v s) = Some (cc, c) ->
    valid_cc cc = true /\ entry_ok c.
Proof. exact entries_ok. Qed.
Print Assumptions C03_stats_entry_laws.

(* epochs never change a state counter: a history and the same history without its epochs end with
   the same Created / Reading / Checking / IODiscarding counts *)
Theorem C03_stats_states_ignore_epochs :
  forall h r1 r2,
    run_ops code_guards init_stats h = Ok r1 -> run_ops code_guards init_stats (filter not_reset h) = Ok r2 ->
    same_states r1 r2.
Proof. exact states_ignore_epochs. Qed.
Print Assumptions C03_stats_states_ignore_epochs.

(* tie to the handler: for the updates that connections make (their projection hev_step), the state
   counters of a family sum to the number of that family's connections still being classified *)
Theorem C03_stats_count_connections_in_flight :
  forall v es s,
    fresh_opens [] es -> run_ops code_guards init_stats (gevs_ops [] es) = Ok s ->
    sum_state (fam v s) = in_flight v (gevs_tab [] es).
Proof. exact state_counters_count_connections. Qed.
Print Assumptions C03_stats_count_connections_in_flight.

(* ---- the statistics footprint of an untagged connection, derived from the handler model of coq/C04:
   if no transport ever gives a decisive answer on any prefix of the stream (which C03_no_tag_no_decisive_answer
   establishes for streams without a valid tag), then whatever chunks its Reads return and however they
   end (deadline, FIN, reset, another error), the connection is counted once (addCreated), every step
   before the end is a non-resolving transition, and it is resolved exactly once by the transition of
   that Read error - never as Found, never through the transports' error path (the sleep path); a
   deadline resolves it as Timeout, a reset as Reset. *)
Theorem C03_untagged_stats_footprint :
  forall (wrap : tid -> bytes -> wres) (ts : list tid) (s : bytes),
    quiet wrap ts s ->
    forall (key : skey) (tracked : nat) (reads : list bytes) (rest : bytes) (kind : rkind),
      concat reads ++ rest = s ->
      let es := feed_hevs wrap (init tracked ts) reads in
      exists mid tfin,
        conn_ops key (tracked <? 1) (match ts with [] => true | _ => false end) (es ++ [HReadErr kind]) =
        SAdd key :: map (fun t => STrans t key) (mid ++ [tfin]) /\
        Forall (fun t => resolves t = false) mid /\
        resolves tfin = true /\ tfin <> CheckToFound /\ tfin <> CheckToError /\
        (kind = KTimeout -> dst tfin = inr OTimeout) /\ (kind = KReset -> dst tfin = inr OReset).
Proof. exact untagged_footprint. Qed.
Print Assumptions C03_untagged_stats_footprint.

(* ---- the randomised deadline as a function of the random draw (ms := rand.Int63n(5000) + 5000):
   always in [5 s, 10 s), one-to-one, and onto every millisecond of that range *)
Theorem C03_deadline_draw :
  forall r1 r2 d,
    ((r1 < 5000)%N -> (5000 <= deadline_of_draw r1 < 10000)%N) /\
    (deadline_of_draw r1 = deadline_of_draw r2 -> r1 = r2) /\
    ((5000 <= d < 10000)%N -> exists r, (r < 5000)%N /\ deadline_of_draw r = d).
Proof. exact deadline_draw. Qed.
Print Assumptions C03_deadline_draw.

(* ------------------------------------------------------------------ fourth wave, second pass: the station's lifecycle *)

(* The handler's GeoIP collaborator is station state that configuration reloads replace.  INVARIANT and
   totality: from a station that holds a database (what start-up guarantees, C03_startup_collaborator),
   NO history of connection events, statistics epochs and reloads - with database files that are not
   configured, missing, corrupt or good, in any order - panics a handler, and the collaborator is not
   nil afterwards.  Extends C03_handler_histories_total to histories with reloads. *)
Theorem C03_histories_with_reloads_total :
  forall (es : list lev) (st : station), st_geo st <> None ->
    exists st', lrun false code_guards st es = Ok st' /\ st_geo st' <> None.
Proof. exact histories_with_reloads_total. Qed.
Print Assumptions C03_histories_with_reloads_total.

Theorem C03_startup_collaborator :
  forall conf d, at_startup conf = Some d -> d <> None.
Proof. exact at_startup_nonnil. Qed.
Print Assumptions C03_startup_collaborator.

(* what a reload does to the collaborator: a failing geoip.New (exactly: a configured path whose file is
   missing or corrupt) leaves it alone, every other reload installs what geoip.New returned - never nil *)
Theorem C03_reload_spec :
  forall cur conf,
    (snd (geo_new conf) = EOther <-> exists c, conf = Some c /\ (bad_file (c_asn c) || bad_file (c_cc c)) = true) /\
    (fst (geo_new conf) = None <-> snd (geo_new conf) = EOther) /\
    (snd (geo_new conf) = EOther -> on_reload false cur conf = cur) /\
    (snd (geo_new conf) <> EOther -> on_reload false cur conf = fst (geo_new conf)).
Proof.
  intros cur conf. split; [exact (geo_new_fails_iff conf)|]. split; [exact (geo_new_nil_iff conf)|]. exact (on_reload_spec cur conf).
Qed.
Print Assumptions C03_reload_spec.

(* the lifecycle machine restricted to histories without reloads is the statistics machine of StatsModel.v *)
Theorem C03_lifecycle_extends_histories :
  forall es st, st_geo st <> None ->
    match lrun false code_guards st (map LEv es) with
    | Ok st' => run_ops code_guards (st_stats st) (gevs_ops (st_tab st) es) = Ok (st_stats st')
    | _ => False
    end.
Proof. exact lrun_no_reload. Qed.
Print Assumptions C03_lifecycle_extends_histories.

(* REFUTED: install-on-failure (OnReload without the `return` after a failed geoip.New, seed C03h): ONE reload
   with a configured database file that is missing or corrupt, then ANY accepted connection - from every
   station state, whatever the statistics guards - panics the handler; and a bad file is the only way there *)
Theorem C03_install_on_failure_refuted :
  (forall st (c : dbconf) cn k nr nt g,
     (bad_file (c_asn c) || bad_file (c_cc c)) = true ->
     lrun true g st [LReload (Some c); LEv (GOpen cn k nr nt)] = Panic) /\
  (forall cur conf, cur <> None -> on_reload true cur conf = None ->
     exists c, conf = Some c /\ (bad_file (c_asn c) || bad_file (c_cc c)) = true).
Proof. split; [exact install_on_failure_refuted|exact install_on_failure_needs_bad_file]. Qed.
Print Assumptions C03_install_on_failure_refuted.
