(* C03: vocabulary on top of the handler model of C04 (coq/C04/Model.v): what it means for a
   byte stream to present a valid tag to a phantom's registry, and what the peer can observe of
   the handler's action trace.  Definitions only. *)
From CJ Require Export Common.Base C04.Model.
Local Open Scope nat_scope.

Section Spec.
  Variable reveal : bytes -> list bytes.
  Variable mark : reginfo -> bytes -> bytes.

  (* The stream proves knowledge of a registration on this phantom to one of the transports:
     min     its first 32 bytes are a registered identifier;
     prefix  the stream starts with the static bytes of some table row and the 64-byte window at
             that row's offset is revealed (under a station key) to a registered identifier -
             whatever that registration's transport type or prefix id;
     obfs4   the mark of a registered obfs4 identifier sits at the tail of some prefix of the stream. *)
  Definition presents_tag (tbl : list pfx) (R : registry) (s : bytes) : Prop :=
    (min_tag_len <= length s /\ lookup (firstn min_tag_len s) R <> None) \/
    (exists p, In p tbl /\ p_off p + tag_len <= length s /\ static_matches p s = true /\
               first_reg (reveal (window p s)) R <> None) \/
    (exists k, k <= length s /\ obfs4_hit mark R (firstn 32 s) (firstn k s) <> None).

  Definition is_some {A} (o : option A) : bool := match o with Some _ => true | None => false end.

  Definition presents_tagb (tbl : list pfx) (R : registry) (s : bytes) : bool :=
    ((min_tag_len <=? length s) && is_some (lookup (firstn min_tag_len s) R)) ||
    existsb (fun p => (p_off p + tag_len <=? length s) && static_matches p s &&
                      is_some (first_reg (reveal (window p s)) R)) tbl ||
    (if existsb obfs4_candidate R
     then existsb (fun k => is_some (obfs4_hit mark R (firstn 32 s) (firstn k s))) (seq 0 (S (length s)))
     else false).
End Spec.

(* no transport gives a decisive answer on any prefix of s *)
Definition quiet (wrap : tid -> bytes -> wres) (ts : list tid) (s : bytes) : Prop :=
  forall k t, In t ts -> is_decisive (wrap t (firstn k s)) = false.

(* the part of a peer script the handler can hear: everything before the first chunk that arrives
   at or after the deadline *)
Fixpoint heard (D : N) (script : list (N * bytes)) : list (N * bytes) :=
  match script with
  | [] => []
  | x :: rest => if (D <=? fst x)%N then [] else x :: heard D rest
  end.

(* arrival instants never decrease *)
Fixpoint paced (now : N) (script : list (N * bytes)) : Prop :=
  match script with
  | [] => True
  | x :: rest => (now <= fst x)%N /\ paced (fst x) rest
  end.

(* ... and the peer's own close comes after its last chunk *)
Fixpoint paced_until (now : N) (script : list (N * bytes)) (tf : N) : Prop :=
  match script with
  | [] => (now <= tf)%N
  | x :: rest => (now <= fst x)%N /\ paced_until (fst x) rest tf
  end.

(* instants and sizes of the chunks, without their content *)
Definition shape (script : list (N * bytes)) : list (N * nat) := map (fun x => (fst x, length (snd x))) script.

(* the trace of a connection on which the station only ever reads: the deadline is set, every
   further action before the deadline is a successful Read, then a Read times out at D and the
   handler returns at D.  No byte is written, nothing is marked, the relay is not entered, the
   handler does not sleep and does not return early. *)
Definition only_reads_until (D : N) (tr : list action) : Prop :=
  exists reads, tr = ASetDeadline D :: reads ++ [ATimeout D; AReturn D] /\
                Forall (fun a => exists t n, a = ARead t n /\ (t < D)%N) reads.

(* the trace of a connection that the PEER ends at instant tf (FIN or RST), before the deadline: the
   station only reads, the Read after the peer's last byte reports the peer's close, and the handler
   returns at that instant - not before, and without having written anything. *)
Definition only_reads_until_peer_close (D tf : N) (e : rerr) (tr : list action) : Prop :=
  exists reads, tr = ASetDeadline D :: reads ++ [AReadErr tf e; AReturn tf] /\
                Forall (fun a => exists t n, a = ARead t n /\ (t <= tf)%N) reads.

Definition non_reads (tr : list action) : list action := filter (fun a => negb (is_read a)) tr.
