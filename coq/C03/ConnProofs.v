(* C03 (fourth wave): the handler's behaviour does not depend on the peer's or the phantom's
   address family. *)
From CJ Require Import Common.Base C04.Model C03.Model C03.StatsModel C03.ConnModel C03.Proofs.
From Coq Require Import Lia.
Local Open Scope nat_scope.

Lemma nonnil_ip ip : is_ip ip -> nonnil ip = Some ip.
Proof. intros [H|H]; destruct ip; cbn in H; try discriminate; reflexivity. Qed.

Lemma remote_ip_tcp ip : is_ip ip -> remote_ip (RTcp ip) = Some ip.
Proof. apply nonnil_ip. Qed.
Lemma remote_ip_udp ip : is_ip ip -> remote_ip (RUdp ip) = Some ip.
Proof. apply nonnil_ip. Qed.
Lemma remote_ip_other ip : is_ip ip -> remote_ip (ROther (Some ip)) = Some ip.
Proof. apply nonnil_ip. Qed.

Lemma ip_addresses_accepted ip : is_ip ip ->
  remote_ip (RTcp ip) = Some ip /\ remote_ip (RUdp ip) = Some ip /\ remote_ip (ROther (Some ip)) = Some ip.
Proof. intros H. split; [exact (remote_ip_tcp ip H)|split; [exact (remote_ip_udp ip H)|exact (remote_ip_other ip H)]]. Qed.

Section Entry.
  Variable geo_cc : bytes -> option bytes.
  Variable geo_asn : bytes -> option N.
  (* the GeoIP database answers every lookup of an IP address (no lookup error) *)
  Definition geo_total : Prop :=
    forall ip, is_ip ip -> geo_cc ip <> None /\ geo_asn ip <> None.

  Lemma geo_lookup_total ip : geo_total -> is_ip ip -> exists cc asn, geo_lookup geo_cc geo_asn ip = Some (cc, asn).
  Proof.
    intros G I. destruct (G ip I) as [H1 H2]. unfold geo_lookup.
    destruct (geo_cc ip) as [cc|]; [|contradiction].
    destruct (bytes_eqb cc cc_unk); [eauto|].
    destruct (geo_asn ip) as [a|]; [eauto|contradiction].
  Qed.

  (* an accepted socket whose peer address is an IP address - whatever its family and form - enters
     the classification *)
  Lemma ip_peer_accepted peer ip phantom :
    geo_total -> remote_ip peer = Some ip -> is_ip ip ->
    exists k, conn_entry geo_cc geo_asn peer phantom = EAccept k /\ k_v4 k = is_v4 phantom.
  Proof.
    intros G R I. unfold conn_entry. rewrite R.
    destruct (geo_lookup_total ip G I) as [cc [asn E]]. rewrite E. eexists. split; reflexivity.
  Qed.

  Variable wrap : tid -> bytes -> wres.
  Variable drain_cap : nat.

  Lemma handle_accepted peer ip phantom D tracked ts script fin :
    geo_total -> remote_ip peer = Some ip -> is_ip ip ->
    handle geo_cc geo_asn wrap drain_cap peer phantom D tracked ts script fin =
    match fin with
    | None => run wrap drain_cap D tracked ts script
    | Some (tf, e) => run_end wrap drain_cap D tracked ts script tf e
    end.
  Proof.
    intros G R I. unfold handle. destruct (ip_peer_accepted peer ip phantom G R I) as [k [E _]]. rewrite E. reflexivity.
  Qed.

  (* the only way to an immediate return (= immediate close by the caller) is a peer address that is
     not an IP address, or a failing GeoIP lookup *)
  Lemma handle_reject_iff peer phantom D tracked ts script fin :
    handle geo_cc geo_asn wrap drain_cap peer phantom D tracked ts script fin = [AReturn 0%N] <->
    conn_entry geo_cc geo_asn peer phantom = EReject.
  Proof.
    unfold handle. destruct (conn_entry geo_cc geo_asn peer phantom); split; intros H; try reflexivity; try discriminate.
    destruct fin as [[tf e]|]; unfold run, run_end in H; discriminate.
  Qed.

  Lemma reject_causes peer phantom :
    conn_entry geo_cc geo_asn peer phantom = EReject <->
    remote_ip peer = None \/ exists ip, remote_ip peer = Some ip /\ geo_lookup geo_cc geo_asn ip = None.
  Proof.
    unfold conn_entry. destruct (remote_ip peer) as [ip|].
    - destruct (geo_lookup geo_cc geo_asn ip) as [[cc asn]|] eqn:E; split; intros H; try discriminate; try reflexivity.
      + destruct H as [H|[ip' [H1 H2]]]; [discriminate|]. inversion H1; subst. rewrite E in H2. discriminate.
      + right. eauto.
    - split; intros _; [now left|reflexivity].
  Qed.
  Lemma immediate_return_iff peer phantom D tracked ts script fin :
    handle geo_cc geo_asn wrap drain_cap peer phantom D tracked ts script fin = [AReturn 0%N] <->
    (remote_ip peer = None \/ exists ip, remote_ip peer = Some ip /\ geo_lookup geo_cc geo_asn ip = None).
  Proof. rewrite handle_reject_iff. apply reject_causes. Qed.
End Entry.

Section Final.
  Variable reveal : bytes -> list bytes.
  Variable mark : reginfo -> bytes -> bytes.
  Variable hs_ok : reginfo -> bytes -> bool.
  Variable geo_cc : bytes -> option bytes.
  Variable geo_asn : bytes -> option N.

  (* C03's headline statement for the whole handler, addresses included *)
  Theorem every_ip_peer_no_reaction :
    forall (tbl : list pfx) (R : registry) (tracked : nat) (ts : list tid) (drain_cap : nat) (D : N)
           (script : list (N * bytes)) (peer : raddr) (ip phantom : bytes),
      geo_total geo_cc geo_asn -> remote_ip peer = Some ip -> is_ip ip ->
      prefix_table_wfb tbl = true ->
      paced 0%N script ->
      ~ presents_tag reveal mark tbl R (stream_of (heard D script)) ->
      let tr := handle geo_cc geo_asn (cwrap reveal mark hs_ok tbl R) drain_cap peer phantom D tracked ts script None in
      only_reads_until D tr /\
      (forall tau, (tau < D)%N -> read_by tr tau = arrived_by script tau).
  Proof.
    intros tbl R tracked ts cap D script peer ip phantom G Rm I Hwf Hp Hn. cbv zeta.
    rewrite (handle_accepted geo_cc geo_asn _ cap peer ip phantom D tracked ts script None G Rm I).
    apply no_tag_no_reaction; assumption.
  Qed.

  (* two connections that differ only in their addresses (peer: IPv4 in either form, IPv6, TCP or
     UDP address object; phantom: IPv4 or IPv6) are handled identically *)
  Theorem peer_address_irrelevant :
    forall (wrap : tid -> bytes -> wres) drain_cap D tracked ts script fin peer1 peer2 ip1 ip2 phantom1 phantom2,
      geo_total geo_cc geo_asn ->
      remote_ip peer1 = Some ip1 -> is_ip ip1 -> remote_ip peer2 = Some ip2 -> is_ip ip2 ->
      handle geo_cc geo_asn wrap drain_cap peer1 phantom1 D tracked ts script fin =
      handle geo_cc geo_asn wrap drain_cap peer2 phantom2 D tracked ts script fin.
  Proof.
    intros. rewrite (handle_accepted _ _ _ _ peer1 ip1), (handle_accepted _ _ _ _ peer2 ip2); auto.
  Qed.

  Theorem every_ip_peer_close_answered_at_once :
    forall (tbl : list pfx) (R : registry) (tracked : nat) (ts : list tid) (drain_cap : nat) (D : N)
           (script : list (N * bytes)) (tf : N) (e : rerr) (peer : raddr) (ip phantom : bytes),
      geo_total geo_cc geo_asn -> remote_ip peer = Some ip -> is_ip ip ->
      prefix_table_wfb tbl = true ->
      paced_until 0%N script tf -> (tf < D)%N ->
      ~ presents_tag reveal mark tbl R (stream_of script) ->
      let tr := handle geo_cc geo_asn (cwrap reveal mark hs_ok tbl R) drain_cap peer phantom D tracked ts script (Some (tf, e)) in
      only_reads_until_peer_close D tf e tr /\
      (forall tau, read_by tr tau = arrived_by script tau).
  Proof.
    intros tbl R tracked ts cap D script tf e peer ip phantom G Rm I Hwf Hp Htf Hn. cbv zeta.
    rewrite (handle_accepted geo_cc geo_asn _ cap peer ip phantom D tracked ts script (Some (tf, e)) G Rm I).
    apply peer_close_answered_at_once; assumption.
  Qed.
End Final.
