(* C03 (fourth wave): the handler's behaviour does not depend on the peer's or the phantom's
   address family. *)
From CJ Require Import Common.Base C04.Model C03.Model C03.StatsModel C03.ConnModel C03.Proofs.
From Coq Require Import Lia.
Local Open Scope nat_scope.

Lemma nonnil_ip ip : is_ip ip -> nonnil ip = Some ip.
Proof. intros [H|H]; destruct ip; cbn in H; try discriminate; reflexivity. Qed.

Lemma remote_ip_tcp ip zone : is_ip ip -> remote_ip (RTcp ip zone) = Some ip.
Proof. apply nonnil_ip. Qed.
Lemma remote_ip_udp ip zone : is_ip ip -> remote_ip (RUdp ip zone) = Some ip.
Proof. apply nonnil_ip. Qed.
Lemma remote_ip_other ip : is_ip ip -> remote_ip (ROther (Some ip)) = Some ip.
Proof. apply nonnil_ip. Qed.

(* ... whatever the zone of the address object: a scoped (link-local) peer is an IP peer *)
Lemma ip_addresses_accepted ip zone : is_ip ip ->
  remote_ip (RTcp ip zone) = Some ip /\ remote_ip (RUdp ip zone) = Some ip /\ remote_ip (ROther (Some ip)) = Some ip.
Proof. intros H. split; [exact (remote_ip_tcp ip zone H)|split; [exact (remote_ip_udp ip zone H)|exact (remote_ip_other ip H)]]. Qed.

(* the zone is irrelevant to getRemoteAsIP *)
Lemma remote_ip_zone_irrelevant ip z1 z2 :
  remote_ip (RTcp ip z1) = remote_ip (RTcp ip z2) /\ remote_ip (RUdp ip z1) = remote_ip (RUdp ip z2) /\
  remote_ip (RTcp ip z1) = remote_ip (RUdp ip z2).
Proof. repeat split. Qed.

(* refutation of "parse the printed form" (C03g): it agrees with getRemoteAsIP on every unzoned address and on
   every other net.Addr, and rejects EVERY zoned TCP / UDP peer, which getRemoteAsIP accepts *)
Lemma printed_form_refuted :
  (forall ip, remote_ip_printed (RTcp ip []) = remote_ip (RTcp ip []) /\ remote_ip_printed (RUdp ip []) = remote_ip (RUdp ip [])) /\
  (forall p, remote_ip_printed (ROther p) = remote_ip (ROther p)) /\
  (forall ip zone, is_ip ip -> zone <> [] ->
     remote_ip_printed (RTcp ip zone) = None /\ remote_ip_printed (RUdp ip zone) = None /\
     remote_ip (RTcp ip zone) = Some ip /\ remote_ip (RUdp ip zone) = Some ip).
Proof.
  split; [intros ip; split; reflexivity|]. split; [intros p; reflexivity|].
  intros ip zone H Hz. destruct zone as [|z zs]; [contradiction|].
  repeat split; try reflexivity; apply nonnil_ip; exact H.
Qed.

Section Entry.
  Variable geo_cc : bytes -> option bytes.
  Variable geo_asn : bytes -> option N.

  (* an accepted socket whose peer address is an IP address - whatever its family and form, and
     whatever the GeoIP database answers or fails to answer - enters the classification *)
  Lemma ip_peer_accepted peer ip phantom :
    remote_ip peer = Some ip ->
    exists k, conn_entry geo_cc geo_asn peer phantom = EAccept k /\ k_v4 k = is_v4 phantom.
  Proof.
    intros R. unfold conn_entry. rewrite R. destruct (geo_lookup geo_cc geo_asn ip) as [cc asn].
    eexists. split; reflexivity.
  Qed.

  Variable wrap : tid -> bytes -> wres.
  Variable drain_cap : nat.

  Lemma handle_accepted peer ip phantom D tracked ts script fin :
    remote_ip peer = Some ip ->
    handle geo_cc geo_asn wrap drain_cap peer phantom D tracked ts script fin =
    match fin with
    | None => run wrap drain_cap D tracked ts script
    | Some (tf, e) => run_end wrap drain_cap D tracked ts script tf e
    end.
  Proof.
    intros R. unfold handle. destruct (ip_peer_accepted peer ip phantom R) as [k [E _]]. rewrite E. reflexivity.
  Qed.

  Lemma handle_reject_iff peer phantom D tracked ts script fin :
    handle geo_cc geo_asn wrap drain_cap peer phantom D tracked ts script fin = [AReturn 0%N] <->
    conn_entry geo_cc geo_asn peer phantom = EReject.
  Proof.
    unfold handle. destruct (conn_entry geo_cc geo_asn peer phantom); split; intros H; try reflexivity; try discriminate.
    destruct fin as [[tf e]|]; unfold run, run_end in H; discriminate.
  Qed.

  (* the only way to an immediate return (= immediate close by the caller) is a peer address that is
     not an IP address (a pipe in a unit test) *)
  Lemma immediate_return_iff peer phantom D tracked ts script fin :
    handle geo_cc geo_asn wrap drain_cap peer phantom D tracked ts script fin = [AReturn 0%N] <->
    remote_ip peer = None.
  Proof.
    rewrite handle_reject_iff. unfold conn_entry. destruct (remote_ip peer) as [ip|].
    - destruct (geo_lookup geo_cc geo_asn ip). split; discriminate.
    - split; reflexivity.
  Qed.
End Entry.

Section Final.
  Variable reveal : bytes -> list bytes.
  Variable mark : reginfo -> bytes -> bytes.
  Variable hs_ok : reginfo -> bytes -> bool.
  Variable geo_cc : bytes -> option bytes.
  Variable geo_asn : bytes -> option N.

  (* C03's headline statement for the whole handler, addresses and GeoIP included *)
  Theorem every_ip_peer_no_reaction :
    forall (tbl : list pfx) (R : registry) (tracked : nat) (ts : list tid) (drain_cap : nat) (D : N)
           (script : list (N * bytes)) (peer : raddr) (ip phantom : bytes),
      remote_ip peer = Some ip ->
      prefix_table_wfb tbl = true ->
      paced 0%N script ->
      ~ presents_tag reveal mark tbl R (stream_of (heard D script)) ->
      let tr := handle geo_cc geo_asn (cwrap reveal mark hs_ok tbl R) drain_cap peer phantom D tracked ts script None in
      only_reads_until D tr /\
      (forall tau, (tau < D)%N -> read_by tr tau = arrived_by script tau).
  Proof.
    intros tbl R tracked ts cap D script peer ip phantom Rm Hwf Hp Hn. cbv zeta.
    rewrite (handle_accepted geo_cc geo_asn _ cap peer ip phantom D tracked ts script None Rm).
    apply no_tag_no_reaction; assumption.
  Qed.

  Theorem peer_address_irrelevant :
    forall (wrap : tid -> bytes -> wres) drain_cap D tracked ts script fin peer1 peer2 ip1 ip2 phantom1 phantom2
           (geo_cc' : bytes -> option bytes) (geo_asn' : bytes -> option N),
      remote_ip peer1 = Some ip1 -> remote_ip peer2 = Some ip2 ->
      handle geo_cc geo_asn wrap drain_cap peer1 phantom1 D tracked ts script fin =
      handle geo_cc' geo_asn' wrap drain_cap peer2 phantom2 D tracked ts script fin.
  Proof.
    intros. rewrite (handle_accepted _ _ _ _ peer1 ip1), (handle_accepted _ _ _ _ peer2 ip2); auto.
  Qed.

  Theorem every_ip_peer_close_answered_at_once :
    forall (tbl : list pfx) (R : registry) (tracked : nat) (ts : list tid) (drain_cap : nat) (D : N)
           (script : list (N * bytes)) (tf : N) (e : rerr) (peer : raddr) (ip phantom : bytes),
      remote_ip peer = Some ip ->
      prefix_table_wfb tbl = true ->
      paced_until 0%N script tf -> (tf < D)%N ->
      ~ presents_tag reveal mark tbl R (stream_of script) ->
      let tr := handle geo_cc geo_asn (cwrap reveal mark hs_ok tbl R) drain_cap peer phantom D tracked ts script (Some (tf, e)) in
      only_reads_until_peer_close D tf e tr /\
      (forall tau, read_by tr tau = arrived_by script tau).
  Proof.
    intros tbl R tracked ts cap D script tf e peer ip phantom Rm Hwf Hp Htf Hn. cbv zeta.
    rewrite (handle_accepted geo_cc geo_asn _ cap peer ip phantom D tracked ts script (Some (tf, e)) Rm).
    apply peer_close_answered_at_once; assumption.
  Qed.
End Final.

(* the randomised deadline: every draw gives a deadline in [5 s, 10 s), distinct draws give distinct
   deadlines, and every millisecond value of that range is the deadline of some draw *)
Lemma deadline_draw_range r : (r < 5000)%N -> (5000 <= deadline_of_draw r < 10000)%N.
Proof. unfold deadline_of_draw. lia. Qed.
Lemma deadline_draw_inj r1 r2 : deadline_of_draw r1 = deadline_of_draw r2 -> r1 = r2.
Proof. unfold deadline_of_draw. lia. Qed.
Lemma deadline_draw_onto d : (5000 <= d < 10000)%N -> exists r, (r < 5000)%N /\ deadline_of_draw r = d.
Proof. intros H. exists (d - 5000)%N. unfold deadline_of_draw. lia. Qed.
Lemma deadline_draw r1 r2 d :
  ((r1 < 5000)%N -> (5000 <= deadline_of_draw r1 < 10000)%N) /\
  (deadline_of_draw r1 = deadline_of_draw r2 -> r1 = r2) /\
  ((5000 <= d < 10000)%N -> exists r, (r < 5000)%N /\ deadline_of_draw r = d).
Proof. split; [apply deadline_draw_range|split; [apply deadline_draw_inj|apply deadline_draw_onto]]. Qed.
