(* C03 (fourth wave, second pass): the GeoIP collaborator is never nil, over every history of
   connections, epochs and reloads. *)
From CJ Require Import Common.Base C03.StatsModel C03.ConnModel C03.StatsProofs C03.ReloadModel.
Local Open Scope nat_scope.

(* geoip.New returns a nil Database exactly together with an error that is not ErrMissingDB *)
Lemma geo_new_nil_iff conf : fst (geo_new conf) = None <-> snd (geo_new conf) = EOther.
Proof.
  destruct conf as [[a c]|]; cbn; [|split; discriminate].
  destruct a, c; cbn; split; intros H; try discriminate; try reflexivity.
Qed.

(* which configurations those are: a configured path (not "") whose file is missing or corrupt *)
Definition bad_file (f : dbfile) : bool := match f with FMissing | FCorrupt => true | _ => false end.
Lemma geo_new_fails_iff conf :
  snd (geo_new conf) = EOther <-> exists c, conf = Some c /\ (bad_file (c_asn c) || bad_file (c_cc c)) = true.
Proof.
  destruct conf as [[a c]|]; cbn.
  - destruct a, c; cbn; split; intros H; try discriminate; try reflexivity;
      try (eexists; split; [reflexivity|reflexivity]);
      try (destruct H as [x [E B]]; inversion E; subst; cbn in B; discriminate).
  - split; [discriminate|]. intros [x [E _]]. discriminate.
Qed.

Lemma on_reload_nonnil cur conf : cur <> None -> on_reload false cur conf <> None.
Proof.
  intros H. unfold on_reload. destruct (geo_new conf) as [d e] eqn:G.
  destruct e; try exact H; intros ->;
    (assert (X : snd (geo_new conf) = EOther) by (apply geo_new_nil_iff; rewrite G; reflexivity)); rewrite G in X; discriminate.
Qed.

(* a failed reload changes nothing; a successful one installs what geoip.New made *)
Lemma on_reload_spec cur conf :
  (snd (geo_new conf) = EOther -> on_reload false cur conf = cur) /\
  (snd (geo_new conf) <> EOther -> on_reload false cur conf = fst (geo_new conf)).
Proof.
  unfold on_reload. destruct (geo_new conf) as [d e]; cbn. destruct e; split; intros H; try reflexivity; try discriminate; contradiction.
Qed.

Lemma at_startup_nonnil conf d : at_startup conf = Some d -> d <> None.
Proof.
  unfold at_startup. destruct (geo_new conf) as [x e] eqn:G. destruct e; intros H; inversion H; subst; intros ->;
    (assert (X : snd (geo_new conf) = EOther) by (apply geo_new_nil_iff; rewrite G; reflexivity)); rewrite G in X; discriminate.
Qed.

Lemma lstep_total st e : st_geo st <> None ->
  exists st', lstep false code_guards st e = Ok st' /\ st_geo st' <> None.
Proof.
  intros H. destruct e as [ge|conf].
  - unfold lstep. destruct (st_geo st) as [d|] eqn:G; [|contradiction].
    assert (X : exists st', (let '(ops, tb') := gev_ops (st_tab st) ge in
                 match run_ops code_guards (st_stats st) ops with
                 | Ok s' => Ok {| st_geo := Some d; st_stats := s'; st_tab := tb' |}
                 | Err x => Err x | Panic => Panic end) = Ok st' /\ st_geo st' <> None).
    { destruct (gev_ops (st_tab st) ge) as [ops tb']. destruct (run_total ops (st_stats st)) as [s' E]. rewrite E.
      eexists. split; [reflexivity|]. cbn. discriminate. }
    destruct ge; exact X.
  - cbn. eexists. split; [reflexivity|]. cbn. apply on_reload_nonnil. exact H.
Qed.

(* INVARIANT + totality: from a station whose collaborator is not nil, no history of connection events,
   epochs and reloads (good, absent, missing or corrupt database files, in any order) panics, and the
   collaborator is not nil afterwards *)
Theorem histories_with_reloads_total : forall es st, st_geo st <> None ->
  exists st', lrun false code_guards st es = Ok st' /\ st_geo st' <> None.
Proof.
  induction es as [|e es IH]; intros st H; cbn.
  - eexists. split; [reflexivity|exact H].
  - destruct (lstep_total st e H) as [st1 [E H1]]. rewrite E. apply IH. exact H1.
Qed.

Corollary histories_with_reloads_total0 d es :
  exists st', lrun false code_guards (station0 d) es = Ok st' /\ st_geo st' <> None.
Proof. apply histories_with_reloads_total. cbn. discriminate. Qed.

(* histories without reloads are the histories of StatsModel: the lifecycle machine extends it *)
Lemma lrun_no_reload : forall es st, st_geo st <> None ->
  match lrun false code_guards st (map LEv es) with
  | Ok st' => run_ops code_guards (st_stats st) (gevs_ops (st_tab st) es) = Ok (st_stats st')
  | _ => False
  end.
Proof.
  induction es as [|ge es IH]; intros st H; cbn [map lrun].
  - cbn. reflexivity.
  - destruct (lstep_total st (LEv ge) H) as [st1 [E H1]]. rewrite E.
    specialize (IH st1 H1). destruct (lrun false code_guards st1 (map LEv es)) as [st'| |]; try contradiction.
    cbn [gevs_ops]. unfold lstep in E. destruct (st_geo st) as [d|] eqn:G; [|contradiction].
    assert (E' : (let '(ops, tb') := gev_ops (st_tab st) ge in
                 match run_ops code_guards (st_stats st) ops with
                 | Ok s' => Ok {| st_geo := Some d; st_stats := s'; st_tab := tb' |}
                 | Err x => Err x | Panic => Panic end) = Ok st1) by (destruct ge; exact E).
    clear E. destruct (gev_ops (st_tab st) ge) as [ops tb']. rewrite run_ops_app.
    destruct (run_ops code_guards (st_stats st) ops) as [s1| |]; try discriminate.
    inversion E'; subst; cbn in *. exact IH.
Qed.

(* REFUTED: install-on-failure (the `return` after the failed geoip.New dropped).  One reload with a
   configured database file that is missing or corrupt, then ANY accepted connection: panic - for every
   station state, every key, whatever was open *)
Theorem install_on_failure_refuted : forall st (c : dbconf) cn k nr nt g,
  (bad_file (c_asn c) || bad_file (c_cc c)) = true ->
  lrun true g st [LReload (Some c); LEv (GOpen cn k nr nt)] = Panic.
Proof.
  intros st c cn k nr nt g B. cbn [lrun lstep].
  assert (X : on_reload true (st_geo st) (Some c) = None).
  { unfold on_reload. destruct (geo_new (Some c)) as [d e] eqn:G.
    assert (F : snd (geo_new (Some c)) = EOther) by (apply geo_new_fails_iff; eexists; split; [reflexivity|exact B]).
    pose proof (proj2 (geo_new_nil_iff (Some c)) F) as N0. rewrite G in F, N0. cbn in F, N0. subst e d. reflexivity. }
  cbn [st_geo]. rewrite X. reflexivity.
Qed.

(* ... and that is the only way: with install-on-failure, reloads whose files are all absent or good
   never make the collaborator nil *)
Lemma install_on_failure_needs_bad_file cur conf :
  cur <> None -> on_reload true cur conf = None ->
  exists c, conf = Some c /\ (bad_file (c_asn c) || bad_file (c_cc c)) = true.
Proof.
  intros H E. apply geo_new_fails_iff. apply geo_new_nil_iff. unfold on_reload in E.
  destruct (geo_new conf) as [d e]; cbn. destruct e; exact E.
Qed.
