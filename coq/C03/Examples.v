(* C03 non-vacuity: concrete probes against the toy station of C04/Examples.v that meet the
   hypotheses of C03_no_tag_no_reaction / C03_identical_reaction, the resulting traces computed,
   and a probe WITH a valid tag (wrong prefix) for which the conclusion indeed fails. *)
From CJ Require Import Common.Base C04.Model C04.Examples C03.Model C03.Proofs C03.Props.
From Coq Require Import Lia.
Local Open Scope nat_scope.

(* "GET " followed by 70 bytes that are not a tag, in two chunks 100 ms and 900 ms after the start;
   a third chunk arrives after the deadline *)
Definition garbage (x : N) (n : nat) : bytes := repeat x n.
Definition probe1 : list (N * bytes) :=
  [(100%N, GET ++ garbage 17 40); (900%N, garbage 18 30); (7000%N, garbage 19 5)].
(* same instants and sizes, other content: a genuine prefix flight of r_pfx with one bit of the
   identifier part flipped *)
Definition flipped : bytes := GET ++ repeat 1%N 32 ++ (8%N :: repeat 9%N 31).
Definition probe2 : list (N * bytes) :=
  [(100%N, firstn 44 (flipped ++ garbage 0 6)); (900%N, skipn 44 (flipped ++ garbage 0 6)); (7000%N, garbage 3 5)].
Definition D0 : N := 6000.
Definition cap8k : nat := N.to_nat 8192%N.
Definition ten_k : nat := N.to_nat 10000%N.

Lemma probe1_paced : paced 0%N probe1. Proof. cbn. lia. Qed.
Lemma probe2_paced : paced 0%N probe2. Proof. cbn. lia. Qed.
Lemma same_shape : shape probe1 = shape probe2. Proof. vm_compute. reflexivity. Qed.

Lemma probe1_no_tag : ~ presents_tag reveal0 mark0 tbl0 R0 (stream_of (heard D0 probe1)).
Proof. apply presents_tagb_sound. vm_compute. reflexivity. Qed.
Lemma probe2_no_tag : ~ presents_tag reveal0 mark0 tbl0 R0 (stream_of (heard D0 probe2)).
Proof. apply presents_tagb_sound. vm_compute. reflexivity. Qed.
(* an empty registry: nothing can present a tag *)
Lemma probe1_no_tag_empty : ~ presents_tag reveal0 mark0 tbl0 [] (stream_of (heard D0 probe1)).
Proof. apply presents_tagb_sound. vm_compute. reflexivity. Qed.

Example probe1_reaction :
  let tr := run (cwrap reveal0 mark0 hs0 tbl0 R0) cap8k D0 3 ts0 probe1 in
  only_reads_until D0 tr /\ forall tau, (tau < D0)%N -> read_by tr tau = arrived_by probe1 tau.
Proof. apply C03_no_tag_no_reaction; [exact tbl0_wf|exact probe1_paced|exact probe1_no_tag]. Qed.

(* the same probe against a phantom without registrations (the handler drains from the start)
   and the bit-flipped flight against the populated one look the same to the peer *)
Example probes_look_alike :
  let tr1 := run (cwrap reveal0 mark0 hs0 tbl0 []) cap8k D0 0 ts0 probe1 in
  let tr2 := run (cwrap reveal0 mark0 hs0 tbl0 R0) cap8k D0 3 ts0 probe2 in
  non_reads tr1 = non_reads tr2 /\ forall tau, (tau < D0)%N -> read_by tr1 tau = read_by tr2 tau.
Proof.
  apply C03_identical_reaction;
    [exact tbl0_wf|exact tbl0_wf|exact probe1_paced|exact probe2_paced|exact same_shape|
     exact probe1_no_tag_empty|exact probe2_no_tag].
Qed.

(* the traces themselves *)
Example probe1_trace :
  run (cwrap reveal0 mark0 hs0 tbl0 R0) cap8k D0 3 ts0 probe1 =
  [ASetDeadline 6000; ARead 100 44; ARead 900 30; ATimeout 6000; AReturn 6000].
Proof. vm_compute. reflexivity. Qed.

Example probe2_trace :
  run (cwrap reveal0 mark0 hs0 tbl0 R0) cap8k D0 3 ts0 probe2 =
  [ASetDeadline 6000; ARead 100 44; ARead 900 30; ATimeout 6000; AReturn 6000].
Proof. vm_compute. reflexivity. Qed.

(* a 10000-byte burst is taken in 4096-byte reads by the loop and in 8192-byte reads while
   draining: same instants, same totals, different read sizes *)
Example burst_loop :
  run (cwrap reveal0 mark0 hs0 tbl0 R0) cap8k D0 3 ts0 [(50%N, garbage 17 ten_k)] =
  [ASetDeadline 6000; ARead 50 4096; ARead 50 4096; ARead 50 1808; ATimeout 6000; AReturn 6000].
Proof. vm_compute. reflexivity. Qed.
Example burst_drain :
  run (cwrap reveal0 mark0 hs0 tbl0 []) cap8k D0 0 ts0 [(50%N, garbage 17 ten_k)] =
  [ASetDeadline 6000; ARead 50 cap8k; ARead 50 1808; ATimeout 6000; AReturn 6000].
Proof. vm_compute. reflexivity. Qed.

(* the hypothesis matters: r_pfx's genuine tag sent under the row-0 (empty) prefix presents a valid
   tag; the handler then stops reading (sleeps until the deadline) - the conclusion of
   C03_no_tag_no_reaction fails, as it may *)
Definition wrong_prefix : list (N * bytes) := [(100%N, repeat 1%N 32 ++ r_ident r_pfx); (900%N, garbage 4 10)].
Example wrong_prefix_presents_tag : presents_tagb reveal0 mark0 tbl0 R0 (stream_of (heard D0 wrong_prefix)) = true.
Proof. vm_compute. reflexivity. Qed.
Example wrong_prefix_trace :
  run (cwrap reveal0 mark0 hs0 tbl0 R0) cap8k D0 3 ts0 wrong_prefix =
  [ASetDeadline 6000; ARead 100 64; ASleep 100 5900; AReturn 6000].
Proof. vm_compute. reflexivity. Qed.

(* the boundary: the same probe, but the peer sends a FIN 1.5 s after the start - the handler
   returns at that instant (and would do so whatever the probe contained) *)
Definition probe1_short : list (N * bytes) := [(100%N, GET ++ garbage 17 40); (900%N, garbage 18 30)].
Lemma probe1_short_no_tag : ~ presents_tag reveal0 mark0 tbl0 R0 (stream_of probe1_short).
Proof. apply presents_tagb_sound. vm_compute. reflexivity. Qed.
Example fin_reaction :
  let tr := run_end (cwrap reveal0 mark0 hs0 tbl0 R0) cap8k D0 3 ts0 probe1_short 1500 REof in
  only_reads_until_peer_close D0 1500 REof tr /\ forall tau, read_by tr tau = arrived_by probe1_short tau.
Proof. apply C03_peer_close_answered_at_once; [exact tbl0_wf|cbn; lia|reflexivity|exact probe1_short_no_tag]. Qed.
Example fin_trace :
  run_end (cwrap reveal0 mark0 hs0 tbl0 R0) cap8k D0 3 ts0 probe1_short 1500 REof =
  [ASetDeadline 6000; ARead 100 44; ARead 900 30; AReadErr 1500 REof; AReturn 1500].
Proof. vm_compute. reflexivity. Qed.
(* with a valid tag under the wrong prefix the handler is asleep and does not notice the FIN *)
Example fin_unnoticed_while_asleep :
  run_end (cwrap reveal0 mark0 hs0 tbl0 R0) cap8k D0 3 ts0 wrong_prefix 1500 REof =
  [ASetDeadline 6000; ARead 100 64; ASleep 100 5900; AReturn 6000].
Proof. vm_compute. reflexivity. Qed.
