(* C03 (fourth wave, second pass): the handler's GeoIP collaborator as the station holds it over its
   LIFECYCLE.  RegistrationManager.GeoIP is an interface value; handleNewTCPConn calls
   regManager.GetGeoIP().CC(ip) - a method call on a nil interface panics, the handler goroutines do
   not recover, the process dies and every unauthenticated connection that is open is closed at once.
   The field is written at start-up (NewRegistrationManager refuses to start on an error other than
   ErrMissingDB) and by OnReload (SIGHUP), with what geoip.New makes of the configured database files.
   Definitions only. *)
From CJ Require Export Common.Base C03.StatsModel C03.ConnModel.
Local Open Scope nat_scope.

(* one configured database path as geoip2.Open finds it *)
Inductive dbfile :=
| FAbsent            (* the path is "" *)
| FMissing           (* no such file: os.Open fails *)
| FCorrupt           (* the file is not a MaxMind database (garbage, truncated, unreadable) *)
| FGood (id : N).    (* a database; id names its content *)

Record dbconf := { c_asn : dbfile; c_cc : dbfile }.

(* geoip.Database values: the EmptyDatabase, or a maxMindDatabase with its two readers (None = nil reader) *)
Inductive database :=
| DEmpty
| DMax (asn cc : option N).

Inductive newerr := ENone | EMissingDB | EOther.

(* geoip2.Open on a path that is not "" *)
Definition open_db (f : dbfile) : option N := match f with FGood id => Some id | _ => None end.
Definition is_absent (f : dbfile) : bool := match f with FAbsent => true | _ => false end.

(* geoip.New: (the Database interface value - None = nil -, the error) *)
Definition geo_new (conf : option dbconf) : option database * newerr :=
  match conf with
  | None => (Some DEmpty, EMissingDB)
  | Some c =>
    if is_absent (c_asn c) && is_absent (c_cc c) then (Some DEmpty, EMissingDB)
    else
      (* maxMindDatabase.init: the ASN file first, then the country file; the first Open that fails ends it *)
      match (if is_absent (c_asn c) then Some None else option_map Some (open_db (c_asn c))) with
      | None => (None, EOther)
      | Some ra =>
        match (if is_absent (c_cc c) then Some None else option_map Some (open_db (c_cc c))) with
        | None => (None, EOther)
        | Some rc =>
          match ra, rc with
          | Some _, Some _ => (Some (DMax ra rc), ENone)
          | _, _ => (Some (DMax ra rc), EMissingDB)     (* one of the two is not configured: usable *)
          end
        end
      end
  end.

(* OnReload's GeoIP part.  install_on_failure = false is the code: an error other than ErrMissingDB
   returns BEFORE the store; true is the refuted shape (the `return` dropped: C03h) *)
Definition on_reload (install_on_failure : bool) (cur : option database) (conf : option dbconf) : option database :=
  let '(d, e) := geo_new conf in
  match e with
  | EOther => if install_on_failure then d else cur
  | _ => d
  end.

(* start-up: NewRegistrationManager returns nil (the station does not start) on such an error *)
Definition at_startup (conf : option dbconf) : option (option database) :=
  let '(d, e) := geo_new conf in match e with EOther => None | _ => Some d end.

(* the station's life: connection events / epochs (StatsModel.gev) and reloads *)
Inductive lev :=
| LEv (g : gev)
| LReload (conf : option dbconf).

Record station := { st_geo : option database; st_stats : cstats; st_tab : conn_tab }.

(* one step of the station.  A connection that is accepted (GOpen) calls CC / ASN on the collaborator
   the station holds at that moment: a nil interface is a panic in the handler goroutine *)
Definition lstep (iof : bool) (g : guards) (st : station) (e : lev) : result unit station :=
  match e with
  | LReload conf => Ok {| st_geo := on_reload iof (st_geo st) conf; st_stats := st_stats st; st_tab := st_tab st |}
  | LEv ge =>
    match ge, st_geo st with
    | GOpen _ _ _ _, None => Panic
    | _, _ =>
      let '(ops, tb') := gev_ops (st_tab st) ge in
      match run_ops g (st_stats st) ops with
      | Ok s' => Ok {| st_geo := st_geo st; st_stats := s'; st_tab := tb' |}
      | Err x => Err x
      | Panic => Panic
      end
    end
  end.

Fixpoint lrun (iof : bool) (g : guards) (st : station) (es : list lev) : result unit station :=
  match es with
  | [] => Ok st
  | e :: es' => match lstep iof g st e with
                | Ok st' => lrun iof g st' es'
                | Err x => Err x
                | Panic => Panic
                end
  end.

Definition station0 (d : database) : station := {| st_geo := Some d; st_stats := init_stats; st_tab := [] |}.

(* what the tie compares after every reload: which kind of value the field holds *)
Definition geo_kind (g : option database) : N :=
  match g with None => 0%N | Some DEmpty => 1%N | Some (DMax _ _) => 2%N end.
