(* C03 (fourth wave): the entry of handleNewTCPConn - what the handler does with the connection's
   ADDRESSES before it sets the deadline - composed with the handler model of coq/C04 and with the
   statistics machine of StatsModel.v.

   - getRemoteAsIP: the peer address as the socket reports it (a net.TCPAddr or net.UDPAddr pointer carrying a
     net.IP of 4 or 16 bytes, or another net.Addr whose String() may or may not parse to an IP);
     a nil IP makes the handler return at once (a pipe in a test);
   - the GeoIP lookups (CC, and ASN unless the country is "unk"): an external database, a Section
     variable about which nothing is assumed; a failing lookup leaves the country / ASN unknown (the
     pinned code returned at once on it - closing the connection before any deadline; fixed);
   - isIPv4 := originalDstIP.To4() != nil, the family of the PHANTOM, used only for the statistics;
   - everything after that does not look at the addresses: the handler model of coq/C04.
   Definitions only. *)
From CJ Require Export Common.Base C04.Model C03.Model C03.StatsModel.
Local Open Scope nat_scope.

(* net.Addr of the accepted socket *)
Inductive raddr :=
| RTcp (ip : bytes) (zone : bytes)  (* a net.TCPAddr with IP ip ([] = nil) and Zone zone: "" for every global address, the
                                       interface name / index ("eth0", "1") of a scoped one (a link-local fe80::/10 peer).  String() prints
                                       a zoned address as [fe80::1%eth0]:port - which net.ParseIP does NOT accept: reading the IP from
                                       the printed form instead of from the object loses exactly the zoned peers *)
| RUdp (ip : bytes) (zone : bytes)  (* a net.UDPAddr with IP ip and Zone zone *)
| ROther (parsed : option bytes).   (* any other net.Addr: net.ParseIP of (the host part of) its String() *)

Definition nonnil (ip : bytes) : option bytes := match ip with [] => None | _ => Some ip end.

Definition remote_ip (a : raddr) : option bytes :=
  match a with
  | RTcp ip _ | RUdp ip _ => nonnil ip     (* addr.IP: the zone is not looked at *)
  | ROther (Some ip) => nonnil ip
  | ROther None => None
  end.

(* the REFUTED variant (second pass, seed C03g): the IP is taken from the address's printed form for every
   address type; a non-empty zone makes the host part "ip%zone", which net.ParseIP rejects *)
Definition remote_ip_printed (a : raddr) : option bytes :=
  match a with
  | RTcp ip z | RUdp ip z => match z with [] => nonnil ip | _ => None end
  | ROther (Some ip) => nonnil ip
  | ROther None => None
  end.

(* an IP address as Go holds it: 4 bytes, or 16 bytes (IPv6, or IPv4 in its ::ffff:a.b.c.d form) *)
Definition is_ip (ip : bytes) : Prop := length ip = 4 \/ length ip = 16.

Definition v4in6_prefix : bytes := [0;0;0;0;0;0;0;0;0;0;255;255]%N.

(* net.IP.To4() != nil *)
Definition is_v4 (ip : bytes) : bool :=
  (length ip =? 4) || ((length ip =? 16) && bytes_eqb (firstn 12 ip) v4in6_prefix).

Definition cc_unk : bytes := [117; 110; 107]%N.   (* "unk" *)

Section Entry.
  Variable geo_cc : bytes -> option bytes.   (* GeoIP.CC(ip): None = the lookup returned an error *)
  Variable geo_asn : bytes -> option N.      (* GeoIP.ASN(ip) *)

  (* a failing lookup does not end the connection: the country is then unknown ("": no per-ASN
     statistics), the ASN 0 *)
  Definition geo_lookup (ip : bytes) : bytes * N :=
    let cc := match geo_cc ip with Some cc => cc | None => [] end in
    (cc, if bytes_eqb cc cc_unk then 0%N else match geo_asn ip with Some a => a | None => 0%N end).

  Inductive entry := EReject | EAccept (k : skey).

  Definition conn_entry (peer : raddr) (phantom : bytes) : entry :=
    match remote_ip peer with
    | None => EReject
    | Some ip => let '(cc, asn) := geo_lookup ip in
                 EAccept {| k_asn := asn; k_cc := cc; k_v4 := is_v4 phantom |}
    end.

  Variable wrap : tid -> bytes -> wres.
  Variable drain_cap : nat.

  (* the whole handler: addresses first, then the classification of coq/C04; fin = the peer's own
     close (instant, kind) if it ends the connection itself *)
  Definition handle (peer : raddr) (phantom : bytes) (D : N) (tracked : nat) (ts : list tid)
             (script : list (N * bytes)) (fin : option (N * rerr)) : list action :=
    match conn_entry peer phantom with
    | EReject => [AReturn 0%N]
    | EAccept _ =>
      match fin with
      | None => run wrap drain_cap D tracked ts script
      | Some (tf, e) => run_end wrap drain_cap D tracked ts script tf e
      end
    end.
End Entry.

(* `ms := rand.Int63n(5000) + 5000; timeout := ms * time.Millisecond`: the classification deadline in
   milliseconds as a function of the draw r (rand.Int63n(5000) returns 0 <= r < 5000) *)
Definition deadline_of_draw (r : N) : N := (r + 5000)%N.

(* ------------------------------------------------------------------ the statistics updates of the handler model *)

Section Projection.
  Variable wrap : tid -> bytes -> wres.

  Definition out_of_state (st : hstate) : iter_out :=
    match st with
    | HLoop _ _ => IMore
    | HDrain => IExhausted
    | HDecided ((_, WFound _ _) :: _) _ => IFound
    | HDecided _ _ => IError
    end.

  Definition pstate_of (st : hstate) (had : bool) : pstate :=
    match st with HLoop _ _ => PLoop had | HDrain => PDrain | HDecided _ _ => PDone end.

  (* the handler model on a list of read results (C04.feed), as events of the statistics projection *)
  Fixpoint feed_hevs (st : hstate) (reads : list bytes) : list hev :=
    match reads with
    | [] => []
    | c :: rs => match st with
                 | HDecided _ _ => []
                 | _ => HRead (N.of_nat (length c)) (out_of_state (on_read wrap st c)) :: feed_hevs (on_read wrap st c) rs
                 end
    end.
End Projection.
