(* C04 property theorems, part 2: composition with C05's relay model.  Statements + `exact lemma`. *)
From CJ Require Import Common.Base C04.Model C04.RelayModel C04.ProofsRelay.
From CJ Require C05.Model C05.Proofs.
Local Open Scope nat_scope.

(* relay_gets_rest.  Under the hypotheses of C04_segmentation_invariance, for every way the handler's
   Reads cut flight ++ data: the handler decides for (t, r) with buffer b and unread reads `rest`, and
   then, for the relay (coq/C05's halfPipe) started on the connection the transport returned:
   - Up.  Its Reads return first the buffered bytes that were not consumed (skipn |flight| b, in any
     chunking: the PrefixConn / io.MultiReader step), then the live connection's bytes (any chunking
     of what the handler had not read, the last Read carrying the end of the stream, with any error
     kind and possibly data).  With a fault-free sink (every Write accepted, every SetDeadline
     succeeding) the covert receives exactly `data`: nothing of the tag, nothing lost, nothing twice,
     in order - whatever the results and order of the two Close calls.
   - Down.  For every chunking of the covert's reply, the client receives exactly the reply. *)
Theorem C04_relay_gets_rest :
  forall (reveal : bytes -> list bytes) (mark : reginfo -> bytes -> bytes) (hs_ok : reginfo -> bytes -> bool)
         (tbl : list pfx) (R : registry) (tracked : nat) (ts : list tid) (t : tid) (r : reginfo)
         (fl data : bytes) (reads : list bytes),
    prefix_table_wfb tbl = true ->
    registered R r -> length R <= tracked -> In t ts ->
    client_flight reveal mark hs_ok tbl R t r fl data ->
    unambiguous reveal mark hs_ok tbl R ts t r fl (fl ++ data) ->
    concat reads = fl ++ data ->
    exists b rest cs,
      feed (cwrap reveal mark hs_ok tbl R) (init tracked ts) reads = (HDecided cs b, rest) /\
      cs <> [] /\ Forall (fun x => x = (t, WFound r (length fl))) cs /\
      (forall rchunks live last e cdst csrc cf,
          concat rchunks = skipn (length fl) b ->
          concat live ++ last = concat rest ->
          C05.Model.out_delivered
            (C05.Model.half_pipe_full (up_reads rchunks live last e) ok_writes ok_deadlines cdst csrc cf) = data) /\
      (forall chunks last e cdst csrc cf,
          C05.Model.out_delivered
            (C05.Model.half_pipe_full (down_reads chunks last e) ok_writes ok_deadlines cdst csrc cf)
          = concat chunks ++ last).
Proof. exact relay_gets_rest. Qed.
Print Assumptions C04_relay_gets_rest.

(* The same inside C05's two-direction relay (both halfPipes, their closers and the caller), for
   every schedule: a direction whose calls returned its peer's bytes without a fault has delivered
   exactly those bytes when the relay has finished.  (A direction can be cut short by the other
   direction's teardown - then its log ends with a "closed" result instead; C05's theorems say what
   is delivered in that case.) *)
Theorem C04_relay_direction_faultfree :
  forall g0 su sd s,
    let c := C05.Model.run (C05.Model.init_cfg g0 su sd) s in
    C05.Model.finished c = true ->
    (forall chunks last e,
        C05.Model.th_rlog (C05.Model.up c) = ok_reads chunks ++ [(last, Some e)] ->
        C05.Model.first_fail (C05.Model.th_dlog (C05.Model.up c)) = None ->
        C05.Proofs.writes_ok (map fst (C05.Model.upto_err (C05.Model.th_rlog (C05.Model.up c)))) (C05.Model.th_wlog (C05.Model.up c)) ->
        C05.Model.delivered (C05.Model.th_acc (C05.Model.up c)) = concat chunks ++ last) /\
    (forall chunks last e,
        C05.Model.th_rlog (C05.Model.down c) = ok_reads chunks ++ [(last, Some e)] ->
        C05.Model.first_fail (C05.Model.th_dlog (C05.Model.down c)) = None ->
        C05.Proofs.writes_ok (map fst (C05.Model.upto_err (C05.Model.th_rlog (C05.Model.down c)))) (C05.Model.th_wlog (C05.Model.down c)) ->
        C05.Model.delivered (C05.Model.th_acc (C05.Model.down c)) = concat chunks ++ last).
Proof. exact relay_direction_faultfree. Qed.
Print Assumptions C04_relay_direction_faultfree.
