(* C04: lemmas about the handler loop and the three wrapping transports. *)
From CJ Require Import Common.Base Common.BaseProofs C04.Model.
From Coq Require Import Lia Arith.
Local Open Scope nat_scope.

(* ------------------------------------------------------------------ list facts *)

Lemma firstn_firstn_min {A} (l : list A) i j : firstn i (firstn j l) = firstn (Nat.min i j) l.
Proof. apply firstn_firstn. Qed.

Lemma firstn_app_skipn_chunk {A} (s c rs : list A) k :
  c ++ rs = skipn k s -> firstn k s ++ c = firstn (k + length c) s.
Proof.
  intros H.
  destruct (Nat.le_gt_cases k (length s)) as [Hk|Hk].
  - remember (firstn k s) as p.
    assert (Lp : length p = k) by (subst p; rewrite firstn_length; lia).
    assert (E : s = p ++ c ++ rs) by (subst p; rewrite H; symmetry; apply firstn_skipn).
    rewrite E, <- Lp. rewrite firstn_app_2.
    rewrite firstn_app, Nat.sub_diag, firstn_all. cbn. now rewrite app_nil_r.
  - rewrite skipn_all2 in H by lia. destruct c; [|discriminate]. cbn.
    now rewrite Nat.add_0_r, app_nil_r.
Qed.

Lemma chunk_within {A} (s c rs : list A) k : c ++ rs = skipn k s -> k <= length s -> k + length c <= length s.
Proof.
  intros H Hk. assert (L : length (c ++ rs) = length (skipn k s)) by now rewrite H.
  rewrite app_length, skipn_length in L. lia.
Qed.

Lemma skipn_add {A} (s : list A) k j : skipn j (skipn k s) = skipn (k + j) s.
Proof.
  revert s; induction k as [|k IH]; intros s; [reflexivity|].
  destruct s as [|x s]; [now rewrite !skipn_nil|]. cbn. apply IH.
Qed.

Lemma rest_after_chunk {A} (s c rs : list A) k : c ++ rs = skipn k s -> rs = skipn (k + length c) s.
Proof.
  intros H. rewrite <- skipn_add, <- H. rewrite skipn_app, Nat.sub_diag, skipn_all. reflexivity.
Qed.

Lemma find_all_eq {A} (f : A -> bool) (l : list A) x :
  (forall y, In y l -> f y = true -> y = x) -> (exists y, In y l /\ f y = true) -> find f l = Some x.
Proof.
  induction l as [|a l IH]; intros Hall [y [Hy Hf]]; [destruct Hy|].
  cbn. destruct (f a) eqn:Ea.
  - f_equal. apply Hall; [now left|assumption].
  - apply IH.
    + intros z Hz. apply Hall. now right.
    + destruct Hy as [->|Hy]; [congruence|]. now exists y.
Qed.

Lemma find_none_iff {A} (f : A -> bool) l : (forall y, In y l -> f y = false) -> find f l = None.
Proof.
  induction l as [|a l IH]; intros H; [reflexivity|]. cbn.
  rewrite (H a) by now left. apply IH. intros y Hy. apply H. now right.
Qed.

Lemma filter_nil_iff {A} (f : A -> bool) l : (forall y, In y l -> f y = false) -> filter f l = [].
Proof.
  induction l as [|a l IH]; intros H; [reflexivity|]. cbn.
  rewrite (H a) by now left. apply IH. intros y Hy. apply H. now right.
Qed.

Lemma existsb_true_in {A} (f : A -> bool) l x : In x l -> f x = true -> existsb f l = true.
Proof. intros. apply existsb_exists. eauto. Qed.

(* ------------------------------------------------------------------ the loop *)

Lemma relay_after_found c (s b : bytes) (rest : list bytes) :
  c <= length b -> b ++ concat rest = s -> relay_stream c b rest = skipn c s.
Proof.
  intros Hc <-. unfold relay_stream. rewrite skipn_app.
  replace (c - length b) with 0 by lia. reflexivity.
Qed.

Section Loop.
  Variable wrap : tid -> bytes -> wres.

  Lemma feed_decided cs b reads : feed wrap (HDecided cs b) reads = (HDecided cs b, reads).
  Proof. destruct reads; reflexivity. Qed.

  Variables (t : tid) (r : reginfo) (c m : nat) (s : bytes) (ts : list tid).
  Hypothesis Hin : In t ts.
  Hypothesis Hm0 : 0 < m.
  Hypothesis Hm : m <= length s.
  Hypothesis Hagain : forall k, k < m -> wrap t (firstn k s) = TryAgain.
  Hypothesis Hfound : forall k, m <= k -> k <= length s -> wrap t (firstn k s) = WFound r c.
  Hypothesis Hothers : forall t' k, In t' ts -> t' <> t -> k <= length s ->
                                    is_decisive (wrap t' (firstn k s)) = false.

  Lemma loop_reaches_found :
    forall reads k ts',
      k < m -> In t ts' -> incl ts' ts -> concat reads = skipn k s ->
      exists b rest cs,
        feed wrap (HLoop ts' (firstn k s)) reads = (HDecided cs b, rest) /\
        b ++ concat rest = s /\ m <= length b /\ cs <> [] /\
        Forall (fun x => x = (t, WFound r c)) cs.
  Proof.
    induction reads as [|ch rs IH]; intros k ts' Hk Ht Hincl Hcat.
    - cbn in Hcat. symmetry in Hcat.
      assert (L : length (skipn k s) = 0) by now rewrite Hcat.
      rewrite skipn_length in L. lia.
    - cbn [concat] in Hcat.
      assert (Hle : k + length ch <= length s) by (eapply chunk_within; [exact Hcat|lia]).
      assert (Hbuf : firstn k s ++ ch = firstn (k + length ch) s) by (eapply firstn_app_skipn_chunk; exact Hcat).
      assert (Hrest : concat rs = skipn (k + length ch) s) by (eapply rest_after_chunk; exact Hcat).
      cbn [feed on_read]. rewrite Hbuf.
      set (k' := k + length ch) in *.
      destruct (Nat.lt_ge_cases k' m) as [Hlt|Hge].
      + (* still below the threshold: nobody is decisive, t stays *)
        assert (Hnodec : filter (fun x => is_decisive (snd x)) (results wrap ts' (firstn k' s)) = []).
        { apply filter_nil_iff. intros [t' w] Hy. unfold results in Hy. apply in_map_iff in Hy as [t'' [E Hi]].
          inversion E; subst t'' w. cbn.
          destruct (tid_eqb t' t) eqn:Et.
          - assert (t' = t) by (destruct t', t; cbn in Et; congruence). subst. now rewrite Hagain.
          - apply Hothers; [apply Hincl, Hi| |lia]. intros ->. destruct t; discriminate. }
        rewrite Hnodec.
        set (ts'' := map fst (filter (fun x => negb (is_not_transport (snd x))) (results wrap ts' (firstn k' s)))).
        assert (Ht'' : In t ts'').
        { unfold ts''. apply in_map_iff. exists (t, wrap t (firstn k' s)). split; [reflexivity|].
          apply filter_In. split.
          - unfold results. apply in_map_iff. now exists t.
          - cbn. now rewrite Hagain. }
        assert (Hincl'' : incl ts'' ts).
        { intros x Hx. unfold ts'' in Hx. apply in_map_iff in Hx as [[x' w] [E Hx]]. cbn in E. subst x'.
          apply filter_In in Hx as [Hx _]. unfold results in Hx. apply in_map_iff in Hx as [y [E Hy]].
          inversion E; subst. now apply Hincl. }
        destruct ts'' as [|a l] eqn:Ets; [destruct Ht''|].
        rewrite <- Ets in *. apply IH; assumption.
      + (* threshold reached: only t is decisive *)
        set (cs := filter (fun x => is_decisive (snd x)) (results wrap ts' (firstn k' s))).
        assert (Hmem : In (t, WFound r c) cs).
        { unfold cs. apply filter_In. split; [|reflexivity].
          unfold results. apply in_map_iff. exists t. split; [|assumption]. now rewrite Hfound. }
        assert (Hall : Forall (fun x => x = (t, WFound r c)) cs).
        { apply Forall_forall. intros [t' w] Hy. unfold cs in Hy. apply filter_In in Hy as [Hy Hd].
          unfold results in Hy. apply in_map_iff in Hy as [t'' [E Hi]]. inversion E; subst t'' w. cbn in Hd.
          destruct (tid_eqb t' t) eqn:Et.
          - assert (t' = t) by (destruct t', t; cbn in Et; congruence). subst. now rewrite Hfound.
          - rewrite Hothers in Hd; [discriminate|apply Hincl, Hi| |lia]. intros ->. destruct t; discriminate. }
        destruct cs as [|x cs'] eqn:Ecs; [destruct Hmem|].
        rewrite feed_decided.
        exists (firstn k' s), rs, (x :: cs'). repeat split.
        * rewrite Hrest. apply firstn_skipn.
        * rewrite firstn_length. lia.
        * discriminate.
        * assumption.
  Qed.

  Lemma handler_reaches_found :
    forall tracked reads, 1 <= tracked -> concat reads = s ->
      exists b rest cs,
        feed wrap (init tracked ts) reads = (HDecided cs b, rest) /\
        b ++ concat rest = s /\ m <= length b /\ cs <> [] /\
        Forall (fun x => x = (t, WFound r c)) cs.
  Proof.
    intros tracked reads Htr Hcat.
    assert (Hinit : init tracked ts = HLoop ts []).
    { unfold init. destruct (tracked <? 1) eqn:E; [apply Nat.ltb_lt in E; lia|].
      pose proof Hin as H. destruct ts; [destruct H|reflexivity]. }
    rewrite Hinit. change (@nil byte) with (firstn 0 s).
    apply loop_reaches_found; [exact Hm0|exact Hin|apply incl_refl|exact Hcat].
  Qed.

End Loop.
