(* C04: segmentation invariance for the clocked runner - any pacing of the segments, as long as
   they arrive before the classification deadline. *)
From CJ Require Import Common.Base Common.BaseProofs C04.Model C04.Proofs C04.ProofsT.
From Coq Require Import Lia Arith.
Local Open Scope nat_scope.

Section PacedLoop.
  Variable wrap : tid -> bytes -> wres.
  Variable drain_cap : nat.
  Variables (t : tid) (r : reginfo) (c0 m : nat) (s : bytes) (ts : list tid).
  Hypothesis Hm0 : 0 < m.
  Hypothesis Hm : m <= length s.
  Hypothesis Hc0 : c0 <= m.
  Hypothesis Hagain : forall k, k < m -> wrap t (firstn k s) = TryAgain.
  Hypothesis Hfound : forall k, m <= k -> k <= length s -> wrap t (firstn k s) = WFound r c0.
  Hypothesis Hothers : forall t' k, In t' ts -> t' <> t -> k <= length s ->
                                    is_decisive (wrap t' (firstn k s)) = false.

  Definition good_loop (st : hstate) (k : nat) : Prop :=
    exists ts', st = HLoop ts' (firstn k s) /\ k < m /\ In t ts' /\ incl ts' ts.

  Definition good_found (st : hstate) (unread rest : bytes) : Prop :=
    exists cs b, st = HDecided cs b /\ cs <> [] /\ Forall (fun x => x = (t, WFound r c0)) cs /\
                 m <= length b /\ b ++ unread ++ rest = s.

  (* one read in the loop: either still below the threshold, or decided for (t, r) *)
  Lemma on_read_step ts' k ch rest :
    k < m -> In t ts' -> incl ts' ts -> ch ++ rest = skipn k s ->
    good_loop (on_read wrap (HLoop ts' (firstn k s)) ch) (k + length ch) \/
    good_found (on_read wrap (HLoop ts' (firstn k s)) ch) [] rest.
  Proof.
    intros Hk Ht Hincl Hcat.
    assert (Hkl : k <= length s) by lia.
    assert (Hle : k + length ch <= length s) by (eapply chunk_within; eauto).
    assert (Hbuf : firstn k s ++ ch = firstn (k + length ch) s) by (eapply firstn_app_skipn_chunk; exact Hcat).
    assert (Hrest : rest = skipn (k + length ch) s) by (eapply rest_after_chunk; exact Hcat).
    cbn [on_read]. rewrite Hbuf. set (k' := k + length ch) in *.
    destruct (Nat.lt_ge_cases k' m) as [Hlt|Hge].
    - left.
      rewrite filter_nil_iff.
      + set (ts'' := map fst _).
        assert (Ht'' : In t ts'').
        { unfold ts''. apply in_map_iff. exists (t, wrap t (firstn k' s)). split; [reflexivity|].
          apply filter_In. split; [unfold results; apply in_map_iff; now exists t|]. cbn. now rewrite Hagain. }
        assert (Hincl'' : incl ts'' ts).
        { intros x Hx. unfold ts'' in Hx. apply in_map_iff in Hx as [[x' w] [E Hx]]. cbn in E. subst x'.
          apply filter_In in Hx as [Hx _]. unfold results in Hx. apply in_map_iff in Hx as [y [E Hy]].
          inversion E; subst. now apply Hincl. }
        destruct ts'' as [|a l] eqn:Ets; [destruct Ht''|]. rewrite <- Ets in *.
        exists ts''. repeat split; assumption.
      + intros [t' w] Hy. unfold results in Hy. apply in_map_iff in Hy as [t'' [E Hi]]. inversion E; subst t'' w. cbn.
        destruct (tid_eqb t' t) eqn:Et.
        * assert (t' = t) by (destruct t', t; cbn in Et; congruence). subst. now rewrite Hagain.
        * apply Hothers; [apply Hincl, Hi| |lia]. intros ->. destruct t; discriminate.
    - right.
      set (cs := filter (fun x => is_decisive (snd x)) (results wrap ts' (firstn k' s))).
      assert (Hmem : In (t, WFound r c0) cs).
      { unfold cs. apply filter_In. split; [|reflexivity].
        unfold results. apply in_map_iff. exists t. split; [|assumption]. now rewrite Hfound. }
      assert (Hall : Forall (fun x => x = (t, WFound r c0)) cs).
      { apply Forall_forall. intros [t' w] Hy. unfold cs in Hy. apply filter_In in Hy as [Hy Hd].
        unfold results in Hy. apply in_map_iff in Hy as [t'' [E Hi]]. inversion E; subst t'' w. cbn in Hd.
        destruct (tid_eqb t' t) eqn:Et.
        - assert (t' = t) by (destruct t', t; cbn in Et; congruence). subst. now rewrite Hfound.
        - rewrite Hothers in Hd; [discriminate|apply Hincl, Hi| |lia]. intros ->. destruct t; discriminate. }
      destruct cs as [|x cs'] eqn:Ecs; [destruct Hmem|].
      exists (x :: cs'), (firstn k' s). repeat split; try assumption; try discriminate.
      + rewrite firstn_length. lia.
      + cbn [app]. rewrite Hrest. apply firstn_skipn.
  Qed.

  Lemma feed_now_paced fuel : forall now ts' k c rest,
    length c <= fuel -> k < m -> In t ts' -> incl ts' ts -> c ++ rest = skipn k s ->
    exists st' tr unread,
      feed_now wrap drain_cap fuel now (HLoop ts' (firstn k s)) c = (st', tr, unread) /\
      Forall (fun a => exists n, a = ARead now n) tr /\
      ((good_loop st' (k + length c) /\ unread = []) \/ good_found st' unread rest).
  Proof.
    induction fuel as [|f IH]; intros now ts' k c rest Hlen Hk Ht Hincl Hc.
    - destruct c; [|cbn in Hlen; lia]. eexists _, [], []. split; [reflexivity|]. split; [constructor|].
      left. split; [|reflexivity]. rewrite Nat.add_0_r. exists ts'. auto.
    - destruct c as [|x c'].
      + eexists _, [], []. split; [reflexivity|]. split; [constructor|].
        left. split; [|reflexivity]. rewrite Nat.add_0_r. exists ts'. auto.
      + set (c := x :: c') in *.
        assert (Hcap : 1 <= read_cap) by apply big_consts.
        cbn [feed_now cap_of]. fold c.
        assert (Hsplit : firstn read_cap c ++ (skipn read_cap c ++ rest) = skipn k s).
        { rewrite app_assoc, firstn_skipn. exact Hc. }
        assert (Hl2 : length (skipn read_cap c) <= f).
        { rewrite skipn_length. unfold c in *. cbn [length] in *. lia. }
        assert (Hsum : length (firstn read_cap c) + length (skipn read_cap c) = length c).
        { rewrite <- app_length, firstn_skipn. reflexivity. }
        destruct (on_read_step ts' k (firstn read_cap c) (skipn read_cap c ++ rest) Hk Ht Hincl Hsplit)
          as [[ts'' [E [Hk' [Ht'' Hi'']]]] | [cs [b [E [Hne [Hall [Hb Hs]]]]]]].
        * rewrite E.
          assert (Hrest : skipn read_cap c ++ rest = skipn (k + length (firstn read_cap c)) s)
            by (eapply rest_after_chunk; exact Hsplit).
          destruct (IH now ts'' _ _ rest Hl2 Hk' Ht'' Hi'' Hrest) as [st' [tr [u [Ef [Htr Hres]]]]].
          rewrite Ef. eexists st', (ARead now _ :: tr), u. split; [reflexivity|].
          split; [constructor; [eexists; reflexivity|exact Htr]|].
          rewrite <- Nat.add_assoc, Hsum in Hres. exact Hres.
        * rewrite E.
          assert (Efn : forall g p, feed_now wrap drain_cap g now (HDecided cs b) p = (HDecided cs b, [], p)).
          { intros g p. destruct g; [reflexivity|]. destruct p; reflexivity. }
          rewrite Efn. eexists _, [ARead now _], _. split; [reflexivity|].
          split; [constructor; [eexists; reflexivity|constructor]|].
          right. exists cs, b. repeat split; assumption.
  Qed.

  Variable D : N.

  Lemma run_script_paced : forall script now ts' k,
    k < m -> In t ts' -> incl ts' ts -> stream_of script = skipn k s -> in_time D now script ->
    exists reads replay,
      run_script wrap drain_cap D now (HLoop ts' (firstn k s)) script =
        reads ++ [AClearDeadline; AMarkActive r; ARelay r replay] /\
      Forall (fun a => exists u n, a = ARead u n /\ (u < D)%N) reads /\
      exists later, replay ++ later = skipn c0 s.
  Proof.
    induction script as [|[u c] rest IH]; intros now ts' k Hk Ht Hincl Hs Hin.
    - exfalso. unfold stream_of in Hs. cbn in Hs. symmetry in Hs.
      assert (L : length (skipn k s) = 0) by now rewrite Hs. rewrite skipn_length in L. lia.
    - cbn [in_time fst] in Hin. destruct Hin as [Hnow [HuD Hin]].
      cbn [run_script]. destruct (D <=? u)%N eqn:E; [apply N.leb_le in E; lia|].
      replace (N.max now u) with u by lia.
      unfold stream_of in Hs. cbn [map concat snd] in Hs. fold (stream_of rest) in Hs.
      destruct (feed_now_paced (length c) u ts' k c (stream_of rest) (Nat.le_refl _) Hk Ht Hincl Hs)
        as [st' [tr [unread [Ef [Htr Hres]]]]].
      rewrite Ef.
      assert (Htr' : Forall (fun a => exists u0 n, a = ARead u0 n /\ (u0 < D)%N) tr).
      { eapply Forall_impl; [|exact Htr]. intros a [n ->]. exists u, n. split; [reflexivity|lia]. }
      destruct Hres as [[Hgl Hu] | Hgf].
      + destruct Hgl as [ts'' [Est [Hk' [Ht'' Hi'']]]]. subst st' unread. assert (Hs' : stream_of rest = skipn (k + length c) s) by (eapply rest_after_chunk; exact Hs).
        destruct (IH u ts'' _ Hk' Ht'' Hi'' Hs' Hin) as [reads [replay [Er [Hreads Hlater]]]].
        rewrite Er. exists (tr ++ reads), replay. split; [now rewrite app_assoc|].
        split; [apply Forall_app; split; assumption|exact Hlater].
      + destruct Hgf as [cs [b [Est [Hne [Hall [Hb Hsb]]]]]]. subst st'.
        destruct cs as [|x cs']; [contradiction|].
        inversion Hall as [|? ? Hx _]. subst x. cbn [finish].
        exists tr, (skipn c0 b ++ unread). split; [reflexivity|]. split; [exact Htr'|].
        exists (stream_of rest). rewrite <- Hsb. rewrite <- app_assoc.
        rewrite skipn_app. replace (c0 - length b) with 0 by lia. reflexivity.
  Qed.
End PacedLoop.

Section PacedFinal.
  Variable reveal : bytes -> list bytes.
  Variable mark : reginfo -> bytes -> bytes.
  Variable hs_ok : reginfo -> bytes -> bool.

  Theorem segmentation_invariance_paced :
    forall tbl R tracked ts t r fl data drain_cap D script,
      prefix_table_wfb tbl = true ->
      registered R r -> length R <= tracked -> In t ts ->
      client_flight reveal mark hs_ok tbl R t r fl data ->
      unambiguous reveal mark hs_ok tbl R ts t r fl (fl ++ data) ->
      in_time D 0%N script -> stream_of script = fl ++ data ->
      exists reads replay later,
        run (cwrap reveal mark hs_ok tbl R) drain_cap D tracked ts script =
          ASetDeadline D :: reads ++ [AClearDeadline; AMarkActive r; ARelay r replay] /\
        Forall (fun a => exists u n, a = ARead u n /\ (u < D)%N) reads /\
        replay ++ later = data.
  Proof.
    intros tbl R tracked ts t r fl data drain_cap D script Hwf Hreg Htr Hin Hfl [Hoth Hown] Hpace Hcat.
    assert (Htr1 : 1 <= tracked) by (unfold registered in Hreg; apply lookup_some_nonempty in Hreg; lia).
    set (s := fl ++ data) in *.
    assert (Hinit : init tracked ts = HLoop ts (firstn 0 s)).
    { unfold init. destruct (tracked <? 1) eqn:E; [apply Nat.ltb_lt in E; lia|].
      destruct ts; [destruct Hin|reflexivity]. }
    assert (Hgen : forall m, 0 < m -> m <= length s -> m = length fl ->
              (forall k, k < m -> cwrap reveal mark hs_ok tbl R t (firstn k s) = TryAgain) ->
              (forall k, m <= k -> k <= length s -> cwrap reveal mark hs_ok tbl R t (firstn k s) = WFound r m) ->
              exists reads replay later,
                run (cwrap reveal mark hs_ok tbl R) drain_cap D tracked ts script =
                  ASetDeadline D :: reads ++ [AClearDeadline; AMarkActive r; ARelay r replay] /\
                Forall (fun a => exists u n, a = ARead u n /\ (u < D)%N) reads /\
                replay ++ later = data).
    { intros m Hm0 Hm Hmfl Hag Hfo. unfold run. rewrite Hinit.
      destruct (run_script_paced (cwrap reveal mark hs_ok tbl R) drain_cap t r m m s ts Hm0 Hm (Nat.le_refl _)
                  Hag Hfo Hoth D script 0%N ts 0 Hm0 Hin (incl_refl _) Hcat Hpace)
        as [reads [replay [Er [Hreads [later Hl]]]]].
      exists reads, replay, later. rewrite Er. repeat split; try assumption.
      rewrite Hl. unfold s. rewrite Hmfl, skipn_app, Nat.sub_diag, skipn_all. reflexivity. }
    destruct t; cbn [client_flight] in Hfl; cbn [cwrap] in Hgen.
    - destruct Hfl as [Hid Hlen].
      apply (Hgen (length fl)).
      + rewrite Hlen. unfold min_tag_len. lia.
      + unfold s. rewrite app_length. lia.
      + reflexivity.
      + intros k Hk. apply min_again. lia.
      + intros k Hk Hs. rewrite Hlen. apply min_found; [|lia|assumption].
        unfold s. rewrite <- Hlen. rewrite firstn_app, Nat.sub_diag, firstn_all. cbn. rewrite app_nil_r.
        rewrite Hid. exact Hreg.
    - destruct Hfl as [Hdata [[Hmin Hmax] [Hhit Hhs]]]. subst data.
      assert (Es : s = fl) by (unfold s; apply app_nil_r).
      cbn [unambiguous] in Hown. rewrite Es in *.
      apply (Hgen (length fl)).
      + unfold obfs4_min_handshake in Hmin. lia.
      + lia.
      + reflexivity.
      + intros k Hk. apply obfs4_again; assumption.
      + intros k Hk Hs. assert (k = length fl) by lia. subst k. rewrite firstn_all.
        apply obfs4_found; assumption.
    - destruct Hfl as [p [tag [Hp [Hfl [Htag [Hrev [Htt Hpid]]]]]]].
      pose proof (wf_in tbl p Hwf Hp) as Hwfp.
      cbn [unambiguous] in Hown. subst fl.
      apply (Hgen (length (p_static p ++ tag))).
      + rewrite app_length, Htag. unfold tag_len. lia.
      + unfold s. rewrite !app_length. lia.
      + reflexivity.
      + intros k Hk. apply (wrap_prefix_again reveal p tag data R r Hwfp Htag tbl Hp Hown k Hk).
      + intros k Hk Hs. apply (wrap_prefix_found reveal p tag data R r Hwfp Htag Hrev Htt Hpid tbl Hp Hown k Hk Hs).
  Qed.
End PacedFinal.
