(* C04 non-vacuity: a concrete station (table with two rows, registry with three registrations,
   toy cryptography) and, for each of the three transports, a concrete client flight that meets
   every hypothesis of C04_segmentation_invariance; the theorem is applied and its conclusion is
   also computed directly for one segmentation. *)
From CJ Require Import Common.Base Common.BaseProofs C04.Model C04.Proofs C04.ProofsT C04.Props.
From Coq Require Import Lia Arith.
Local Open Scope nat_scope.

(* toy cryptography: the second half of a 64-byte tag is the identifier; the mark of a
   registration is the first 16 bytes of its identifier; the library handshake always succeeds *)
Definition reveal0 (w : bytes) : list bytes := [skipn 32 w].
Definition mark0 (r : reginfo) (_ : bytes) : bytes := firstn 16 (r_ident r).
Definition hs0 (_ : reginfo) (_ : bytes) : bool := true.

Definition GET : bytes := [71; 69; 84; 32]%N.
Definition tbl0 : list pfx :=
  [ {| p_id := 0; p_static := []; p_off := 0; p_min := 64; p_max := 64 |};
    {| p_id := 1; p_static := GET; p_off := 4; p_min := 68; p_max := 68 |} ].

Definition r_min : reginfo := {| r_ident := repeat 7%N 32; r_tt := KMin; r_pid := None |}.
Definition r_pfx : reginfo := {| r_ident := repeat 9%N 32; r_tt := KPrefix; r_pid := Some 1%Z |}.
Definition r_obf : reginfo := {| r_ident := repeat 5%N 52; r_tt := KObfs4; r_pid := None |}.
Definition R0 : registry := [r_min; r_pfx; r_obf].
Definition ts0 : list tid := [TPrefix; TMin; TObfs4].

Definition data0 : bytes := [42; 43; 44]%N.
Definition fl_min : bytes := r_ident r_min.
Definition fl_pfx : bytes := GET ++ repeat 1%N 32 ++ r_ident r_pfx.
Definition fl_obf : bytes := repeat 200%N 168 ++ firstn 16 (r_ident r_obf) ++ repeat 3%N 16.   (* 200 bytes *)

Lemma tbl0_wf : prefix_table_wfb tbl0 = true.
Proof. vm_compute. reflexivity. Qed.

Lemma forall_le (P : nat -> bool) n : forallb P (seq 0 (S n)) = true -> forall k, k <= n -> P k = true.
Proof.
  intros H k Hk. rewrite forallb_forall in H. apply H. apply in_seq. lia.
Qed.


Lemma others_quiet (t : tid) (s : bytes) :
  forallb (fun t' => tid_eqb t' t ||
     forallb (fun k => negb (is_decisive (cwrap reveal0 mark0 hs0 tbl0 R0 t' (firstn k s)))) (seq 0 (S (length s)))) ts0 = true ->
  forall t' k, In t' ts0 -> t' <> t -> k <= length s ->
     is_decisive (cwrap reveal0 mark0 hs0 tbl0 R0 t' (firstn k s)) = false.
Proof.
  intros H t' k Hin Hne Hk. rewrite forallb_forall in H. specialize (H t' Hin).
  apply Bool.orb_true_iff in H as [H|H].
  - exfalso. apply Hne. destruct t', t; cbn in H; congruence.
  - apply Bool.negb_true_iff. apply (forall_le _ _ H k Hk).
Qed.

(* ---- min *)
Example min_flight_ok : client_flight reveal0 mark0 hs0 tbl0 R0 TMin r_min fl_min data0.
Proof. split; reflexivity. Qed.

Example min_unambiguous : unambiguous reveal0 mark0 hs0 tbl0 R0 ts0 TMin r_min fl_min (fl_min ++ data0).
Proof. split; [|exact I]. apply others_quiet. vm_compute. reflexivity. Qed.

Example min_any_segmentation :
  forall reads, concat reads = fl_min ++ data0 ->
    exists b rest cs,
      feed (cwrap reveal0 mark0 hs0 tbl0 R0) (init 3 ts0) reads = (HDecided cs b, rest) /\
      cs <> [] /\ Forall (fun x => x = (TMin, WFound r_min 32)) cs /\ relay_stream 32 b rest = data0.
Proof.
  intros reads H.
  apply (C04_segmentation_invariance reveal0 mark0 hs0 tbl0 R0 3 ts0 TMin r_min fl_min data0 reads tbl0_wf);
    [reflexivity|cbn; lia|cbn; auto|exact min_flight_ok|exact min_unambiguous|exact H].
Qed.

(* ---- prefix (row 1, "GET ") *)
Example pfx_flight_ok : client_flight reveal0 mark0 hs0 tbl0 R0 TPrefix r_pfx fl_pfx data0.
Proof.
  exists {| p_id := 1; p_static := GET; p_off := 4; p_min := 68; p_max := 68 |}, (repeat 1%N 32 ++ r_ident r_pfx).
  repeat split; try reflexivity. cbn. auto.
Qed.

Example pfx_unambiguous : unambiguous reveal0 mark0 hs0 tbl0 R0 ts0 TPrefix r_pfx fl_pfx (fl_pfx ++ data0).
Proof.
  split.
  - apply others_quiet. vm_compute. reflexivity.
  - intros p' k Hp' Hk Hd.
    assert (H : forallb (fun p' => forallb (fun k =>
                  negb (pres_decisive (classify reveal0 p' R0 (firstn k (fl_pfx ++ data0)))) ||
                  match classify reveal0 p' R0 (firstn k (fl_pfx ++ data0)) with
                  | PFound r c => reginfo_eqb r r_pfx && (c =? length fl_pfx)
                  | _ => false
                  end) (seq 0 (S (length (fl_pfx ++ data0))))) tbl0 = true) by (vm_compute; reflexivity).
    rewrite forallb_forall in H. specialize (H p' Hp').
    pose proof (forall_le _ _ H k Hk) as Hk'. cbn beta in Hk'. rewrite Hd in Hk'. cbn [negb orb] in Hk'.
    destruct (classify reveal0 p' R0 (firstn k (fl_pfx ++ data0))) as [| | | |r c|]; try discriminate.
    apply andb_true_iff in Hk' as [Hr Hc]. apply Nat.eqb_eq in Hc. subst c. f_equal.
    unfold reginfo_eqb in Hr. apply andb_true_iff in Hr as [Hr H3]. apply andb_true_iff in Hr as [H1 H2].
    apply bytes_eqb_eq in H1. destruct r as [i t p]; cbn in *. subst i.
    destruct t; try discriminate. destruct p as [z|]; cbn in H3; [|discriminate].
    apply Z.eqb_eq in H3. subst z. reflexivity.
Qed.

Example pfx_any_segmentation :
  forall reads, concat reads = fl_pfx ++ data0 ->
    exists b rest cs,
      feed (cwrap reveal0 mark0 hs0 tbl0 R0) (init 3 ts0) reads = (HDecided cs b, rest) /\
      cs <> [] /\ Forall (fun x => x = (TPrefix, WFound r_pfx 68)) cs /\ relay_stream 68 b rest = data0.
Proof.
  intros reads H.
  apply (C04_segmentation_invariance reveal0 mark0 hs0 tbl0 R0 3 ts0 TPrefix r_pfx fl_pfx data0 reads tbl0_wf);
    [reflexivity|cbn; lia|cbn; auto|exact pfx_flight_ok|exact pfx_unambiguous|exact H].
Qed.

(* ---- obfs4 (no early data) *)
Example obf_flight_ok : client_flight reveal0 mark0 hs0 tbl0 R0 TObfs4 r_obf fl_obf [].
Proof.
  repeat split; try reflexivity.
  - apply Nat.leb_le. vm_compute. reflexivity.
  - apply Nat.leb_le. vm_compute. reflexivity.
Qed.

Example obf_unambiguous : unambiguous reveal0 mark0 hs0 tbl0 R0 ts0 TObfs4 r_obf fl_obf (fl_obf ++ []).
Proof.
  split.
  - apply others_quiet. vm_compute. reflexivity.
  - intros k Hk.
    assert (H : forallb (fun k => match obfs4_hit mark0 R0 (firstn 32 (fl_obf ++ [])) (firstn k (fl_obf ++ [])) with
                                  | None => true | Some _ => false end) (seq 0 (S (length (fl_obf ++ []) - 1))) = true)
      by (vm_compute; reflexivity).
    assert (Hk' : k <= length (fl_obf ++ []) - 1) by lia.
    pose proof (forall_le _ _ H k Hk') as E. cbn beta in E.
    destruct (obfs4_hit mark0 R0 (firstn 32 (fl_obf ++ [])) (firstn k (fl_obf ++ []))); [discriminate|reflexivity].
Qed.

Example obf_any_segmentation :
  forall reads, concat reads = fl_obf ++ [] ->
    exists b rest cs,
      feed (cwrap reveal0 mark0 hs0 tbl0 R0) (init 3 ts0) reads = (HDecided cs b, rest) /\
      cs <> [] /\ Forall (fun x => x = (TObfs4, WFound r_obf 200)) cs /\ relay_stream 200 b rest = [].
Proof.
  intros reads H.
  apply (C04_segmentation_invariance reveal0 mark0 hs0 tbl0 R0 3 ts0 TObfs4 r_obf fl_obf [] reads tbl0_wf);
    [reflexivity|cbn; lia|cbn; auto|exact obf_flight_ok|exact obf_unambiguous|exact H].
Qed.

(* ---- the conclusion, computed for one segmentation: the tag split 10 | 30 | rest, data in the
   same segment as the end of the tag *)
Example pfx_three_segments :
  feed (cwrap reveal0 mark0 hs0 tbl0 R0) (init 3 ts0)
       [firstn 10 (fl_pfx ++ data0); firstn 30 (skipn 10 (fl_pfx ++ data0)); skipn 40 (fl_pfx ++ data0)]
  = (HDecided [(TPrefix, WFound r_pfx 68)] (fl_pfx ++ data0), []).
Proof. vm_compute. reflexivity. Qed.

(* the hypotheses are not idle: a registry in which the first 32 bytes of the prefix flight are a
   registered min identifier makes min claim the connection *)
Example collision_breaks_it :
  let evil := {| r_ident := firstn 32 fl_pfx; r_tt := KMin; r_pid := None |} in
  exists cs b, feed (cwrap reveal0 mark0 hs0 tbl0 (evil :: R0)) (init 4 ts0) [fl_pfx ++ data0] = (HDecided cs b, []) /\
               In (TMin, WFound evil 32) cs.
Proof. eexists _, _. split; [vm_compute; reflexivity|]. cbn. auto. Qed.

(* Fifth round: the hypotheses of C04_obfs4_every_padding_length are satisfiable at both ends of the
   legal range (flights of 141 and of 8192 bytes), and a zoned link-local peer is an IP peer. *)
From CJ Require Import C04.ProofsPad.
Example pad_range_values : (obfs4_min_pad, N.of_nat obfs4_max_pad) = (77%nat, 8128%N).
Proof. vm_compute. reflexivity. Qed.
Example longest_flight_recognised :
  let fl := obfs4_flight (repeat 1%N 32) (repeat 2%N obfs4_max_pad) (repeat 3%N 16) (repeat 4%N 16) in
  (N.of_nat (length fl), mark_at_tail (repeat 3%N 16) fl) = (8192%N, true).
Proof. vm_compute. reflexivity. Qed.
Example shortest_flight_recognised :
  let fl := obfs4_flight (repeat 1%N 32) (repeat 2%N obfs4_min_pad) (repeat 3%N 16) (repeat 4%N 16) in
  (length fl, mark_at_tail (repeat 3%N 16) fl) = (141%nat, true).
Proof. vm_compute. reflexivity. Qed.
Example zoned_link_local_peer_served :
  let p := PTCP (repeat 0%N 16) true in (is_ip_peer p, handle_from p tt) = (true, Some tt).
Proof. vm_compute. reflexivity. Qed.
Example non_ip_peer_dropped : handle_from (POther None) tt = None.
Proof. reflexivity. Qed.
