(* C04 x C05 non-vacuity: the toy station of Examples.v, the prefix flight in three segments with
   early data in the same segment as the end of the tag; the relay then runs (C05's model) on the
   connection the handler hands over. *)
From CJ Require Import Common.Base C04.Model C04.Examples C04.RelayModel C04.ProofsRelay C04.PropsRelay.
From CJ Require C05.Model C04.ProofsHyp.
From Coq Require Import Lia.
Local Open Scope nat_scope.

Definition more : bytes := [50; 51]%N.                  (* sent by the client after the handshake *)
Definition stream0 : bytes := fl_pfx ++ data0 ++ more.
(* the handler reads 10 | 30 | 31 bytes: the third read completes the tag and carries data0 *)
Definition reads0 : list bytes := [firstn 10 stream0; firstn 30 (skipn 10 stream0); firstn 31 (skipn 40 stream0)].
(* what the handler has not read yet arrives later on the live connection *)
Definition live0 : list bytes := [skipn 71 stream0].

Example handler_decides :
  feed (cwrap reveal0 mark0 hs0 tbl0 R0) (init 3 ts0) (reads0 ++ live0)
  = (HDecided [(TPrefix, WFound r_pfx 68)] (firstn 71 stream0), live0).
Proof. vm_compute. reflexivity. Qed.

(* the replay buffer is exactly data0, and the relay's Up direction delivers data0 ++ more *)
Example replay_is_data0 : skipn 68 (firstn 71 stream0) = data0.
Proof. vm_compute. reflexivity. Qed.

Example up_delivers :
  C05.Model.out_delivered
    (C05.Model.half_pipe_full (up_reads [data0] live0 [] C05.Model.EOF) ok_writes ok_deadlines None None false)
  = data0 ++ more.
Proof. vm_compute. reflexivity. Qed.

(* the theorem instance: any segmentation, any chunking of replay and live stream *)
Example any_segmentation_any_chunking :
  forall reads, concat reads = fl_pfx ++ (data0 ++ more) ->
    exists b rest cs,
      feed (cwrap reveal0 mark0 hs0 tbl0 R0) (init 3 ts0) reads = (HDecided cs b, rest) /\
      cs <> [] /\ Forall (fun x => x = (TPrefix, WFound r_pfx 68)) cs /\
      (forall rchunks live last e cdst csrc cf,
          concat rchunks = skipn 68 b -> concat live ++ last = concat rest ->
          C05.Model.out_delivered
            (C05.Model.half_pipe_full (up_reads rchunks live last e) ok_writes ok_deadlines cdst csrc cf) = data0 ++ more) /\
      (forall chunks last e cdst csrc cf,
          C05.Model.out_delivered
            (C05.Model.half_pipe_full (down_reads chunks last e) ok_writes ok_deadlines cdst csrc cf) = concat chunks ++ last).
Proof.
  intros reads H.
  assert (Hfl : client_flight reveal0 mark0 hs0 tbl0 R0 TPrefix r_pfx fl_pfx (data0 ++ more)).
  { exists {| p_id := 1; p_static := GET; p_off := 4; p_min := 68; p_max := 68 |}, (repeat 1%N 32 ++ r_ident r_pfx).
    repeat split; try reflexivity. cbn. auto. }
  assert (Hun : unambiguous reveal0 mark0 hs0 tbl0 R0 ts0 TPrefix r_pfx fl_pfx (fl_pfx ++ (data0 ++ more))).
  { apply (C04.ProofsHyp.unambiguousb_sound reveal0 mark0 hs0). vm_compute. reflexivity. }
  apply (C04_relay_gets_rest reveal0 mark0 hs0 tbl0 R0 3 ts0 TPrefix r_pfx fl_pfx (data0 ++ more) reads tbl0_wf);
    [reflexivity|cbn; lia|cbn; auto|exact Hfl|exact Hun|exact H].
Qed.

(* the whole relay under the round-robin schedule: the covert's reply "ok!" in two chunks *)
Definition reply0 : list bytes := [[111; 107]%N; [33]%N].
Definition su0 : C05.Model.tscript :=
  {| C05.Model.t_reads := up_reads [data0] live0 [] C05.Model.EOF; C05.Model.t_writes := ok_writes;
     C05.Model.t_dls := ok_deadlines; C05.Model.t_cdst := None; C05.Model.t_csrc := None; C05.Model.t_csrc_blocks := false |}.
Definition sd0 : C05.Model.tscript :=
  {| C05.Model.t_reads := ok_reads reply0; C05.Model.t_writes := ok_writes;
     C05.Model.t_dls := ok_deadlines; C05.Model.t_cdst := None; C05.Model.t_csrc := None; C05.Model.t_csrc_blocks := false |}.
(* Down is scheduled until both chunks of the reply are through (10 calls), then Up runs to its end
   (the client's EOF tears the relay down), then everybody in turn *)
Definition sched0 : list C05.Model.tid :=
  repeat C05.Model.TDown 10 ++ repeat C05.Model.TUp 20 ++ C05.Model.round_robin 40.

Example whole_relay :
  let c := C05.Model.run (C05.Model.init_cfg 0 su0 sd0) sched0 in
  C05.Model.finished c = true /\
  C05.Model.delivered (C05.Model.th_acc (C05.Model.up c)) = data0 ++ more /\
  C05.Model.delivered (C05.Model.th_acc (C05.Model.down c)) = [111; 107; 33]%N.
Proof. vm_compute. repeat split; reflexivity. Qed.
