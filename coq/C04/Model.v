(* C04 (shared with C03): the station's connection handler of cmd/application/conns.go
   (handleNewTCPConn) and the three wrapping transports it consults
   (pkg/transports/wrapping/{min,prefix,obfs4}).  Definitions only; executable.

   What is modelled
   - the registry view a connection sees: the *valid* registrations of the phantom
     (RegistrationManager.GetRegistrations), keyed by identifier, plus the number of
     tracked registrations (CountRegistrations, valid or not);
   - WrapConnection of min / prefix / obfs4 as functions of the bytes buffered so far;
   - the read loop: accumulate, offer the buffer to every remaining transport, drop the
     ones that answer "not this transport", drain when none is left or when the phantom
     has no registration, stop at the first decisive answer;
   - a clocked runner over a peer script (arrival instants and chunks) with the
     classification deadline D as an input: the action trace of the handler.

   What is a parameter (Section variable): the cryptography.  `reveal` is
   Obfuscator.TryReveal under the station keys, `mark` is obfs4's generateMark for a
   registration's keys, `hs_ok` is the outcome of the obfs4 library's server handshake. *)
From CJ Require Export Common.Base.
Local Open Scope nat_scope.

(* ------------------------------------------------------------------ registry view *)

Inductive ttype := KMin | KObfs4 | KPrefix | KDtls | KOther.   (* DecoyRegistration.TransportType() *)

Definition ttype_eqb (a b : ttype) : bool :=
  match a, b with
  | KMin, KMin | KObfs4, KObfs4 | KPrefix, KPrefix | KDtls, KDtls | KOther, KOther => true
  | _, _ => false
  end.

Record reginfo := {
  r_ident : bytes;        (* key under which the registry stores it (Transport.GetIdentifier) *)
  r_tt : ttype;           (* TransportType() *)
  r_pid : option Z        (* Some id iff TransportParams() is a non-nil *PrefixTransportParams *)
}.

Definition reginfo_eqb (a b : reginfo) : bool :=
  bytes_eqb (r_ident a) (r_ident b) && ttype_eqb (r_tt a) (r_tt b) &&
  option_eqb Z.eqb (r_pid a) (r_pid b).

(* GetRegistrations(phantom): a map identifier -> registration; a list with first-match lookup *)
Definition registry := list reginfo.

Fixpoint lookup (id : bytes) (R : registry) : option reginfo :=
  match R with
  | [] => None
  | r :: R' => if bytes_eqb (r_ident r) id then Some r else lookup id R'
  end.

(* getReg: the first revealed identifier (one per station key) that is registered *)
Fixpoint first_reg (ids : list bytes) (R : registry) : option reginfo :=
  match ids with
  | [] => None
  | id :: ids' => match lookup id R with Some r => Some r | None => first_reg ids' R end
  end.

(* ------------------------------------------------------------------ WrapConnection results *)

Inductive tid := TMin | TObfs4 | TPrefix.      (* the wrapping transports of cmd/application/main.go *)

Definition tid_eqb (a b : tid) : bool :=
  match a, b with TMin, TMin | TObfs4, TObfs4 | TPrefix, TPrefix => true | _, _ => false end.

Inductive werr := EIncorrectPrefix | EIncorrectTransport | EHandshake.

Inductive wres :=
| TryAgain                                  (* transports.ErrTryAgain *)
| NotTransport                              (* transports.ErrNotTransport *)
| WErr (e : werr)                           (* any other error: the handler gives up *)
| WFound (r : reginfo) (consumed : nat)     (* nil error: registration + bytes taken off the buffer *)
| WPanic.                                   (* Go would index past the buffered bytes *)

Definition is_decisive (w : wres) : bool :=
  match w with TryAgain | NotTransport => false | _ => true end.
Definition is_not_transport (w : wres) : bool :=
  match w with NotTransport => true | _ => false end.

(* ------------------------------------------------------------------ min *)

Definition min_tag_len : nat := 32.

Definition wrap_min (R : registry) (b : bytes) : wres :=
  if length b <? min_tag_len then TryAgain
  else match lookup (firstn min_tag_len b) R with
       | Some r => WFound r min_tag_len
       | None => NotTransport
       end.

(* ------------------------------------------------------------------ prefix *)

Record pfx := {
  p_id : Z;              (* PrefixID *)
  p_static : bytes;      (* StaticMatch *)
  p_off : nat;           (* Offset *)
  p_min : nat;           (* MinLen *)
  p_max : nat            (* MaxLen *)
}.

Definition tag_len : nat := 64.               (* prefix.minTagLength *)

Inductive pres := PSkip | PAgain | PWrong | PBadT | PFound (r : reginfo) (consumed : nat) | PPanic.

Definition static_matches (p : pfx) (b : bytes) : bool :=
  match p_static p with
  | [] => true
  | s => let m := Nat.min (length s) (length b) in bytes_eqb (firstn m s) (firstn m b)
  end.

Definition window (p : pfx) (b : bytes) : bytes := firstn tag_len (skipn (p_off p) b).

Section Crypto.
  Variable reveal : bytes -> list bytes.        (* TryReveal(window, k) for every station key k; errors dropped *)
  Variable mark : reginfo -> bytes -> bytes.    (* generateMark(keys of r, representative) *)
  Variable hs_ok : reginfo -> bytes -> bool.    (* obfs4 server handshake on the buffered bytes succeeds *)

  (* one iteration of the loop over SupportedPrefixes in tryFindReg *)
  Definition classify (p : pfx) (R : registry) (b : bytes) : pres :=
    let n := length b in
    if negb (static_matches p b) then PSkip
    else if n <? p_min p then PAgain
    else if (n <? p_off p + tag_len) && (n <? p_max p) then PAgain
    else if n <? p_max p then PSkip
    else if n <? p_off p + tag_len then PPanic
    else match first_reg (reveal (window p b)) R with
         | None => PSkip
         | Some r =>
           if negb (ttype_eqb (r_tt r) KPrefix) then PBadT
           else match r_pid r with
                | Some pid => if Z.eqb pid (p_id p) then PFound r (p_off p + tag_len) else PWrong
                | None => PWrong
                end
         end.

  Definition pres_decisive (x : pres) : bool :=
    match x with PFound _ _ | PBadT | PPanic => true | _ => false end.
  Definition pres_again (x : pres) : bool := match x with PAgain => true | _ => false end.
  Definition pres_wrong (x : pres) : bool := match x with PWrong => true | _ => false end.

  (* tryFindReg returns from inside the loop at the first registration it can use or that has
     another transport type; the table is visited in the order given (Go's map order is
     arbitrary: the theorems hold for every order of the table) *)
  Definition wrap_prefix (tbl : list pfx) (R : registry) (b : bytes) : wres :=
    if length b <? tag_len then TryAgain
    else let rs := map (fun p => classify p R b) tbl in
         match find pres_decisive rs with
         | Some (PFound r c) => WFound r c
         | Some PBadT => WErr EIncorrectTransport
         | Some _ => WPanic
         | None => if existsb pres_again rs then TryAgain
                   else if existsb pres_wrong rs then WErr EIncorrectPrefix
                   else NotTransport
         end.

  (* ---------------------------------------------------------------- obfs4 *)

  Definition obfs4_min_handshake : nat := 64.    (* ClientMinHandshakeLength *)
  Definition obfs4_mark_start : nat := 109.      (* RepresentativeLength + ClientMinPadLength *)
  Definition obfs4_max_handshake : nat := N.to_nat 8192%N.  (* MaxHandshakeLength *)
  Definition obfs4_mark_len : nat := 16.
  Definition obfs4_mac_len : nat := 16.
  Definition obfs4_ident_len : nat := 52.        (* ntor public key + node id *)

  (* findMarkMac(mark, buf, start, max, fromTail = true) <> -1 *)
  Definition mark_at_tail (m : bytes) (b : bytes) : bool :=
    let e := Nat.min (length b) obfs4_max_handshake in
    (obfs4_mark_start <=? length b) &&
    (obfs4_mark_len + obfs4_mac_len <=? e - obfs4_mark_start) &&
    bytes_eqb (firstn obfs4_mark_len (skipn (e - (obfs4_mark_len + obfs4_mac_len)) b)) m.

  Definition obfs4_candidate (r : reginfo) : bool := length (r_ident r) =? obfs4_ident_len.

  Definition wrap_obfs4 (R : registry) (b : bytes) : wres :=
    if length b <? obfs4_min_handshake then TryAgain
    else let rep := firstn 32 b in
         match find (fun r => obfs4_candidate r && mark_at_tail (mark r rep) b) R with
         | Some r => if hs_ok r b then WFound r (length b) else WErr EHandshake
         | None => if length b <? obfs4_max_handshake then TryAgain else NotTransport
         end.

  Definition cwrap (tbl : list pfx) (R : registry) (t : tid) (b : bytes) : wres :=
    match t with
    | TMin => wrap_min R b
    | TObfs4 => wrap_obfs4 R b
    | TPrefix => wrap_prefix tbl R b
    end.
End Crypto.

(* well-formedness of the prefix table (re-checked on the table dumped from the running code) *)
Definition pfx_wfb (p : pfx) : bool :=
  (p_min p =? p_off p + tag_len) && (p_max p =? p_off p + tag_len) && (p_off p =? length (p_static p)).

Fixpoint nodup_idsb (l : list Z) : bool :=
  match l with
  | [] => true
  | x :: l' => negb (existsb (Z.eqb x) l') && nodup_idsb l'
  end.

Definition prefix_table_wfb (tbl : list pfx) : bool :=
  forallb pfx_wfb tbl && nodup_idsb (map p_id tbl).

(* ------------------------------------------------------------------ the handler *)

Section Handler.
  Variable wrap : tid -> bytes -> wres.       (* WrapConnection of transport t on the buffered bytes *)

  Definition read_cap : nat := N.to_nat 4096%N.          (* var buf [4096]byte *)

  Inductive hstate :=
  | HLoop (ts : list tid) (buf : bytes)       (* in the read loop, ts = possibleTransports (non-empty) *)
  | HDrain                                    (* io.Copy(io.Discard, clientConn) until the deadline *)
  | HDecided (cands : list (tid * wres)) (buf : bytes).
      (* some transport gave a decisive answer on buf.  Go ranges over a map, so if several
         transports are decisive on the same buffer any of them may be the one that is met first;
         cands lists them all (in practice one). *)

  Definition results (ts : list tid) (buf : bytes) : list (tid * wres) :=
    map (fun t => (t, wrap t buf)) ts.

  Definition init (tracked : nat) (ts : list tid) : hstate :=
    if tracked <? 1 then HDrain
    else match ts with [] => HDrain | _ => HLoop ts [] end.

  (* one successful Read of `chunk` *)
  Definition on_read (st : hstate) (chunk : bytes) : hstate :=
    match st with
    | HLoop ts buf =>
      let buf' := buf ++ chunk in
      let rs := results ts buf' in
      match filter (fun x => is_decisive (snd x)) rs with
      | [] => match map fst (filter (fun x => negb (is_not_transport (snd x))) rs) with
              | [] => HDrain
              | ts' => HLoop ts' buf'
              end
      | cs => HDecided cs buf'
      end
    | _ => st
    end.

  (* the handler on a list of read results; the reads it did not consume are returned *)
  Fixpoint feed (st : hstate) (reads : list bytes) : hstate * list bytes :=
    match reads with
    | [] => (st, [])
    | c :: rs => match st with
                 | HDecided _ _ => (st, reads)
                 | _ => feed (on_read st c) rs
                 end
    end.

  (* same, keeping the WrapConnection results of every loop iteration (for the correspondence) *)
  Fixpoint feed_log (st : hstate) (reads : list bytes) : list (nat * list (tid * wres)) :=
    match reads with
    | [] => []
    | c :: rs => match st with
                 | HLoop ts buf => (length (buf ++ c), results ts (buf ++ c)) :: feed_log (on_read st c) rs
                 | HDrain => feed_log st rs
                 | HDecided _ _ => []
                 end
    end.

  (* what the relay reads once transport t found r: the unconsumed part of the buffer, then the
     live connection *)
  Definition relay_stream (consumed : nat) (buf : bytes) (rest : list bytes) : bytes :=
    skipn consumed buf ++ concat rest.

  (* ---------------------------------------------------------------- clocked runner *)

  Inductive rerr := REof | RReset | ROther.   (* io.EOF / ECONNRESET / anything else a Read may return *)

  Inductive action :=
  | ASetDeadline (d : N)            (* clientConn.SetDeadline(now + timeout) *)
  | ARead (t : N) (n : nat)         (* a Read returned n bytes at instant t *)
  | ATimeout (t : N)                (* a Read returned the deadline error at instant t *)
  | AReadErr (t : N) (e : rerr)     (* a Read returned another error at instant t: the peer closed or reset *)
  | ASleep (t d : N)                (* time.Sleep(d) started at t: the connection is not read *)
  | AClearDeadline                  (* wrapped.SetDeadline(time.Time{}) *)
  | AMarkActive (r : reginfo)       (* regManager.MarkActive(reg) *)
  | ARelay (r : reginfo) (replay : bytes)   (* cj.Proxy: from here on bytes may be written to the peer *)
  | AReturn (t : N).                (* the handler returns (its caller closes the connection) *)

  Variable drain_cap : nat.         (* buffer size of io.Copy into io.Discard (8192 in Go 1.23) *)

  Definition cap_of (st : hstate) : nat :=
    match st with HLoop _ _ => read_cap | _ => Nat.max 1 drain_cap end.

  (* the bytes that arrived at instant `now` are read with the current buffer size until none is
     left or a transport is decisive; fuel = length pending suffices *)
  Fixpoint feed_now (fuel : nat) (now : N) (st : hstate) (pending : bytes) : hstate * list action * bytes :=
    match fuel with
    | O => (st, [], pending)
    | S f =>
      match pending with
      | [] => (st, [], [])
      | _ => match st with
             | HDecided _ _ => (st, [], pending)
             | _ => let c := firstn (cap_of st) pending in
                    let '(st', tr, u) := feed_now f now (on_read st c) (skipn (cap_of st) pending) in
                    (st', ARead now (length c) :: tr, u)
             end
      end
    end.

  Definition finish (D now : N) (cands : list (tid * wres)) (buf unread : bytes) : list action :=
    match cands with
    | (_, WFound r c) :: _ => [AClearDeadline; AMarkActive r; ARelay r (skipn c buf ++ unread)]
    | _ => [ASleep now (D - now)%N; AReturn (N.max now D)]
    end.

  Fixpoint run_script (D now : N) (st : hstate) (script : list (N * bytes)) : list action :=
    match script with
    | [] => [ATimeout D; AReturn D]
    | (t, c) :: rest =>
      if (D <=? t)%N then [ATimeout D; AReturn D]
      else let now' := N.max now t in
           let '(st', tr, unread) := feed_now (length c) now' st c in
           match st' with
           | HDecided cs buf => tr ++ finish D now' cs buf unread
           | _ => tr ++ run_script D now' st' rest
           end
    end.

  Definition run (D : N) (tracked : nat) (ts : list tid) (script : list (N * bytes)) : list action :=
    ASetDeadline D :: run_script D 0%N (init tracked ts) script.

  (* the same when the peer ends its script itself: at instant tf (after its last chunk) it closes
     (FIN) or resets the connection, so the Read that follows its data returns an error instead of
     waiting for the deadline.  Every Read-error branch of the loop returns; io.Copy into
     io.Discard returns on the error too (on EOF with a nil error): the handler returns at once. *)
  Fixpoint run_script_end (D now : N) (st : hstate) (script : list (N * bytes)) (tf : N) (e : rerr) : list action :=
    match script with
    | [] => if (D <=? tf)%N then [ATimeout D; AReturn D]
            else [AReadErr (N.max now tf) e; AReturn (N.max now tf)]
    | (t, c) :: rest =>
      if (D <=? t)%N then [ATimeout D; AReturn D]
      else let now' := N.max now t in
           let '(st', tr, unread) := feed_now (length c) now' st c in
           match st' with
           | HDecided cs buf => tr ++ finish D now' cs buf unread
           | _ => tr ++ run_script_end D now' st' rest tf e
           end
    end.

  Definition run_end (D : N) (tracked : nat) (ts : list tid) (script : list (N * bytes)) (tf : N) (e : rerr) : list action :=
    ASetDeadline D :: run_script_end D 0%N (init tracked ts) script tf e.

  (* observables of a trace *)
  Definition read_by (tr : list action) (tau : N) : nat :=
    fold_right (fun a acc => match a with ARead t n => if (t <=? tau)%N then n + acc else acc | _ => acc end) 0%nat tr.

  Definition arrived_by (script : list (N * bytes)) (tau : N) : nat :=
    fold_right (fun x acc => if (fst x <=? tau)%N then length (snd x) + acc else acc) 0%nat script.

  Definition is_read (a : action) : bool := match a with ARead _ _ => true | _ => false end.
End Handler.

(* ------------------------------------------------------------------ specification vocabulary (C04) *)

Section Spec.
  Variable reveal : bytes -> list bytes.
  Variable mark : reginfo -> bytes -> bytes.
  Variable hs_ok : reginfo -> bytes -> bool.

  (* r is the entry the registry returns for its own identifier *)
  Definition registered (R : registry) (r : reginfo) : Prop := lookup (r_ident r) R = Some r.

  (* the obfs4 registration (if any) whose mark sits at the tail of the buffer *)
  Definition obfs4_hit (R : registry) (rep b : bytes) : option reginfo :=
    find (fun r => obfs4_candidate r && mark_at_tail (mark r rep) b) R.

  (* a first flight `fl` that a client holding registration r sends with transport t, followed by
     early application data `data`:
     min     the 32-byte identifier;
     prefix  the static bytes of a table row, then a 64-byte obfuscated tag that the station's
             keys reveal to r's identifier; the registration's parameters name that row;
     obfs4   a handshake of admissible length whose tail carries r's mark and which the obfs4
             library accepts; the client cannot send data before the server's reply. *)
  Definition client_flight (tbl : list pfx) (R : registry) (t : tid) (r : reginfo) (fl data : bytes) : Prop :=
    match t with
    | TMin => fl = r_ident r /\ length fl = min_tag_len
    | TPrefix => exists p tag, In p tbl /\ fl = p_static p ++ tag /\ length tag = tag_len /\
                               first_reg (reveal tag) R = Some r /\ r_tt r = KPrefix /\
                               r_pid r = Some (p_id p)
    | TObfs4 => data = [] /\ obfs4_min_handshake <= length fl <= obfs4_max_handshake /\
                obfs4_hit R (firstn 32 fl) fl = Some r /\ hs_ok r fl = true
    end.

  (* nobody else claims the stream: the negligible-probability events (an HMAC output, a revealed
     window or an obfs4 mark colliding with a registered value) are excluded explicitly.  Decidable
     for a concrete stream; evaluated on every recorded case. *)
  Definition unambiguous (tbl : list pfx) (R : registry) (ts : list tid) (t : tid) (r : reginfo)
             (fl s : bytes) : Prop :=
    (forall t' k, In t' ts -> t' <> t -> k <= length s ->
                  is_decisive (cwrap reveal mark hs_ok tbl R t' (firstn k s)) = false) /\
    match t with
    | TMin => True
    | TPrefix => forall p' k, In p' tbl -> k <= length s ->
                   pres_decisive (classify reveal p' R (firstn k s)) = true ->
                   classify reveal p' R (firstn k s) = PFound r (length fl)
    | TObfs4 => forall k, k < length s -> obfs4_hit R (firstn 32 s) (firstn k s) = None
    end.
End Spec.

(* ------------------------------------------------------------------ peer scripts *)

(* the bytes of a peer script, in order *)
Definition stream_of (script : list (N * bytes)) : bytes := concat (map snd script).

(* every chunk arrives before the deadline D, at instants that never decrease *)
Fixpoint in_time (D now : N) (script : list (N * bytes)) : Prop :=
  match script with
  | [] => True
  | x :: rest => (now <= fst x)%N /\ (fst x < D)%N /\ in_time D (fst x) rest
  end.

(* ------------------------------------------------------------------ the hypotheses of C04, decided *)

Section SpecB.
  Variable reveal : bytes -> list bytes.
  Variable mark : reginfo -> bytes -> bytes.
  Variable hs_ok : reginfo -> bytes -> bool.

  Definition option_reg_is (o : option reginfo) (r : reginfo) : bool :=
    match o with Some x => reginfo_eqb x r | None => false end.

  Definition registeredb (R : registry) (r : reginfo) : bool := option_reg_is (lookup (r_ident r) R) r.

  Definition client_flightb (tbl : list pfx) (R : registry) (t : tid) (r : reginfo) (fl data : bytes) : bool :=
    match t with
    | TMin => bytes_eqb fl (r_ident r) && (length fl =? min_tag_len)
    | TPrefix =>
      existsb (fun p => bytes_eqb (firstn (length (p_static p)) fl) (p_static p) &&
                        (length fl =? length (p_static p) + tag_len) &&
                        option_reg_is (first_reg (reveal (skipn (length (p_static p)) fl)) R) r &&
                        ttype_eqb (r_tt r) KPrefix && option_eqb Z.eqb (r_pid r) (Some (p_id p))) tbl
    | TObfs4 => match data with [] => true | _ => false end &&
                (obfs4_min_handshake <=? length fl) && (length fl <=? obfs4_max_handshake) &&
                option_reg_is (obfs4_hit mark R (firstn 32 fl) fl) r && hs_ok r fl
    end.

  Definition pres_is_found (x : pres) (r : reginfo) (c : nat) : bool :=
    match x with PFound r' c' => reginfo_eqb r' r && (c' =? c) | _ => false end.

  Definition unambiguousb (tbl : list pfx) (R : registry) (ts : list tid) (t : tid) (r : reginfo)
             (fl s : bytes) : bool :=
    let ks := seq 0 (S (length s)) in
    forallb (fun t' => tid_eqb t' t ||
                       forallb (fun k => negb (is_decisive (cwrap reveal mark hs_ok tbl R t' (firstn k s)))) ks) ts &&
    match t with
    | TMin => true
    | TPrefix => forallb (fun p' => forallb (fun k => let x := classify reveal p' R (firstn k s) in
                                                     negb (pres_decisive x) || pres_is_found x r (length fl)) ks) tbl
    | TObfs4 => forallb (fun k => match obfs4_hit mark R (firstn 32 s) (firstn k s) with None => true | Some _ => false end)
                        (seq 0 (length s))
    end.

  (* all hypotheses of C04_segmentation_invariance for one flight *)
  Definition flight_hypsb (tbl : list pfx) (R : registry) (tracked : nat) (ts : list tid) (t : tid)
             (r : reginfo) (fl data : bytes) : bool :=
    prefix_table_wfb tbl && registeredb R r && (length R <=? tracked) && existsb (tid_eqb t) ts &&
    client_flightb tbl R t r fl data && unambiguousb tbl R ts t r fl (fl ++ data).
End SpecB.
