(* C04: the hand-over from the connection handler to the relay (cj.Proxy), in the vocabulary of
   C05's relay model (coq/C05/Model.v).  Definitions only.

   When a transport finds the registration, WrapConnection returns
   transports.PrependToConn(clientConn, &received): a PrefixConn whose Read is an
   io.MultiReader(buffered bytes, live connection).  The relay's Up direction (halfPipe with
   src = that connection) therefore sees, as the results of its successive Reads,
     - first the bytes that were read together with the tag but not consumed by the transport
       (`skipn consumed buf`), in one or more Reads none of which carries an error (a
       bytes.Buffer returns (n, nil) while it has data; MultiReader moves on to the live
       connection only when the buffer answers (0, EOF)) - nothing if there are none;
     - then whatever the live connection returns.
   The Down direction writes to the PrefixConn, whose Write is the live connection's. *)
From CJ Require Import Common.Base C04.Model.
From CJ Require C05.Model.

(* Read results without error for a list of chunks *)
Definition ok_reads (chunks : list bytes) : C05.Model.rscript :=
  map (fun c => (c, @None C05.Model.gerr)) chunks.

(* the Up direction's read script after the hand-over: the replay of the buffered bytes (in any
   chunking `rchunks`), then the live connection's results: chunks `live` without error and a last
   Read that carries the end of the stream (EOF, reset, ...), possibly together with data *)
Definition up_reads (rchunks live : list bytes) (last : bytes) (e : C05.Model.gerr) : C05.Model.rscript :=
  ok_reads (rchunks ++ live) ++ [(last, Some e)].

(* the Down direction's read script: the covert's reply in any chunking, then the end of its stream *)
Definition down_reads (chunks : list bytes) (last : bytes) (e : C05.Model.gerr) : C05.Model.rscript :=
  ok_reads chunks ++ [(last, Some e)].

(* fault-free sink and deadlines: every Write accepts everything (empty write script), every
   SetDeadline succeeds (empty deadline script) *)
Definition ok_writes : C05.Model.wscript := [].
Definition ok_deadlines : C05.Model.dscript := [].
