(* C04: the three transports answer TryAgain below their threshold and Found from it on;
   composition with the loop lemma into segmentation invariance. *)
From CJ Require Import Common.Base Common.BaseProofs C04.Model C04.Proofs.
From Coq Require Import Lia Arith.
Local Open Scope nat_scope.

Lemma firstn_length_le {A} (l : list A) k : k <= length l -> length (firstn k l) = k.
Proof. intros. rewrite firstn_length. lia. Qed.

Lemma firstn_firstn_le {A} (l : list A) i j : i <= j -> firstn i (firstn j l) = firstn i l.
Proof. intros. rewrite firstn_firstn. f_equal. lia. Qed.

Lemma big_consts : obfs4_min_handshake <= obfs4_max_handshake /\ 1 <= read_cap.
Proof. split; apply Nat.leb_le; vm_compute; reflexivity. Qed.

Section T.
  Variable reveal : bytes -> list bytes.
  Variable mark : reginfo -> bytes -> bytes.
  Variable hs_ok : reginfo -> bytes -> bool.

  (* ---------------------------------------------------------------- min *)

  Lemma min_again R s k : k < min_tag_len -> wrap_min R (firstn k s) = TryAgain.
  Proof.
    intros Hk. unfold wrap_min.
    assert (L : length (firstn k s) < min_tag_len) by (rewrite firstn_length; lia).
    apply Nat.ltb_lt in L. now rewrite L.
  Qed.

  Lemma min_found R r s k :
    lookup (firstn min_tag_len s) R = Some r -> min_tag_len <= k -> k <= length s ->
    wrap_min R (firstn k s) = WFound r min_tag_len.
  Proof.
    intros Hl Hk Hs. unfold wrap_min.
    rewrite firstn_length_le by assumption.
    destruct (k <? min_tag_len) eqn:E; [apply Nat.ltb_lt in E; lia|].
    rewrite firstn_firstn_le by assumption. now rewrite Hl.
  Qed.

  (* ---------------------------------------------------------------- prefix *)

  Lemma pfx_wfb_spec p : pfx_wfb p = true ->
    p_min p = p_off p + tag_len /\ p_max p = p_off p + tag_len /\ p_off p = length (p_static p).
  Proof.
    unfold pfx_wfb. intros H. apply andb_true_iff in H as [H H3]. apply andb_true_iff in H as [H1 H2].
    apply Nat.eqb_eq in H1, H2, H3. auto.
  Qed.

  Lemma wf_in tbl p : prefix_table_wfb tbl = true -> In p tbl -> pfx_wfb p = true.
  Proof.
    unfold prefix_table_wfb. intros H Hi. apply andb_true_iff in H as [H _].
    rewrite forallb_forall in H. auto.
  Qed.

  Lemma nodup_idsb_sound l : nodup_idsb l = true -> NoDup l.
  Proof.
    induction l as [|x l IH]; intros H; [constructor|]. cbn in H. apply andb_true_iff in H as [H1 H2].
    constructor; [|now apply IH]. intros Hin. apply Bool.negb_true_iff in H1.
    assert (E : existsb (Z.eqb x) l = true) by (apply existsb_exists; exists x; split; [assumption|apply Z.eqb_refl]).
    congruence.
  Qed.

  Lemma prefix_table_wf_sound tbl : prefix_table_wfb tbl = true ->
    (forall p, In p tbl -> p_min p = p_off p + tag_len /\ p_max p = p_off p + tag_len /\ p_off p = length (p_static p)) /\
    NoDup (map p_id tbl).
  Proof.
    intros H. split.
    - intros p Hp. apply pfx_wfb_spec. eapply wf_in; eauto.
    - unfold prefix_table_wfb in H. apply andb_true_iff in H as [_ H]. now apply nodup_idsb_sound.
  Qed.

  Lemma static_own st rest k :
    let b := firstn k (st ++ rest) in
    let m := Nat.min (length st) (length b) in
    bytes_eqb (firstn m st) (firstn m b) = true.
  Proof.
    intros b m. apply bytes_eqb_eq. subst b.
    assert (Hm1 : m <= length st) by (subst m; lia).
    assert (Hm2 : m <= k).
    { subst m. rewrite firstn_length. lia. }
    rewrite firstn_firstn_le by assumption.
    rewrite firstn_app. replace (m - length st) with 0 by lia. cbn. now rewrite app_nil_r.
  Qed.

  Lemma static_matches_own p rest k : static_matches p (firstn k (p_static p ++ rest)) = true.
  Proof.
    unfold static_matches. destruct (p_static p) as [|x l] eqn:E; [reflexivity|].
    apply (static_own (x :: l) rest k).
  Qed.

  Lemma classify_found_len p R b r c : classify reveal p R b = PFound r c -> c <= length b.
  Proof.
    unfold classify. intros H.
    destruct (negb (static_matches p b)); [discriminate|].
    destruct (length b <? p_min p); [discriminate|].
    destruct ((length b <? p_off p + tag_len) && (length b <? p_max p)); [discriminate|].
    destruct (length b <? p_max p); [discriminate|].
    destruct (length b <? p_off p + tag_len) eqn:E; [discriminate|].
    apply Nat.ltb_ge in E.
    destruct (first_reg (reveal (window p b)) R) as [r'|]; [|discriminate].
    destruct (negb (ttype_eqb (r_tt r') KPrefix)); [discriminate|].
    destruct (r_pid r') as [pid|]; [destruct (Z.eqb pid (p_id p))|]; inversion H; subst; assumption.
  Qed.

  Section OwnPrefix.
    Variables (p : pfx) (tag data : bytes) (R : registry) (r : reginfo).
    Hypothesis Hwf : pfx_wfb p = true.
    Hypothesis Htag : length tag = tag_len.
    Hypothesis Hrev : first_reg (reveal tag) R = Some r.
    Hypothesis Htt : r_tt r = KPrefix.
    Hypothesis Hpid : r_pid r = Some (p_id p).

    Let s := (p_static p ++ tag) ++ data.
    Let m := length (p_static p ++ tag).

    Lemma own_m : m = p_off p + tag_len.
    Proof. destruct (pfx_wfb_spec p Hwf) as [_ [_ H3]]. unfold m. rewrite app_length. lia. Qed.

    Lemma classify_own_again k : k < m -> classify reveal p R (firstn k s) = PAgain.
    Proof.
      intros Hk. destruct (pfx_wfb_spec p Hwf) as [H1 [H2 H3]]. pose proof own_m as Hm.
      unfold classify. unfold s at 1. rewrite <- app_assoc. rewrite static_matches_own. cbn [negb].
      assert (L : length (firstn k s) < p_min p) by (rewrite firstn_length; lia).
      apply Nat.ltb_lt in L. now rewrite L.
    Qed.

    Lemma window_own k : m <= k -> window p (firstn k s) = tag.
    Proof.
      intros Hk. destruct (pfx_wfb_spec p Hwf) as [H1 [H2 H3]]. pose proof own_m as Hm.
      unfold window, s. rewrite <- app_assoc. rewrite firstn_app.
      rewrite (firstn_all2 (p_static p)) by lia.
      rewrite skipn_app. rewrite skipn_all2 by lia. cbn [app].
      replace (p_off p - length (p_static p)) with 0 by lia. cbn [skipn].
      rewrite firstn_firstn. replace (Nat.min tag_len (k - length (p_static p))) with tag_len by lia.
      rewrite firstn_app. rewrite Htag, Nat.sub_diag, firstn_O, app_nil_r.
      apply firstn_all2. lia.
    Qed.

    Lemma classify_own_found k : m <= k -> k <= length s ->
      classify reveal p R (firstn k s) = PFound r m.
    Proof.
      intros Hk Hs. destruct (pfx_wfb_spec p Hwf) as [H1 [H2 H3]]. pose proof own_m as Hm.
      unfold classify. rewrite (window_own k Hk).
      unfold s at 1. rewrite <- app_assoc. rewrite static_matches_own. cbn [negb].
      rewrite firstn_length_le by assumption.
      destruct (k <? p_min p) eqn:E1; [apply Nat.ltb_lt in E1; lia|].
      destruct (k <? p_off p + tag_len) eqn:E2; [apply Nat.ltb_lt in E2; lia|]. cbn [andb].
      destruct (k <? p_max p) eqn:E3; [apply Nat.ltb_lt in E3; lia|].
      rewrite Hrev, Htt. cbn [ttype_eqb negb]. rewrite <- Hm.
      rewrite Hpid. now rewrite Z.eqb_refl.
    Qed.

    Variable tbl : list pfx.
    Hypothesis Hin : In p tbl.
    Hypothesis Hun : forall p' k, In p' tbl -> k <= length s ->
                       pres_decisive (classify reveal p' R (firstn k s)) = true ->
                       classify reveal p' R (firstn k s) = PFound r m.

    Lemma wrap_prefix_again k : k < m -> wrap_prefix reveal tbl R (firstn k s) = TryAgain.
    Proof.
      intros Hk. unfold wrap_prefix.
      destruct (length (firstn k s) <? tag_len) eqn:E; [reflexivity|].
      assert (Hks : k <= length s) by (unfold s, m in *; rewrite app_length; lia).
      rewrite find_none_iff.
      - erewrite existsb_true_in; [reflexivity| |].
        + apply in_map_iff. exists p. split; [reflexivity|exact Hin].
        + now rewrite classify_own_again.
      - intros y Hy. apply in_map_iff in Hy as [p' [<- Hp']].
        destruct (pres_decisive (classify reveal p' R (firstn k s))) eqn:Ed; [|reflexivity].
        pose proof (Hun p' k Hp' Hks Ed) as Hf. apply classify_found_len in Hf.
        rewrite firstn_length in Hf. lia.
    Qed.

    Lemma wrap_prefix_found k : m <= k -> k <= length s ->
      wrap_prefix reveal tbl R (firstn k s) = WFound r m.
    Proof.
      intros Hk Hs. unfold wrap_prefix. pose proof own_m as Hm.
      rewrite firstn_length_le by assumption.
      destruct (k <? tag_len) eqn:E; [apply Nat.ltb_lt in E; lia|].
      rewrite (find_all_eq _ _ (PFound r m)); [reflexivity| |].
      - intros y Hy Hd. apply in_map_iff in Hy as [p' [<- Hp']]. now apply Hun.
      - exists (PFound r m). split; [|reflexivity].
        apply in_map_iff. exists p. split; [now apply classify_own_found|exact Hin].
    Qed.
  End OwnPrefix.

  (* ---------------------------------------------------------------- obfs4 *)

  Lemma obfs4_again R fl k :
    k < length fl -> length fl <= obfs4_max_handshake ->
    (forall j, j < length fl -> obfs4_hit mark R (firstn 32 fl) (firstn j fl) = None) ->
    wrap_obfs4 mark hs_ok R (firstn k fl) = TryAgain.
  Proof.
    intros Hk Hmax Hno. unfold wrap_obfs4.
    rewrite firstn_length_le by lia.
    destruct (k <? obfs4_min_handshake) eqn:E; [reflexivity|]. apply Nat.ltb_ge in E.
    unfold obfs4_min_handshake in E.
    rewrite firstn_firstn_le by lia.
    fold (obfs4_hit mark R (firstn 32 fl) (firstn k fl)). rewrite Hno by assumption.
    destruct (k <? obfs4_max_handshake) eqn:E2; [reflexivity|]. apply Nat.ltb_ge in E2. lia.
  Qed.

  Lemma obfs4_found R r fl :
    obfs4_min_handshake <= length fl ->
    obfs4_hit mark R (firstn 32 fl) fl = Some r -> hs_ok r fl = true ->
    wrap_obfs4 mark hs_ok R fl = WFound r (length fl).
  Proof.
    intros Hmin Hhit Hhs. unfold wrap_obfs4.
    destruct (length fl <? obfs4_min_handshake) eqn:E; [apply Nat.ltb_lt in E; lia|].
    fold (obfs4_hit mark R (firstn 32 fl) fl). now rewrite Hhit, Hhs.
  Qed.

  (* ---------------------------------------------------------------- composition *)

  Lemma lookup_some_nonempty id R r : lookup id R = Some r -> 1 <= length R.
  Proof. destruct R; [discriminate|cbn; lia]. Qed.

  Lemma first_reg_some_nonempty ids R r : first_reg ids R = Some r -> 1 <= length R.
  Proof.
    induction ids as [|i ids IH]; [discriminate|]. cbn.
    destruct (lookup i R) eqn:E; [intros _; eapply lookup_some_nonempty; eauto|exact IH].
  Qed.

  (* several station keys: the registration is found whatever the position of the key the client
     obfuscated its tag to, provided the identifiers revealed under the earlier keys are not registered *)
  Lemma first_reg_any_position pre id post R r :
    (forall x, In x pre -> lookup x R = None) -> lookup id R = Some r ->
    first_reg (pre ++ id :: post) R = Some r.
  Proof.
    intros Hpre Hid. induction pre as [|x pre IH]; cbn.
    - now rewrite Hid.
    - rewrite (Hpre x) by now left. apply IH. intros y Hy. apply Hpre. now right.
  Qed.

  Theorem segmentation_invariance :
    forall tbl R tracked ts t r fl data reads,
      prefix_table_wfb tbl = true ->
      registered R r -> length R <= tracked -> In t ts ->
      client_flight reveal mark hs_ok tbl R t r fl data ->
      unambiguous reveal mark hs_ok tbl R ts t r fl (fl ++ data) ->
      concat reads = fl ++ data ->
      exists b rest cs,
        feed (cwrap reveal mark hs_ok tbl R) (init tracked ts) reads = (HDecided cs b, rest) /\
        cs <> [] /\ Forall (fun x => x = (t, WFound r (length fl))) cs /\
        relay_stream (length fl) b rest = data.
  Proof.
    intros tbl R tracked ts t r fl data reads Hwf Hreg Htr Hin Hfl [Hoth Hown] Hcat.
    assert (Htr1 : 1 <= tracked) by (unfold registered in Hreg; apply lookup_some_nonempty in Hreg; lia).
    set (s := fl ++ data) in *.
    assert (Hgen : forall m, 0 < m -> m <= length s -> m = length fl ->
              (forall k, k < m -> cwrap reveal mark hs_ok tbl R t (firstn k s) = TryAgain) ->
              (forall k, m <= k -> k <= length s -> cwrap reveal mark hs_ok tbl R t (firstn k s) = WFound r m) ->
              exists b rest cs,
                feed (cwrap reveal mark hs_ok tbl R) (init tracked ts) reads = (HDecided cs b, rest) /\
                cs <> [] /\ Forall (fun x => x = (t, WFound r (length fl))) cs /\
                relay_stream (length fl) b rest = data).
    { intros m Hm0 Hm Hmfl Hag Hfo.
      destruct (handler_reaches_found (cwrap reveal mark hs_ok tbl R) t r m m s ts Hin Hm0 Hm Hag Hfo Hoth
                  tracked reads Htr1 Hcat) as [b [rest [cs [Hfeed [Hb [Hlen [Hne Hall]]]]]]].
      exists b, rest, cs. rewrite <- Hmfl. repeat split; try assumption.
      rewrite (relay_after_found m s b rest); [|lia|assumption].
      unfold s. rewrite Hmfl. rewrite skipn_app, Nat.sub_diag, skipn_all. reflexivity. }
    destruct t; cbn [client_flight] in Hfl; cbn [cwrap] in Hgen.
    - (* min *)
      destruct Hfl as [Hid Hlen].
      apply (Hgen (length fl)).
      + rewrite Hlen. unfold min_tag_len. lia.
      + unfold s. rewrite app_length. lia.
      + reflexivity.
      + intros k Hk. apply min_again. lia.
      + intros k Hk Hs. rewrite Hlen. apply min_found; [|lia|assumption].
        unfold s. rewrite <- Hlen. rewrite firstn_app, Nat.sub_diag, firstn_all. cbn. rewrite app_nil_r.
        rewrite Hid. exact Hreg.
    - (* obfs4 *)
      destruct Hfl as [Hdata [[Hmin Hmax] [Hhit Hhs]]]. subst data.
      assert (Es : s = fl) by (unfold s; apply app_nil_r).
      cbn [unambiguous] in Hown. rewrite Es in *.
      apply (Hgen (length fl)).
      + unfold obfs4_min_handshake in Hmin. lia.
      + lia.
      + reflexivity.
      + intros k Hk. apply obfs4_again; assumption.
      + intros k Hk Hs. assert (k = length fl) by lia. subst k. rewrite firstn_all.
        apply obfs4_found; assumption.
    - (* prefix *)
      destruct Hfl as [p [tag [Hp [Hfl [Htag [Hrev [Htt Hpid]]]]]]].
      pose proof (wf_in tbl p Hwf Hp) as Hwfp.
      cbn [unambiguous] in Hown. subst fl.
      apply (Hgen (length (p_static p ++ tag))).
      + rewrite app_length, Htag. unfold tag_len. lia.
      + unfold s. rewrite !app_length. lia.
      + reflexivity.
      + intros k Hk. apply (wrap_prefix_again p tag data R r Hwfp Htag tbl Hp Hown k Hk).
      + intros k Hk Hs. apply (wrap_prefix_found p tag data R r Hwfp Htag Hrev Htt Hpid tbl Hp Hown k Hk Hs).
  Qed.
End T.
