(* C04, fifth round: every legal obfs4 client padding length is recognised; the handler's
   source-address gate (getRemoteAsIP) lets every IP peer through. *)
From CJ Require Import Common.Base Common.BaseProofs C04.Model.
Require Import List Lia Arith NArith Bool.
Import ListNotations.
Local Open Scope nat_scope.

(* a client handshake  X' | P_C | M_C | MAC  (what the obfs4 client writes as its first flight) *)
Definition obfs4_flight (rep pad m mac : bytes) : bytes := rep ++ pad ++ m ++ mac.
(* ClientMinPadLength = mark_start - RepresentativeLength;
   ClientMaxPadLength = MaxHandshakeLength - ClientMinHandshakeLength *)
Definition obfs4_min_pad : nat := obfs4_mark_start - 32.
Definition obfs4_max_pad : nat := obfs4_max_handshake - obfs4_min_handshake.

Lemma max_hs_N : obfs4_max_handshake = N.to_nat 8192%N.
Proof. reflexivity. Qed.

Lemma skipn_app_exact {A} (a b : list A) n : n = length a -> skipn n (a ++ b) = b.
Proof. intros ->. rewrite skipn_app, skipn_all, Nat.sub_diag. reflexivity. Qed.

Lemma firstn_app_exact {A} (a b : list A) n : n = length a -> firstn n (a ++ b) = a.
Proof. intros ->. rewrite firstn_app, firstn_all, Nat.sub_diag. simpl. apply app_nil_r. Qed.

Lemma every_padding_length_recognised (rep pad m mac : bytes) :
  length rep = 32 -> length m = obfs4_mark_len -> length mac = obfs4_mac_len ->
  obfs4_min_pad <= length pad <= obfs4_max_pad ->
  obfs4_min_handshake <= length (obfs4_flight rep pad m mac) <= obfs4_max_handshake /\
  mark_at_tail m (obfs4_flight rep pad m mac) = true.
Proof.
  unfold obfs4_min_pad, obfs4_max_pad, obfs4_flight, mark_at_tail.
  rewrite max_hs_N.
  unfold obfs4_mark_start, obfs4_mark_len, obfs4_mac_len, obfs4_min_handshake.
  intros Hr Hm Hc [Hlo Hhi].
  assert (HL : length (rep ++ pad ++ m ++ mac) = 64 + length pad) by (rewrite !app_length; lia).
  rewrite HL.
  split; [lia|].
  assert (He : Nat.min (64 + length pad) (N.to_nat 8192) = 64 + length pad) by lia.
  rewrite He.
  replace (64 + length pad - (16 + 16)) with (length (rep ++ pad)) by (rewrite app_length; lia).
  replace (rep ++ pad ++ m ++ mac) with ((rep ++ pad) ++ m ++ mac) by (rewrite <- app_assoc; reflexivity).
  rewrite (skipn_app_exact (rep ++ pad) (m ++ mac) _ eq_refl).
  rewrite (firstn_app_exact m mac 16) by (symmetry; exact Hm).
  rewrite bytes_eqb_refl, andb_true_r.
  apply andb_true_intro; split; apply Nat.leb_le; lia.
Qed.

(* ... and with it the registration whose mark it carries is the one WrapConnection finds,
   whatever the padding length, when no earlier registration collides *)
Lemma every_padding_length_wrapped mark hs_ok (r : reginfo) (rep pad mac : bytes) :
  length rep = 32 -> length (mark r rep) = obfs4_mark_len -> length mac = obfs4_mac_len ->
  obfs4_min_pad <= length pad <= obfs4_max_pad ->
  obfs4_candidate r = true ->
  let fl := obfs4_flight rep pad (mark r rep) mac in
  hs_ok r fl = true ->
  wrap_obfs4 mark hs_ok [r] fl = WFound r (length fl).
Proof.
  intros Hr Hm Hc Hp Hcand fl Hhs.
  destruct (every_padding_length_recognised rep pad (mark r rep) mac Hr Hm Hc Hp) as [[Hlo Hhi] Ht].
  fold fl in Hlo, Hhi, Ht.
  unfold wrap_obfs4.
  replace (length fl <? obfs4_min_handshake) with false by (symmetry; apply Nat.ltb_ge; exact Hlo).
  assert (Hrep : firstn 32 fl = rep).
  { unfold fl, obfs4_flight. apply firstn_app_exact. symmetry; exact Hr. }
  rewrite Hrep. simpl find. rewrite Hcand, Ht. simpl. rewrite Hhs. reflexivity.
Qed.

(* ---------------------------------------------------------------- the handler's source-address gate
   handleNewTCPConn starts with getRemoteAsIP(clientConn); a nil result ends the connection unread.
   The address object of an accepted socket is a *net.TCPAddr: IP bytes plus an optional zone. *)
Inductive peer_addr :=
| PTCP (ip : bytes) (zone : bool)       (* *net.TCPAddr{IP, Zone <> ""} *)
| PUDP (ip : bytes) (zone : bool)       (* *net.UDPAddr *)
| POther (printed_ip : option bytes).   (* any other net.Addr: what ParseIP makes of its printed host part *)

Definition is_ip (ip : bytes) : bool := (length ip =? 4) || (length ip =? 16).

(* getRemoteAsIP: the IP field of TCP / UDP addresses as it is (the zone is not looked at),
   the parsed printed form otherwise *)
Definition remote_as_ip (p : peer_addr) : option bytes :=
  match p with
  | PTCP ip _ | PUDP ip _ => if length ip =? 0 then None else Some ip
  | POther o => o
  end.

Definition is_ip_peer (p : peer_addr) : bool :=
  match p with
  | PTCP ip _ | PUDP ip _ => is_ip ip
  | POther o => match o with Some ip => is_ip ip | None => false end
  end.

(* the handler as a function of the peer address: dropped unread, or the classification loop *)
Definition handle_from {A} (p : peer_addr) (classify : A) : option A :=
  match remote_as_ip p with None => None | Some _ => Some classify end.

Lemma every_ip_peer_is_served {A} (p : peer_addr) (k : A) :
  is_ip_peer p = true -> handle_from p k = Some k.
Proof.
  unfold handle_from, is_ip_peer, remote_as_ip, is_ip.
  destruct p as [ip z|ip z|[ip|]]; intros H; try discriminate; try reflexivity;
    destruct (length ip) eqn:E; simpl in *; try discriminate; reflexivity.
Qed.

(* in particular a zone never matters *)
Lemma zone_irrelevant {A} ip z z' (k : A) : handle_from (PTCP ip z) k = handle_from (PTCP ip z') k.
Proof. reflexivity. Qed.
