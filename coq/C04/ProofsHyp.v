(* C04: the boolean versions of the theorem's hypotheses are sound, so that the correspondence run
   can decide, for every recorded genuine flight, that the theorem applies to it. *)
From CJ Require Import Common.Base Common.BaseProofs C04.Model C04.Proofs C04.ProofsT.
From Coq Require Import Lia Arith.
Local Open Scope nat_scope.

Lemma ttype_eqb_eq a b : ttype_eqb a b = true -> a = b.
Proof. destruct a, b; cbn; congruence. Qed.

Lemma tid_eqb_eq a b : tid_eqb a b = true -> a = b.
Proof. destruct a, b; cbn; congruence. Qed.

Lemma option_Z_eqb_eq (a b : option Z) : option_eqb Z.eqb a b = true -> a = b.
Proof.
  destruct a, b; cbn; try congruence. intros H. apply Z.eqb_eq in H. now subst.
Qed.

Lemma reginfo_eqb_eq a b : reginfo_eqb a b = true -> a = b.
Proof.
  unfold reginfo_eqb. intros H. apply andb_true_iff in H as [H H3]. apply andb_true_iff in H as [H1 H2].
  apply bytes_eqb_eq in H1. apply ttype_eqb_eq in H2. apply option_Z_eqb_eq in H3.
  destruct a, b; cbn in *. now subst.
Qed.

Lemma option_reg_is_eq o r : option_reg_is o r = true -> o = Some r.
Proof. destruct o as [x|]; cbn; [|discriminate]. intros H. apply reginfo_eqb_eq in H. now subst. Qed.

Lemma forallb_seq (P : nat -> bool) a n : forallb P (seq a n) = true -> forall k, a <= k < a + n -> P k = true.
Proof. intros H k Hk. rewrite forallb_forall in H. apply H. apply in_seq. lia. Qed.

Section HypB.
  Variable reveal : bytes -> list bytes.
  Variable mark : reginfo -> bytes -> bytes.
  Variable hs_ok : reginfo -> bytes -> bool.

  Lemma registeredb_sound R r : registeredb R r = true -> registered R r.
  Proof. unfold registeredb, registered. apply option_reg_is_eq. Qed.

  Lemma client_flightb_sound tbl R t r fl data :
    client_flightb reveal mark hs_ok tbl R t r fl data = true ->
    client_flight reveal mark hs_ok tbl R t r fl data.
  Proof.
    destruct t; cbn [client_flightb client_flight]; intros H.
    - apply andb_true_iff in H as [H1 H2]. apply bytes_eqb_eq in H1. apply Nat.eqb_eq in H2. auto.
    - apply andb_true_iff in H as [H He]. apply andb_true_iff in H as [H Hd].
      apply andb_true_iff in H as [H Hc]. apply andb_true_iff in H as [Ha Hb].
      destruct data; [|discriminate]. apply Nat.leb_le in Hb, Hc. apply option_reg_is_eq in Hd.
      repeat split; assumption.
    - apply existsb_exists in H as [p [Hp H]].
      apply andb_true_iff in H as [H He]. apply andb_true_iff in H as [H Hd].
      apply andb_true_iff in H as [H Hc]. apply andb_true_iff in H as [Ha Hb].
      apply bytes_eqb_eq in Ha. apply Nat.eqb_eq in Hb. apply option_reg_is_eq in Hc.
      apply ttype_eqb_eq in Hd. apply option_Z_eqb_eq in He.
      exists p, (skipn (length (p_static p)) fl). repeat split; try assumption.
      + rewrite <- Ha at 1. symmetry. apply firstn_skipn.
      + rewrite skipn_length. lia.
  Qed.

  Lemma unambiguousb_sound tbl R ts t r fl s :
    unambiguousb reveal mark hs_ok tbl R ts t r fl s = true ->
    unambiguous reveal mark hs_ok tbl R ts t r fl s.
  Proof.
    unfold unambiguousb, unambiguous. intros H. apply andb_true_iff in H as [H1 H2]. split.
    - intros t' k Hin Hne Hk. rewrite forallb_forall in H1. specialize (H1 t' Hin).
      apply Bool.orb_true_iff in H1 as [H1|H1]; [apply tid_eqb_eq in H1; contradiction|].
      apply Bool.negb_true_iff. apply (forallb_seq _ _ _ H1 k). lia.
    - destruct t; [exact I| |].
      + intros k Hk. pose proof (forallb_seq _ _ _ H2 k ltac:(lia)) as E. cbn beta in E.
        destruct (obfs4_hit mark R (firstn 32 s) (firstn k s)); [discriminate|reflexivity].
      + intros p' k Hp' Hk Hd. rewrite forallb_forall in H2. specialize (H2 p' Hp').
        pose proof (forallb_seq _ _ _ H2 k ltac:(lia)) as E. cbn beta zeta in E. rewrite Hd in E. cbn [negb orb] in E.
        unfold pres_is_found in E. destruct (classify reveal p' R (firstn k s)) as [| | | |r' c'|]; try discriminate.
        apply andb_true_iff in E as [E1 E2]. apply reginfo_eqb_eq in E1. apply Nat.eqb_eq in E2. now subst.
  Qed.

  Theorem decided_flight_invariant tbl R tracked ts t r fl data :
    flight_hypsb reveal mark hs_ok tbl R tracked ts t r fl data = true ->
    forall reads, concat reads = fl ++ data ->
      exists b rest cs,
        feed (cwrap reveal mark hs_ok tbl R) (init tracked ts) reads = (HDecided cs b, rest) /\
        cs <> [] /\ Forall (fun x => x = (t, WFound r (length fl))) cs /\
        relay_stream (length fl) b rest = data.
  Proof.
    unfold flight_hypsb. intros H reads Hcat.
    apply andb_true_iff in H as [H H6]. apply andb_true_iff in H as [H H5].
    apply andb_true_iff in H as [H H4]. apply andb_true_iff in H as [H H3].
    apply andb_true_iff in H as [H1 H2].
    apply (segmentation_invariance reveal mark hs_ok tbl R tracked ts t r fl data reads H1).
    - now apply registeredb_sound.
    - now apply Nat.leb_le.
    - apply existsb_exists in H4 as [t' [Hin Ht']]. apply tid_eqb_eq in Ht'. now subst.
    - now apply client_flightb_sound.
    - now apply unambiguousb_sound.
    - exact Hcat.
  Qed.
End HypB.
