(* C04 composed with C05: what the handler hands to the relay is delivered to the covert, and the
   covert's reply to the client. *)
From CJ Require Import Common.Base Common.BaseProofs C04.Model C04.Proofs C04.ProofsT C04.RelayModel.
From CJ Require C05.Model C05.Proofs C05.Sched C05.Props.
From Coq Require Import Lia Arith.
Local Open Scope nat_scope.

Lemma upto_err_ok_reads chunks last e :
  C05.Model.upto_err (ok_reads chunks ++ [(last, Some e)]) = ok_reads chunks ++ [(last, Some e)].
Proof.
  unfold ok_reads. induction chunks as [|c cs IH]; [reflexivity|].
  cbn [map app C05.Model.upto_err]. now rewrite IH.
Qed.

Lemma all_data_ok_reads chunks last e :
  C05.Proofs.all_data (ok_reads chunks ++ [(last, Some e)]) = concat chunks ++ last.
Proof.
  unfold C05.Proofs.all_data, ok_reads. rewrite map_app, map_map. cbn [map fst].
  rewrite map_id, concat_app. cbn. now rewrite app_nil_r.
Qed.

Lemma writes_ok_nil cs : C05.Proofs.writes_ok cs [].
Proof. induction cs as [|c cs IH]; cbn; [exact I|]. destruct c; [exact IH|exact I]. Qed.

(* a fault-free direction delivers everything its Reads returned, in order *)
Lemma faultfree_delivers chunks last e cdst csrc cf :
  C05.Model.out_delivered
    (C05.Model.half_pipe_full (ok_reads chunks ++ [(last, Some e)]) ok_writes ok_deadlines cdst csrc cf)
  = concat chunks ++ last.
Proof.
  rewrite C05.Props.C05_delivered_is_prefix_and_complete.
  rewrite C05.Props.C05_ideal_complete; [|reflexivity|apply writes_ok_nil].
  rewrite upto_err_ok_reads. apply all_data_ok_reads.
Qed.

Section Relay.
  Variable reveal : bytes -> list bytes.
  Variable mark : reginfo -> bytes -> bytes.
  Variable hs_ok : reginfo -> bytes -> bool.

  Theorem relay_gets_rest :
    forall tbl R tracked ts t r fl data reads,
      prefix_table_wfb tbl = true ->
      registered R r -> length R <= tracked -> In t ts ->
      client_flight reveal mark hs_ok tbl R t r fl data ->
      unambiguous reveal mark hs_ok tbl R ts t r fl (fl ++ data) ->
      concat reads = fl ++ data ->
      exists b rest cs,
        feed (cwrap reveal mark hs_ok tbl R) (init tracked ts) reads = (HDecided cs b, rest) /\
        cs <> [] /\ Forall (fun x => x = (t, WFound r (length fl))) cs /\
        (* Up: covert side *)
        (forall rchunks live last e cdst csrc cf,
            concat rchunks = skipn (length fl) b ->
            concat live ++ last = concat rest ->
            C05.Model.out_delivered
              (C05.Model.half_pipe_full (up_reads rchunks live last e) ok_writes ok_deadlines cdst csrc cf) = data) /\
        (* Down: client side *)
        (forall chunks last e cdst csrc cf,
            C05.Model.out_delivered
              (C05.Model.half_pipe_full (down_reads chunks last e) ok_writes ok_deadlines cdst csrc cf)
            = concat chunks ++ last).
  Proof.
    intros tbl R tracked ts t r fl data reads Hwf Hreg Htr Hin Hfl Hun Hcat.
    destruct (segmentation_invariance reveal mark hs_ok tbl R tracked ts t r fl data reads Hwf Hreg Htr Hin Hfl Hun Hcat)
      as [b [rest [cs [Hfeed [Hne [Hall Hrelay]]]]]].
    exists b, rest, cs. repeat split; try assumption.
    - intros rchunks live last e cdst csrc cf Hr Hl. unfold up_reads.
      rewrite faultfree_delivers. rewrite concat_app, Hr, <- app_assoc, Hl. exact Hrelay.
    - intros chunks last e cdst csrc cf. unfold down_reads. apply faultfree_delivers.
  Qed.
End Relay.

(* The same inside the two-direction relay, for every schedule of its five threads: whenever the
   calls of a direction returned its peer's bytes without a fault (its logged Reads are chunks
   without error followed by the end of the stream, its Writes were all accepted, its SetDeadline
   calls succeeded), that direction delivered exactly those bytes. *)
Lemma relay_direction_faultfree g0 su sd s :
  let c := C05.Model.run (C05.Model.init_cfg g0 su sd) s in
  C05.Model.finished c = true ->
  (forall chunks last e,
      C05.Model.th_rlog (C05.Model.up c) = ok_reads chunks ++ [(last, Some e)] ->
      C05.Model.first_fail (C05.Model.th_dlog (C05.Model.up c)) = None ->
      C05.Proofs.writes_ok (map fst (C05.Model.upto_err (C05.Model.th_rlog (C05.Model.up c)))) (C05.Model.th_wlog (C05.Model.up c)) ->
      C05.Model.delivered (C05.Model.th_acc (C05.Model.up c)) = concat chunks ++ last) /\
  (forall chunks last e,
      C05.Model.th_rlog (C05.Model.down c) = ok_reads chunks ++ [(last, Some e)] ->
      C05.Model.first_fail (C05.Model.th_dlog (C05.Model.down c)) = None ->
      C05.Proofs.writes_ok (map fst (C05.Model.upto_err (C05.Model.th_rlog (C05.Model.down c)))) (C05.Model.th_wlog (C05.Model.down c)) ->
      C05.Model.delivered (C05.Model.th_acc (C05.Model.down c)) = concat chunks ++ last).
Proof.
  intros c Hfin.
  destruct (C05.Props.C05_relay_delivers_ideal g0 su sd s Hfin) as [Hu [Hd _]].
  fold c in Hu, Hd. split.
  - intros chunks last e Hr Hdl Hw. rewrite Hu.
    rewrite C05.Props.C05_ideal_complete by assumption.
    rewrite Hr, upto_err_ok_reads. apply all_data_ok_reads.
  - intros chunks last e Hr Hdl Hw. rewrite Hd.
    rewrite C05.Props.C05_ideal_complete by assumption.
    rewrite Hr, upto_err_ok_reads. apply all_data_ok_reads.
Qed.
