(* C04 property theorems: statements + `exact lemma` only. *)
From CJ Require Import Common.Base C04.Model C04.Proofs C04.ProofsT C04.ProofsPaced C04.ProofsHyp C04.ProofsPad.
Local Open Scope nat_scope.

(* For every registered client, every enabled wrapping transport t, every way the bytes
   flight ++ data are returned by the handler's successive Reads (any number of reads, any sizes,
   empty reads included), every other registration on the phantom and every order in which Go
   visits its maps: the handler stops with transport t having found *that* registration, having
   consumed exactly the flight, and the relay reads exactly `data` (remaining buffered bytes first,
   then the live connection).  The cryptography (reveal / mark / library handshake) is universally
   quantified; `unambiguous` excludes a collision of a registered value with unrelated bytes. *)
Theorem C04_segmentation_invariance :
  forall (reveal : bytes -> list bytes) (mark : reginfo -> bytes -> bytes) (hs_ok : reginfo -> bytes -> bool)
         (tbl : list pfx) (R : registry) (tracked : nat) (ts : list tid) (t : tid) (r : reginfo)
         (fl data : bytes) (reads : list bytes),
    prefix_table_wfb tbl = true ->
    registered R r -> length R <= tracked -> In t ts ->
    client_flight reveal mark hs_ok tbl R t r fl data ->
    unambiguous reveal mark hs_ok tbl R ts t r fl (fl ++ data) ->
    concat reads = fl ++ data ->
    exists b rest cs,
      feed (cwrap reveal mark hs_ok tbl R) (init tracked ts) reads = (HDecided cs b, rest) /\
      cs <> [] /\ Forall (fun x => x = (t, WFound r (length fl))) cs /\
      relay_stream (length fl) b rest = data.
Proof. exact segmentation_invariance. Qed.
Print Assumptions C04_segmentation_invariance.

(* The same with a clock: however the segments are paced, as long as they arrive (at instants
   that never decrease) before the classification deadline D, the handler's trace is: set the
   deadline, successful Reads only, then clear the deadline, mark *that* registration active and
   enter the relay with a replay buffer that is a prefix of `data` (the rest of `data` is what is
   still to arrive on the live connection).  No time-out, no sleep, no return before the relay. *)
Theorem C04_segmentation_invariance_paced :
  forall (reveal : bytes -> list bytes) (mark : reginfo -> bytes -> bytes) (hs_ok : reginfo -> bytes -> bool)
         (tbl : list pfx) (R : registry) (tracked : nat) (ts : list tid) (t : tid) (r : reginfo)
         (fl data : bytes) (drain_cap : nat) (D : N) (script : list (N * bytes)),
    prefix_table_wfb tbl = true ->
    registered R r -> length R <= tracked -> In t ts ->
    client_flight reveal mark hs_ok tbl R t r fl data ->
    unambiguous reveal mark hs_ok tbl R ts t r fl (fl ++ data) ->
    in_time D 0%N script -> stream_of script = fl ++ data ->
    exists reads replay later,
      run (cwrap reveal mark hs_ok tbl R) drain_cap D tracked ts script =
        ASetDeadline D :: reads ++ [AClearDeadline; AMarkActive r; ARelay r replay] /\
      Forall (fun a => exists u n, a = ARead u n /\ (u < D)%N) reads /\
      replay ++ later = data.
Proof. exact segmentation_invariance_paced. Qed.
Print Assumptions C04_segmentation_invariance_paced.

(* what the boolean re-checked on the dumped table means *)
Theorem C04_prefix_table_wf_sound :
  forall tbl, prefix_table_wfb tbl = true ->
    (forall p, In p tbl -> p_min p = p_off p + tag_len /\ p_max p = p_off p + tag_len /\ p_off p = length (p_static p)) /\
    NoDup (map p_id tbl).
Proof. exact prefix_table_wf_sound. Qed.
Print Assumptions C04_prefix_table_wf_sound.

(* All hypotheses of C04_segmentation_invariance are decidable for a concrete flight
   (`flight_hypsb`); where the boolean is true the conclusion holds for every segmentation.  The
   correspondence run evaluates it on every recorded genuine flight (with the oracle values observed
   on the real code as cryptography), so each recorded flight is covered by the theorem for all
   segmentations, not only for the one that was executed. *)
Theorem C04_decided_flight_invariant :
  forall (reveal : bytes -> list bytes) (mark : reginfo -> bytes -> bytes) (hs_ok : reginfo -> bytes -> bool)
         tbl R tracked ts t r fl data,
    flight_hypsb reveal mark hs_ok tbl R tracked ts t r fl data = true ->
    forall reads, concat reads = fl ++ data ->
      exists b rest cs,
        feed (cwrap reveal mark hs_ok tbl R) (init tracked ts) reads = (HDecided cs b, rest) /\
        cs <> [] /\ Forall (fun x => x = (t, WFound r (length fl))) cs /\
        relay_stream (length fl) b rest = data.
Proof. exact decided_flight_invariant. Qed.
Print Assumptions C04_decided_flight_invariant.

(* Several station keys (key rotation): `reveal tag` lists the identifiers the tag reveals to under the
   station's keys, in the order the prefix transport tries them.  The condition of `client_flight` on the
   tag - first_reg (reveal tag) R = Some r - holds whatever the position of the key the client
   obfuscated to, as long as what the earlier keys reveal is not a registered identifier. *)
Theorem C04_any_station_key_position :
  forall (pre : list bytes) (id : bytes) (post : list bytes) (R : registry) (r : reginfo),
    (forall x, In x pre -> lookup x R = None) -> lookup id R = Some r ->
    first_reg (pre ++ id :: post) R = Some r.
Proof. exact first_reg_any_position. Qed.
Print Assumptions C04_any_station_key_position.

(* Fifth round.  obfs4: the client pads its handshake X' | P_C | M_C | MAC with a uniformly drawn number of
   bytes between ClientMinPadLength and ClientMaxPadLength.  For EVERY such length the flight has an
   admissible length and the station's search (findMarkMac from the tail, mark searched up to
   MaxHandshakeLength = obfs4_max_handshake) finds the mark - in particular for the longest flights. *)
Theorem C04_obfs4_every_padding_length :
  forall rep pad m mac : bytes,
    length rep = 32%nat -> length m = obfs4_mark_len -> length mac = obfs4_mac_len ->
    (obfs4_min_pad <= length pad <= obfs4_max_pad)%nat ->
    (obfs4_min_handshake <= length (obfs4_flight rep pad m mac) <= obfs4_max_handshake)%nat /\
    mark_at_tail m (obfs4_flight rep pad m mac) = true.
Proof. exact every_padding_length_recognised. Qed.
Print Assumptions C04_obfs4_every_padding_length.

(* ... hence WrapConnection answers "found, the whole flight consumed" for the registration whose mark
   the flight carries, whatever the padding length (single candidate: collisions are `unambiguous`'s business) *)
Theorem C04_obfs4_every_padding_wrapped :
  forall mark hs_ok (r : reginfo) (rep pad mac : bytes),
    length rep = 32%nat -> length (mark r rep) = obfs4_mark_len -> length mac = obfs4_mac_len ->
    (obfs4_min_pad <= length pad <= obfs4_max_pad)%nat ->
    obfs4_candidate r = true ->
    let fl := obfs4_flight rep pad (mark r rep) mac in
    hs_ok r fl = true ->
    wrap_obfs4 mark hs_ok [r] fl = WFound r (length fl).
Proof. exact every_padding_length_wrapped. Qed.
Print Assumptions C04_obfs4_every_padding_wrapped.

(* The handler's first step, getRemoteAsIP on the accepted socket's address object: every peer whose
   address is an IP address (4 or 16 bytes in a TCP/UDP address object, zone or not; or a printed form
   that parses) reaches the classification loop `k` (to which the theorems above apply unchanged). *)
Theorem C04_every_ip_peer_served :
  forall (A : Type) (p : peer_addr) (k : A), is_ip_peer p = true -> handle_from p k = Some k.
Proof. exact @every_ip_peer_is_served. Qed.
Print Assumptions C04_every_ip_peer_served.
