(* C04/C03: evaluation of the handler model on recorded connections (correspondence check).
   The crypto parameters of the model are instantiated with the oracle values the driver observed
   on the real code: revealed identifiers per table offset, obfs4 marks per registration, and the
   outcome of the obfs4 library handshake. *)
From CJ Require Import Common.Base C04.Model.
Local Open Scope nat_scope.

(* ---- decoding of the case literals *)
(* a byte string of length len given as one big-endian number (cheap to parse and to elaborate) *)
Fixpoint nb_aux (len : nat) (v : N) (acc : bytes) : bytes :=
  match len with
  | O => acc
  | S l => nb_aux l (N.shiftr v 8) (N.land v 255 :: acc)
  end.
Definition nb (len : N) (v : N) : bytes := nb_aux (N.to_nat len) v [].

Definition tt_of (n : N) : ttype :=
  match n with 1%N => KMin | 2%N => KObfs4 | 3%N => KDtls | 4%N => KPrefix | _ => KOther end.
    (* the numbering of pb.TransportType *)

Definition mk_reg (x : bytes * N * option Z) : reginfo :=
  let '(id, ty, pid) := x in {| r_ident := id; r_tt := tt_of ty; r_pid := pid |}.

Definition tid_of (n : N) : tid := match n with 0%N => TMin | 1%N => TObfs4 | _ => TPrefix end.

Definition reveal_of (stream : bytes) (revs : list (N * list bytes)) (w : bytes) : list bytes :=
  match find (fun x => bytes_eqb (firstn tag_len (skipn (N.to_nat (fst x)) stream)) w) revs with
  | Some x => snd x
  | None => []
  end.

Definition mark_of (marks : list (bytes * bytes)) (r : reginfo) (_ : bytes) : bytes :=
  match find (fun x => bytes_eqb (fst x) (r_ident r)) marks with
  | Some x => snd x
  | None => []
  end.

Fixpoint split_sizes (s : bytes) (sizes : list N) : list bytes :=
  match sizes with
  | [] => []
  | n :: r => firstn (N.to_nat n) s :: split_sizes (skipn (N.to_nat n) s) r
  end.

Definition sum_sizes (sizes : list N) : nat := fold_right (fun n acc => N.to_nat n + acc) 0 sizes.

(* ---- projection of WrapConnection results to what the recorder sees *)
Definition class_of (w : wres) : N :=
  match w with
  | TryAgain => 0 | NotTransport => 1 | WFound _ _ => 2
  | WErr EIncorrectPrefix => 3 | WErr EIncorrectTransport => 4 | WErr EHandshake => 5
  | WPanic => 6
  end%N.
Definition consumed_of (w : wres) : N := match w with WFound _ c => N.of_nat c | _ => 0%N end.

Definition call := (N * N * N)%type.     (* transport code, class, consumed *)
Definition tcode (t : tid) : N := match t with TMin => 0 | TObfs4 => 1 | TPrefix => 2 end%N.

Definition proj (x : tid * wres) : call := (tcode (fst x), class_of (snd x), consumed_of (snd x)).
Definition call_eqb (a b : call) : bool :=
  let '(a1, a2, a3) := a in let '(b1, b2, b3) := b in (a1 =? b1)%N && (a2 =? b2)%N && (a3 =? b3)%N.
Definition call_decisive (c : call) : bool := let '(_, cl, _) := c in (2 <=? cl)%N.

(* one loop iteration: buffer length and the calls observed during it.
   The code ranges over a map: the order is arbitrary, and after a decisive answer the remaining
   transports are not asked. *)
Definition iter_ok (cmp_consumed : bool) (m : nat * list (tid * wres)) (o : N * list call) : bool :=
  let mp := map proj (snd m) in
  let same := fun a b : call => if cmp_consumed then call_eqb a b
                                else let '(a1, a2, _) := a in let '(b1, b2, _) := b in (a1 =? b1)%N && (a2 =? b2)%N in
  (N.of_nat (fst m) =? fst o)%N &&
  forallb (fun c => existsb (same c) mp) (snd o) &&
  (if existsb call_decisive mp
   then existsb call_decisive (snd o)
   else length (snd o) =? length mp).

Fixpoint iters_ok (cc : bool) (ms : list (nat * list (tid * wres))) (os : list (N * list call)) : bool :=
  match ms, os with
  | [], [] => true
  | m :: ms', o :: os' => iter_ok cc m o && iters_ok cc ms' os'
  | _, _ => false
  end.

Record conn_case := {
  k_regs : list (bytes * N * option Z);
  k_revs : list (N * list bytes);
  k_marks : list (bytes * bytes);
  k_hs : bool;
  k_tracked : N;
  k_ts : list N;
  k_stream : list bspec;           (* flight, then early data *)
  k_reads : list N;                (* sizes of the handler's reads while classifying *)
  (* observed *)
  k_iters : list (N * list call);
  k_found : option (N * bytes);    (* transport code, identifier of the registration returned *)
  k_used : bool;                   (* the registration's timeout entry says "used" afterwards *)
  k_cmp_relay : bool;              (* min / prefix: compare the bytes the covert side received *)
  k_late : bspec;                  (* sent on the live connection after the first flight *)
  k_echo : bspec;                  (* received by the covert echo server *)
  k_mark_first : bool;             (* the MarkActive publication was observed before the relay's first Read/Write *)
  k_replay : option (N * N)        (* length and hash of the first non-empty Read the relay made on the
                                      connection it was handed (the buffered-replay step) *)
}.

Definition hyps_limit : nat := 400.

(* position of the first action satisfying f *)
Fixpoint index_of (f : action -> bool) (tr : list action) : option nat :=
  match tr with
  | [] => None
  | a :: r => if f a then Some 0 else option_map S (index_of f r)
  end.
Definition is_mark_action (a : action) : bool := match a with AMarkActive _ => true | _ => false end.
Definition is_relay_action (a : action) : bool := match a with ARelay _ _ => true | _ => false end.
(* in the handler's trace the registration is marked active before the relay is entered *)
Definition mark_before_relay (tr : list action) : bool :=
  match index_of is_mark_action tr, index_of is_relay_action tr with
  | Some i, Some j => i <? j
  | _, _ => false
  end.

Section WithTable.
  Variable tbl : list pfx.

  Definition model_wrap (k : conn_case) (stream : bytes) : tid -> bytes -> wres :=
    cwrap (reveal_of stream (k_revs k)) (mark_of (k_marks k)) (fun _ _ => k_hs k)
          tbl (map mk_reg (k_regs k)).

  Definition found_matches (cs : list (tid * wres)) (f : N * bytes) : option (reginfo * nat) :=
    match find (fun x => (tcode (fst x) =? fst f)%N &&
                         match snd x with WFound r _ => bytes_eqb (r_ident r) (snd f) | _ => false end) cs with
    | Some (_, WFound r c) => Some (r, c)
    | _ => None
    end.

  Definition chk (k : conn_case) : bool :=
    let stream := concat (map bspec_val (k_stream k)) in
    let wrap := model_wrap k stream in
    let chunks := split_sizes stream (k_reads k) in
    let st0 := init (N.to_nat (k_tracked k)) (map tid_of (k_ts k)) in
    let log := feed_log wrap st0 chunks in
    let '(st, rest) := feed wrap st0 chunks in
    iters_ok (k_cmp_relay k) log (k_iters k) &&
    match st, k_found k with
    | HDecided cs buf, Some f =>
      match found_matches cs f with
      | Some (r, c) =>
        k_used k &&
        (* order of the handler's actions once it has decided: the model's trace against the observed
           order of the MarkActive publication and the relay's first call on the connection *)
        Bool.eqb (mark_before_relay (finish 0 0 [(tid_of (fst f), WFound r c)] buf [])) (k_mark_first k) &&
        (if k_cmp_relay k
         then bspec_matches (k_echo k)
                (relay_stream c buf rest ++ skipn (sum_sizes (k_reads k)) stream ++ bspec_val (k_late k))
         else true) &&
        (* the buffered-replay step: if bytes were read with the tag and not consumed, the relay's
           first Read returns exactly them (PrefixConn = io.MultiReader(buffer, live connection)) *)
        (if k_cmp_relay k
         then match skipn c buf, k_replay k with
              | [], _ => true
              | rp, Some (len, h) => bspec_matches (Dig len h) rp
              | _, None => false
              end
         else true) &&
        (* the hypotheses of C04_segmentation_invariance, decided on this genuine flight: the theorem
           applies to it, for every segmentation and not only the one that was run *)
        (if length stream <=? hyps_limit
         then flight_hypsb (reveal_of stream (k_revs k)) (mark_of (k_marks k)) (fun _ _ => k_hs k)
                           tbl (map mk_reg (k_regs k)) (N.to_nat (k_tracked k)) (map tid_of (k_ts k))
                           (tid_of (fst f)) r (firstn c stream) (skipn c stream)
         else true)
      | None => false
      end
    | HDecided cs _, None => existsb (fun x => match snd x with WFound _ _ => false | _ => true end) cs && negb (k_used k)
    | _, Some _ => false
    | _, None => negb (k_used k)
    end.
End WithTable.
