(* C07, liveness stack: ingestRegistration over a STATEFUL liveness tester
   (registration_ingest.go:211-227, registration.go PhantomIsLive -> LivenessTester.PhantomIsLive;
   pkg/station/liveness: liveness.New, UncachedLivenessTester, CachedLivenessTester).  Definitions only.

   The tester's full answer is (verdict, error class): the error says where the verdict came from
   (nil / ErrCachedPhantom / NotLive / ErrLiveHost / a network error).  The admission decision looks at the
   verdict; the error class only moves counters.  The tester is first abstract (any state type, any `ask`),
   then instantiated with C18's model of the cache / probe stack (coq/C18/Model.v, read-only dependency),
   and run over histories of registrations, clock advances and ClearExpired sweeps sharing one tester. *)
From CJ Require Import Common.Base C06.Model C07.Model.
From CJ Require C18.Model.

Module L18 := CJ.C18.Model.

(* error classes of the second result of PhantomIsLive *)
Definition err_nil : N := 0.
Definition err_cached : N := 1.        (* errors.Is(err, liveness.ErrCachedPhantom) *)
Definition err_notlive : N := 2.
Definition err_livehost : N := 3.
Definition err_other : N := 4.

Record answer := { a_live : bool; a_err : N }.

(* Stat(): AddLivenessPass / AddLivenessFail / AddLivenessCached *)
Record counters := { n_pass : N; n_fail : N; n_cached : N }.
Definition zero_counters : counters := {| n_pass := 0; n_fail := 0; n_cached := 0 |}.

(* `if live { if errors.Is(response, ErrCachedPhantom) { AddLivenessCached }; AddLivenessFail; return }; AddLivenessPass` *)
Definition bump (c : counters) (a : answer) : counters :=
  if a_live a
  then {| n_pass := n_pass c; n_fail := n_fail c + 1; n_cached := if a_err a =? err_cached then n_cached c + 1 else n_cached c |}
  else {| n_pass := n_pass c + 1; n_fail := n_fail c; n_cached := n_cached c |}.

(* one consultation of the tester: address, port, what it answered, whether a network probe went out *)
Definition asked := (ipraw * N * answer * bool)%type.

Section Stack.
  Variable T : Type.                                       (* state of the tester (caches, clock) *)
  Variable ask : T -> ipraw -> N -> T * answer * bool.     (* PhantomIsLive(addr, port): new state, answer, network probe sent *)
  Variable covert_check : bytes -> option bytes.

  Record world := { wd_table : table; wd_tester : T; wd_cnt : counters }.

  (* the verdict the stack gives at this moment (a function of the tester's current state only) *)
  Definition verdict_now (t : T) (ip : ipraw) (port : N) : bool := a_live (snd (fst (ask t ip port))).

  (* ingestRegistration.  In the effect list `Probe ip port` now stands for a NETWORK probe. *)
  Definition ingest_l (cfg : config) (w : world) (r : reg) : world * list effect * list asked :=
    let st := wd_table w in
    if negb (validate cfg r) then (w, [], [])
    else if tracked st r then (w, [], [])
    else
      match covert_check (r_covert r) with
      | None => ({| wd_table := st ++ [{| e_reg := r; e_valid := false |}]; wd_tester := wd_tester w; wd_cnt := wd_cnt w |}, [], [])
      | Some lit =>
        let r' := set_covert r lit in
        let st2 := st ++ [{| e_reg := r'; e_valid := false |}] in
        (* `if !reg.PreScanned() && reg.PhantomIp.To4() != nil { live, response := rm.PhantomIsLive(...) ... }` *)
        let '(t', cnt', live, probe, log) :=
          match (if needs_probe r' then r_phantom r' else None) with
          | Some ip =>
            let '(t1, a, sent) := ask (wd_tester w) ip (r_port r') in
            (t1, bump (wd_cnt w) a, a_live a, (if sent then [Probe ip (r_port r')] else []), [(ip, r_port r', a, sent)])
          | None => (wd_tester w, wd_cnt w, false, [], [])
          end in
        if live then ({| wd_table := st2; wd_tester := t'; wd_cnt := cnt' |}, probe, log)
        else
          let share := if from_detector r' && cf_share cfg
                       then match generate_c2s_wrapper r' with Some s => [Share s] | None => [] end
                       else [] in
          if from_detector r' && reg_phantom_blocked cfg r'
          then ({| wd_table := st2; wd_tester := t'; wd_cnt := cnt' |}, probe ++ share, log)
          else ({| wd_table := st ++ [{| e_reg := r'; e_valid := true |}]; wd_tester := t'; wd_cnt := cnt' |},
                probe ++ share ++ [Announce r'], log)
      end.

  Fixpoint ingest_l_all (cfg : config) (w : world) (l : list reg) : world * list effect * list asked :=
    match l with
    | [] => (w, [], [])
    | r :: rest => let '(w1, e1, a1) := ingest_l cfg w r in
                   let '(w2, e2, a2) := ingest_l_all cfg w1 rest in (w2, e1 ++ e2, a1 ++ a2)
    end.
End Stack.

Arguments wd_table {T} _.
Arguments wd_tester {T} _.
Arguments wd_cnt {T} _.
Arguments Build_world {T} _ _ _.

(* ---------------------------------------------------------------- the real stack: C18's tester model *)

(* the caches are keyed by PhantomIp.String(): one key per address, whatever its 4 / 16-byte form and port *)
Definition be_N (b : bytes) : N := fold_left (fun acc x => acc * 256 + x) b 0.
Definition addr_key (ip : ipraw) : N := be_N (norm ip).

Definition answer_of (o : L18.lout) : answer :=
  match o with
  | L18.Cached v => {| a_live := v; a_err := err_cached |}
  | L18.Probed v e => {| a_live := v; a_err := e |}
  | L18.NoOut => {| a_live := false; a_err := err_nil |}
  end.
Definition is_probed_out (o : L18.lout) : bool := match o with L18.Probed _ _ => true | _ => false end.

(* PhantomIsLive of the tester liveness.New built, over a network that would answer (pl, pe) right now *)
Definition stack_ask (pl : bool) (pe : N) (s : L18.st) (ip : ipraw) (port : N) : L18.st * answer * bool :=
  let '(s', o) := L18.step s (L18.Query (addr_key ip) pl pe) in (s', answer_of o, is_probed_out o).

(* a history shared by one station: registrations (hand-built or as messages) with what the network would
   answer to a probe at that moment, clock advances, ClearExpired sweeps *)
Inductive hop :=
| HReg (r : reg) (pl : bool) (pe : N)
| HMsg (m : wrapper) (pl : bool) (pe : N)
| HAdv (d : N)
| HClear.

Definition sworld := world L18.st.

Section History.
  Variable select : bytes -> N -> N -> bool -> option ipraw.
  Variable params_ok : N -> N -> option N -> bool.
  Variable dst_port : bytes -> N -> N -> option N -> bool -> option N.
  Variable geoip_ok : ipraw -> bool.
  Variable covert_check : bytes -> option bytes.

  Definition with_tester (w : sworld) (t : L18.st) : sworld :=
    {| wd_table := wd_table w; wd_tester := t; wd_cnt := wd_cnt w |}.

  (* the C18 operations a step performs on the tester (ghost: connects the history to C18's theorems) *)
  Definition lops_of_asked (pl : bool) (pe : N) (l : list asked) : list L18.lop :=
    map (fun x : asked => let '(ip, _, _, _) := x in L18.Query (addr_key ip) pl pe) l.

  Definition hstep (cfg : config) (w : sworld) (o : hop) : sworld * list effect * list asked * list L18.lop :=
    match o with
    | HReg r pl pe =>
      let '(w', ef, lg) := ingest_l L18.st (stack_ask pl pe) covert_check cfg w r in (w', ef, lg, lops_of_asked pl pe lg)
    | HMsg m pl pe =>
      match parse_reg_message select params_ok dst_port geoip_ok cfg m with
      | Ok l => let '(w', ef, lg) := ingest_l_all L18.st (stack_ask pl pe) covert_check cfg w l in
                (w', ef, lg, lops_of_asked pl pe lg)
      | _ => (w, [], [], [])
      end
    | HAdv d => (with_tester w (fst (L18.step (wd_tester w) (L18.Adv d))), [], [], [L18.Adv d])
    | HClear => (with_tester w (fst (L18.step (wd_tester w) L18.ClearExpired)), [], [], [L18.ClearExpired])
    end.

  Fixpoint hrun (cfg : config) (w : sworld) (h : list hop) : sworld * list effect * list asked * list L18.lop :=
    match h with
    | [] => (w, [], [], [])
    | o :: rest => let '(w1, e1, a1, l1) := hstep cfg w o in
                   let '(w2, e2, a2, l2) := hrun cfg w1 rest in (w2, e1 ++ e2, a1 ++ a2, l1 ++ l2)
    end.

  Definition init_world (lc : L18.cfg) : sworld :=
    {| wd_table := []; wd_tester := L18.init_caches lc; wd_cnt := zero_counters |}.

  Definition world_after (cfg : config) (lc : L18.cfg) (h : list hop) : sworld := fst (fst (fst (hrun cfg (init_world lc) h))).
  Definition effects_of (cfg : config) (lc : L18.cfg) (h : list hop) : list effect := snd (fst (fst (hrun cfg (init_world lc) h))).
  Definition asked_of (cfg : config) (lc : L18.cfg) (h : list hop) : list asked := snd (fst (hrun cfg (init_world lc) h)).
  Definition lops_of (cfg : config) (lc : L18.cfg) (h : list hop) : list L18.lop := snd (hrun cfg (init_world lc) h).
End History.
