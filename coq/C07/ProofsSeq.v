(* C07: sequences.  A registration that has been through ingest once is settled (rejected before tracking for a reason
   that does not change, or tracked): the same client message arriving again -- at any later point of any history, under
   any liveness verdicts -- has no effect at all: not probed, not shared, not announced again. *)
From CJ Require Import Common.Base C06.Model C07.Model C07.Proofs C07.ModelLive C07.ProofsLive.
From Coq Require Import Lia.
Local Open Scope N_scope.

Lemma beqb_refl (b : bytes) : bytes_eqb b b = true.
Proof. induction b as [|x b IH]; cbn; [reflexivity|]. now rewrite N.eqb_refl, IH. Qed.

Lemma same_key_refl r : same_key r r = true.
Proof. unfold same_key. now rewrite !beqb_refl, N.eqb_refl. Qed.

Lemma same_key_set_covert_l r c b : same_key (set_covert r c) b = same_key r b.
Proof. reflexivity. Qed.

Lemma tracked_app st ext r : tracked st r = true -> tracked (st ++ ext) r = true.
Proof. unfold tracked. rewrite existsb_app. now intros ->. Qed.

Lemma tracked_snoc st e r : same_key (e_reg e) r = true -> tracked (st ++ [e]) r = true.
Proof. unfold tracked. rewrite existsb_app. cbn. intros ->. now rewrite orb_true_r. Qed.

Definition settled (cfg : config) (st : table) (r : reg) : Prop := validate cfg r = false \/ tracked st r = true.

Lemma settled_app cfg st ext r : settled cfg st r -> settled cfg (st ++ ext) r.
Proof. intros [H|H]; [now left|right; now apply tracked_app]. Qed.

Section Seq.
  Variable select : bytes -> N -> N -> bool -> option ipraw.
  Variable params_ok : N -> N -> option N -> bool.
  Variable dst_port : bytes -> N -> N -> option N -> bool -> option N.
  Variable geoip_ok : ipraw -> bool.
  Variable cc : bytes -> option bytes.

  Lemma ingest_grows live cfg st r : exists ext, fst (ingest cc live cfg st r) = st ++ ext.
  Proof.
    pose proof (ingest_outcome cc live cfg st r) as O.
    inversion O; cbn [fst]; try (exists []; now rewrite app_nil_r); eexists; reflexivity.
  Qed.

  Lemma ingest_settles live cfg st r : settled cfg (fst (ingest cc live cfg st r)) r.
  Proof.
    pose proof (ingest_outcome cc live cfg st r) as O.
    inversion O; cbn [fst]; try (now left); right; auto;
      apply tracked_snoc; cbn [e_reg]; rewrite ?same_key_set_covert_l; apply same_key_refl.
  Qed.

  Lemma ingest_settled_noop live cfg st r : settled cfg st r -> ingest cc live cfg st r = (st, []).
  Proof. unfold ingest. intros [-> | H]; [reflexivity|]. destruct (negb (validate cfg r)); [reflexivity|]. now rewrite H. Qed.

  Lemma ingest_all_grows live cfg l : forall st, exists ext, fst (ingest_all cc live cfg st l) = st ++ ext.
  Proof.
    induction l as [|r l IH]; intro st; cbn [ingest_all].
    - exists []. now rewrite app_nil_r.
    - destruct (ingest_grows live cfg st r) as [e1 H1]. destruct (ingest cc live cfg st r) as [st1 ef1]. cbn [fst] in H1.
      destruct (IH st1) as [e2 H2]. destruct (ingest_all cc live cfg st1 l) as [st2 ef2]. cbn [fst] in *.
      exists (e1 ++ e2). now rewrite H2, H1, app_assoc.
  Qed.

  Lemma ingest_all_settles live cfg l : forall st r, In r l -> settled cfg (fst (ingest_all cc live cfg st l)) r.
  Proof.
    induction l as [|r0 l IH]; intros st r Hin; [destruct Hin|]. cbn [ingest_all].
    pose proof (ingest_settles live cfg st r0) as H0.
    destruct (ingest cc live cfg st r0) as [st1 ef1]. cbn [fst] in H0.
    destruct (ingest_all_grows live cfg l st1) as [ext He]. specialize (IH st1).
    destruct (ingest_all cc live cfg st1 l) as [st2 ef2]. cbn [fst] in *.
    destruct Hin as [<-|Hin]; [rewrite He; now apply settled_app | now apply IH].
  Qed.

  Lemma ingest_all_settled_noop live cfg l : forall st, (forall r, In r l -> settled cfg st r) -> ingest_all cc live cfg st l = (st, []).
  Proof.
    induction l as [|r l IH]; intros st H; [reflexivity|]. cbn [ingest_all].
    rewrite (ingest_settled_noop live cfg st r) by (apply H; now left).
    rewrite IH by (intros r' Hr; apply H; now right). reflexivity.
  Qed.

  Notation process' live := (process select params_ok dst_port geoip_ok cc live).
  Notation process_all' live := (process_all select params_ok dst_port geoip_ok cc live).

  Lemma process_grows live cfg st w : exists ext, fst (process' live cfg st w) = st ++ ext.
  Proof.
    unfold process. destruct (parse_reg_message select params_ok dst_port geoip_ok cfg w) as [l|e|];
      [apply ingest_all_grows | exists []; now rewrite app_nil_r | exists []; now rewrite app_nil_r].
  Qed.

  Lemma process_all_grows live cfg ws : forall st, exists ext, fst (process_all' live cfg st ws) = st ++ ext.
  Proof.
    induction ws as [|w ws IH]; intro st; cbn [process_all].
    - exists []. now rewrite app_nil_r.
    - destruct (process_grows live cfg st w) as [e1 H1]. destruct (process' live cfg st w) as [st1 ef1]. cbn [fst] in H1.
      destruct (IH st1) as [e2 H2]. destruct (process_all' live cfg st1 ws) as [st2 ef2]. cbn [fst] in *.
      exists (e1 ++ e2). now rewrite H2, H1, app_assoc.
  Qed.

  (* the same client message again, after any further messages, under any liveness verdicts: no effect at all *)
  Lemma repeated_message_no_effect live1 live2 live3 cfg st w ws :
    let st1 := fst (process' live1 cfg st w) in
    let st2 := fst (process_all' live2 cfg st1 ws) in
    process' live3 cfg st2 w = (st2, []).
  Proof.
    cbn zeta.
    assert (Hset : forall l, parse_reg_message select params_ok dst_port geoip_ok cfg w = Ok l ->
                   forall r, In r l -> settled cfg (fst (process' live1 cfg st w)) r).
    { intros l Hl r Hr. unfold process. rewrite Hl. now apply ingest_all_settles. }
    set (st1 := fst (process' live1 cfg st w)) in *.
    destruct (process_all_grows live2 cfg ws st1) as [ext ->].
    unfold process. destruct (parse_reg_message select params_ok dst_port geoip_ok cfg w) as [l|e|] eqn:Hp; try reflexivity.
    apply ingest_all_settled_noop. intros r Hr. apply settled_app. now apply (Hset l).
  Qed.
End Seq.

(* ================================================================ the same over the tester stack *)
Section SeqStackAbstract.
  Variable T : Type.
  Variable ask : T -> ipraw -> N -> T * answer * bool.
  Variable cc : bytes -> option bytes.

  Lemma ingest_l_settled_noop cfg (w : world T) r : settled cfg (wd_table w) r -> ingest_l T ask cc cfg w r = (w, [], []).
  Proof.
    unfold ingest_l. intros [-> | H]; [reflexivity|]. destruct (negb (validate cfg r)); [reflexivity|]. now rewrite H.
  Qed.

  Lemma ingest_l_grows cfg (w : world T) r : exists ext, wd_table (fst (fst (ingest_l T ask cc cfg w r))) = wd_table w ++ ext.
  Proof. rewrite ingest_l_table. apply ingest_grows. Qed.

  Lemma ingest_l_settles cfg (w : world T) r : settled cfg (wd_table (fst (fst (ingest_l T ask cc cfg w r)))) r.
  Proof. rewrite ingest_l_table. apply ingest_settles. Qed.

  Lemma ingest_l_all_grows cfg l : forall (w : world T), exists ext, wd_table (fst (fst (ingest_l_all T ask cc cfg w l))) = wd_table w ++ ext.
  Proof.
    induction l as [|r l IH]; intro w; cbn [ingest_l_all].
    - exists []. now rewrite app_nil_r.
    - destruct (ingest_l_grows cfg w r) as [e1 H1]. destruct (ingest_l T ask cc cfg w r) as [[w1 ef1] a1]. cbn [fst] in H1.
      destruct (IH w1) as [e2 H2]. destruct (ingest_l_all T ask cc cfg w1 l) as [[w2 ef2] a2]. cbn [fst] in *.
      exists (e1 ++ e2). now rewrite H2, H1, app_assoc.
  Qed.

  Lemma ingest_l_all_settles cfg l : forall (w : world T) r, In r l -> settled cfg (wd_table (fst (fst (ingest_l_all T ask cc cfg w l)))) r.
  Proof.
    induction l as [|r0 l IH]; intros w r Hin; [destruct Hin|]. cbn [ingest_l_all].
    pose proof (ingest_l_settles cfg w r0) as H0.
    destruct (ingest_l T ask cc cfg w r0) as [[w1 ef1] a1]. cbn [fst] in H0.
    destruct (ingest_l_all_grows cfg l w1) as [ext He]. specialize (IH w1).
    destruct (ingest_l_all T ask cc cfg w1 l) as [[w2 ef2] a2]. cbn [fst] in *.
    destruct Hin as [<-|Hin]; [rewrite He; now apply settled_app | now apply IH].
  Qed.

  Lemma ingest_l_all_settled_noop cfg l : forall (w : world T),
    (forall r, In r l -> settled cfg (wd_table w) r) -> ingest_l_all T ask cc cfg w l = (w, [], []).
  Proof.
    induction l as [|r l IH]; intros w H; [reflexivity|]. cbn [ingest_l_all].
    rewrite (ingest_l_settled_noop cfg w r) by (apply H; now left).
    rewrite IH by (intros r' Hr; apply H; now right). reflexivity.
  Qed.
End SeqStackAbstract.

Section SeqStack.
  Variable select : bytes -> N -> N -> bool -> option ipraw.
  Variable params_ok : N -> N -> option N -> bool.
  Variable dst_port : bytes -> N -> N -> option N -> bool -> option N.
  Variable geoip_ok : ipraw -> bool.
  Variable cc : bytes -> option bytes.

  Notation hstep' := (hstep select params_ok dst_port geoip_ok cc).
  Notation hrun' := (hrun select params_ok dst_port geoip_ok cc).
  Notation world_after' := (world_after select params_ok dst_port geoip_ok cc).
  Notation effects_of' := (effects_of select params_ok dst_port geoip_ok cc).

  Definition hworld {A B C} (x : sworld * A * B * C) : sworld := fst (fst (fst x)).
  Definition heffects {A B} (x : sworld * list effect * A * B) : list effect := snd (fst (fst x)).

  Lemma hstep_grows cfg (w : sworld) o : exists ext, wd_table (hworld (hstep' cfg w o)) = wd_table w ++ ext.
  Proof.
    unfold hworld. destruct o as [r pl pe|m pl pe|d|]; cbn [hstep].
    - destruct (ingest_l_grows L18.st (stack_ask pl pe) cc cfg w r) as [ext H].
      destruct (ingest_l L18.st (stack_ask pl pe) cc cfg w r) as [[w' ef] lg]. now exists ext.
    - destruct (parse_reg_message select params_ok dst_port geoip_ok cfg m) as [l|e|]; try (exists []; cbn; now rewrite app_nil_r).
      destruct (ingest_l_all_grows L18.st (stack_ask pl pe) cc cfg l w) as [ext H].
      destruct (ingest_l_all L18.st (stack_ask pl pe) cc cfg w l) as [[w' ef] lg]. now exists ext.
    - exists []. cbn. now rewrite app_nil_r.
    - exists []. cbn. now rewrite app_nil_r.
  Qed.

  Lemma hrun_grows cfg h : forall (w : sworld), exists ext, wd_table (hworld (hrun' cfg w h)) = wd_table w ++ ext.
  Proof.
    unfold hworld. induction h as [|o h IH]; intro w; cbn [hrun].
    - exists []. cbn. now rewrite app_nil_r.
    - destruct (hstep_grows cfg w o) as [e1 H1]. unfold hworld in H1. destruct (hstep' cfg w o) as [[[w1 ef1] a1] l1]. cbn [fst] in H1.
      destruct (IH w1) as [e2 H2]. destruct (hrun' cfg w1 h) as [[[w2 ef2] a2] l2]. cbn [fst] in *.
      exists (e1 ++ e2). now rewrite H2, H1, app_assoc.
  Qed.

  Lemma hrun_app cfg h1 : forall (w : sworld) h2,
    hrun' cfg w (h1 ++ h2) =
    let '(w1, e1, a1, l1) := hrun' cfg w h1 in
    let '(w2, e2, a2, l2) := hrun' cfg w1 h2 in (w2, e1 ++ e2, a1 ++ a2, l1 ++ l2).
  Proof.
    induction h1 as [|o h1 IH]; intros w h2; cbn [hrun app].
    - destruct (hrun' cfg w h2) as [[[w2 e2] a2] l2]. reflexivity.
    - destruct (hstep' cfg w o) as [[[w0 e0] a0] l0]. rewrite IH.
      destruct (hrun' cfg w0 h1) as [[[w1 e1] a1] l1]. destruct (hrun' cfg w1 h2) as [[[w2 e2] a2] l2].
      now rewrite !app_assoc.
  Qed.

  (* the effects of a history are the effects of its steps, each in the world the earlier steps left *)
  Lemma hrun_in_effects cfg h : forall (w : sworld) e,
    In e (heffects (hrun' cfg w h)) <->
    exists h1 o h2, h = h1 ++ o :: h2 /\ In e (heffects (hstep' cfg (hworld (hrun' cfg w h1)) o)).
  Proof.
    unfold heffects, hworld. induction h as [|o h IH]; intros w e.
    - cbn. split; [tauto|]. intros (h1 & o & h2 & H & _). destruct h1; discriminate.
    - cbn [hrun]. destruct (hstep' cfg w o) as [[[w1 e1] a1] l1] eqn:Hs. specialize (IH w1 e).
      destruct (hrun' cfg w1 h) as [[[w2 e2] a2] l2] eqn:Hr. cbn [fst snd] in *. rewrite in_app_iff. split.
      + intros [H|H].
        * exists [], o, h. split; [reflexivity|]. cbn. now rewrite Hs.
        * apply IH in H as (h1 & o' & h2 & -> & H). exists (o :: h1), o', h2. split; [reflexivity|].
          cbn [hrun]. rewrite Hs. destruct (hrun' cfg w1 h1) as [[[w3 e3] a3] l3]. exact H.
      + intros (h1 & o' & h2 & Heq & H). destruct h1 as [|o1 h1]; cbn [app] in Heq; injection Heq as <- ->.
        * left. cbn in H. now rewrite Hs in H.
        * right. apply IH. exists h1, o', h2. split; [reflexivity|].
          cbn [hrun] in H. rewrite Hs in H. destruct (hrun' cfg w1 h1) as [[[w3 e3] a3] l3]. exact H.
  Qed.

  (* a registration is announced somewhere in a history iff at some step a registration handed to ingest met every
     admission condition in the world it found, the liveness condition being the verdict the stack gave at that moment
     (messages: the same for each draft registration, see C07_stack_announced_iff_admissible) *)
  Lemma history_announced_iff cfg lc h r' :
    In (Announce r') (effects_of' cfg lc h) <->
    exists h1 o h2, h = h1 ++ o :: h2 /\ In (Announce r') (heffects (hstep' cfg (world_after' cfg lc h1) o)).
  Proof. apply (hrun_in_effects cfg h (init_world lc)). Qed.

  (* the same client message again, anywhere later in the history, whatever the network or the caches say by then:
     the station's state is unchanged and there is no effect (no consultation of the tester, no probe, share, announcement) *)
  Lemma repeated_message_no_effect_stack cfg lc h1 m pl pe h2 pl' pe' :
    let w := world_after' cfg lc (h1 ++ HMsg m pl pe :: h2) in
    hstep' cfg w (HMsg m pl' pe') = (w, [], [], []).
  Proof.
    cbn zeta. unfold world_after. rewrite hrun_app.
    destruct (hrun' cfg (init_world lc) h1) as [[[w1 e1] a1] l1]. cbn [hrun].
    assert (Hset : forall l, parse_reg_message select params_ok dst_port geoip_ok cfg m = Ok l ->
                   forall r, In r l -> settled cfg (wd_table (hworld (hstep' cfg w1 (HMsg m pl pe)))) r).
    { intros l Hl r Hr. unfold hworld. cbn [hstep]. rewrite Hl.
      pose proof (ingest_l_all_settles L18.st (stack_ask pl pe) cc cfg l w1 r Hr) as H.
      destruct (ingest_l_all L18.st (stack_ask pl pe) cc cfg w1 l) as [[w' ef] lg]. exact H. }
    unfold hworld in Hset. destruct (hstep' cfg w1 (HMsg m pl pe)) as [[[w2 e2] a2] l2]. cbn [fst] in Hset.
    destruct (hrun_grows cfg h2 w2) as [ext Hext]. unfold hworld in Hext.
    destruct (hrun' cfg w2 h2) as [[[w3 e3] a3] l3]. cbn [fst snd] in *.
    cbn [hstep]. destruct (parse_reg_message select params_ok dst_port geoip_ok cfg m) as [l|e|] eqn:Hp; try reflexivity.
    rewrite ingest_l_all_settled_noop; [reflexivity|]. intros r Hr. rewrite Hext. apply settled_app. now apply (Hset l).
  Qed.
End SeqStack.

(* ================================================================ the "if" direction over histories: fresh identifiers *)
Lemma tracked_snoc_iff st e r : tracked (st ++ [e]) r = tracked st r || same_key (e_reg e) r.
Proof. unfold tracked. rewrite existsb_app. cbn. now rewrite orb_false_r. Qed.

Section Fresh.
  Variable select : bytes -> N -> N -> bool -> option ipraw.
  Variable params_ok : N -> N -> option N -> bool.
  Variable dst_port : bytes -> N -> N -> option N -> bool -> option N.
  Variable geoip_ok : ipraw -> bool.
  Variable cc : bytes -> option bytes.
  Variable live : ipraw -> N -> bool.

  Notation process' := (process select params_ok dst_port geoip_ok cc live).
  Notation process_all' := (process_all select params_ok dst_port geoip_ok cc live).
  Notation new_reg' := (new_reg select params_ok dst_port geoip_ok).

  (* the draft registrations a message yields on this station *)
  Definition drafts_of (cfg : config) (w : wrapper) : list reg :=
    match parse_reg_message select params_ok dst_port geoip_ok cfg w with Ok l => l | _ => [] end.

  (* whatever is tracked was tracked before or is (up to its identifier) the registration just handed to ingest *)
  Lemma ingest_tracked_origin cfg st r0 r :
    tracked (fst (ingest cc live cfg st r0)) r = true -> tracked st r = true \/ same_key r0 r = true.
  Proof.
    pose proof (ingest_outcome cc live cfg st r0) as O.
    inversion O; cbn [fst]; auto; rewrite tracked_snoc_iff; cbn [e_reg]; rewrite ?same_key_set_covert_l;
      intro Hx; apply orb_true_iff in Hx; tauto.
  Qed.

  Lemma ingest_all_tracked_origin cfg l : forall st r,
    tracked (fst (ingest_all cc live cfg st l)) r = true -> tracked st r = true \/ exists r0, In r0 l /\ same_key r0 r = true.
  Proof.
    induction l as [|r1 l IH]; intros st r; cbn [ingest_all]; [auto|].
    pose proof (ingest_tracked_origin cfg st r1 r) as H1.
    destruct (ingest cc live cfg st r1) as [st1 e1]. cbn [fst] in H1. specialize (IH st1 r).
    destruct (ingest_all cc live cfg st1 l) as [st2 e2]. cbn [fst] in *.
    intro H. destruct (IH H) as [H'|(r0 & Hin & Hk)].
    - destruct (H1 H') as [?|?]; [auto|]. right. exists r1. split; [now left|auto].
    - right. exists r0. split; [now right|auto].
  Qed.

  Lemma process_all_tracked_origin cfg ws : forall st r,
    tracked (fst (process_all' cfg st ws)) r = true ->
    tracked st r = true \/ exists w0 r0, In w0 ws /\ In r0 (drafts_of cfg w0) /\ same_key r0 r = true.
  Proof.
    induction ws as [|w ws IH]; intros st r; cbn [process_all]; [auto|].
    assert (H1 : tracked (fst (process' cfg st w)) r = true -> tracked st r = true \/ exists r0, In r0 (drafts_of cfg w) /\ same_key r0 r = true).
    { unfold process, drafts_of. destruct (parse_reg_message select params_ok dst_port geoip_ok cfg w) as [l|e|]; auto.
      apply ingest_all_tracked_origin. }
    destruct (process' cfg st w) as [st1 e1]. cbn [fst] in H1. specialize (IH st1 r).
    destruct (process_all' cfg st1 ws) as [st2 e2]. cbn [fst] in *.
    intro H. destruct (IH H) as [H'|(w0 & r0 & Hin & Hd & Hk)].
    - destruct (H1 H') as [?|(r0 & Hd & Hk)]; [auto|]. right. exists w, r0. split; [now left|auto].
    - right. exists w0, r0. split; [now right|auto].
  Qed.

  (* The "if" direction with the table-state hypothesis discharged into a condition on the INPUTS of the history: after
     any history of messages from the empty table, a message all of whose requested families can be built yields an
     announced (connectable) registration for every requested family that meets the listed conditions, provided no
     earlier draft registration -- of an earlier message, or the IPv4 sibling of this one -- used its identifier
     (phantom, transport, shared secret). *)
  Lemma if_direction_fresh_identifier cfg ws w p v6 r :
    let st := fst (process_all' cfg [] ws) in
    w_payload w = Some p -> message_ok select params_ok dst_port geoip_ok cfg w p = true -> want cfg w p v6 = true ->
    new_reg' cfg w p v6 = Ok r ->
    listed_conditions cc live cfg r = true ->
    (forall w0 r0, In w0 ws -> In r0 (drafts_of cfg w0) -> same_key r0 r = false) ->
    (v6 = true -> forall r4, new_reg' cfg w p false = Ok r4 -> same_key r4 r = false) ->
    exists r', In (Announce r') (snd (process' cfg st w)).
  Proof.
    cbn zeta. intros Hp Hok Hw En Hl Hfresh Hsib.
    apply (if_direction_partial select params_ok dst_port geoip_ok cc live cfg _ w p v6 r Hp Hok Hw En).
    assert (Ht0 : tracked (fst (process_all' cfg [] ws)) r = false).
    { destruct (tracked (fst (process_all' cfg [] ws)) r) eqn:E; [|reflexivity]. exfalso.
      destruct (process_all_tracked_origin cfg ws [] r E) as [H|(w0 & r0 & Hin & Hd & Hk)]; [discriminate|].
      rewrite (Hfresh w0 r0 Hin Hd) in Hk. discriminate. }
    assert (Ht : tracked (state_before select params_ok dst_port geoip_ok cc live cfg (fst (process_all' cfg [] ws)) w p v6) r = false).
    { unfold state_before. destruct (v6 && want cfg w p false) eqn:Ev; [|exact Ht0].
      destruct (new_reg' cfg w p false) as [r4|e|] eqn:E4; try exact Ht0.
      destruct (tracked (fst (ingest cc live cfg (fst (process_all' cfg [] ws)) r4)) r) eqn:E; [|reflexivity]. exfalso.
      apply andb_true_iff in Ev as [-> _].
      destruct (ingest_tracked_origin cfg _ r4 r E) as [H|H]; [congruence|]. rewrite (Hsib eq_refl r4 eq_refl) in H. discriminate. }
    unfold listed_conditions in Hl. unfold admissible. rewrite Ht. cbn [negb].
    apply andb_true_iff in Hl as [Hl H5]. apply andb_true_iff in Hl as [Hl H4]. rewrite Hl, H4, H5. reflexivity.
  Qed.
End Fresh.
