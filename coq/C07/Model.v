(* C07 — admission of a registration (pkg/station/lib/registration_ingest.go:
   parseRegMessage, NewRegistrationC2SWrapper, NewRegistration, ingestRegistration;
   registration.go: ValidateRegistration, track / register / getRegistrations,
   GenerateC2SWrapper, PreScanned).  Definitions only.

   Messages are records of optional fields (the protobuf wire codec is outside the model).
   External, as Section variables: phantom selection, transport parameter parsing,
   destination-port derivation, GeoIP, the covert policy function (C06), the liveness probe. *)
From CJ Require Import Common.Base C06.Model.

(* pb.RegistrationSource *)
Definition src_unspecified : N := 0.
Definition src_detector : N := 1.
Definition src_api : N := 2.
Definition src_detector_prescan : N := 3.

(* ---------------------------------------------------------------- messages *)
Record c2s := {
  c_v4 : bool;                 (* GetV4Support (absent = false) *)
  c_v6 : bool;                 (* GetV6Support *)
  c_gen : N;                   (* decoy_list_generation *)
  c_libver : N;                (* client_lib_version *)
  c_transport : N;
  c_covert : bytes;
  c_prescanned : bool;         (* Flags != nil && Flags.GetPrescanned() *)
  c_params : option N;         (* transport_params: opaque token *)
  c_no_overrides : bool;       (* disable_registrar_overrides *)
  c_tag : N                    (* any other content of the message (opaque) *)
}.

Record rresp := {
  rr_port : option N;          (* dst_port (uint32) *)
  rr_v4 : option N;            (* ipv4addr (fixed32) *)
  rr_v6 : option bytes;        (* ipv6addr *)
  rr_params : option N
}.

Record wrapper := {
  w_secret : bytes;
  w_payload : option c2s;
  w_source : N;                (* GetRegistrationSource (absent = Unspecified) *)
  w_regaddr : option bytes;    (* registration_address *)
  w_rr : option rresp
}.

(* ---------------------------------------------------------------- registrations *)
Record reg := {
  r_has_keys : bool;           (* Keys != nil *)
  r_secret : bytes;
  r_phantom : option ipraw;    (* PhantomIp; None = nil *)
  r_port : N;
  r_transport : N;
  r_covert : bytes;
  r_prescanned : bool;
  r_source : option N;         (* RegistrationSource; None = nil pointer *)
  r_regaddr : ipraw;
  r_orig : option c2s          (* originalC2S *)
}.

Definition set_covert (r : reg) (c : bytes) : reg :=
  {| r_has_keys := r_has_keys r; r_secret := r_secret r; r_phantom := r_phantom r; r_port := r_port r;
     r_transport := r_transport r; r_covert := c; r_prescanned := r_prescanned r; r_source := r_source r;
     r_regaddr := r_regaddr r; r_orig := r_orig r |}.

Definition set_prescanned (p : c2s) : c2s :=
  {| c_v4 := c_v4 p; c_v6 := c_v6 p; c_gen := c_gen p; c_libver := c_libver p; c_transport := c_transport p;
     c_covert := c_covert p; c_prescanned := true; c_params := c_params p; c_no_overrides := c_no_overrides p;
     c_tag := c_tag p |}.

Definition set_params (p : c2s) (x : option N) : c2s :=
  {| c_v4 := c_v4 p; c_v6 := c_v6 p; c_gen := c_gen p; c_libver := c_libver p; c_transport := c_transport p;
     c_covert := c_covert p; c_prescanned := c_prescanned p; c_params := x; c_no_overrides := c_no_overrides p;
     c_tag := c_tag p |}.

(* station configuration *)
Record config := {
  cf_v4 : bool;                (* EnableIPv4 *)
  cf_v6 : bool;                (* EnableIPv6 *)
  cf_transports : list N;      (* registered transports *)
  cf_pblock : list ipnet;      (* phantomBlocklist *)
  cf_share : bool              (* EnableShareOverAPI *)
}.

Definition is_v4 (ip : ipraw) : bool := match to4 ip with Some _ => true | None => false end.
Definition phantom_is_v4 (r : reg) : bool := match r_phantom r with Some ip => is_v4 ip | None => false end.
Definition transport_enabled (cfg : config) (t : N) : bool := existsb (N.eqb t) (cf_transports cfg).
Definition phantom_blocked (cfg : config) (ip : ipraw) : bool := in_nets (cf_pblock cfg) ip.

(* big-endian 4 bytes of a uint32 *)
Definition be32 (n : N) : bytes :=
  [N.land (N.shiftr n 24) 255; N.land (N.shiftr n 16) 255; N.land (N.shiftr n 8) 255; N.land n 255].

(* the message that is passed on to peer stations (GenerateC2SWrapper) *)
Record shared := { sh_secret : bytes; sh_payload : c2s; sh_source : N; sh_regaddr : ipraw }.

Definition generate_c2s_wrapper (r : reg) : option shared :=
  match r_orig r with
  | None => None
  | Some p =>
    if negb (phantom_is_v4 r) && c_v4 p then None       (* the IPv6 twin of a dual-stack registration *)
    else Some {| sh_secret := r_secret r; sh_payload := set_prescanned p;
                 sh_source := src_detector_prescan; sh_regaddr := r_regaddr r |}
  end.

(* ---------------------------------------------------------------- the registration table *)
Record entry := { e_reg : reg; e_valid : bool }.
Definition table := list entry.

(* decoys[PhantomIp.String()][identifier]: the identifier of the driver's transports is (transport, secret) *)
Definition phantom_key (r : reg) : ipraw := match r_phantom r with Some ip => norm ip | None => [] end.
Definition same_key (a b : reg) : bool :=
  bytes_eqb (phantom_key a) (phantom_key b) && (r_transport a =? r_transport b) && bytes_eqb (r_secret a) (r_secret b).

Definition tracked (st : table) (r : reg) : bool := existsb (fun e => same_key (e_reg e) r) st.

(* getRegistrations: only valid entries of that phantom *)
Definition visible (st : table) (ph : ipraw) : list reg :=
  map e_reg (filter (fun e => e_valid e && bytes_eqb (phantom_key (e_reg e)) (norm ph)) st).
Definition visible_all (st : table) : list reg := map e_reg (filter e_valid st).

Fixpoint mark_valid (st : table) (r : reg) : table :=
  match st with
  | [] => []
  | e :: rest => if same_key (e_reg e) r then {| e_reg := e_reg e; e_valid := true |} :: rest
                 else e :: mark_valid rest r
  end.

Fixpoint is_valid (st : table) (r : reg) : bool :=
  match st with
  | [] => false
  | e :: rest => if same_key (e_reg e) r then e_valid e else is_valid rest r
  end.

Inductive effect :=
| Probe (ip : ipraw) (port : N)
| Share (s : shared)
| Announce (r : reg).

Inductive perr := ErrBuild.    (* any error of parseRegMessage: the whole message is dropped *)

Section External.
  (* PhantomIPSelector.Select on the seed derived from (secret, libver): None = error
     (unknown generation, no subnet of that family, ...) *)
  Variable select : bytes -> N -> N -> bool -> option ipraw.
  (* Transport.ParseParams: false = error *)
  Variable params_ok : N -> N -> option N -> bool.
  (* getPhantomDstPort after successful parameter parsing: None = error *)
  Variable dst_port : bytes -> N -> N -> option N -> bool -> option N.
  (* GeoIP CC and ASN lookups both succeed *)
  Variable geoip_ok : ipraw -> bool.
  (* fst of ParseOrResolveBlocklisted under the station's covert policy (C06) *)
  Variable covert_check : bytes -> option bytes.
  (* LivenessTester.PhantomIsLive *)
  Variable live : ipraw -> N -> bool.

  (* ---- NewRegistrationC2SWrapper + NewRegistration ---- *)
  Definition effective_params (w : wrapper) (p : c2s) : option N :=
    match w_rr w with
    | Some rr => match rr_params rr with
                 | Some x => if c_no_overrides p then c_params p else Some x
                 | None => c_params p
                 end
    | None => c_params p
    end.

  (* the registrar's phantom override for this family: an ipv6addr that is not a 16-byte,
     non-IPv4-mapped address is an error (the message is dropped) *)
  Definition ip_override (w : wrapper) (v6 : bool) : result perr (option ipraw) :=
    match w_rr w with
    | None => Ok None
    | Some rr =>
      if v6 then
        match rr_v6 rr with
        | None => Ok None
        | Some b => if negb (len_is 16 b) then Err ErrBuild
                    else if is_v4 b then Err ErrBuild
                    else Ok (Some b)
        end
      else match rr_v4 rr with
           | Some a => if a =? 0 then Ok None else Ok (Some (be32 a))
           | None => Ok None
           end
    end.

  Definition port_override (w : wrapper) : option N :=
    match w_rr w with
    | Some rr => match rr_port rr with Some p => Some (p mod 65536) | None => None end
    | None => None
    end.

  Definition regaddr_of (w : wrapper) : ipraw :=
    match w_regaddr w with Some a => a | None => repeat 0 16 end.

  Definition new_reg (cfg : config) (w : wrapper) (p : c2s) (v6 : bool) : result perr reg :=
    let prm := effective_params w p in
    match ip_override w v6 with
    | Err e => Err e
    | Panic => Panic
    | Ok ovr =>
    match select (w_secret w) (c_gen p) (c_libver p) v6 with
    | None => Err ErrBuild
    | Some sel =>
      if negb (transport_enabled cfg (c_transport p)) then Err ErrBuild
      else if negb (params_ok (c_transport p) (c_libver p) prm) then Err ErrBuild
      else match dst_port (w_secret w) (c_transport p) (c_libver p) prm v6 with
      | None => Err ErrBuild
      | Some port0 =>
        let ph := match ovr with Some o => o | None => sel end in
        let client := regaddr_of w in
        if negb (valid_ip client) then Err ErrBuild                 (* not an address *)
        else if is_v4 ph && negb (is_v4 client) then Err ErrBuild   (* IPv6 client chose IPv4 phantom *)
        else if negb (geoip_ok client) then Err ErrBuild
        else Ok {| r_has_keys := true; r_secret := w_secret w; r_phantom := Some ph;
                   r_port := match port_override w with Some o => o | None => port0 end;
                   r_transport := c_transport p; r_covert := c_covert p;
                   r_prescanned := c_prescanned p; r_source := Some (w_source w);
                   r_regaddr := client; r_orig := Some (set_params p prm) |}
      end
    end
    end.

  (* parseRegMessage: zero, one or two drafts, or an error that drops the whole message *)
  Definition parse_reg_message (cfg : config) (w : wrapper) : result perr (list reg) :=
    match w_payload w with
    | None => Ok []
    | Some p =>
      let want4 := c_v4 p && cf_v4 cfg && is_v4 (regaddr_of w) in
      let want6 := c_v6 p && cf_v6 cfg in
      match (if want4 then match new_reg cfg w p false with Ok r => Ok [r] | Err e => Err e | Panic => Panic end
             else Ok []) with
      | Ok l4 =>
        if want6 then match new_reg cfg w p true with Ok r => Ok (l4 ++ [r]) | Err e => Err e | Panic => Panic end
        else Ok l4
      | other => other
      end
    end.

  (* ---- ValidateRegistration ---- *)
  Definition complete (r : reg) : bool :=
    r_has_keys r && match r_phantom r with Some _ => true | None => false end &&
    match r_source r with Some _ => true | None => false end.

  Definition from_detector (r : reg) : bool :=
    match r_source r with Some s => s =? src_detector | None => false end.

  Definition reg_phantom_blocked (cfg : config) (r : reg) : bool :=
    match r_phantom r with Some ip => phantom_blocked cfg ip | None => false end.

  Definition validate (cfg : config) (r : reg) : bool :=
    complete r && transport_enabled cfg (r_transport r) &&
    (from_detector r || negb (reg_phantom_blocked cfg r)).

  Definition needs_probe (r : reg) : bool := negb (r_prescanned r) && phantom_is_v4 r.

  Definition probe_live (r : reg) : bool :=
    match r_phantom r with Some ip => live ip (r_port r) | None => false end.

  Definition probe_effect (r : reg) : list effect :=
    match r_phantom r with Some ip => [Probe ip (r_port r)] | None => [] end.

  (* ---- ingestRegistration (one worker, sequential) ---- *)
  Definition ingest (cfg : config) (st : table) (r : reg) : table * list effect :=
    if negb (validate cfg r) then (st, [])
    else if tracked st r then (st, [])                       (* duplicate: only the counter moves *)
    else
      let st1 := st ++ [{| e_reg := r; e_valid := false |}] in      (* TrackRegistration *)
      match covert_check (r_covert r) with
      | None => (st1, [])
      | Some lit =>
        let r' := set_covert r lit in                        (* reg.Covert = covert (same object as tracked) *)
        let st2 := st ++ [{| e_reg := r'; e_valid := false |}] in
        let probe := if needs_probe r' then probe_effect r' else [] in
        if needs_probe r' && probe_live r' then (st2, probe)
        else
          let share := if from_detector r' && cf_share cfg
                       then match generate_c2s_wrapper r' with Some s => [Share s] | None => [] end
                       else [] in
          if from_detector r' && reg_phantom_blocked cfg r' then (st2, probe ++ share)
          else (st ++ [{| e_reg := r'; e_valid := true |}], probe ++ share ++ [Announce r'])
      end.

  Fixpoint ingest_all (cfg : config) (st : table) (l : list reg) : table * list effect :=
    match l with
    | [] => (st, [])
    | r :: rest => let '(st1, e1) := ingest cfg st r in
                   let '(st2, e2) := ingest_all cfg st1 rest in (st2, e1 ++ e2)
    end.

  (* one message through a worker: parse, then ingest every draft *)
  Definition process (cfg : config) (st : table) (w : wrapper) : table * list effect :=
    match parse_reg_message cfg w with
    | Ok l => ingest_all cfg st l
    | _ => (st, [])
    end.

  (* a history of messages through one worker *)
  Fixpoint process_all (cfg : config) (st : table) (ws : list wrapper) : table * list effect :=
    match ws with
    | [] => (st, [])
    | w :: rest => let '(st1, e1) := process cfg st w in
                   let '(st2, e2) := process_all cfg st1 rest in (st2, e1 ++ e2)
    end.
End External.

(* ---------------------------------------------------------------- the property's vocabulary *)
Section Spec.
  Variable select : bytes -> N -> N -> bool -> option ipraw.
  Variable params_ok : N -> N -> option N -> bool.
  Variable dst_port : bytes -> N -> N -> option N -> bool -> option N.
  Variable geoip_ok : ipraw -> bool.
  Variable covert_check : bytes -> option bytes.
  Variable live : ipraw -> N -> bool.

  Definition covert_ok (r : reg) : bool :=
    match covert_check (r_covert r) with Some _ => true | None => false end.

  (* the admission conditions of one draft registration in table state st *)
  Definition admissible (cfg : config) (st : table) (r : reg) : bool :=
    complete r && transport_enabled cfg (r_transport r) && negb (reg_phantom_blocked cfg r) &&
    negb (tracked st r) && covert_ok r && (negb (needs_probe r) || negb (probe_live live r)).

  (* a probe is required: every condition that is checked before it holds, and one is needed *)
  Definition probe_required (cfg : config) (st : table) (r : reg) : bool :=
    validate cfg r && negb (tracked st r) && covert_ok r && needs_probe r.

  (* the registration is passed on to the peers *)
  Definition share_due (cfg : config) (st : table) (r : reg) : bool :=
    validate cfg r && negb (tracked st r) && covert_ok r && (negb (needs_probe r) || negb (probe_live live r)) &&
    from_detector r && cf_share cfg &&
    match generate_c2s_wrapper r with Some _ => true | None => false end.

  (* which drafts a message asks for, and whether each can be built *)
  Definition want (cfg : config) (w : wrapper) (p : c2s) (v6 : bool) : bool :=
    if v6 then c_v6 p && cf_v6 cfg else c_v4 p && cf_v4 cfg && is_v4 (regaddr_of w).

  Definition override_valid (w : wrapper) (v6 : bool) : bool :=
    match ip_override w v6 with Ok _ => true | _ => false end.

  Definition phantom_of (w : wrapper) (p : c2s) (v6 : bool) : option ipraw :=
    match ip_override w v6, select (w_secret w) (c_gen p) (c_libver p) v6 with
    | Ok (Some o), Some _ => Some o
    | Ok None, Some sel => Some sel
    | _, _ => None
    end.

  (* conditions under which NewRegistrationC2SWrapper succeeds for one family *)
  Definition buildable (cfg : config) (w : wrapper) (p : c2s) (v6 : bool) : bool :=
    override_valid w v6 &&
    match select (w_secret w) (c_gen p) (c_libver p) v6 with Some _ => true | None => false end &&   (* generation known *)
    transport_enabled cfg (c_transport p) &&
    params_ok (c_transport p) (c_libver p) (effective_params w p) &&
    match dst_port (w_secret w) (c_transport p) (c_libver p) (effective_params w p) v6 with Some _ => true | None => false end &&
    valid_ip (regaddr_of w) &&
    match phantom_of w p v6 with Some ph => negb (is_v4 ph) || is_v4 (regaddr_of w) | None => false end &&  (* family consistent *)
    geoip_ok (regaddr_of w).

  (* the message as a whole is accepted: every requested family can be built *)
  Definition message_ok (cfg : config) (w : wrapper) (p : c2s) : bool :=
    (negb (want cfg w p false) || buildable cfg w p false) && (negb (want cfg w p true) || buildable cfg w p true).
End Spec.

Section Spec2.
  Variable select : bytes -> N -> N -> bool -> option ipraw.
  Variable params_ok : N -> N -> option N -> bool.
  Variable dst_port : bytes -> N -> N -> option N -> bool -> option N.
  Variable geoip_ok : ipraw -> bool.
  Variable covert_check : bytes -> option bytes.
  Variable live : ipraw -> N -> bool.

  (* the table state in which the draft of family v6 is ingested: the IPv6 draft of a dual-stack
     message comes after the IPv4 one *)
  Definition state_before (cfg : config) (st : table) (w : wrapper) (p : c2s) (v6 : bool) : table :=
    if v6 && want cfg w p false
    then match new_reg select params_ok dst_port geoip_ok cfg w p false with
         | Ok r4 => fst (ingest covert_check live cfg st r4)
         | _ => st
         end
    else st.
End Spec2.

(* ---------------------------------------------------------------- the "if" direction, as the property states it *)
Section FullStatement.
  Variable select : bytes -> N -> N -> bool -> option ipraw.
  Variable params_ok : N -> N -> option N -> bool.
  Variable dst_port : bytes -> N -> N -> option N -> bool -> option N.
  Variable geoip_ok : ipraw -> bool.
  Variable covert_check : bytes -> option bytes.
  Variable live : ipraw -> N -> bool.

  (* the conditions the property lists for one family of a message *)
  Definition listed_conditions (cfg : config) (r : reg) : bool :=
    complete r && transport_enabled cfg (r_transport r) && negb (reg_phantom_blocked cfg r) &&
    covert_ok covert_check r && (negb (needs_probe r) || negb (probe_live live r)).

  (* connectable afterwards: a valid table entry for this registration *)
  Definition connectable (st : table) (r : reg) : Prop :=
    exists e, In e st /\ same_key (e_reg e) r = true /\ e_valid e = true.

  (* after any history ws: a requested family that can be built and meets every listed condition is connectable *)
  Definition if_direction_statement : Prop :=
    forall cfg ws w p v6 r,
      let st := fst (process_all select params_ok dst_port geoip_ok covert_check live cfg [] ws) in
      w_payload w = Some p -> want cfg w p v6 = true ->
      new_reg select params_ok dst_port geoip_ok cfg w p v6 = Ok r ->
      listed_conditions cfg r = true ->
      connectable (fst (process select params_ok dst_port geoip_ok covert_check live cfg st w)) r.
End FullStatement.
