From Coq Require Import Lia Arith.
From CJ Require Import Common.Base C06.Model C07.Model C07.Proofs C07.ModelLife.

Section LifeProofs.
  Variable S : Type.
  Variable pick : S -> bytes -> N -> bool -> option ipraw.
  Variable params_ok : N -> N -> option N -> bool.
  Variable dst_port : bytes -> N -> N -> option N -> bool -> option N.
  Variable geoip_ok : ipraw -> bool.
  Variable covert_check : bytes -> option bytes.
  Variable live : ipraw -> N -> bool.

  Notation lrun' := (lrun S pick params_ok dst_port geoip_ok covert_check live).
  Notation lstep' := (lstep S pick params_ok dst_port geoip_ok covert_check live).
  Notation proc f := (process (select_of S pick f) params_ok dst_port geoip_ok covert_check live).

  Lemma in_force_app f h1 h2 : in_force S (in_force S f h1) h2 = in_force S f (h1 ++ h2).
  Proof. revert f; induction h1 as [|o h1 IH]; intros f; simpl; auto. destruct o; apply IH. Qed.

  Lemma lstep_file cfg s o : fst (fst (lstep' cfg s o)) = in_force S (fst s) [o].
  Proof.
    destruct o as [w|r]; simpl; auto.
    destruct (process _ _ _ _ _ _ _ _ _) as [st' e]; reflexivity.
  Qed.

  Lemma lrun_file cfg s h : fst (fst (lrun' cfg s h)) = in_force S (fst s) h.
  Proof.
    revert s; induction h as [|o h IH]; intros s; simpl; auto.
    destruct (lstep' cfg s o) as [s1 e] eqn:E. specialize (IH s1).
    destruct (lrun' cfg s1 h) as [s2 es]. simpl in *. rewrite IH.
    pose proof (lstep_file cfg s o) as F. rewrite E in F. simpl in F. rewrite F.
    destruct o; reflexivity.
  Qed.

  Lemma lrun_app cfg s h1 h2 :
    lrun' cfg s (h1 ++ h2) =
    let '(s1, e1) := lrun' cfg s h1 in let '(s2, e2) := lrun' cfg s1 h2 in (s2, e1 ++ e2).
  Proof.
    revert s; induction h1 as [|o h1 IH]; intros s; simpl.
    - destruct (lrun' cfg s h2); reflexivity.
    - destruct (lstep' cfg s o) as [s1 e]. rewrite IH.
      destruct (lrun' cfg s1 h1) as [s2 es]. destruct (lrun' cfg s2 h2) as [s3 es']. reflexivity.
  Qed.

  Lemma lrun_len cfg s h : length (snd (lrun' cfg s h)) = length h.
  Proof.
    revert s; induction h as [|o h IH]; intros s; simpl; auto.
    destruct (lstep' cfg s o) as [s1 e]. specialize (IH s1). destruct (lrun' cfg s1 h). simpl in *. congruence.
  Qed.

  (* the step a message meets: process with the selector of the file in force, on the table the history left *)
  Lemma lifecycle_step cfg f st h1 w h2 :
    nth (length h1) (snd (lrun' cfg (f, st) (h1 ++ LMsg S w :: h2))) [] =
    snd (proc (in_force S f h1) cfg (snd (fst (lrun' cfg (f, st) h1))) w).
  Proof.
    rewrite lrun_app.
    pose proof (lrun_file cfg (f, st) h1) as F. pose proof (lrun_len cfg (f, st) h1) as L.
    destruct (lrun' cfg (f, st) h1) as [[f1 st1] e1]. simpl in F, L. subst f1.
    simpl. destruct (process _ _ _ _ _ _ _ _ _) as [st' e] eqn:P.
    destruct (lrun' cfg (in_force S f h1, st') h2) as [s2 e2].
    simpl. rewrite app_nth2 by lia. rewrite L, Nat.sub_diag. reflexivity.
  Qed.

  Lemma lifecycle_reload_step cfg f st h1 r h2 :
    nth (length h1) (snd (lrun' cfg (f, st) (h1 ++ LReload S r :: h2))) [] = [].
  Proof.
    rewrite lrun_app. pose proof (lrun_len cfg (f, st) h1) as L.
    destruct (lrun' cfg (f, st) h1) as [s1 e1]. simpl in L. simpl.
    destruct (lrun' cfg (reload S (fst s1) r, snd s1) h2) as [s2 e2].
    simpl. rewrite app_nth2 by lia. rewrite L, Nat.sub_diag. reflexivity.
  Qed.

  Lemma lifecycle_reload_table cfg s r :
    snd (fst (lrun' cfg s [LReload S r])) = snd s.
  Proof. reflexivity. Qed.

  Lemma lifecycle_announced_iff cfg f st h1 w h2 r' :
    let f1 := in_force S f h1 in
    let st1 := snd (fst (lrun' cfg (f, st) h1)) in
    let sel := select_of S pick f1 in
    In (Announce r') (nth (length h1) (snd (lrun' cfg (f, st) (h1 ++ LMsg S w :: h2))) []) <->
    exists p v6 r lit,
      w_payload w = Some p /\ message_ok sel params_ok dst_port geoip_ok cfg w p = true /\
      want cfg w p v6 = true /\
      new_reg sel params_ok dst_port geoip_ok cfg w p v6 = Ok r /\
      admissible covert_check live cfg (state_before sel params_ok dst_port geoip_ok covert_check live cfg st1 w p v6) r = true /\
      covert_check (r_covert r) = Some lit /\ r' = set_covert r lit.
  Proof. intros f1 st1 sel. rewrite lifecycle_step. apply process_announce_iff. Qed.

  (* a generation that the file in force does not hold cannot be built *)
  Lemma unknown_not_buildable cfg f w p v6 :
    known S f (c_gen p) = false ->
    buildable (select_of S pick f) params_ok dst_port geoip_ok cfg w p v6 = false.
  Proof.
    intros K. unfold buildable, select_of. unfold known in K.
    destruct (gen_lookup S f (c_gen p)); [discriminate|].
    rewrite andb_false_r. reflexivity.
  Qed.

  Lemma known_buildable_conj cfg f w p v6 :
    buildable (select_of S pick f) params_ok dst_port geoip_ok cfg w p v6 = true -> known S f (c_gen p) = true.
  Proof.
    intros B. destruct (known S f (c_gen p)) eqn:K; auto.
    rewrite (unknown_not_buildable cfg f w p v6 K) in B. discriminate.
  Qed.

  Lemma process_unknown cfg f st w p :
    w_payload w = Some p -> known S f (c_gen p) = false ->
    proc f cfg st w = (st, []).
  Proof.
    intros P K. unfold process, parse_reg_message. rewrite P.
    assert (N4 : forall v6, new_reg (select_of S pick f) params_ok dst_port geoip_ok cfg w p v6 = Err ErrBuild \/
                            new_reg (select_of S pick f) params_ok dst_port geoip_ok cfg w p v6 = Panic).
    { intros v6. unfold new_reg. destruct (ip_override w v6) as [o|e|]; auto.
      - unfold select_of. unfold known in K. destruct (gen_lookup S f (c_gen p)); [discriminate|]. auto.
      - destruct e; auto. }
    destruct (c_v4 p && cf_v4 cfg && is_v4 (regaddr_of w)); destruct (c_v6 p && cf_v6 cfg);
      try (destruct (N4 false) as [E|E]; rewrite E; reflexivity).
    - destruct (N4 true) as [E|E]; rewrite E; reflexivity.
    - reflexivity.
  Qed.

  Lemma lifecycle_unknown_no_effect cfg f st h1 w h2 p :
    w_payload w = Some p -> known S (in_force S f h1) (c_gen p) = false ->
    nth (length h1) (snd (lrun' cfg (f, st) (h1 ++ LMsg S w :: h2))) [] = [] /\
    snd (fst (lrun' cfg (f, st) (h1 ++ [LMsg S w]))) = snd (fst (lrun' cfg (f, st) h1)).
  Proof.
    intros P K. split.
    - rewrite lifecycle_step. rewrite (process_unknown cfg _ _ w p P K). reflexivity.
    - rewrite lrun_app. pose proof (lrun_file cfg (f, st) h1) as F.
      destruct (lrun' cfg (f, st) h1) as [[f1 st1] e1]. simpl in F. subst f1. simpl.
      rewrite (process_unknown cfg _ _ w p P K). reflexivity.
  Qed.

  Lemma in_force_last_reload f h f' : in_force S f (h ++ [LReload S (Some f')]) = f'.
  Proof. rewrite <- in_force_app. reflexivity. Qed.
  Lemma in_force_failed_reload f h : in_force S f (h ++ [LReload S None]) = in_force S f h.
  Proof. rewrite <- in_force_app. reflexivity. Qed.
  Lemma in_force_msg f h w : in_force S f (h ++ [LMsg S w]) = in_force S f h.
  Proof. rewrite <- in_force_app. reflexivity. Qed.

  (* lookups across a whole lifecycle history: exactly what was announced (a reload neither adds nor removes) *)
  Lemma lifecycle_visible cfg s h :
    visible_all (snd (fst (lrun' cfg s h))) = visible_all (snd s) ++ announced_regs (concat (snd (lrun' cfg s h))).
  Proof.
    revert s; induction h as [|o h IH]; intros s; simpl.
    - rewrite app_nil_r. reflexivity.
    - destruct (lstep' cfg s o) as [s1 e] eqn:E. specialize (IH s1).
      destruct (lrun' cfg s1 h) as [s2 es]. simpl in *. rewrite IH.
      rewrite announced_regs_app.
      destruct o as [w|r]; simpl in E.
      + destruct (process _ _ _ _ _ _ _ _ _) as [st' e'] eqn:P. inversion E; subst. simpl.
        pose proof (process_visible (select_of S pick (fst s)) params_ok dst_port geoip_ok covert_check live cfg (snd s) w) as V.
        rewrite P in V. simpl in V. rewrite V. rewrite app_assoc. reflexivity.
      + inversion E; subst. simpl. reflexivity.
  Qed.
End LifeProofs.

(* merge-instead-of-replace: a generation the operator removed stays known *)
Lemma merge_keeps_retired :
  exists (f f' : pfile unit) g, known unit (reload_merge unit f (Some f')) g = true /\ known unit f' g = false /\
                                known unit (reload unit f (Some f')) g = false.
Proof. exists [(1%N, tt); (2%N, tt)], [(1%N, tt)], 2%N. vm_compute. auto. Qed.

Lemma gen_lookup_app S (f' f : pfile S) g :
  gen_lookup S (f' ++ f) g = match gen_lookup S f' g with Some s => Some s | None => gen_lookup S f g end.
Proof. induction f' as [|[g' s] r IH]; simpl; auto. destruct (N.eqb g g'); auto. Qed.

(* general: whatever the old and the new file, merging keeps every generation the operator removed *)
Lemma merge_keeps_every_retired S (f f' : pfile S) g :
  known S f g = true -> known S f' g = false ->
  known S (reload_merge S f (Some f')) g = true /\ known S (reload S f (Some f')) g = false.
Proof.
  intros K K'. split; [|exact K'].
  unfold known, reload_merge in *. rewrite gen_lookup_app.
  destruct (gen_lookup S f' g); [discriminate|]. exact K.
Qed.
