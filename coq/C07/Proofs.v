(* C07: lemmas about the admission model. *)
From CJ Require Import Common.Base C06.Model C07.Model.
From Coq Require Import Lia.

Local Open Scope N_scope.

(* ---- set_covert changes nothing the admission procedure looks at afterwards ---- *)
Lemma needs_probe_set_covert r c : needs_probe (set_covert r c) = needs_probe r.
Proof. reflexivity. Qed.
Lemma from_detector_set_covert r c : from_detector (set_covert r c) = from_detector r.
Proof. reflexivity. Qed.
Lemma blocked_set_covert cfg r c : reg_phantom_blocked cfg (set_covert r c) = reg_phantom_blocked cfg r.
Proof. reflexivity. Qed.
Lemma wrapper_set_covert r c : generate_c2s_wrapper (set_covert r c) = generate_c2s_wrapper r.
Proof. reflexivity. Qed.
Lemma same_key_set_covert a r c : same_key a (set_covert r c) = same_key a r.
Proof. reflexivity. Qed.

Lemma in_probe_effect r e : In e (probe_effect r) -> exists ip, r_phantom r = Some ip /\ e = Probe ip (r_port r).
Proof.
  unfold probe_effect. destruct (r_phantom r) as [ip|]; [|intros []].
  intros [<-|[]]. now exists ip.
Qed.

Lemma announce_not_in_probe r x : ~ In (Announce x) (probe_effect r).
Proof. intro H. apply in_probe_effect in H as (ip & _ & H). discriminate. Qed.
Lemma share_not_in_probe r x : ~ In (Share x) (probe_effect r).
Proof. intro H. apply in_probe_effect in H as (ip & _ & H). discriminate. Qed.

Section Ingest.
  Variable covert_check : bytes -> option bytes.
  Variable live : ipraw -> N -> bool.

  Notation ingest' := (ingest covert_check live).
  Notation admissible' := (admissible covert_check live).
  Notation probe_required' := (probe_required covert_check).
  Notation share_due' := (share_due covert_check live).

  (* the shape of every outcome of ingestRegistration *)
  Inductive outcome (cfg : config) (st : table) (r : reg) : table * list effect -> Prop :=
  | o_invalid : validate cfg r = false -> outcome cfg st r (st, [])
  | o_dup : validate cfg r = true -> tracked st r = true -> outcome cfg st r (st, [])
  | o_covert : validate cfg r = true -> tracked st r = false -> covert_check (r_covert r) = None ->
      outcome cfg st r (st ++ [{| e_reg := r; e_valid := false |}], [])
  | o_live lit : validate cfg r = true -> tracked st r = false -> covert_check (r_covert r) = Some lit ->
      needs_probe r = true -> probe_live live r = true ->
      outcome cfg st r (st ++ [{| e_reg := set_covert r lit; e_valid := false |}], probe_effect r)
  | o_blocked lit : validate cfg r = true -> tracked st r = false -> covert_check (r_covert r) = Some lit ->
      (needs_probe r = false \/ probe_live live r = false) ->
      from_detector r = true -> reg_phantom_blocked cfg r = true ->
      outcome cfg st r (st ++ [{| e_reg := set_covert r lit; e_valid := false |}],
                        (if needs_probe r then probe_effect r else []) ++
                        (if cf_share cfg then match generate_c2s_wrapper r with Some s => [Share s] | None => [] end else []))
  | o_admitted lit : validate cfg r = true -> tracked st r = false -> covert_check (r_covert r) = Some lit ->
      (needs_probe r = false \/ probe_live live r = false) ->
      (from_detector r = false \/ reg_phantom_blocked cfg r = false) ->
      outcome cfg st r (st ++ [{| e_reg := set_covert r lit; e_valid := true |}],
                        (if needs_probe r then probe_effect r else []) ++
                        (if from_detector r && cf_share cfg
                         then match generate_c2s_wrapper r with Some s => [Share s] | None => [] end else []) ++
                        [Announce (set_covert r lit)]).

  Lemma ingest_outcome cfg st r : outcome cfg st r (ingest' cfg st r).
  Proof.
    unfold ingest.
    destruct (validate cfg r) eqn:Ev; cbn [negb]; [|now constructor].
    destruct (tracked st r) eqn:Et; [now constructor|].
    destruct (covert_check (r_covert r)) as [lit|] eqn:Ec; [|now constructor].
    rewrite needs_probe_set_covert, from_detector_set_covert, blocked_set_covert, wrapper_set_covert.
    change (probe_live live (set_covert r lit)) with (probe_live live r).
    change (probe_effect (set_covert r lit)) with (probe_effect r).
    destruct (needs_probe r) eqn:En; cbn [andb].
    - destruct (probe_live live r) eqn:El.
      + now apply o_live.
      + destruct (from_detector r) eqn:Ed; cbn [andb].
        * destruct (reg_phantom_blocked cfg r) eqn:Eb.
          -- pose proof (o_blocked cfg st r lit Ev Et Ec (or_intror El) Ed Eb) as H. now rewrite En in H.
          -- pose proof (o_admitted cfg st r lit Ev Et Ec (or_intror El) (or_intror Eb)) as H. now rewrite En, Ed in H.
        * pose proof (o_admitted cfg st r lit Ev Et Ec (or_intror El) (or_introl Ed)) as H. now rewrite En, Ed in H.
    - destruct (from_detector r) eqn:Ed; cbn [andb].
      + destruct (reg_phantom_blocked cfg r) eqn:Eb.
        * pose proof (o_blocked cfg st r lit Ev Et Ec (or_introl En) Ed Eb) as H. now rewrite En in H.
        * pose proof (o_admitted cfg st r lit Ev Et Ec (or_introl En) (or_intror Eb)) as H. now rewrite En, Ed in H.
      + pose proof (o_admitted cfg st r lit Ev Et Ec (or_introl En) (or_introl Ed)) as H. now rewrite En, Ed in H.
  Qed.

  Lemma in_share_list (b : bool) r e :
    In e (if b then match generate_c2s_wrapper r with Some s => [Share s] | None => [] end else []) ->
    b = true /\ exists s, generate_c2s_wrapper r = Some s /\ e = Share s.
  Proof.
    destruct b; [|intros []]. destruct (generate_c2s_wrapper r) as [s|]; [|intros []].
    intros [<-|[]]. split; [reflexivity|]. now exists s.
  Qed.

  Lemma in_probe_list (b : bool) r e :
    In e (if b then probe_effect r else []) -> b = true /\ exists ip, r_phantom r = Some ip /\ e = Probe ip (r_port r).
  Proof. destruct b; [|intros []]. intro H. split; [reflexivity|]. now apply in_probe_effect. Qed.

  Lemma validate_admissible_parts cfg r :
    validate cfg r = true ->
    (from_detector r = false \/ reg_phantom_blocked cfg r = false) ->
    complete r && transport_enabled cfg (r_transport r) && negb (reg_phantom_blocked cfg r) = true.
  Proof.
    unfold validate. intros H1 H2.
    destruct (complete r), (transport_enabled cfg (r_transport r)), (from_detector r), (reg_phantom_blocked cfg r);
      cbn in *; try reflexivity; try discriminate; destruct H2; discriminate.
  Qed.

  (* ---- announced iff admissible ---- *)
  Lemma ingest_announce_iff cfg st r :
    (exists r', In (Announce r') (snd (ingest' cfg st r))) <-> admissible' cfg st r = true.
  Proof.
    pose proof (ingest_outcome cfg st r) as O. unfold admissible, covert_ok. split.
    - intros (r' & Hin). inversion O as [Hv HE|Hv Ht HE|Hv Ht Hc HE|lit Hv Ht Hc Hn Hl HE|lit Hv Ht Hc Hp Hd Hb HE|lit Hv Ht Hc Hp Hd HE];
        rewrite <- HE in Hin; cbn [snd] in Hin; try (now destruct Hin).
      + now apply announce_not_in_probe in Hin.
      + apply in_app_iff in Hin as [Hin|Hin].
        * apply in_probe_list in Hin as (_ & ip & _ & Hin). discriminate.
        * apply in_share_list in Hin as (_ & s & _ & Hin). discriminate.
      + rewrite (validate_admissible_parts cfg r Hv Hd), Ht, Hc. cbn.
        destruct Hp as [-> | ->]; [reflexivity | now rewrite orb_true_r].
    - intro H.
      apply andb_true_iff in H as [H HF]. apply andb_true_iff in H as [H HE]. apply andb_true_iff in H as [H HD].
      apply andb_true_iff in H as [H HC]. apply andb_true_iff in H as [HA HB].
      apply negb_true_iff in HC, HD.
      assert (Hv : validate cfg r = true).
      { unfold validate. rewrite HA, HB, HC. cbn. now rewrite orb_true_r. }
      destruct (covert_check (r_covert r)) as [lit|] eqn:Hc; [|discriminate].
      inversion O as [Hv' HE'|Hv' Ht HE'|Hv' Ht Hc' HE'|lit' Hv' Ht Hc' Hn Hl HE'|lit' Hv' Ht Hc' Hp Hd Hb HE'|lit' Hv' Ht Hc' Hp Hd HE'];
        try congruence.
      + rewrite Hn, Hl in HF. discriminate.
      + exists (set_covert r lit'). cbn [snd]. rewrite !in_app_iff. right. right. now left.
  Qed.

  (* what is announced is the registration with its covert replaced by the checked literal *)
  Lemma ingest_announced_is_checked cfg st r r' :
    In (Announce r') (snd (ingest' cfg st r)) ->
    exists lit, covert_check (r_covert r) = Some lit /\ r' = set_covert r lit.
  Proof.
    pose proof (ingest_outcome cfg st r) as O. intro Hin.
    inversion O as [Hv HE|Hv Ht HE|Hv Ht Hc HE|lit Hv Ht Hc Hn Hl HE|lit Hv Ht Hc Hp Hd Hb HE|lit Hv Ht Hc Hp Hd HE];
      rewrite <- HE in Hin; cbn [snd] in Hin; try (now destruct Hin).
    - now apply announce_not_in_probe in Hin.
    - apply in_app_iff in Hin as [Hin|Hin].
      + apply in_probe_list in Hin as (_ & ip & _ & Hin). discriminate.
      + apply in_share_list in Hin as (_ & s & _ & Hin). discriminate.
    - apply in_app_iff in Hin as [Hin|Hin].
      { apply in_probe_list in Hin as (_ & ip & _ & Hin). discriminate. }
      apply in_app_iff in Hin as [Hin|Hin].
      { apply in_share_list in Hin as (_ & s & _ & Hin). discriminate. }
      destruct Hin as [Hin|[]]. injection Hin as <-. now exists lit.
  Qed.

  (* ---- a probe is sent iff one is required ---- *)
  Lemma ingest_probe_iff cfg st r ip port :
    In (Probe ip port) (snd (ingest' cfg st r)) <->
    probe_required' cfg st r = true /\ r_phantom r = Some ip /\ port = r_port r.
  Proof.
    pose proof (ingest_outcome cfg st r) as O. unfold probe_required, covert_ok. split.
    - intro Hin. inversion O as [Hv HE|Hv Ht HE|Hv Ht Hc HE|lit Hv Ht Hc Hn Hl HE|lit Hv Ht Hc Hp Hd Hb HE|lit Hv Ht Hc Hp Hd HE];
        rewrite <- HE in Hin; cbn [snd] in Hin; try (now destruct Hin).
      + apply in_probe_effect in Hin as (ip' & Hph & Hin). injection Hin as <- <-.
        now rewrite Hv, Ht, Hc, Hn.
      + apply in_app_iff in Hin as [Hin|Hin].
        * apply in_probe_list in Hin as (Hn & ip' & Hph & Hin). injection Hin as <- <-. now rewrite Hv, Ht, Hc, Hn.
        * apply in_share_list in Hin as (_ & s & _ & Hin). discriminate.
      + apply in_app_iff in Hin as [Hin|Hin].
        * apply in_probe_list in Hin as (Hn & ip' & Hph & Hin). injection Hin as <- <-. now rewrite Hv, Ht, Hc, Hn.
        * apply in_app_iff in Hin as [Hin|Hin].
          -- apply in_share_list in Hin as (_ & s & _ & Hin). discriminate.
          -- destruct Hin as [Hin|[]]. discriminate.
    - intros (H & Hph & ->).
      apply andb_true_iff in H as [H HN]. apply andb_true_iff in H as [H HC]. apply andb_true_iff in H as [HV HT].
      apply negb_true_iff in HT.
      destruct (covert_check (r_covert r)) as [lit|] eqn:Hc; [|discriminate].
      assert (Hpe : In (Probe ip (r_port r)) (probe_effect r)).
      { unfold probe_effect. rewrite Hph. now left. }
      inversion O as [Hv' HE|Hv' Ht HE|Hv' Ht Hc' HE|lit' Hv' Ht Hc' Hn Hl HE|lit' Hv' Ht Hc' Hp Hd Hb HE|lit' Hv' Ht Hc' Hp Hd HE];
        try congruence; cbn [snd]; try exact Hpe.
      + rewrite HN. apply in_app_iff. now left.
      + rewrite HN. apply in_app_iff. now left.
  Qed.

  (* ---- sharing: at most once per registration, only from the detector, only after the probe passed,
          marked pre-scanned ---- *)
  Lemma ingest_share_iff cfg st r s :
    In (Share s) (snd (ingest' cfg st r)) <-> share_due' cfg st r = true /\ generate_c2s_wrapper r = Some s.
  Proof.
    pose proof (ingest_outcome cfg st r) as O. unfold share_due, covert_ok. split.
    - intro Hin. inversion O as [Hv HE|Hv Ht HE|Hv Ht Hc HE|lit Hv Ht Hc Hn Hl HE|lit Hv Ht Hc Hp Hd Hb HE|lit Hv Ht Hc Hp Hd HE];
        rewrite <- HE in Hin; cbn [snd] in Hin; try (now destruct Hin).
      + now apply share_not_in_probe in Hin.
      + apply in_app_iff in Hin as [Hin|Hin].
        * apply in_probe_list in Hin as (_ & ip' & _ & Hin). discriminate.
        * apply in_share_list in Hin as (Hs & s' & Hg & Hin). injection Hin as <-.
          rewrite Hv, Ht, Hc, Hd, Hs, Hg. cbn. split; [|reflexivity].
          destruct Hp as [-> | ->]; [reflexivity | now rewrite orb_true_r].
      + apply in_app_iff in Hin as [Hin|Hin].
        { apply in_probe_list in Hin as (_ & ip' & _ & Hin). discriminate. }
        apply in_app_iff in Hin as [Hin|Hin].
        * apply in_share_list in Hin as (Hs & s' & Hg & Hin). injection Hin as <-.
          apply andb_true_iff in Hs as [Hs1 Hs2].
          rewrite Hv, Ht, Hc, Hs1, Hs2, Hg. cbn. split; [|reflexivity].
          destruct Hp as [-> | ->]; [reflexivity | now rewrite orb_true_r].
        * destruct Hin as [Hin|[]]. discriminate.
    - intros (H & Hg).
      apply andb_true_iff in H as [H _]. apply andb_true_iff in H as [H HS]. apply andb_true_iff in H as [H HD].
      apply andb_true_iff in H as [H HL]. apply andb_true_iff in H as [H HC]. apply andb_true_iff in H as [HV HT].
      apply negb_true_iff in HT.
      destruct (covert_check (r_covert r)) as [lit|] eqn:Hc; [|discriminate].
      inversion O as [Hv' HE|Hv' Ht HE|Hv' Ht Hc' HE|lit' Hv' Ht Hc' Hn Hl HE|lit' Hv' Ht Hc' Hp Hd Hb HE|lit' Hv' Ht Hc' Hp Hd HE];
        try congruence; cbn [snd].
      + rewrite Hn, Hl in HL. discriminate.
      + rewrite HS, Hg. apply in_app_iff. right. now left.
      + rewrite HD, HS, Hg. cbn [andb]. apply in_app_iff. right. apply in_app_iff. left. now left.
  Qed.

  Definition is_share (e : effect) : bool := match e with Share _ => true | _ => false end.
  Definition is_announce (e : effect) : bool := match e with Announce _ => true | _ => false end.
  Definition is_probe (e : effect) : bool := match e with Probe _ _ => true | _ => false end.
  Definition count (f : effect -> bool) (l : list effect) : nat := length (filter f l).

  Lemma count_app f a b : count f (a ++ b) = (count f a + count f b)%nat.
  Proof. unfold count. now rewrite filter_app, app_length. Qed.

  Lemma count_probe_effect_share (b : bool) r : count is_share (if b then probe_effect r else []) = 0%nat.
  Proof. destruct b; [|reflexivity]. unfold probe_effect. destruct (r_phantom r); reflexivity. Qed.
  Lemma count_probe_effect_announce (b : bool) r : count is_announce (if b then probe_effect r else []) = 0%nat.
  Proof. destruct b; [|reflexivity]. unfold probe_effect. destruct (r_phantom r); reflexivity. Qed.
  Lemma count_share_list_le (b : bool) r :
    (count is_share (if b then match generate_c2s_wrapper r with Some s => [Share s] | None => [] end else []) <= 1)%nat.
  Proof. destruct b; [|cbn; lia]. destruct (generate_c2s_wrapper r); cbn; lia. Qed.
  Lemma count_share_list_announce (b : bool) r :
    count is_announce (if b then match generate_c2s_wrapper r with Some s => [Share s] | None => [] end else []) = 0%nat.
  Proof. destruct b; [|reflexivity]. destruct (generate_c2s_wrapper r); reflexivity. Qed.

  (* one registration: at most one Share, at most one Announce, at most one Probe; Probe first, Announce last *)
  Lemma ingest_effect_counts cfg st r :
    (count is_share (snd (ingest' cfg st r)) <= 1)%nat /\
    (count is_announce (snd (ingest' cfg st r)) <= 1)%nat /\
    (count is_probe (snd (ingest' cfg st r)) <= 1)%nat.
  Proof.
    pose proof (ingest_outcome cfg st r) as O.
    assert (Hpe : forall b : bool, (count is_probe (if b then probe_effect r else []) <= 1)%nat).
    { intros [|]; [|cbn; lia]. unfold probe_effect. destruct (r_phantom r); cbn; lia. }
    assert (Hps : forall b : bool, count is_probe (if b then match generate_c2s_wrapper r with Some s => [Share s] | None => [] end else []) = 0%nat).
    { intros [|]; [|reflexivity]. destruct (generate_c2s_wrapper r); reflexivity. }
    inversion O as [Hv HE|Hv Ht HE|Hv Ht Hc HE|lit Hv Ht Hc Hn Hl HE|lit Hv Ht Hc Hp Hd Hb HE|lit Hv Ht Hc Hp Hd HE];
      cbn [snd]; try (cbn; lia).
    - pose proof (count_probe_effect_share true r). pose proof (count_probe_effect_announce true r).
      pose proof (Hpe true). cbn iota in *. lia.
    - rewrite !count_app.
      pose proof (count_probe_effect_share (needs_probe r) r). pose proof (count_probe_effect_announce (needs_probe r) r).
      pose proof (count_share_list_le (cf_share cfg) r). pose proof (count_share_list_announce (cf_share cfg) r).
      pose proof (Hpe (needs_probe r)). pose proof (Hps (cf_share cfg)). lia.
    - rewrite !count_app.
      pose proof (count_probe_effect_share (needs_probe r) r). pose proof (count_probe_effect_announce (needs_probe r) r).
      pose proof (count_share_list_le (from_detector r && cf_share cfg) r).
      pose proof (count_share_list_announce (from_detector r && cf_share cfg) r).
      pose proof (Hpe (needs_probe r)). pose proof (Hps (from_detector r && cf_share cfg)).
      change (count is_share [Announce (set_covert r lit)]) with 0%nat.
      change (count is_announce [Announce (set_covert r lit)]) with 1%nat.
      change (count is_probe [Announce (set_covert r lit)]) with 0%nat. lia.
  Qed.

  (* the order of effects: every Share comes after the Probe (if any) and before the Announce (if any) *)
  Lemma ingest_effect_order cfg st r :
    exists probes shares announces,
      snd (ingest' cfg st r) = probes ++ shares ++ announces /\
      forallb is_probe probes = true /\ forallb is_share shares = true /\ forallb is_announce announces = true.
  Proof.
    pose proof (ingest_outcome cfg st r) as O.
    assert (Hpe : forall b : bool, forallb is_probe (if b then probe_effect r else []) = true).
    { intros [|]; [|reflexivity]. unfold probe_effect. destruct (r_phantom r); reflexivity. }
    assert (Hsh : forall b : bool, forallb is_share (if b then match generate_c2s_wrapper r with Some s => [Share s] | None => [] end else []) = true).
    { intros [|]; [|reflexivity]. destruct (generate_c2s_wrapper r); reflexivity. }
    inversion O as [Hv HE|Hv Ht HE|Hv Ht Hc HE|lit Hv Ht Hc Hn Hl HE|lit Hv Ht Hc Hp Hd Hb HE|lit Hv Ht Hc Hp Hd HE]; cbn [snd].
    - exists [], [], []. auto.
    - exists [], [], []. auto.
    - exists [], [], []. auto.
    - exists (probe_effect r), [], []. rewrite app_nil_r. repeat split; auto. exact (Hpe true).
    - eexists _, _, []. rewrite app_nil_r. repeat split; auto.
    - eexists _, _, _. repeat split; eauto.
  Qed.

  (* ---- visibility: lookups return exactly the old visible registrations plus what was announced ---- *)
  Lemma visible_all_app st e : visible_all (st ++ [e]) = visible_all st ++ (if e_valid e then [e_reg e] else []).
  Proof. unfold visible_all. rewrite filter_app, map_app. cbn. destruct (e_valid e); reflexivity. Qed.

  Definition announced_regs (l : list effect) : list reg :=
    flat_map (fun e => match e with Announce r => [r] | _ => [] end) l.

  Lemma announced_regs_app a b : announced_regs (a ++ b) = announced_regs a ++ announced_regs b.
  Proof. unfold announced_regs. apply flat_map_app. Qed.

  Lemma announced_probe_list (b : bool) r : announced_regs (if b then probe_effect r else []) = [].
  Proof. destruct b; [|reflexivity]. unfold probe_effect. destruct (r_phantom r); reflexivity. Qed.
  Lemma announced_share_list (b : bool) r :
    announced_regs (if b then match generate_c2s_wrapper r with Some s => [Share s] | None => [] end else []) = [].
  Proof. destruct b; [|reflexivity]. destruct (generate_c2s_wrapper r); reflexivity. Qed.

  Lemma ingest_visible cfg st r :
    visible_all (fst (ingest' cfg st r)) = visible_all st ++ announced_regs (snd (ingest' cfg st r)).
  Proof.
    pose proof (ingest_outcome cfg st r) as O.
    inversion O as [Hv HE|Hv Ht HE|Hv Ht Hc HE|lit Hv Ht Hc Hn Hl HE|lit Hv Ht Hc Hp Hd Hb HE|lit Hv Ht Hc Hp Hd HE];
      cbn [fst snd]; rewrite ?visible_all_app; cbn [e_valid e_reg]; rewrite ?app_nil_r; try reflexivity.
    - now rewrite (announced_probe_list true r), app_nil_r.
    - now rewrite announced_regs_app, announced_probe_list, announced_share_list, app_nil_r.
    - now rewrite !announced_regs_app, announced_probe_list, announced_share_list.
  Qed.
End Ingest.
