(* C07: lemmas about the admission model. *)
From CJ Require Import Common.Base C06.Model C07.Model.
From Coq Require Import Lia.

Local Open Scope N_scope.

(* ---- set_covert changes nothing the admission procedure looks at afterwards ---- *)
Lemma needs_probe_set_covert r c : needs_probe (set_covert r c) = needs_probe r.
Proof. reflexivity. Qed.
Lemma from_detector_set_covert r c : from_detector (set_covert r c) = from_detector r.
Proof. reflexivity. Qed.
Lemma blocked_set_covert cfg r c : reg_phantom_blocked cfg (set_covert r c) = reg_phantom_blocked cfg r.
Proof. reflexivity. Qed.
Lemma wrapper_set_covert r c : generate_c2s_wrapper (set_covert r c) = generate_c2s_wrapper r.
Proof. reflexivity. Qed.
Lemma same_key_set_covert a r c : same_key a (set_covert r c) = same_key a r.
Proof. reflexivity. Qed.

Lemma in_probe_effect r e : In e (probe_effect r) -> exists ip, r_phantom r = Some ip /\ e = Probe ip (r_port r).
Proof.
  unfold probe_effect. destruct (r_phantom r) as [ip|]; [|intros []].
  intros [<-|[]]. now exists ip.
Qed.

Lemma announce_not_in_probe r x : ~ In (Announce x) (probe_effect r).
Proof. intro H. apply in_probe_effect in H as (ip & _ & H). discriminate. Qed.
Lemma share_not_in_probe r x : ~ In (Share x) (probe_effect r).
Proof. intro H. apply in_probe_effect in H as (ip & _ & H). discriminate. Qed.

Section Ingest.
  Variable covert_check : bytes -> option bytes.
  Variable live : ipraw -> N -> bool.

  Notation ingest' := (ingest covert_check live).
  Notation admissible' := (admissible covert_check live).
  Notation probe_required' := (probe_required covert_check).
  Notation share_due' := (share_due covert_check live).

  (* the shape of every outcome of ingestRegistration *)
  Inductive outcome (cfg : config) (st : table) (r : reg) : table * list effect -> Prop :=
  | o_invalid : validate cfg r = false -> outcome cfg st r (st, [])
  | o_dup : validate cfg r = true -> tracked st r = true -> outcome cfg st r (st, [])
  | o_covert : validate cfg r = true -> tracked st r = false -> covert_check (r_covert r) = None ->
      outcome cfg st r (st ++ [{| e_reg := r; e_valid := false |}], [])
  | o_live lit : validate cfg r = true -> tracked st r = false -> covert_check (r_covert r) = Some lit ->
      needs_probe r = true -> probe_live live r = true ->
      outcome cfg st r (st ++ [{| e_reg := set_covert r lit; e_valid := false |}], probe_effect r)
  | o_blocked lit : validate cfg r = true -> tracked st r = false -> covert_check (r_covert r) = Some lit ->
      (needs_probe r = false \/ probe_live live r = false) ->
      from_detector r = true -> reg_phantom_blocked cfg r = true ->
      outcome cfg st r (st ++ [{| e_reg := set_covert r lit; e_valid := false |}],
                        (if needs_probe r then probe_effect r else []) ++
                        (if cf_share cfg then match generate_c2s_wrapper r with Some s => [Share s] | None => [] end else []))
  | o_admitted lit : validate cfg r = true -> tracked st r = false -> covert_check (r_covert r) = Some lit ->
      (needs_probe r = false \/ probe_live live r = false) ->
      (from_detector r = false \/ reg_phantom_blocked cfg r = false) ->
      outcome cfg st r (st ++ [{| e_reg := set_covert r lit; e_valid := true |}],
                        (if needs_probe r then probe_effect r else []) ++
                        (if from_detector r && cf_share cfg
                         then match generate_c2s_wrapper r with Some s => [Share s] | None => [] end else []) ++
                        [Announce (set_covert r lit)]).

  Lemma ingest_outcome cfg st r : outcome cfg st r (ingest' cfg st r).
  Proof.
    unfold ingest.
    destruct (validate cfg r) eqn:Ev; cbn [negb]; [|now constructor].
    destruct (tracked st r) eqn:Et; [now constructor|].
    destruct (covert_check (r_covert r)) as [lit|] eqn:Ec; [|now constructor].
    rewrite needs_probe_set_covert, from_detector_set_covert, blocked_set_covert, wrapper_set_covert.
    change (probe_live live (set_covert r lit)) with (probe_live live r).
    change (probe_effect (set_covert r lit)) with (probe_effect r).
    destruct (needs_probe r) eqn:En; cbn [andb].
    - destruct (probe_live live r) eqn:El.
      + now apply o_live.
      + destruct (from_detector r) eqn:Ed; cbn [andb].
        * destruct (reg_phantom_blocked cfg r) eqn:Eb.
          -- pose proof (o_blocked cfg st r lit Ev Et Ec (or_intror El) Ed Eb) as H. now rewrite En in H.
          -- pose proof (o_admitted cfg st r lit Ev Et Ec (or_intror El) (or_intror Eb)) as H. now rewrite En, Ed in H.
        * pose proof (o_admitted cfg st r lit Ev Et Ec (or_intror El) (or_introl Ed)) as H. now rewrite En, Ed in H.
    - destruct (from_detector r) eqn:Ed; cbn [andb].
      + destruct (reg_phantom_blocked cfg r) eqn:Eb.
        * pose proof (o_blocked cfg st r lit Ev Et Ec (or_introl En) Ed Eb) as H. now rewrite En in H.
        * pose proof (o_admitted cfg st r lit Ev Et Ec (or_introl En) (or_intror Eb)) as H. now rewrite En, Ed in H.
      + pose proof (o_admitted cfg st r lit Ev Et Ec (or_introl En) (or_introl Ed)) as H. now rewrite En, Ed in H.
  Qed.

  Lemma in_share_list (b : bool) r e :
    In e (if b then match generate_c2s_wrapper r with Some s => [Share s] | None => [] end else []) ->
    b = true /\ exists s, generate_c2s_wrapper r = Some s /\ e = Share s.
  Proof.
    destruct b; [|intros []]. destruct (generate_c2s_wrapper r) as [s|]; [|intros []].
    intros [<-|[]]. split; [reflexivity|]. now exists s.
  Qed.

  Lemma in_probe_list (b : bool) r e :
    In e (if b then probe_effect r else []) -> b = true /\ exists ip, r_phantom r = Some ip /\ e = Probe ip (r_port r).
  Proof. destruct b; [|intros []]. intro H. split; [reflexivity|]. now apply in_probe_effect. Qed.

  Lemma validate_admissible_parts cfg r :
    validate cfg r = true ->
    (from_detector r = false \/ reg_phantom_blocked cfg r = false) ->
    complete r && transport_enabled cfg (r_transport r) && negb (reg_phantom_blocked cfg r) = true.
  Proof.
    unfold validate. intros H1 H2.
    destruct (complete r), (transport_enabled cfg (r_transport r)), (from_detector r), (reg_phantom_blocked cfg r);
      cbn in *; try reflexivity; try discriminate; destruct H2; discriminate.
  Qed.

  (* ---- announced iff admissible ---- *)
  Lemma ingest_announce_iff cfg st r :
    (exists r', In (Announce r') (snd (ingest' cfg st r))) <-> admissible' cfg st r = true.
  Proof.
    pose proof (ingest_outcome cfg st r) as O. unfold admissible, covert_ok. split.
    - intros (r' & Hin). inversion O as [Hv HE|Hv Ht HE|Hv Ht Hc HE|lit Hv Ht Hc Hn Hl HE|lit Hv Ht Hc Hp Hd Hb HE|lit Hv Ht Hc Hp Hd HE];
        rewrite <- HE in Hin; cbn [snd] in Hin; try (now destruct Hin).
      + now apply announce_not_in_probe in Hin.
      + apply in_app_iff in Hin as [Hin|Hin].
        * apply in_probe_list in Hin as (_ & ip & _ & Hin). discriminate.
        * apply in_share_list in Hin as (_ & s & _ & Hin). discriminate.
      + rewrite (validate_admissible_parts cfg r Hv Hd), Ht, Hc. cbn.
        destruct Hp as [-> | ->]; [reflexivity | now rewrite orb_true_r].
    - intro H.
      apply andb_true_iff in H as [H HF]. apply andb_true_iff in H as [H HE]. apply andb_true_iff in H as [H HD].
      apply andb_true_iff in H as [H HC]. apply andb_true_iff in H as [HA HB].
      apply negb_true_iff in HC, HD.
      assert (Hv : validate cfg r = true).
      { unfold validate. rewrite HA, HB, HC. cbn. now rewrite orb_true_r. }
      destruct (covert_check (r_covert r)) as [lit|] eqn:Hc; [|discriminate].
      inversion O as [Hv' HE'|Hv' Ht HE'|Hv' Ht Hc' HE'|lit' Hv' Ht Hc' Hn Hl HE'|lit' Hv' Ht Hc' Hp Hd Hb HE'|lit' Hv' Ht Hc' Hp Hd HE'];
        try congruence.
      + rewrite Hn, Hl in HF. discriminate.
      + exists (set_covert r lit'). cbn [snd]. rewrite !in_app_iff. right. right. now left.
  Qed.

  (* what is announced is the registration with its covert replaced by the checked literal *)
  Lemma ingest_announced_is_checked cfg st r r' :
    In (Announce r') (snd (ingest' cfg st r)) ->
    exists lit, covert_check (r_covert r) = Some lit /\ r' = set_covert r lit.
  Proof.
    pose proof (ingest_outcome cfg st r) as O. intro Hin.
    inversion O as [Hv HE|Hv Ht HE|Hv Ht Hc HE|lit Hv Ht Hc Hn Hl HE|lit Hv Ht Hc Hp Hd Hb HE|lit Hv Ht Hc Hp Hd HE];
      rewrite <- HE in Hin; cbn [snd] in Hin; try (now destruct Hin).
    - now apply announce_not_in_probe in Hin.
    - apply in_app_iff in Hin as [Hin|Hin].
      + apply in_probe_list in Hin as (_ & ip & _ & Hin). discriminate.
      + apply in_share_list in Hin as (_ & s & _ & Hin). discriminate.
    - apply in_app_iff in Hin as [Hin|Hin].
      { apply in_probe_list in Hin as (_ & ip & _ & Hin). discriminate. }
      apply in_app_iff in Hin as [Hin|Hin].
      { apply in_share_list in Hin as (_ & s & _ & Hin). discriminate. }
      destruct Hin as [Hin|[]]. injection Hin as <-. now exists lit.
  Qed.

  (* ---- a probe is sent iff one is required ---- *)
  Lemma ingest_probe_iff cfg st r ip port :
    In (Probe ip port) (snd (ingest' cfg st r)) <->
    probe_required' cfg st r = true /\ r_phantom r = Some ip /\ port = r_port r.
  Proof.
    pose proof (ingest_outcome cfg st r) as O. unfold probe_required, covert_ok. split.
    - intro Hin. inversion O as [Hv HE|Hv Ht HE|Hv Ht Hc HE|lit Hv Ht Hc Hn Hl HE|lit Hv Ht Hc Hp Hd Hb HE|lit Hv Ht Hc Hp Hd HE];
        rewrite <- HE in Hin; cbn [snd] in Hin; try (now destruct Hin).
      + apply in_probe_effect in Hin as (ip' & Hph & Hin). injection Hin as <- <-.
        now rewrite Hv, Ht, Hc, Hn.
      + apply in_app_iff in Hin as [Hin|Hin].
        * apply in_probe_list in Hin as (Hn & ip' & Hph & Hin). injection Hin as <- <-. now rewrite Hv, Ht, Hc, Hn.
        * apply in_share_list in Hin as (_ & s & _ & Hin). discriminate.
      + apply in_app_iff in Hin as [Hin|Hin].
        * apply in_probe_list in Hin as (Hn & ip' & Hph & Hin). injection Hin as <- <-. now rewrite Hv, Ht, Hc, Hn.
        * apply in_app_iff in Hin as [Hin|Hin].
          -- apply in_share_list in Hin as (_ & s & _ & Hin). discriminate.
          -- destruct Hin as [Hin|[]]. discriminate.
    - intros (H & Hph & ->).
      apply andb_true_iff in H as [H HN]. apply andb_true_iff in H as [H HC]. apply andb_true_iff in H as [HV HT].
      apply negb_true_iff in HT.
      destruct (covert_check (r_covert r)) as [lit|] eqn:Hc; [|discriminate].
      assert (Hpe : In (Probe ip (r_port r)) (probe_effect r)).
      { unfold probe_effect. rewrite Hph. now left. }
      inversion O as [Hv' HE|Hv' Ht HE|Hv' Ht Hc' HE|lit' Hv' Ht Hc' Hn Hl HE|lit' Hv' Ht Hc' Hp Hd Hb HE|lit' Hv' Ht Hc' Hp Hd HE];
        try congruence; cbn [snd]; try exact Hpe.
      + rewrite HN. apply in_app_iff. now left.
      + rewrite HN. apply in_app_iff. now left.
  Qed.

  (* ---- sharing: at most once per registration, only from the detector, only after the probe passed,
          marked pre-scanned ---- *)
  Lemma ingest_share_iff cfg st r s :
    In (Share s) (snd (ingest' cfg st r)) <-> share_due' cfg st r = true /\ generate_c2s_wrapper r = Some s.
  Proof.
    pose proof (ingest_outcome cfg st r) as O. unfold share_due, covert_ok. split.
    - intro Hin. inversion O as [Hv HE|Hv Ht HE|Hv Ht Hc HE|lit Hv Ht Hc Hn Hl HE|lit Hv Ht Hc Hp Hd Hb HE|lit Hv Ht Hc Hp Hd HE];
        rewrite <- HE in Hin; cbn [snd] in Hin; try (now destruct Hin).
      + now apply share_not_in_probe in Hin.
      + apply in_app_iff in Hin as [Hin|Hin].
        * apply in_probe_list in Hin as (_ & ip' & _ & Hin). discriminate.
        * apply in_share_list in Hin as (Hs & s' & Hg & Hin). injection Hin as <-.
          rewrite Hv, Ht, Hc, Hd, Hs, Hg. cbn. split; [|reflexivity].
          destruct Hp as [-> | ->]; [reflexivity | now rewrite orb_true_r].
      + apply in_app_iff in Hin as [Hin|Hin].
        { apply in_probe_list in Hin as (_ & ip' & _ & Hin). discriminate. }
        apply in_app_iff in Hin as [Hin|Hin].
        * apply in_share_list in Hin as (Hs & s' & Hg & Hin). injection Hin as <-.
          apply andb_true_iff in Hs as [Hs1 Hs2].
          rewrite Hv, Ht, Hc, Hs1, Hs2, Hg. cbn. split; [|reflexivity].
          destruct Hp as [-> | ->]; [reflexivity | now rewrite orb_true_r].
        * destruct Hin as [Hin|[]]. discriminate.
    - intros (H & Hg).
      apply andb_true_iff in H as [H _]. apply andb_true_iff in H as [H HS]. apply andb_true_iff in H as [H HD].
      apply andb_true_iff in H as [H HL]. apply andb_true_iff in H as [H HC]. apply andb_true_iff in H as [HV HT].
      apply negb_true_iff in HT.
      destruct (covert_check (r_covert r)) as [lit|] eqn:Hc; [|discriminate].
      inversion O as [Hv' HE|Hv' Ht HE|Hv' Ht Hc' HE|lit' Hv' Ht Hc' Hn Hl HE|lit' Hv' Ht Hc' Hp Hd Hb HE|lit' Hv' Ht Hc' Hp Hd HE];
        try congruence; cbn [snd].
      + rewrite Hn, Hl in HL. discriminate.
      + rewrite HS, Hg. apply in_app_iff. right. now left.
      + rewrite HD, HS, Hg. cbn [andb]. apply in_app_iff. right. apply in_app_iff. left. now left.
  Qed.

  Definition is_share (e : effect) : bool := match e with Share _ => true | _ => false end.
  Definition is_announce (e : effect) : bool := match e with Announce _ => true | _ => false end.
  Definition is_probe (e : effect) : bool := match e with Probe _ _ => true | _ => false end.
  Definition count (f : effect -> bool) (l : list effect) : nat := length (filter f l).

  Lemma count_app f a b : count f (a ++ b) = (count f a + count f b)%nat.
  Proof. unfold count. now rewrite filter_app, app_length. Qed.

  Lemma count_probe_effect_share (b : bool) r : count is_share (if b then probe_effect r else []) = 0%nat.
  Proof. destruct b; [|reflexivity]. unfold probe_effect. destruct (r_phantom r); reflexivity. Qed.
  Lemma count_probe_effect_announce (b : bool) r : count is_announce (if b then probe_effect r else []) = 0%nat.
  Proof. destruct b; [|reflexivity]. unfold probe_effect. destruct (r_phantom r); reflexivity. Qed.
  Lemma count_share_list_le (b : bool) r :
    (count is_share (if b then match generate_c2s_wrapper r with Some s => [Share s] | None => [] end else []) <= 1)%nat.
  Proof. destruct b; [|cbn; lia]. destruct (generate_c2s_wrapper r); cbn; lia. Qed.
  Lemma count_share_list_announce (b : bool) r :
    count is_announce (if b then match generate_c2s_wrapper r with Some s => [Share s] | None => [] end else []) = 0%nat.
  Proof. destruct b; [|reflexivity]. destruct (generate_c2s_wrapper r); reflexivity. Qed.

  (* one registration: at most one Share, at most one Announce, at most one Probe; Probe first, Announce last *)
  Lemma ingest_effect_counts cfg st r :
    (count is_share (snd (ingest' cfg st r)) <= 1)%nat /\
    (count is_announce (snd (ingest' cfg st r)) <= 1)%nat /\
    (count is_probe (snd (ingest' cfg st r)) <= 1)%nat.
  Proof.
    pose proof (ingest_outcome cfg st r) as O.
    assert (Hpe : forall b : bool, (count is_probe (if b then probe_effect r else []) <= 1)%nat).
    { intros [|]; [|cbn; lia]. unfold probe_effect. destruct (r_phantom r); cbn; lia. }
    assert (Hps : forall b : bool, count is_probe (if b then match generate_c2s_wrapper r with Some s => [Share s] | None => [] end else []) = 0%nat).
    { intros [|]; [|reflexivity]. destruct (generate_c2s_wrapper r); reflexivity. }
    inversion O as [Hv HE|Hv Ht HE|Hv Ht Hc HE|lit Hv Ht Hc Hn Hl HE|lit Hv Ht Hc Hp Hd Hb HE|lit Hv Ht Hc Hp Hd HE];
      cbn [snd]; try (cbn; lia).
    - pose proof (count_probe_effect_share true r). pose proof (count_probe_effect_announce true r).
      pose proof (Hpe true). cbn iota in *. lia.
    - rewrite !count_app.
      pose proof (count_probe_effect_share (needs_probe r) r). pose proof (count_probe_effect_announce (needs_probe r) r).
      pose proof (count_share_list_le (cf_share cfg) r). pose proof (count_share_list_announce (cf_share cfg) r).
      pose proof (Hpe (needs_probe r)). pose proof (Hps (cf_share cfg)). lia.
    - rewrite !count_app.
      pose proof (count_probe_effect_share (needs_probe r) r). pose proof (count_probe_effect_announce (needs_probe r) r).
      pose proof (count_share_list_le (from_detector r && cf_share cfg) r).
      pose proof (count_share_list_announce (from_detector r && cf_share cfg) r).
      pose proof (Hpe (needs_probe r)). pose proof (Hps (from_detector r && cf_share cfg)).
      change (count is_share [Announce (set_covert r lit)]) with 0%nat.
      change (count is_announce [Announce (set_covert r lit)]) with 1%nat.
      change (count is_probe [Announce (set_covert r lit)]) with 0%nat. lia.
  Qed.

  (* the order of effects: every Share comes after the Probe (if any) and before the Announce (if any) *)
  Lemma ingest_effect_order cfg st r :
    exists probes shares announces,
      snd (ingest' cfg st r) = probes ++ shares ++ announces /\
      forallb is_probe probes = true /\ forallb is_share shares = true /\ forallb is_announce announces = true.
  Proof.
    pose proof (ingest_outcome cfg st r) as O.
    assert (Hpe : forall b : bool, forallb is_probe (if b then probe_effect r else []) = true).
    { intros [|]; [|reflexivity]. unfold probe_effect. destruct (r_phantom r); reflexivity. }
    assert (Hsh : forall b : bool, forallb is_share (if b then match generate_c2s_wrapper r with Some s => [Share s] | None => [] end else []) = true).
    { intros [|]; [|reflexivity]. destruct (generate_c2s_wrapper r); reflexivity. }
    inversion O as [Hv HE|Hv Ht HE|Hv Ht Hc HE|lit Hv Ht Hc Hn Hl HE|lit Hv Ht Hc Hp Hd Hb HE|lit Hv Ht Hc Hp Hd HE]; cbn [snd].
    - exists [], [], []. auto.
    - exists [], [], []. auto.
    - exists [], [], []. auto.
    - exists (probe_effect r), [], []. rewrite app_nil_r. repeat split; auto. exact (Hpe true).
    - eexists _, _, []. rewrite app_nil_r. repeat split; auto.
    - eexists _, _, _. repeat split; eauto.
  Qed.

  Lemma ingest_effects_once_and_ordered cfg st r :
    ((count is_share (snd (ingest' cfg st r)) <= 1)%nat /\
     (count is_announce (snd (ingest' cfg st r)) <= 1)%nat /\
     (count is_probe (snd (ingest' cfg st r)) <= 1)%nat) /\
    exists probes shares announces,
      snd (ingest' cfg st r) = probes ++ shares ++ announces /\
      forallb is_probe probes = true /\ forallb is_share shares = true /\ forallb is_announce announces = true.
  Proof. split; [apply ingest_effect_counts | apply ingest_effect_order]. Qed.

  (* ---- visibility: lookups return exactly the old visible registrations plus what was announced ---- *)
  Lemma visible_all_app st e : visible_all (st ++ [e]) = visible_all st ++ (if e_valid e then [e_reg e] else []).
  Proof. unfold visible_all. rewrite filter_app, map_app. cbn. destruct (e_valid e); reflexivity. Qed.

  Definition announced_regs (l : list effect) : list reg :=
    flat_map (fun e => match e with Announce r => [r] | _ => [] end) l.

  Lemma announced_regs_app a b : announced_regs (a ++ b) = announced_regs a ++ announced_regs b.
  Proof. unfold announced_regs. apply flat_map_app. Qed.

  Lemma announced_probe_list (b : bool) r : announced_regs (if b then probe_effect r else []) = [].
  Proof. destruct b; [|reflexivity]. unfold probe_effect. destruct (r_phantom r); reflexivity. Qed.
  Lemma announced_share_list (b : bool) r :
    announced_regs (if b then match generate_c2s_wrapper r with Some s => [Share s] | None => [] end else []) = [].
  Proof. destruct b; [|reflexivity]. destruct (generate_c2s_wrapper r); reflexivity. Qed.

  Lemma ingest_visible cfg st r :
    visible_all (fst (ingest' cfg st r)) = visible_all st ++ announced_regs (snd (ingest' cfg st r)).
  Proof.
    pose proof (ingest_outcome cfg st r) as O.
    inversion O as [Hv HE|Hv Ht HE|Hv Ht Hc HE|lit Hv Ht Hc Hn Hl HE|lit Hv Ht Hc Hp Hd Hb HE|lit Hv Ht Hc Hp Hd HE];
      cbn [fst snd]; rewrite ?visible_all_app; cbn [e_valid e_reg]; rewrite ?app_nil_r; try reflexivity.
    - now rewrite (announced_probe_list true r), app_nil_r.
    - now rewrite announced_regs_app, announced_probe_list, announced_share_list, app_nil_r.
    - now rewrite !announced_regs_app, announced_probe_list, announced_share_list.
  Qed.
End Ingest.

(* ================================================================ messages *)
Section Messages.
  Variable select : bytes -> N -> N -> bool -> option ipraw.
  Variable params_ok : N -> N -> option N -> bool.
  Variable dst_port : bytes -> N -> N -> option N -> bool -> option N.
  Variable geoip_ok : ipraw -> bool.
  Variable covert_check : bytes -> option bytes.
  Variable live : ipraw -> N -> bool.

  Notation new_reg' := (new_reg select params_ok dst_port geoip_ok).
  Notation parse' := (parse_reg_message select params_ok dst_port geoip_ok).
  Notation buildable' := (buildable select params_ok dst_port geoip_ok).
  Notation message_ok' := (message_ok select params_ok dst_port geoip_ok).
  Notation ingest' := (ingest covert_check live).
  Notation ingest_all' := (ingest_all covert_check live).
  Notation process' := (process select params_ok dst_port geoip_ok covert_check live).
  Notation admissible' := (admissible covert_check live).

  Lemma new_reg_no_panic cfg w p v6 : new_reg' cfg w p v6 <> Panic.
  Proof.
    unfold new_reg, ip_override.
    destruct (w_rr w) as [rr|].
    2:{ destruct (select _ _ _ _); [|discriminate].
        repeat match goal with |- context [if ?b then _ else _] => destruct b end; try discriminate.
        destruct (dst_port _ _ _ _ _); [|discriminate].
        repeat match goal with |- context [if ?b then _ else _] => destruct b end; discriminate. }
    destruct v6.
    - destruct (rr_v6 rr) as [b|].
      + destruct (negb (len_is 16 b)); [discriminate|]. destruct (is_v4 b); [discriminate|].
        destruct (select _ _ _ _); [|discriminate].
        repeat match goal with |- context [if ?b then _ else _] => destruct b end; try discriminate.
        destruct (dst_port _ _ _ _ _); [|discriminate].
        repeat match goal with |- context [if ?b then _ else _] => destruct b end; discriminate.
      + destruct (select _ _ _ _); [|discriminate].
        repeat match goal with |- context [if ?b then _ else _] => destruct b end; try discriminate.
        destruct (dst_port _ _ _ _ _); [|discriminate].
        repeat match goal with |- context [if ?b then _ else _] => destruct b end; discriminate.
    - destruct (rr_v4 rr) as [a|]; [destruct (a =? 0)|];
        (destruct (select _ _ _ _); [|discriminate];
         repeat match goal with |- context [if ?b then _ else _] => destruct b end; try discriminate;
         destruct (dst_port _ _ _ _ _); [|discriminate];
         repeat match goal with |- context [if ?b then _ else _] => destruct b end; discriminate).
  Qed.

  (* NewRegistrationC2SWrapper succeeds iff every build condition holds, and then the draft is ... *)
  Lemma new_reg_ok_iff cfg w p v6 :
    (exists r, new_reg' cfg w p v6 = Ok r) <-> buildable' cfg w p v6 = true.
  Proof.
    unfold new_reg, buildable, override_valid, phantom_of.
    destruct (ip_override w v6) as [ovr|e|] eqn:Eo.
    2:{ split; [intros (r & H); discriminate | discriminate]. }
    2:{ split; [intros (r & H); discriminate | discriminate]. }
    destruct (select (w_secret w) (c_gen p) (c_libver p) v6) as [sel|] eqn:Es.
    2:{ cbn. split; [intros (r & H); discriminate | discriminate]. }
    destruct (transport_enabled cfg (c_transport p)); cbn [negb andb].
    2:{ split; [intros (r & H); discriminate | discriminate]. }
    destruct (params_ok (c_transport p) (c_libver p) (effective_params w p)); cbn [negb andb].
    2:{ split; [intros (r & H); discriminate | discriminate]. }
    destruct (dst_port (w_secret w) (c_transport p) (c_libver p) (effective_params w p) v6) as [port0|]; cbn [andb].
    2:{ split; [intros (r & H); discriminate | discriminate]. }
    destruct (valid_ip (regaddr_of w)); cbn [negb andb].
    2:{ split; [intros (r & H); discriminate | discriminate]. }
    assert (Hph : match ovr with Some o => Some o | None => Some sel end =
                  Some (match ovr with Some o => o | None => sel end)) by (destruct ovr; reflexivity).
    rewrite Hph. set (ph := match ovr with Some o => o | None => sel end).
    destruct (is_v4 ph); cbn [negb andb orb].
    - destruct (is_v4 (regaddr_of w)); cbn [negb andb].
      + destruct (geoip_ok (regaddr_of w)); cbn [negb].
        * split; [reflexivity | intros _; eexists; reflexivity].
        * split; [intros (r & H); discriminate | discriminate].
      + split; [intros (r & H); discriminate | discriminate].
    - destruct (geoip_ok (regaddr_of w)); cbn [negb].
      + split; [reflexivity | intros _; eexists; reflexivity].
      + split; [intros (r & H); discriminate | discriminate].
  Qed.

  Lemma new_reg_fields cfg w p v6 r :
    new_reg' cfg w p v6 = Ok r ->
    r_has_keys r = true /\ r_secret r = w_secret w /\ r_phantom r = phantom_of select w p v6 /\
    r_transport r = c_transport p /\ r_covert r = c_covert p /\ r_prescanned r = c_prescanned p /\
    r_source r = Some (w_source w) /\ r_regaddr r = regaddr_of w /\
    r_orig r = Some (set_params p (effective_params w p)).
  Proof.
    unfold new_reg, phantom_of.
    destruct (ip_override w v6) as [ovr|e|]; try discriminate.
    destruct (select (w_secret w) (c_gen p) (c_libver p) v6) as [sel|]; [|discriminate].
    destruct (negb (transport_enabled cfg (c_transport p))); [discriminate|].
    destruct (negb (params_ok _ _ _)); [discriminate|].
    destruct (dst_port _ _ _ _ _); [|discriminate].
    destruct (negb (valid_ip _)); [discriminate|].
    destruct (is_v4 _ && negb _); [discriminate|].
    destruct (negb (geoip_ok _)); [discriminate|].
    intro H; injection H as <-. cbn. destruct ovr; repeat split; reflexivity.
  Qed.

  Lemma new_reg_complete cfg w p v6 r : new_reg' cfg w p v6 = Ok r -> complete r = true.
  Proof.
    intro H. pose proof (new_reg_ok_iff cfg w p v6) as [Hb _]. specialize (Hb (ex_intro _ r H)).
    destruct (new_reg_fields _ _ _ _ _ H) as (Hk & _ & Hph & _ & _ & _ & Hs & _).
    unfold complete. rewrite Hk, Hs, Hph.
    destruct (phantom_of select w p v6) eqn:E; [reflexivity|]. exfalso.
    unfold buildable in Hb. rewrite E in Hb. cbv beta iota in Hb. rewrite andb_false_r in Hb. discriminate.
  Qed.

  (* parseRegMessage: the drafts are exactly the requested families, provided every one of them can be built;
     otherwise the whole message is dropped *)
  Lemma parse_spec cfg w p :
    w_payload w = Some p ->
    (message_ok' cfg w p = true ->
       exists l4 l6, parse' cfg w = Ok (l4 ++ l6) /\
         (if want cfg w p false then exists r, l4 = [r] /\ new_reg' cfg w p false = Ok r else l4 = []) /\
         (if want cfg w p true then exists r, l6 = [r] /\ new_reg' cfg w p true = Ok r else l6 = [])) /\
    (message_ok' cfg w p = false -> parse' cfg w = Err ErrBuild).
  Proof.
    intro Hp. unfold parse_reg_message, message_ok. rewrite Hp.
    change (c_v4 p && cf_v4 cfg && is_v4 (regaddr_of w)) with (want cfg w p false).
    change (c_v6 p && cf_v6 cfg) with (want cfg w p true).
    pose proof (new_reg_ok_iff cfg w p false) as B4. pose proof (new_reg_ok_iff cfg w p true) as B6.
    pose proof (new_reg_no_panic cfg w p false) as N4. pose proof (new_reg_no_panic cfg w p true) as N6.
    destruct (want cfg w p false); cbn [negb orb andb].
    - destruct (new_reg' cfg w p false) as [r4|[]|] eqn:E4; [| |congruence].
      + assert (Hb4 : buildable' cfg w p false = true) by (apply B4; eauto). rewrite Hb4. cbn [andb].
        destruct (want cfg w p true); cbn [negb orb].
        * destruct (new_reg' cfg w p true) as [r6|[]|] eqn:E6; [| |congruence].
          -- assert (Hb6 : buildable' cfg w p true = true) by (apply B6; eauto). rewrite Hb6.
             split; [|discriminate]. intros _. exists [r4], [r6]. repeat split; eauto.
          -- assert (Hb6 : buildable' cfg w p true = false).
             { apply not_true_is_false. intro E. apply B6 in E as (r & E). discriminate. }
             rewrite Hb6. split; [discriminate | reflexivity].
        * split; [|discriminate]. intros _. exists [r4], []. rewrite app_nil_r. repeat split; eauto.
      + assert (Hb4 : buildable' cfg w p false = false).
        { apply not_true_is_false. intro E. apply B4 in E as (r & E). discriminate. }
        rewrite Hb4. cbn [andb]. split; [discriminate | reflexivity].
    - destruct (want cfg w p true); cbn [negb orb].
      + destruct (new_reg' cfg w p true) as [r6|[]|] eqn:E6; [| |congruence].
        * assert (Hb6 : buildable' cfg w p true = true) by (apply B6; eauto). rewrite Hb6.
          split; [|discriminate]. intros _. exists [], [r6]. repeat split; eauto.
        * assert (Hb6 : buildable' cfg w p true = false).
          { apply not_true_is_false. intro E. apply B6 in E as (r & E). discriminate. }
          rewrite Hb6. split; [discriminate | reflexivity].
      + split; [|discriminate]. intros _. exists [], []. repeat split; reflexivity.
  Qed.

  Lemma parse_no_payload cfg w : w_payload w = None -> parse' cfg w = Ok [].
  Proof. unfold parse_reg_message. now intros ->. Qed.
End Messages.

Lemma admissible_conjuncts_pre covert_check live cfg st r :
  admissible covert_check live cfg st r = true -> exists lit, covert_check (r_covert r) = Some lit.
Proof.
  unfold admissible, covert_ok. intro H.
  apply andb_true_iff in H as [H _]. apply andb_true_iff in H as [_ H].
  destruct (covert_check (r_covert r)) as [lit|]; [eauto | discriminate].
Qed.

Section Process.
  Variable select : bytes -> N -> N -> bool -> option ipraw.
  Variable params_ok : N -> N -> option N -> bool.
  Variable dst_port : bytes -> N -> N -> option N -> bool -> option N.
  Variable geoip_ok : ipraw -> bool.
  Variable covert_check : bytes -> option bytes.
  Variable live : ipraw -> N -> bool.

  Notation new_reg' := (new_reg select params_ok dst_port geoip_ok).
  Notation parse' := (parse_reg_message select params_ok dst_port geoip_ok).
  Notation buildable' := (buildable select params_ok dst_port geoip_ok).
  Notation message_ok' := (message_ok select params_ok dst_port geoip_ok).
  Notation ingest' := (ingest covert_check live).
  Notation ingest_all' := (ingest_all covert_check live).
  Notation process' := (process select params_ok dst_port geoip_ok covert_check live).
  Notation admissible' := (admissible covert_check live).
  Notation state_before' := (state_before select params_ok dst_port geoip_ok covert_check live).

  Lemma ingest_all_nil cfg st : ingest_all' cfg st [] = (st, []).
  Proof. reflexivity. Qed.

  Lemma ingest_all_one cfg st r : ingest_all' cfg st [r] = ingest' cfg st r.
  Proof. cbn. destruct (ingest' cfg st r) as [st1 e1]. now rewrite app_nil_r. Qed.

  Lemma ingest_all_two cfg st a b :
    ingest_all' cfg st [a; b] =
    (fst (ingest' cfg (fst (ingest' cfg st a)) b), snd (ingest' cfg st a) ++ snd (ingest' cfg (fst (ingest' cfg st a)) b)).
  Proof.
    cbn. destruct (ingest' cfg st a) as [st1 e1]. cbn [fst snd].
    destruct (ingest' cfg st1 b) as [st2 e2]. cbn [fst snd]. now rewrite app_nil_r.
  Qed.

  Lemma ingest_all_visible cfg st l :
    visible_all (fst (ingest_all' cfg st l)) = visible_all st ++ announced_regs (snd (ingest_all' cfg st l)).
  Proof.
    revert st; induction l as [|r l IH]; intro st.
    - cbn. now rewrite app_nil_r.
    - cbn [ingest_all]. pose proof (ingest_visible covert_check live cfg st r) as H1.
      destruct (ingest' cfg st r) as [st1 e1]. cbn [fst snd] in H1.
      specialize (IH st1). destruct (ingest_all' cfg st1 l) as [st2 e2]. cbn [fst snd] in *.
      now rewrite IH, H1, announced_regs_app, app_assoc.
  Qed.

  (* lookups after a message: what they returned before plus what was announced *)
  Lemma process_visible cfg st w :
    visible_all (fst (process' cfg st w)) = visible_all st ++ announced_regs (snd (process' cfg st w)).
  Proof.
    unfold process. destruct (parse' cfg w) as [l|e|].
    - apply ingest_all_visible.
    - cbn. now rewrite app_nil_r.
    - cbn. now rewrite app_nil_r.
  Qed.

  Lemma process_all_visible cfg st ws :
    visible_all (fst (process_all select params_ok dst_port geoip_ok covert_check live cfg st ws)) =
    visible_all st ++ announced_regs (snd (process_all select params_ok dst_port geoip_ok covert_check live cfg st ws)).
  Proof.
    revert st; induction ws as [|w ws IH]; intro st.
    - cbn. now rewrite app_nil_r.
    - cbn [process_all]. pose proof (process_visible cfg st w) as H1.
      destruct (process' cfg st w) as [st1 e1]. cbn [fst snd] in H1.
      specialize (IH st1).
      destruct (process_all select params_ok dst_port geoip_ok covert_check live cfg st1 ws) as [st2 e2].
      cbn [fst snd] in *. now rewrite IH, H1, announced_regs_app, app_assoc.
  Qed.

  (* from an empty table, after any history of messages: a lookup for any phantom returns only announced registrations *)
  Lemma lookup_only_announced cfg ws ph r :
    In r (visible (fst (process_all select params_ok dst_port geoip_ok covert_check live cfg [] ws)) ph) ->
    In r (announced_regs (snd (process_all select params_ok dst_port geoip_ok covert_check live cfg [] ws))).
  Proof.
    intro H. pose proof (process_all_visible cfg [] ws) as Hv. cbn [visible_all filter map app] in Hv.
    rewrite <- Hv. unfold visible in H. unfold visible_all.
    apply in_map_iff in H as (e & <- & He). apply in_map_iff. exists e. split; [reflexivity|].
    apply filter_In in He as [Hin Hb]. apply filter_In. split; [exact Hin|].
    now apply andb_true_iff in Hb as [Hb _].
  Qed.

  (* a message that cannot be built for a requested family is dropped as a whole: no effect, no change *)
  Lemma process_dropped cfg st w p v6 :
    w_payload w = Some p -> want cfg w p v6 = true -> buildable' cfg w p v6 = false ->
    process' cfg st w = (st, []).
  Proof.
    intros Hp Hw Hb. unfold process.
    destruct (parse_spec select params_ok dst_port geoip_ok cfg w p Hp) as [_ Herr].
    rewrite Herr; [reflexivity|]. unfold message_ok.
    destruct v6; rewrite Hw, Hb; cbn; [apply andb_false_r | reflexivity].
  Qed.

  Lemma process_no_payload cfg st w : w_payload w = None -> process' cfg st w = (st, []).
  Proof. intro H. unfold process. now rewrite (parse_no_payload select params_ok dst_port geoip_ok cfg w H). Qed.

  (* the effects of a message are those of its IPv4 draft followed by those of its IPv6 draft *)
  Lemma process_effects cfg st w p :
    w_payload w = Some p -> message_ok' cfg w p = true ->
    snd (process' cfg st w) =
      (if want cfg w p false then match new_reg' cfg w p false with Ok r => snd (ingest' cfg st r) | _ => [] end else []) ++
      (if want cfg w p true then match new_reg' cfg w p true with
                                 | Ok r => snd (ingest' cfg (state_before' cfg st w p true) r) | _ => [] end else []).
  Proof.
    intros Hp Hok. unfold process, state_before.
    destruct (parse_spec select params_ok dst_port geoip_ok cfg w p Hp) as [Hgood _].
    destruct (Hgood Hok) as (l4 & l6 & Hparse & H4 & H6). rewrite Hparse. cbn [andb].
    destruct (want cfg w p false); destruct (want cfg w p true).
    - destruct H4 as (r4 & -> & E4). destruct H6 as (r6 & -> & E6). rewrite E4, E6.
      cbn [app]. now rewrite ingest_all_two.
    - destruct H4 as (r4 & -> & E4). subst l6. rewrite E4, !app_nil_r. now rewrite ingest_all_one.
    - destruct H6 as (r6 & -> & E6). subst l4. rewrite E6. cbn [app]. now rewrite ingest_all_one.
    - subst. reflexivity.
  Qed.

  (* ---- announced iff admissible, for a whole message ---- *)
  Lemma process_announce_iff cfg st w r' :
    In (Announce r') (snd (process' cfg st w)) <->
    exists p v6 r lit,
      w_payload w = Some p /\ message_ok' cfg w p = true /\ want cfg w p v6 = true /\
      new_reg' cfg w p v6 = Ok r /\
      admissible' cfg (state_before' cfg st w p v6) r = true /\
      covert_check (r_covert r) = Some lit /\ r' = set_covert r lit.
  Proof.
    split.
    - intro Hin. destruct (w_payload w) as [p|] eqn:Hp.
      2:{ rewrite (process_no_payload cfg st w Hp) in Hin. destruct Hin. }
      destruct (message_ok' cfg w p) eqn:Hok.
      2:{ unfold process in Hin.
          destruct (parse_spec select params_ok dst_port geoip_ok cfg w p Hp) as [_ Herr].
          rewrite (Herr Hok) in Hin. destruct Hin. }
      rewrite (process_effects cfg st w p Hp Hok) in Hin. apply in_app_iff in Hin as [Hin|Hin].
      + destruct (want cfg w p false) eqn:Hw; [|destruct Hin].
        destruct (new_reg' cfg w p false) as [r|e|] eqn:En; try (now destruct Hin).
        destruct (ingest_announced_is_checked _ _ _ _ _ _ Hin) as (lit & Hc & ->).
        exists p, false, r, lit. repeat split; auto.
        apply ingest_announce_iff. eauto.
      + destruct (want cfg w p true) eqn:Hw; [|destruct Hin].
        destruct (new_reg' cfg w p true) as [r|e|] eqn:En; try (now destruct Hin).
        destruct (ingest_announced_is_checked _ _ _ _ _ _ Hin) as (lit & Hc & ->).
        exists p, true, r, lit. repeat split; auto.
        apply ingest_announce_iff. eauto.
    - intros (p & v6 & r & lit & Hp & Hok & Hw & En & Ha & Hc & ->).
      rewrite (process_effects cfg st w p Hp Hok). apply in_app_iff.
      apply ingest_announce_iff in Ha as (r'' & Hin).
      destruct (ingest_announced_is_checked _ _ _ _ _ _ Hin) as (lit' & Hc' & ->).
      assert (lit' = lit) by congruence. subst lit'.
      destruct v6.
      + right. now rewrite Hw, En.
      + left. rewrite Hw, En. exact Hin.
  Qed.

  (* the true part of the "if" direction: with every requested family buildable and the registration not
     already tracked, meeting the listed conditions means being announced *)
  Lemma if_direction_partial cfg st w p v6 r :
    w_payload w = Some p -> message_ok' cfg w p = true -> want cfg w p v6 = true ->
    new_reg' cfg w p v6 = Ok r ->
    admissible' cfg (state_before' cfg st w p v6) r = true ->
    exists r', In (Announce r') (snd (process' cfg st w)).
  Proof.
    intros Hp Hok Hw En Ha.
    destruct (admissible_conjuncts_pre _ _ _ _ _ Ha) as (lit & Hc).
    exists (set_covert r lit). apply process_announce_iff. exists p, v6, r, lit. repeat split; auto.
  Qed.

  (* ---- the IPv6 twin of a dual-stack message is never passed on; hence at most one Share per message ---- *)
  Hypothesis select_v6_not_v4 : forall s g l ip, select s g l true = Some ip -> is_v4 ip = false.

  Lemma v6_twin_no_wrapper cfg w p r :
    new_reg' cfg w p true = Ok r -> c_v4 p = true -> generate_c2s_wrapper r = None.
  Proof.
    intros En Hv4. destruct (new_reg_fields _ _ _ _ _ _ _ _ _ En) as (_ & _ & Hph & _ & _ & _ & _ & _ & Ho).
    unfold generate_c2s_wrapper. rewrite Ho. cbn [c_v4 set_params]. rewrite Hv4.
    assert (Hnot4 : phantom_is_v4 r = false).
    { unfold phantom_is_v4. rewrite Hph. unfold phantom_of, ip_override.
      destruct (w_rr w) as [rr|].
      - destruct (rr_v6 rr) as [b|].
        + destruct (negb (len_is 16 b)); [reflexivity|]. destruct (is_v4 b) eqn:E4; [reflexivity|].
          destruct (select _ _ _ true); [exact E4|reflexivity].
        + destruct (select _ _ _ true) eqn:Es; [|reflexivity]. eapply select_v6_not_v4; eauto.
      - destruct (select _ _ _ true) eqn:Es; [|reflexivity]. eapply select_v6_not_v4; eauto. }
    now rewrite Hnot4.
  Qed.

  Lemma count_pos_in f l : (0 < count f l)%nat -> exists e, In e l /\ f e = true.
  Proof.
    unfold count. induction l as [|x l IH]; cbn; [lia|].
    destruct (f x) eqn:E.
    - intros _. exists x. auto.
    - intro H. destruct (IH H) as (e & Hin & He). exists e. auto.
  Qed.

  Lemma no_wrapper_no_share cfg st r : generate_c2s_wrapper r = None -> count is_share (snd (ingest' cfg st r)) = 0%nat.
  Proof.
    intro Hg. destruct (count is_share (snd (ingest' cfg st r))) eqn:E; [reflexivity|].
    assert (H : (0 < count is_share (snd (ingest' cfg st r)))%nat) by lia.
    apply count_pos_in in H as (e & Hin & He). destruct e; try discriminate.
    apply ingest_share_iff in Hin as (_ & Hs). congruence.
  Qed.

  Lemma process_share_at_most_once cfg st w : (count is_share (snd (process' cfg st w)) <= 1)%nat.
  Proof.
    destruct (w_payload w) as [p|] eqn:Hp.
    2:{ rewrite (process_no_payload cfg st w Hp). cbn. lia. }
    destruct (message_ok' cfg w p) eqn:Hok.
    2:{ unfold process. destruct (parse_spec select params_ok dst_port geoip_ok cfg w p Hp) as [_ Herr].
        rewrite (Herr Hok). cbn. lia. }
    rewrite (process_effects cfg st w p Hp Hok), count_app.
    destruct (want cfg w p false) eqn:Hw4.
    - assert (Hv4 : c_v4 p = true).
      { unfold want in Hw4. apply andb_true_iff in Hw4 as [Hw4 _]. now apply andb_true_iff in Hw4 as [Hw4 _]. }
      destruct (want cfg w p true).
      + destruct (new_reg' cfg w p true) as [r6|e|] eqn:E6.
        * rewrite (no_wrapper_no_share cfg _ r6 (v6_twin_no_wrapper cfg w p r6 E6 Hv4)).
          destruct (new_reg' cfg w p false) as [r4|e|]; try (cbn; lia).
          pose proof (ingest_effect_counts covert_check live cfg st r4) as (H & _). lia.
        * destruct (new_reg' cfg w p false) as [r4|e'|]; try (cbn; lia).
          pose proof (ingest_effect_counts covert_check live cfg st r4) as (H & _). cbn. lia.
        * destruct (new_reg' cfg w p false) as [r4|e'|]; try (cbn; lia).
          pose proof (ingest_effect_counts covert_check live cfg st r4) as (H & _). cbn. lia.
      + destruct (new_reg' cfg w p false) as [r4|e'|]; try (cbn; lia).
        pose proof (ingest_effect_counts covert_check live cfg st r4) as (H & _). cbn. lia.
    - destruct (want cfg w p true); [|cbn; lia].
      destruct (new_reg' cfg w p true) as [r6|e|]; try (cbn; lia).
      pose proof (ingest_effect_counts covert_check live cfg (state_before' cfg st w p true) r6) as (H & _). cbn. lia.
  Qed.

  (* what is shared is marked pre-scanned, sourced DetectorPrescan, and carries the client's own message *)
  Lemma shared_is_marked r s :
    generate_c2s_wrapper r = Some s ->
    sh_source s = src_detector_prescan /\ c_prescanned (sh_payload s) = true /\
    sh_secret s = r_secret r /\ sh_regaddr s = r_regaddr r /\
    exists p, r_orig r = Some p /\ sh_payload s = set_prescanned p.
  Proof.
    unfold generate_c2s_wrapper. destruct (r_orig r) as [p|]; [|discriminate].
    destruct (negb (phantom_is_v4 r) && c_v4 p); [discriminate|].
    intro H; injection H as <-. cbn. repeat split; eauto.
  Qed.
End Process.

(* ---- every conjunct of the admission conditions is necessary ---- *)
Lemma admissible_conjuncts covert_check live cfg st r :
  admissible covert_check live cfg st r = true ->
  complete r = true /\ transport_enabled cfg (r_transport r) = true /\ reg_phantom_blocked cfg r = false /\
  tracked st r = false /\ covert_ok covert_check r = true /\ (needs_probe r = true -> probe_live live r = false).
Proof.
  unfold admissible. intro H.
  apply andb_true_iff in H as [H HF]. apply andb_true_iff in H as [H HE]. apply andb_true_iff in H as [H HD].
  apply andb_true_iff in H as [H HC]. apply andb_true_iff in H as [HA HB].
  apply negb_true_iff in HC, HD. repeat split; auto.
  intro Hn. rewrite Hn in HF. cbn in HF. now apply negb_true_iff in HF.
Qed.

Lemma buildable_conjuncts select params_ok dst_port geoip_ok cfg w p v6 :
  buildable select params_ok dst_port geoip_ok cfg w p v6 = true ->
  override_valid w v6 = true /\
  select (w_secret w) (c_gen p) (c_libver p) v6 <> None /\
  transport_enabled cfg (c_transport p) = true /\
  params_ok (c_transport p) (c_libver p) (effective_params w p) = true /\
  dst_port (w_secret w) (c_transport p) (c_libver p) (effective_params w p) v6 <> None /\
  valid_ip (regaddr_of w) = true /\
  (exists ph, phantom_of select w p v6 = Some ph /\ (is_v4 ph = true -> is_v4 (regaddr_of w) = true)) /\
  geoip_ok (regaddr_of w) = true.
Proof.
  unfold buildable. intro H.
  apply andb_true_iff in H as [H H8]. apply andb_true_iff in H as [H H7]. apply andb_true_iff in H as [H H6].
  apply andb_true_iff in H as [H H5]. apply andb_true_iff in H as [H H4]. apply andb_true_iff in H as [H H3].
  apply andb_true_iff in H as [H1 H2].
  repeat split; auto.
  - destruct (select _ _ _ _); [discriminate | discriminate].
  - destruct (dst_port _ _ _ _ _); [discriminate | discriminate].
  - destruct (phantom_of select w p v6) as [ph|]; [|discriminate]. exists ph. split; [reflexivity|].
    intro E. rewrite E in H7. exact H7.
Qed.
