(* C07: lemmas about the admission procedure over a stateful liveness tester (ModelLive.v): the abstract tester,
   then C18's cache / probe stack over histories. *)
From CJ Require Import Common.Base C06.Model C07.Model C07.Proofs C07.ModelLive.
From CJ Require C18.Model C18.Proofs C18.Proofs2.
From Coq Require Import Lia.
Local Open Scope N_scope.

Definition strip_probes (sent : bool) (ef : list effect) : list effect :=
  if sent then ef else filter (fun e => negb (is_probe e)) ef.

Lemma needs_probe_phantom r : needs_probe r = true -> exists ip, r_phantom r = Some ip.
Proof.
  unfold needs_probe, phantom_is_v4. destruct (r_phantom r) as [ip|]; [eauto|].
  rewrite andb_false_r. discriminate.
Qed.

Lemma announced_filter_nonprobe ef :
  announced_regs (filter (fun e => negb (is_probe e)) ef) = announced_regs ef.
Proof.
  unfold announced_regs. induction ef as [|e ef IH]; [reflexivity|].
  destruct e; cbn [filter is_probe negb flat_map app]; now rewrite IH.
Qed.

Section StackProofs.
  Variable T : Type.
  Variable ask : T -> ipraw -> N -> T * answer * bool.
  Variable cc : bytes -> option bytes.

  Lemma ingest_l_spec cfg (w : world T) r :
    ingest_l T ask cc cfg w r =
    let '(st', ef) := ingest cc (verdict_now T ask (wd_tester w)) cfg (wd_table w) r in
    match (if probe_required cc cfg (wd_table w) r then r_phantom r else None) with
    | Some ip => let '(t1, a, sent) := ask (wd_tester w) ip (r_port r) in
                 (Build_world st' t1 (bump (wd_cnt w) a), strip_probes sent ef, [(ip, r_port r, a, sent)])
    | None => (Build_world st' (wd_tester w) (wd_cnt w), ef, [])
    end.
  Proof.
    destruct w as [st t cnt]. unfold ingest_l, ingest, probe_required, covert_ok. cbn [wd_table wd_tester wd_cnt].
    destruct (validate cfg r) eqn:Ev; cbn [negb andb]; [|reflexivity].
    destruct (tracked st r) eqn:Et; cbn [negb andb]; [reflexivity|].
    destruct (cc (r_covert r)) as [lit|] eqn:Ec; cbn [andb]; [|reflexivity].
    rewrite needs_probe_set_covert, from_detector_set_covert, blocked_set_covert, wrapper_set_covert.
    change (r_phantom (set_covert r lit)) with (r_phantom r).
    change (r_port (set_covert r lit)) with (r_port r).
    change (probe_live (verdict_now T ask t) (set_covert r lit)) with (probe_live (verdict_now T ask t) r).
    change (probe_effect (set_covert r lit)) with (probe_effect r).
    destruct (needs_probe r) eqn:En; cbn [andb].
    - destruct (needs_probe_phantom r En) as [ip Hph]. unfold probe_live, probe_effect, verdict_now. rewrite Hph.
      destruct (ask t ip (r_port r)) as [[t1 a] sent] eqn:Ha. cbn [fst snd].
      destruct (a_live a).
      + destruct sent; reflexivity.
      + destruct (from_detector r && reg_phantom_blocked cfg r); destruct (from_detector r && cf_share cfg);
          destruct (generate_c2s_wrapper r); destruct sent; reflexivity.
    - destruct (from_detector r && reg_phantom_blocked cfg r); reflexivity.
  Qed.

  Notation lvnow w := (verdict_now T ask (wd_tester w)).

  Lemma in_strip_nonprobe sent ef e : is_probe e = false -> (In e (strip_probes sent ef) <-> In e ef).
  Proof.
    intros He. unfold strip_probes. destruct sent; [tauto|]. rewrite filter_In, He. cbn. tauto.
  Qed.

  Lemma in_strip_probe sent ef ip port : In (Probe ip port) (strip_probes sent ef) <-> In (Probe ip port) ef /\ sent = true.
  Proof.
    unfold strip_probes. destruct sent; [tauto|]. rewrite filter_In. cbn. split; [intros [_ H]; discriminate|intros [_ H]; discriminate].
  Qed.

  (* the effects of the stateful ingest, in terms of the verdict-function ingest *)
  Lemma ingest_l_effects cfg (w : world T) r e :
    In e (snd (fst (ingest_l T ask cc cfg w r))) <->
    In e (snd (ingest cc (lvnow w) cfg (wd_table w) r)) /\
    match e with
    | Probe ip port => snd (ask (wd_tester w) ip port) = true
    | _ => True
    end.
  Proof.
    rewrite ingest_l_spec. destruct (ingest cc (lvnow w) cfg (wd_table w) r) as [st' ef] eqn:Hi. cbn [snd].
    destruct (probe_required cc cfg (wd_table w) r) eqn:Hp.
    - destruct (proj1 (andb_true_iff _ _) Hp) as [_ Hn]. destruct (needs_probe_phantom r Hn) as [ip Hph]. rewrite Hph.
      destruct (ask (wd_tester w) ip (r_port r)) as [[t1 a] sent] eqn:Ha. cbn [fst snd].
      destruct e as [ip' port'|s|r'].
      + rewrite in_strip_probe. split.
        * intros [Hin ->]. split; [exact Hin|].
          assert (Hin' : In (Probe ip' port') (snd (ingest cc (lvnow w) cfg (wd_table w) r))) by now rewrite Hi.
          apply ingest_probe_iff in Hin' as (_ & Hph' & ->). rewrite Hph in Hph'. injection Hph' as <-. now rewrite Ha.
        * intros [Hin Hs]. split; [exact Hin|].
          assert (Hin' : In (Probe ip' port') (snd (ingest cc (lvnow w) cfg (wd_table w) r))) by now rewrite Hi.
          apply ingest_probe_iff in Hin' as (_ & Hph' & ->). rewrite Hph in Hph'. injection Hph' as <-. now rewrite Ha in Hs.
      + rewrite in_strip_nonprobe by reflexivity. tauto.
      + rewrite in_strip_nonprobe by reflexivity. tauto.
    - cbn [fst snd]. destruct e as [ip' port'|s|r']; try tauto.
      split; [|tauto]. intro Hin. exfalso.
      assert (Hin' : In (Probe ip' port') (snd (ingest cc (lvnow w) cfg (wd_table w) r))) by now rewrite Hi.
      apply ingest_probe_iff in Hin' as (Hp' & _). congruence.
  Qed.

  Lemma ingest_l_table cfg (w : world T) r :
    wd_table (fst (fst (ingest_l T ask cc cfg w r))) = fst (ingest cc (lvnow w) cfg (wd_table w) r).
  Proof.
    rewrite ingest_l_spec. destruct (ingest cc (lvnow w) cfg (wd_table w) r) as [st' ef].
    destruct (if probe_required cc cfg (wd_table w) r then r_phantom r else None) as [ip|]; [|reflexivity].
    destruct (ask (wd_tester w) ip (r_port r)) as [[t1 a] sent]. reflexivity.
  Qed.

  (* T1: announced iff every admission condition holds, the liveness condition being the VERDICT the tester gives in
     its current state -- whatever error accompanies it *)
  Lemma stack_announce_iff cfg (w : world T) r :
    (exists r', In (Announce r') (snd (fst (ingest_l T ask cc cfg w r)))) <->
    admissible cc (lvnow w) cfg (wd_table w) r = true.
  Proof.
    rewrite <- ingest_announce_iff. split; intros [r' H]; exists r'; apply ingest_l_effects in H || apply ingest_l_effects; tauto.
  Qed.

  Lemma stack_announced_is_checked cfg (w : world T) r r' :
    In (Announce r') (snd (fst (ingest_l T ask cc cfg w r))) ->
    exists lit, cc (r_covert r) = Some lit /\ r' = set_covert r lit.
  Proof. intro H. apply ingest_l_effects in H as [H _]. eapply ingest_announced_is_checked; eauto. Qed.

  Lemma stack_share_iff cfg (w : world T) r s :
    In (Share s) (snd (fst (ingest_l T ask cc cfg w r))) <->
    share_due cc (lvnow w) cfg (wd_table w) r = true /\ generate_c2s_wrapper r = Some s.
  Proof. rewrite <- ingest_share_iff. rewrite ingest_l_effects. tauto. Qed.

  (* a NETWORK probe goes out iff the tester has to be consulted and says it sent one *)
  Lemma stack_probe_iff cfg (w : world T) r ip port :
    In (Probe ip port) (snd (fst (ingest_l T ask cc cfg w r))) <->
    probe_required cc cfg (wd_table w) r = true /\ r_phantom r = Some ip /\ port = r_port r /\
    snd (ask (wd_tester w) ip port) = true.
  Proof. rewrite ingest_l_effects, ingest_probe_iff. tauto. Qed.

  (* the tester is consulted iff a verdict is required: exactly once, for the registration's phantom and port;
     its state and the counters move only then *)
  Lemma stack_consulted_iff cfg (w : world T) r :
    (probe_required cc cfg (wd_table w) r = true ->
       exists ip, r_phantom r = Some ip /\
         let '(t1, a, sent) := ask (wd_tester w) ip (r_port r) in
         snd (ingest_l T ask cc cfg w r) = [(ip, r_port r, a, sent)] /\
         wd_tester (fst (fst (ingest_l T ask cc cfg w r))) = t1 /\
         wd_cnt (fst (fst (ingest_l T ask cc cfg w r))) = bump (wd_cnt w) a) /\
    (probe_required cc cfg (wd_table w) r = false ->
       snd (ingest_l T ask cc cfg w r) = [] /\
       wd_tester (fst (fst (ingest_l T ask cc cfg w r))) = wd_tester w /\
       wd_cnt (fst (fst (ingest_l T ask cc cfg w r))) = wd_cnt w).
  Proof.
    rewrite ingest_l_spec. destruct (ingest cc (lvnow w) cfg (wd_table w) r) as [st' ef]. split; intro Hp; rewrite Hp.
    - destruct (proj1 (andb_true_iff _ _) Hp) as [_ Hn]. destruct (needs_probe_phantom r Hn) as [ip Hph]. rewrite Hph.
      exists ip. split; [reflexivity|]. destruct (ask (wd_tester w) ip (r_port r)) as [[t1 a] sent]. cbn. auto.
    - cbn. auto.
  Qed.

  Lemma stack_visible cfg (w : world T) r :
    visible_all (wd_table (fst (fst (ingest_l T ask cc cfg w r)))) =
    visible_all (wd_table w) ++ announced_regs (snd (fst (ingest_l T ask cc cfg w r))).
  Proof.
    rewrite ingest_l_table, ingest_visible. f_equal.
    rewrite ingest_l_spec. destruct (ingest cc (lvnow w) cfg (wd_table w) r) as [st' ef]. cbn [snd].
    destruct (if probe_required cc cfg (wd_table w) r then r_phantom r else None) as [ip|]; [|reflexivity].
    destruct (ask (wd_tester w) ip (r_port r)) as [[t1 a] sent]. cbn [fst snd].
    unfold strip_probes. destruct sent; [reflexivity|]. now rewrite announced_filter_nonprobe.
  Qed.
End StackProofs.

(* ---- the error class is irrelevant to admission: two testers that agree on state, verdict and whether a probe went
        out -- and differ arbitrarily in the error they return -- give the same table, tester state and effects ---- *)
Lemma ingest_live_ext cc (l1 l2 : ipraw -> N -> bool) cfg st r :
  (forall ip port, l1 ip port = l2 ip port) -> ingest cc l1 cfg st r = ingest cc l2 cfg st r.
Proof.
  intro H. unfold ingest, probe_live.
  destruct (negb (validate cfg r)); [reflexivity|]. destruct (tracked st r); [reflexivity|].
  destruct (cc (r_covert r)) as [lit|]; [|reflexivity].
  destruct (r_phantom (set_covert r lit)) as [ip|]; [now rewrite H|reflexivity].
Qed.

Definition same_but_error {T} (ask1 ask2 : T -> ipraw -> N -> T * answer * bool) : Prop :=
  forall t ip port,
    fst (fst (ask1 t ip port)) = fst (fst (ask2 t ip port)) /\
    a_live (snd (fst (ask1 t ip port))) = a_live (snd (fst (ask2 t ip port))) /\
    snd (ask1 t ip port) = snd (ask2 t ip port).

Lemma error_class_irrelevant T (ask1 ask2 : T -> ipraw -> N -> T * answer * bool) cc cfg (w : world T) r :
  same_but_error ask1 ask2 ->
  let x1 := ingest_l T ask1 cc cfg w r in let x2 := ingest_l T ask2 cc cfg w r in
  wd_table (fst (fst x1)) = wd_table (fst (fst x2)) /\ wd_tester (fst (fst x1)) = wd_tester (fst (fst x2)) /\
  snd (fst x1) = snd (fst x2).
Proof.
  intro H. cbn zeta. rewrite !ingest_l_spec.
  rewrite (ingest_live_ext cc (verdict_now T ask1 (wd_tester w)) (verdict_now T ask2 (wd_tester w)))
    by (intros ip port; unfold verdict_now; apply H).
  destruct (ingest cc (verdict_now T ask2 (wd_tester w)) cfg (wd_table w) r) as [st' ef].
  destruct (if probe_required cc cfg (wd_table w) r then r_phantom r else None) as [ip|]; [|cbn; auto].
  destruct (H (wd_tester w) ip (r_port r)) as (H1 & _ & H3).
  destruct (ask1 (wd_tester w) ip (r_port r)) as [[t1 a1] s1], (ask2 (wd_tester w) ip (r_port r)) as [[t2 a2] s2].
  cbn in *. subst. auto.
Qed.

(* ================================================================ the real stack: C18's tester *)
Module P18 := CJ.C18.Proofs2.

Lemma run_single (s : L18.st) (q : L18.lop) : fst (L18.run s [q]) = fst (L18.step s q).
Proof. cbn [L18.run]. destruct (L18.step s q) as [s1 x]. reflexivity. Qed.

Lemma after_app lc l1 l2 : L18.after lc (l1 ++ l2) = fst (L18.run (L18.after lc l1) l2).
Proof. unfold L18.after. now rewrite P18.run_app. Qed.

(* what the stack answers in a reachable state: a network probe with the network's own answer exactly when neither
   cache holds a fresh verdict for the address, otherwise the fresh cached verdict with ErrCachedPhantom *)
Lemma stack_ask_shape lc lops pl pe ip port :
  let s := L18.after lc lops in
  let '(s', a, sent) := stack_ask pl pe s ip port in
  s' = fst (L18.step s (L18.Query (addr_key ip) pl pe)) /\
  ((sent = true /\ a = {| a_live := pl; a_err := pe |} /\
    ~ P18.fresh_on true s (addr_key ip) /\ ~ P18.fresh_on false s (addr_key ip)) \/
   (exists v, sent = false /\ a = {| a_live := v; a_err := err_cached |} /\ P18.fresh_on v s (addr_key ip))).
Proof.
  cbn zeta. unfold stack_ask.
  pose proof (P18.probe_iff_miss lc lops (addr_key ip) pl pe) as H. cbn zeta in H.
  destruct (L18.step (L18.after lc lops) (L18.Query (addr_key ip) pl pe)) as [s' o] eqn:Hs.
  split; [reflexivity|].
  destruct H as [(-> & _ & H1 & H2)|(v & -> & _ & H1)].
  - left. cbn. auto.
  - right. exists v. cbn. auto.
Qed.

Lemma stack_ask_cached_live lc lops pl pe ip port :
  P18.fresh_on true (L18.after lc lops) (addr_key ip) ->
  a_live (snd (fst (stack_ask pl pe (L18.after lc lops) ip port))) = true /\
  snd (stack_ask pl pe (L18.after lc lops) ip port) = false.
Proof.
  intro Hf. pose proof (stack_ask_shape lc lops pl pe ip port) as H. cbn zeta in H.
  destruct (stack_ask pl pe (L18.after lc lops) ip port) as [[s' a] sent]. cbn [fst snd].
  destruct H as [_ [(_ & _ & H1 & _)|(v & -> & -> & Hv)]]; [contradiction|].
  destruct v; [auto|]. exfalso. apply (P18.never_both_fresh lc lops (addr_key ip)). auto.
Qed.

Lemma stack_ask_sent_iff lc lops pl pe ip port :
  snd (stack_ask pl pe (L18.after lc lops) ip port) = true <->
  ~ P18.fresh_on true (L18.after lc lops) (addr_key ip) /\ ~ P18.fresh_on false (L18.after lc lops) (addr_key ip).
Proof.
  pose proof (stack_ask_shape lc lops pl pe ip port) as H. cbn zeta in H.
  destruct (stack_ask pl pe (L18.after lc lops) ip port) as [[s' a] sent]. cbn [fst snd].
  destruct H as [_ [(-> & _ & H1 & H2)|(v & -> & _ & Hv)]].
  - tauto.
  - split; [discriminate|]. intros [H1 H2]. destruct v; contradiction.
Qed.

Section HistoryProofs.
  Variable select : bytes -> N -> N -> bool -> option ipraw.
  Variable params_ok : N -> N -> option N -> bool.
  Variable dst_port : bytes -> N -> N -> option N -> bool -> option N.
  Variable geoip_ok : ipraw -> bool.
  Variable cc : bytes -> option bytes.

  Notation hstep' := (hstep select params_ok dst_port geoip_ok cc).
  Notation hrun' := (hrun select params_ok dst_port geoip_ok cc).
  Notation world_after' := (world_after select params_ok dst_port geoip_ok cc).
  Notation effects_of' := (effects_of select params_ok dst_port geoip_ok cc).
  Notation asked_of' := (asked_of select params_ok dst_port geoip_ok cc).
  Notation lops_of' := (lops_of select params_ok dst_port geoip_ok cc).
  Notation ingest_s pl pe := (ingest_l L18.st (stack_ask pl pe) cc).
  Notation ingest_s_all pl pe := (ingest_l_all L18.st (stack_ask pl pe) cc).

  Definition bump_all (c : counters) (l : list asked) : counters :=
    fold_left (fun c (x : asked) => let '(_, _, a, _) := x in bump c a) l c.

  Lemma bump_all_app c l1 l2 : bump_all c (l1 ++ l2) = bump_all (bump_all c l1) l2.
  Proof. unfold bump_all. apply fold_left_app. Qed.

  (* one registration: tester state, ghost operations, counters *)
  Lemma ingest_s_state pl pe cfg (w : sworld) r :
    let '(w', ef, lg) := ingest_s pl pe cfg w r in
    wd_tester w' = fst (L18.run (wd_tester w) (lops_of_asked pl pe lg)) /\
    wd_cnt w' = bump_all (wd_cnt w) lg /\
    visible_all (wd_table w') = visible_all (wd_table w) ++ announced_regs ef.
  Proof.
    pose proof (stack_consulted_iff L18.st (stack_ask pl pe) cc cfg w r) as [H1 H2].
    pose proof (stack_visible L18.st (stack_ask pl pe) cc cfg w r) as HV.
    destruct (ingest_s pl pe cfg w r) as [[w' ef] lg] eqn:Hi. cbn [fst snd] in *.
    destruct (probe_required cc cfg (wd_table w) r) eqn:Hp.
    - destruct (H1 eq_refl) as (ip & Hph & H). clear H1 H2.
      unfold stack_ask at 1 in H.
      destruct (L18.step (wd_tester w) (L18.Query (addr_key ip) pl pe)) as [s' o] eqn:Hs.
      destruct H as (-> & -> & ->). cbn [lops_of_asked map]. rewrite run_single, Hs. cbn. auto.
    - destruct (H2 eq_refl) as (-> & -> & ->). cbn. auto.
  Qed.

  Lemma ingest_s_all_state pl pe cfg l : forall (w : sworld),
    let '(w', ef, lg) := ingest_s_all pl pe cfg w l in
    wd_tester w' = fst (L18.run (wd_tester w) (lops_of_asked pl pe lg)) /\
    wd_cnt w' = bump_all (wd_cnt w) lg /\
    visible_all (wd_table w') = visible_all (wd_table w) ++ announced_regs ef.
  Proof.
    induction l as [|r l IH]; intro w; cbn [ingest_l_all].
    - cbn. rewrite app_nil_r. auto.
    - pose proof (ingest_s_state pl pe cfg w r) as H1.
      destruct (ingest_s pl pe cfg w r) as [[w1 e1] a1].
      specialize (IH w1). destruct (ingest_s_all pl pe cfg w1 l) as [[w2 e2] a2].
      destruct H1 as (T1 & C1 & V1). destruct IH as (T2 & C2 & V2).
      unfold lops_of_asked in *. rewrite map_app, P18.run_app. cbn [fst].
      rewrite <- T1, <- T2, bump_all_app, <- C1, <- C2, V2, V1, announced_regs_app, app_assoc. auto.
  Qed.

  Lemma hstep_state cfg (w : sworld) o :
    let '(w', ef, lg, lops) := hstep' cfg w o in
    wd_tester w' = fst (L18.run (wd_tester w) lops) /\
    wd_cnt w' = bump_all (wd_cnt w) lg /\
    visible_all (wd_table w') = visible_all (wd_table w) ++ announced_regs ef.
  Proof.
    destruct o as [r pl pe|m pl pe|d|]; cbn [hstep].
    - pose proof (ingest_s_state pl pe cfg w r) as H. destruct (ingest_s pl pe cfg w r) as [[w' ef] lg]. exact H.
    - destruct (parse_reg_message select params_ok dst_port geoip_ok cfg m) as [l|e|].
      + pose proof (ingest_s_all_state pl pe cfg l w) as H. destruct (ingest_s_all pl pe cfg w l) as [[w' ef] lg]. exact H.
      + cbn. rewrite app_nil_r. auto.
      + cbn. rewrite app_nil_r. auto.
    - rewrite run_single. cbn. rewrite app_nil_r. auto.
    - rewrite run_single. cbn. rewrite app_nil_r. auto.
  Qed.

  Lemma hrun_state cfg h : forall (w : sworld),
    let '(w', ef, lg, lops) := hrun' cfg w h in
    wd_tester w' = fst (L18.run (wd_tester w) lops) /\
    wd_cnt w' = bump_all (wd_cnt w) lg /\
    visible_all (wd_table w') = visible_all (wd_table w) ++ announced_regs ef.
  Proof.
    induction h as [|o h IH]; intro w; cbn [hrun].
    - cbn. rewrite app_nil_r. auto.
    - pose proof (hstep_state cfg w o) as H1.
      destruct (hstep' cfg w o) as [[[w1 e1] a1] l1].
      specialize (IH w1). destruct (hrun' cfg w1 h) as [[[w2 e2] a2] l2].
      destruct H1 as (T1 & C1 & V1). destruct IH as (T2 & C2 & V2).
      rewrite P18.run_app. cbn [fst].
      rewrite <- T1, <- T2, bump_all_app, <- C1, <- C2, V2, V1, announced_regs_app, app_assoc. auto.
  Qed.

  (* the tester of a station that has been through history h is C18's tester after the operations h performed on it *)
  Lemma tester_reachable cfg lc h :
    wd_tester (world_after' cfg lc h) = L18.after lc (lops_of' cfg lc h).
  Proof.
    unfold world_after, lops_of, L18.after. pose proof (hrun_state cfg h (init_world lc)) as H.
    destruct (hrun' cfg (init_world lc) h) as [[[w' ef] lg] lops]. cbn [fst snd]. tauto.
  Qed.

  Lemma history_visible_eq_announced cfg lc h :
    visible_all (wd_table (world_after' cfg lc h)) = announced_regs (effects_of' cfg lc h).
  Proof.
    unfold world_after, effects_of. pose proof (hrun_state cfg h (init_world lc)) as H.
    destruct (hrun' cfg (init_world lc) h) as [[[w' ef] lg] lops]. cbn [fst snd]. tauto.
  Qed.

  (* ---- counters: every verdict is counted once ---- *)
  Definition answers (l : list asked) : list answer := map (fun x : asked => let '(_, _, a, _) := x in a) l.
  Definition cnt (p : answer -> bool) (l : list asked) : N := N.of_nat (length (filter p (answers l))).

  Lemma bump_all_counts l : forall c,
    n_pass (bump_all c l) = n_pass c + cnt (fun a => negb (a_live a)) l /\
    n_fail (bump_all c l) = n_fail c + cnt a_live l /\
    n_cached (bump_all c l) = n_cached c + cnt (fun a => a_live a && (a_err a =? err_cached)) l.
  Proof.
    unfold cnt, answers. induction l as [|[[[ip port] a] sent] l IH]; intro c.
    - cbn. lia.
    - change (bump_all c ((ip, port, a, sent) :: l)) with (bump_all (bump c a) l).
      destruct (IH (bump c a)) as (I1 & I2 & I3). rewrite I1, I2, I3. clear IH I1 I2 I3.
      cbn [map filter]. unfold bump. destruct (a_live a); cbn [negb andb n_pass n_fail n_cached].
      + destruct (a_err a =? err_cached); cbn [length]; lia.
      + cbn [length]. lia.
  Qed.

  Lemma history_counters cfg lc h :
    let c := wd_cnt (world_after' cfg lc h) in let l := asked_of' cfg lc h in
    n_pass c = cnt (fun a => negb (a_live a)) l /\
    n_fail c = cnt a_live l /\
    n_cached c = cnt (fun a => a_live a && (a_err a =? err_cached)) l /\
    n_pass c + n_fail c = N.of_nat (length l).
  Proof.
    cbn zeta. unfold world_after, asked_of. pose proof (hrun_state cfg h (init_world lc)) as H.
    destruct (hrun' cfg (init_world lc) h) as [[[w' ef] lg] lops]. cbn [fst snd]. destruct H as (_ & -> & _).
    destruct (bump_all_counts lg (wd_cnt (init_world lc))) as (-> & -> & ->). cbn [init_world wd_cnt zero_counters n_pass n_fail n_cached].
    repeat split; try lia.
    unfold cnt, answers. rewrite !N.add_0_l, <- Nat2N.inj_add. f_equal.
    rewrite <- (map_length (fun x : asked => let '(_, _, a, _) := x in a) lg).
    induction (map (fun x : asked => let '(_, _, a, _) := x in a) lg) as [|a l IH]; [reflexivity|].
    cbn [filter]. destruct (a_live a); cbn [negb length]; lia.
  Qed.

  (* ---- a registration arriving after any history ---- *)

  (* the phantom is known live from the cache: nothing happens (no probe, no share, no announcement), lookups unchanged *)
  Lemma cached_live_never_admitted cfg lc h r pl pe ip :
    let w := world_after' cfg lc h in
    r_phantom r = Some ip -> needs_probe r = true ->
    P18.fresh_on true (wd_tester w) (addr_key ip) ->
    snd (fst (ingest_s pl pe cfg w r)) = [] /\
    visible_all (wd_table (fst (fst (ingest_s pl pe cfg w r)))) = visible_all (wd_table w).
  Proof.
    cbn zeta. intros Hph Hn Hf. rewrite tester_reachable in Hf.
    assert (HE : snd (fst (ingest_s pl pe cfg (world_after' cfg lc h) r)) = []).
    { destruct (snd (fst (ingest_s pl pe cfg (world_after' cfg lc h) r))) as [|e l] eqn:He; [reflexivity|]. exfalso.
      assert (Hin : In e (snd (fst (ingest_s pl pe cfg (world_after' cfg lc h) r)))) by (rewrite He; now left).
      destruct (stack_ask_cached_live lc _ pl pe ip (r_port r) Hf) as [Hl Hs].
      assert (Hpl : probe_live (verdict_now L18.st (stack_ask pl pe) (wd_tester (world_after' cfg lc h))) r = true).
      { unfold probe_live, verdict_now. rewrite Hph, tester_reachable. exact Hl. }
      destruct e as [ip' port'|s|r'].
      - apply stack_probe_iff in Hin as (_ & Hph' & -> & Hsent). rewrite Hph in Hph'. injection Hph' as <-.
        rewrite tester_reachable in Hsent. congruence.
      - apply stack_share_iff in Hin as [Hsd _]. unfold share_due in Hsd. rewrite Hn, Hpl in Hsd.
        cbn in Hsd. rewrite !andb_false_r in Hsd. cbn in Hsd. discriminate.
      - assert (Hex : exists x, In (Announce x) (snd (fst (ingest_s pl pe cfg (world_after' cfg lc h) r)))) by eauto.
        apply stack_announce_iff in Hex. apply admissible_conjuncts in Hex as (_ & _ & _ & _ & _ & Hx).
        rewrite (Hx Hn) in Hpl. discriminate. }
    split; [exact HE|]. rewrite stack_visible, HE. cbn. now rewrite app_nil_r.
  Qed.

  (* a network probe goes out iff a verdict is required and neither cache holds a fresh one for the phantom *)
  Lemma network_probe_iff cfg lc h r pl pe ip port :
    let w := world_after' cfg lc h in
    In (Probe ip port) (snd (fst (ingest_s pl pe cfg w r))) <->
    probe_required cc cfg (wd_table w) r = true /\ r_phantom r = Some ip /\ port = r_port r /\
    ~ P18.fresh_on true (wd_tester w) (addr_key ip) /\ ~ P18.fresh_on false (wd_tester w) (addr_key ip).
  Proof.
    cbn zeta. rewrite stack_probe_iff, tester_reachable, stack_ask_sent_iff. tauto.
  Qed.

  (* where the verdict of an admitted registration came from *)
  Lemma admitted_verdict_provenance cfg lc h r pl pe ip r' :
    let w := world_after' cfg lc h in
    In (Announce r') (snd (fst (ingest_s pl pe cfg w r))) -> needs_probe r = true -> r_phantom r = Some ip ->
    (pl = false /\ In (Probe ip (r_port r)) (snd (fst (ingest_s pl pe cfg w r)))) \/
    (exists g ttl, L18.last_measured (L18.trace lc (lops_of' cfg lc h)) (addr_key ip) = Some (false, g) /\
                   L18.dur_nonlive lc = Some ttl /\ (Z.of_N g < ttl)%Z).
  Proof.
    cbn zeta. intros Hin Hn Hph.
    assert (Hadm : admissible cc (verdict_now L18.st (stack_ask pl pe) (wd_tester (world_after' cfg lc h))) cfg
                     (wd_table (world_after' cfg lc h)) r = true) by (apply stack_announce_iff; eauto).
    pose proof (admissible_conjuncts _ _ _ _ _ Hadm) as (Hc & Ht & Hb & Htr & Hco & Hx).
    specialize (Hx Hn). unfold probe_live, verdict_now in Hx. rewrite Hph, tester_reachable in Hx.
    assert (Hreq : probe_required cc cfg (wd_table (world_after' cfg lc h)) r = true).
    { unfold probe_required, validate. rewrite Hc, Ht, Hb, Htr, Hco, Hn. cbn. now rewrite orb_true_r. }
    pose proof (stack_ask_shape lc (lops_of' cfg lc h) pl pe ip (r_port r)) as Hs. cbn zeta in Hs.
    unfold stack_ask in Hs, Hx.
    destruct (L18.step (L18.after lc (lops_of' cfg lc h)) (L18.Query (addr_key ip) pl pe)) as [s' o] eqn:Hst.
    cbn [fst snd] in Hx. destruct Hs as [_ [(Hsent & Ha & H1 & H2)|(v & Hsent & Ha & Hv)]].
    - left. rewrite Ha in Hx. cbn in Hx. split; [exact Hx|].
      apply network_probe_iff. rewrite tester_reachable. auto.
    - right. rewrite Ha in Hx. cbn in Hx. subst v.
      assert (Ho : o = L18.Cached false).
      { destruct o as [v'|v' e'|]; cbn in Hsent, Ha; try discriminate. now injection Ha as ->. }
      subst o. apply (P18.served_only_fresh lc (lops_of' cfg lc h) (addr_key ip) pl pe false). now rewrite Hst.
  Qed.
End HistoryProofs.
