(* C07, liveness-stack lane: evaluation of ModelLive on recorded histories (correspondence check). *)
From CJ Require Import Common.Base C06.Model C07.Model C07.Run C07.ModelLive.

(* internal observations of one step (compared separately, informational): what the tester answered to every
   consultation, how the station's liveness counters moved, how many entries the two caches hold afterwards *)
Record lint := {
  li_verdicts : list (bool * N);
  li_counters : (N * N * N);          (* pass, fail, cached: increments of this step *)
  li_lens : (N * N)                   (* live cache, non-live cache *)
}.

(* Lifetimes and clock advances of a recorded history are whole hours, counted in ticks (one hour = 1000 ticks).
   Every operation of the real run also takes a small positive time, which the code's comparisons see at the boundary
   (Lookup: age < lifetime; ClearExpired: age > lifetime): one tick passes after every recorded step. *)
Definition tick (w : sworld) : sworld := with_tester w (fst (L18.step (wd_tester w) (L18.Adv 1))).

Definition lstep (cfg : config) (w : sworld) (i : hop) (o : oracles) : sworld * list effect * list asked :=
  instantiate o (fun sel pok dp geo cc _ =>
    let '(w', ef, lg, _) := hstep sel pok dp geo cc cfg w i in (tick w', ef, lg)).

(* the property's observables of a step: network probes, shares, announcements, lookups *)
Fixpoint lrun (cfg : config) (w : sworld) (steps : list (hop * oracles * obs * lint)) : bool :=
  match steps with
  | [] => true
  | (i, o, ob, _) :: rest =>
    let '(w', ef, _) := lstep cfg w i o in
    obs_matches (wd_table w') ef false 0 ob && lrun cfg w' rest
  end.

Definition lcase := (config * L18.cfg * list (hop * oracles * obs * lint))%type.
Definition chk_live (c : lcase) : bool :=
  let '(cfg, lc, steps) := c in lrun cfg (init_world lc) steps.

Definition pairs_eqb (a b : list (bool * N)) : bool :=
  list_eqb (fun x y => Bool.eqb (fst x) (fst y) && (snd x =? snd y)) a b.

Fixpoint lrun_internal (cfg : config) (w : sworld) (steps : list (hop * oracles * obs * lint)) : bool :=
  match steps with
  | [] => true
  | (i, o, _, li) :: rest =>
    let '(w', _, lg) := lstep cfg w i o in
    let c0 := wd_cnt w in let c1 := wd_cnt w' in
    let '(dp, df, dc) := li_counters li in
    pairs_eqb (map (fun x : asked => let '(_, _, a, _) := x in (a_live a, a_err a)) lg) (li_verdicts li) &&
    (n_pass c1 =? n_pass c0 + dp) && (n_fail c1 =? n_fail c0 + df) && (n_cached c1 =? n_cached c0 + dc) &&
    (L18.size true (wd_tester w') =? fst (li_lens li)) && (L18.size false (wd_tester w') =? snd (li_lens li)) &&
    lrun_internal cfg w' rest
  end.
Definition chk_live_internal (c : lcase) : bool :=
  let '(cfg, lc, steps) := c in lrun_internal cfg (init_world lc) steps.
