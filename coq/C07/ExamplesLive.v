(* C07, liveness stack: non-vacuity.  A concrete station with a live cache (2 h, map) / a non-live cache, three clients
   whose registrations name the same IPv4 phantom, and the histories the theorems speak about. *)
From CJ Require Import Common.Base C06.Model C07.Model C07.Proofs C07.ModelLive C07.ProofsLive C07.ProofsSeq C07.Examples.
Local Open Scope N_scope.

Definition hour : N := 1000.
Definition lc_live : L18.cfg := L18.mkCfg (Some 2000%Z) 0%Z None 0%Z.              (* cache_expiration_time = 2h, map *)
Definition lc_nonlive_lru : L18.cfg := L18.mkCfg None 0%Z (Some 1000%Z) 3%Z.        (* cache_expiration_nonlive = 1h, LRU 3 *)
Definition lc_none : L18.cfg := L18.mkCfg None 0%Z None 0%Z.                        (* the uncached tester *)

Definition client (secret : N) : reg :=
  {| r_has_keys := true; r_secret := [secret; secret]; r_phantom := Some ph4; r_port := 443; r_transport := 0;
     r_covert := [111; 107]; r_prescanned := false; r_source := Some src_api; r_regaddr := client4; r_orig := None |}.

Definition hr lc h := hrun x_select x_params x_port x_geo x_covert cfg0 (init_world lc) h.
Definition eff lc h := snd (fst (fst (hr lc h))).
Definition wafter lc h := world_after x_select x_params x_port x_geo x_covert cfg0 lc h.
Definition next lc h r pl pe := snd (fst (ingest_l L18.st (stack_ask pl pe) x_covert cfg0 (wafter lc h) r)).

(* first client: probed, the phantom answers -> dropped.  Second client within the lifetime: no probe, dropped although
   the network would now say "not live".  After the lifetime: probed again and admitted. *)
Example second_client_cached_live :
  eff lc_live [HReg (client 1) true err_livehost] = [Probe ph4 443] /\
  next lc_live [HReg (client 1) true err_livehost] (client 2) false err_notlive = [] /\
  next lc_live [HReg (client 1) true err_livehost; HAdv (2 * hour)] (client 2) false err_notlive =
    [Probe ph4 443; Announce (set_covert (client 2) [79; 75])].
Proof. vm_compute. auto. Qed.

(* the hypothesis of C07_cached_live_never_admitted is met after that first registration *)
Example fresh_on_after_first : P18.fresh_on true (wd_tester (wafter lc_live [HReg (client 1) true err_livehost])) (addr_key ph4).
Proof. exists 0, 2000%Z. vm_compute. auto. Qed.

(* the uncached tester: the second client is probed and, the network now saying "not live", admitted *)
Example second_client_uncached :
  next lc_none [HReg (client 1) true err_livehost] (client 2) false err_notlive = [Probe ph4 443; Announce (set_covert (client 2) [79; 75])].
Proof. vm_compute. reflexivity. Qed.

(* the non-live cache: admitted from the cache without a probe although the network would now say "live"; probed (and
   dropped) once the lifetime is over *)
Example second_client_cached_notlive :
  next lc_nonlive_lru [HReg (client 1) false err_notlive] (client 2) true err_livehost = [Announce (set_covert (client 2) [79; 75])] /\
  next lc_nonlive_lru [HReg (client 1) false err_notlive; HAdv hour] (client 2) true err_livehost = [Probe ph4 443].
Proof. vm_compute. auto. Qed.

(* the verdict decides, not the error: a live verdict that comes with ErrCachedPhantom from the probe itself is a drop,
   a not-live verdict with ErrCachedPhantom an admission *)
Example error_class_does_not_decide :
  eff lc_none [HReg (client 1) true err_cached] = [Probe ph4 443] /\
  eff lc_none [HReg (client 1) false err_cached] = [Probe ph4 443; Announce (set_covert (client 1) [79; 75])].
Proof. vm_compute. auto. Qed.

(* counters over a history: three verdicts (live fresh, live cached, not-live fresh), each counted once *)
Example counters_example :
  wd_cnt (wafter lc_live [HReg (client 1) true err_livehost; HReg (client 2) false err_notlive; HAdv (2 * hour); HReg (client 3) false err_notlive])
  = {| n_pass := 1; n_fail := 2; n_cached := 1 |}.
Proof. vm_compute. reflexivity. Qed.

(* a whole message through the stack: dual-stack client, IPv4 phantom known live from the cache -> only the IPv6 twin *)
Definition dual := msg (Some (pl true true 1 0 [111; 107] false)) src_api (Some client4).
Example dual_stack_cached_live :
  map (fun e => match e with Announce r => r_phantom r | _ => None end)
      (eff lc_live [HReg (client 1) true err_livehost; HMsg dual false err_notlive]) = [None; Some ph6].
Proof. vm_compute. reflexivity. Qed.

(* a detector-sourced dual-stack message: shared once; the same message again (even with another verdict): nothing *)
Definition dual_det := msg (Some (pl true true 1 0 [111; 107] false)) src_detector (Some client4).
Example repeated_message_shared_once :
  count is_share (snd (run false cfg0 [] dual_det)) = 1%nat /\ n_announced (run false cfg0 [] dual_det) = 2%nat /\
  snd (run true cfg0 (fst (run false cfg0 [] dual_det)) dual_det) = [] /\
  eff lc_live [HMsg dual_det false err_notlive; HAdv (5 * hour); HMsg dual_det true err_livehost] =
  eff lc_live [HMsg dual_det false err_notlive].
Proof. vm_compute. auto. Qed.

(* C07_if_direction_fresh_identifier: after `good`, another client (other secret, hence another identifier) is admitted *)
Definition good2 : wrapper :=
  {| w_secret := [8; 8; 8]; w_payload := Some (pl true false 1 0 [111; 107] false); w_source := src_api;
     w_regaddr := Some client4; w_rr := None |}.
Example fresh_identifier_admitted :
  (forall r0 r, In r0 (drafts_of x_select x_params x_port x_geo cfg0 good) ->
     new_reg x_select x_params x_port x_geo cfg0 good2 (pl true false 1 0 [111; 107] false) false = Ok r -> same_key r0 r = false) /\
  n_announced (run false cfg0 (fst (process_all x_select x_params x_port x_geo x_covert (x_live false) cfg0 [] [good])) good2) = 1%nat.
Proof.
  split; [|vm_compute; reflexivity].
  intros r0 r H E. vm_compute in H. destruct H as [<-|[]]. vm_compute in E. injection E as <-. vm_compute. reflexivity.
Qed.
