(* C07: witnesses for the OPEN known findings.  The "if" direction of the property as stated — a requested
   family that can be built and meets every listed condition becomes connectable — does not hold for the
   faithful model; replayed on the implementation these are the findings
   sibling-family-unbuildable/* and readmission/ignored-after-rejection. *)
From CJ Require Import Common.Base C06.Model C07.Model.
Local Open Scope N_scope.

Definition ph4 : ipraw := [192; 122; 190; 33].
Definition client4 : ipraw := [1; 2; 3; 4].
(* a generation with IPv4 subnets only: the IPv6 selection fails *)
Definition sel_v4only (_ : bytes) (_ _ : N) (v6 : bool) : option ipraw := if v6 then None else Some ph4.
Definition sel_both (_ : bytes) (_ _ : N) (v6 : bool) : option ipraw :=
  if v6 then Some [32;1;72;168;104;127;0;1;0;0;0;0;0;0;0;66] else Some ph4.
Definition x_params (_ _ : N) (_ : option N) : bool := true.
Definition x_port (_ : bytes) (_ _ : N) (_ : option N) (_ : bool) : option N := Some 443.
Definition x_geo (_ : ipraw) : bool := true.
Definition x_covert (c : bytes) : option bytes := if bytes_eqb c [111; 107] then Some [79; 75] else None.
Definition x_live (_ : ipraw) (_ : N) : bool := false.
Definition cfg0 : config := {| cf_v4 := true; cf_v6 := true; cf_transports := [0]; cf_pblock := []; cf_share := false |}.
Definition pl (v6 : bool) (cov : bytes) : c2s :=
  {| c_v4 := true; c_v6 := v6; c_gen := 1; c_libver := 3; c_transport := 0; c_covert := cov;
     c_prescanned := false; c_params := None; c_no_overrides := false; c_tag := 1 |}.
Definition msg (p : c2s) : wrapper :=
  {| w_secret := [7; 7]; w_payload := Some p; w_source := src_api; w_regaddr := Some client4; w_rr := None |}.

(* (i) dual-stack message, the IPv6 draft cannot be built: the admissible IPv4 registration is lost *)
Theorem if_direction_refuted_sibling :
  ~ if_direction_statement sel_v4only x_params x_port x_geo x_covert x_live.
Proof.
  intro H.
  specialize (H cfg0 [] (msg (pl true [111; 107])) (pl true [111; 107]) false).
  cbv zeta in H.
  destruct (new_reg sel_v4only x_params x_port x_geo cfg0 (msg (pl true [111; 107])) (pl true [111; 107]) false) as [r| |] eqn:E;
    try (vm_compute in E; discriminate).
  specialize (H r eq_refl eq_refl eq_refl).
  assert (L : listed_conditions x_covert x_live cfg0 r = true) by (vm_compute in E; injection E as <-; vm_compute; reflexivity).
  destruct (H L) as (e & Hin & _). vm_compute in Hin. exact Hin.
Qed.

(* (ii) a first message is tracked and rejected (covert refused); the corrected registration is ignored *)
Theorem if_direction_refuted_retry :
  ~ if_direction_statement sel_both x_params x_port x_geo x_covert x_live.
Proof.
  intro H.
  specialize (H cfg0 [msg (pl false [110; 111])] (msg (pl false [111; 107])) (pl false [111; 107]) false).
  cbv zeta in H.
  destruct (new_reg sel_both x_params x_port x_geo cfg0 (msg (pl false [111; 107])) (pl false [111; 107]) false) as [r| |] eqn:E;
    try (vm_compute in E; discriminate).
  specialize (H r eq_refl eq_refl eq_refl).
  assert (L : listed_conditions x_covert x_live cfg0 r = true) by (vm_compute in E; injection E as <-; vm_compute; reflexivity).
  destruct (H L) as (e & Hin & _ & Hv). vm_compute in Hin. destruct Hin as [<-|[]]. vm_compute in Hv. discriminate.
Qed.
