(* C07: evaluation of the model on recorded cases (correspondence check). *)
From CJ Require Import Common.Base C06.Model C07.Model.

(* one step of a case: a message through parseRegMessage + ingest, or a hand-built registration
   handed to ingestRegistration directly (None = nil pointer) *)
Inductive input := Msg (w : wrapper) | Raw (r : option reg).

(* oracle values of the external functions for this step, recorded from the running implementation *)
Record oracles := {
  o_sel4 : option ipraw;        (* PhantomSelector.Select(..., v6=false) *)
  o_sel6 : option ipraw;
  o_rand4 : bool;               (* SupportRandomPort() of that selection *)
  o_rand6 : bool;
  o_real : bool;                (* the case runs the shipped selector and the real min / prefix transports: *)
  o_pok : bool;                 (*   Transport.ParseParams accepted the effective parameters *)
  o_port4 : option N;           (*   getPhantomDstPort for the two selections *)
  o_port6 : option N;
  o_geo : bool;
  o_covert : option bytes;      (* ParseOrResolveBlocklisted(covert) *)
  o_live : bool                 (* verdict the injected tester gives *)
}.

(* projected observables *)
Definition regview := (ipraw * N * bytes * N * bytes * ipraw)%type.     (* phantom(norm), port, secret, transport, covert, regaddr *)
Definition shareview := (bytes * N * ipraw * (bool * bool * bool) * (N * N * N) * bytes * option N * N)%type.
  (* secret, source, regaddr, (prescanned, v4, v6), (gen, libver, transport), covert, params, tag *)
Definition visview := (ipraw * N * bytes)%type.                        (* phantom(norm), transport, secret *)

Record obs := {
  ob_err : bool;                       (* parseRegMessage returned an error *)
  ob_ndrafts : N;
  ob_probes : list (ipraw * N);
  ob_shares : list shareview;
  ob_announces : list regview;
  ob_visible : list visview            (* every (phantom, registration) returned by GetRegistrations afterwards *)
}.

Definition view_reg (r : reg) : regview :=
  (phantom_key r, r_port r, r_secret r, r_transport r, r_covert r, r_regaddr r).
Definition view_share (s : shared) : shareview :=
  let p := sh_payload s in
  (sh_secret s, sh_source s, sh_regaddr s, (c_prescanned p, c_v4 p, c_v6 p),
   (c_gen p, c_libver p, c_transport p), c_covert p, c_params p, c_tag p).
Definition view_vis (r : reg) : visview := (phantom_key r, r_transport r, r_secret r).

Definition regview_eqb (a b : regview) : bool :=
  let '(a1, a2, a3, a4, a5, a6) := a in let '(b1, b2, b3, b4, b5, b6) := b in
  bytes_eqb a1 b1 && (a2 =? b2) && bytes_eqb a3 b3 && (a4 =? b4) && bytes_eqb a5 b5 && bytes_eqb a6 b6.
Definition shareview_eqb (a b : shareview) : bool :=
  let '(a1, a2, a3, (a4, a5, a6), (a7, a8, a9), a10, a11, a12) := a in
  let '(b1, b2, b3, (b4, b5, b6), (b7, b8, b9), b10, b11, b12) := b in
  bytes_eqb a1 b1 && (a2 =? b2) && bytes_eqb a3 b3 && Bool.eqb a4 b4 && Bool.eqb a5 b5 && Bool.eqb a6 b6 &&
  (a7 =? b7) && (a8 =? b8) && (a9 =? b9) && bytes_eqb a10 b10 && option_eqb N.eqb a11 b11 && (a12 =? b12).
Definition visview_eqb (a b : visview) : bool :=
  let '(a1, a2, a3) := a in let '(b1, b2, b3) := b in bytes_eqb a1 b1 && (a2 =? b2) && bytes_eqb a3 b3.
Definition probe_eqb (a b : ipraw * N) : bool := bytes_eqb (norm (fst a)) (norm (fst b)) && (snd a =? snd b).

(* same elements with the same multiplicities: shares arrive asynchronously, map iteration is unordered *)
Fixpoint remove_first {A} (eqb : A -> A -> bool) (x : A) (l : list A) : option (list A) :=
  match l with
  | [] => None
  | y :: r => if eqb x y then Some r
              else match remove_first eqb x r with Some r' => Some (y :: r') | None => None end
  end.
Fixpoint perm_eqb {A} (eqb : A -> A -> bool) (a b : list A) : bool :=
  match a with
  | [] => match b with [] => true | _ => false end
  | x :: a' => match remove_first eqb x b with Some b' => perm_eqb eqb a' b' | None => false end
  end.

Definition probes_of (l : list effect) : list (ipraw * N) :=
  flat_map (fun e => match e with Probe ip p => [(ip, p)] | _ => [] end) l.
Definition shares_of (l : list effect) : list shared :=
  flat_map (fun e => match e with Share s => [s] | _ => [] end) l.
Definition announces_of (l : list effect) : list reg :=
  flat_map (fun e => match e with Announce r => [r] | _ => [] end) l.

(* the driver's transports: parameter tokens >= 100 do not parse, tokens 50..99 have no port;
   getPhantomDstPort: 443 below library version 3 or when the selected subnet does not randomise *)
Definition drv_params_ok (prm : option N) : bool := match prm with Some t => t <? 100 | None => true end.
Definition drv_dst_port (libver : N) (prm : option N) (rand : bool) : option N :=
  if (libver <? 3) || negb rand then Some 443
  else match prm with None => Some 1000 | Some t => if 50 <=? t then None else Some (1000 + t) end.

Definition instantiate {T} (o : oracles)
  (k : (bytes -> N -> N -> bool -> option ipraw) -> (N -> N -> option N -> bool) ->
       (bytes -> N -> N -> option N -> bool -> option N) -> (ipraw -> bool) ->
       (bytes -> option bytes) -> (ipraw -> N -> bool) -> T) : T :=
  k (fun _ _ _ v6 => if v6 then o_sel6 o else o_sel4 o)
    (fun _ _ prm => if o_real o then o_pok o else drv_params_ok prm)
    (fun _ _ libver prm v6 => if o_real o then (if v6 then o_port6 o else o_port4 o)
                              else drv_dst_port libver prm (if v6 then o_rand6 o else o_rand4 o))
    (fun _ => o_geo o)
    (fun _ => o_covert o)
    (fun _ _ => o_live o).

Definition step (cfg : config) (st : table) (i : input) (o : oracles) : table * list effect * bool * N :=
  match i with
  | Msg w =>
    instantiate o (fun sel pok dp geo cc lv =>
      match parse_reg_message sel pok dp geo cfg w with
      | Ok l => let '(st', ef) := ingest_all cc lv cfg st l in (st', ef, false, N.of_nat (length l))
      | _ => (st, [], true, 0)
      end)
  | Raw (Some r) =>
    instantiate o (fun _ _ _ _ cc lv => let '(st', ef) := ingest cc lv cfg st r in (st', ef, false, 1))
  | Raw None => (st, [], false, 0)       (* ValidateRegistration(nil) = incomplete *)
  end.

(* what the property talks about: probes, shares, announcements, lookups.  Whether parseRegMessage reported an
   error and how many drafts it returned is internal and compared separately (chk_internal, informational). *)
Definition obs_matches (st' : table) (ef : list effect) (err : bool) (nd : N) (ob : obs) : bool :=
  list_eqb probe_eqb (probes_of ef) (ob_probes ob) &&
  perm_eqb shareview_eqb (map view_share (shares_of ef)) (ob_shares ob) &&
  list_eqb regview_eqb (map view_reg (announces_of ef)) (ob_announces ob) &&
  perm_eqb visview_eqb (map view_vis (visible_all st')) (ob_visible ob).

Fixpoint run (cfg : config) (st : table) (steps : list (input * oracles * obs)) : bool :=
  match steps with
  | [] => true
  | (i, o, ob) :: rest =>
    let '(st', ef, err, nd) := step cfg st i o in
    obs_matches st' ef err nd ob && run cfg st' rest
  end.

Definition case := (config * list (input * oracles * obs))%type.
Definition chk (c : case) : bool := run (fst c) [] (snd c).

Fixpoint run_internal (cfg : config) (st : table) (steps : list (input * oracles * obs)) : bool :=
  match steps with
  | [] => true
  | (i, o, ob) :: rest =>
    let '(st', ef, err, nd) := step cfg st i o in
    Bool.eqb err (ob_err ob) && (nd =? ob_ndrafts ob) && run_internal cfg st' rest
  end.
Definition chk_internal (c : case) : bool := run_internal (fst c) [] (snd c).
