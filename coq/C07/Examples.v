(* C07 non-vacuity: a concrete station, concrete messages, and for every admission condition a pair of
   inputs that differ in that condition only and have different outcomes. *)
From CJ Require Import Common.Base C06.Model C07.Model C07.Proofs.
Local Open Scope N_scope.

Definition ph4 : ipraw := [192; 122; 190; 33].
Definition ph6 : ipraw := [32;1;72;168;104;127;0;1;0;0;0;0;0;0;0;66].
Definition client4 : ipraw := [1; 2; 3; 4].
Definition client6 : ipraw := [32;1;13;184;0;0;0;0;0;0;0;0;0;0;0;9].
Definition net_ph4 : ipnet := ([192; 122; 190; 0], [255; 255; 255; 0]).

(* externals: generation 1 is known, tokens < 100 parse, port 443, GeoIP works, covert "ok" passes *)
Definition x_select (_ : bytes) (g _ : N) (v6 : bool) : option ipraw := if g =? 1 then Some (if v6 then ph6 else ph4) else None.
Definition x_params (_ _ : N) (p : option N) : bool := match p with Some t => t <? 100 | None => true end.
Definition x_port (_ : bytes) (_ _ : N) (_ : option N) (_ : bool) : option N := Some 443.
Definition x_geo (_ : ipraw) : bool := true.
Definition x_covert (c : bytes) : option bytes := if bytes_eqb c [111; 107] then Some [79; 75] else None.   (* "ok" -> "OK" *)
Definition x_live (answer : bool) (_ : ipraw) (_ : N) : bool := answer.

Definition cfg0 : config := {| cf_v4 := true; cf_v6 := true; cf_transports := [0; 2]; cf_pblock := []; cf_share := true |}.
Definition cfg_blocked : config := {| cf_v4 := true; cf_v6 := true; cf_transports := [0; 2]; cf_pblock := [net_ph4]; cf_share := true |}.
Definition cfg_no4 : config := {| cf_v4 := false; cf_v6 := true; cf_transports := [0; 2]; cf_pblock := []; cf_share := true |}.

Definition pl (v4 v6 : bool) (gen tr : N) (cov : bytes) (presc : bool) : c2s :=
  {| c_v4 := v4; c_v6 := v6; c_gen := gen; c_libver := 3; c_transport := tr; c_covert := cov;
     c_prescanned := presc; c_params := None; c_no_overrides := false; c_tag := 7 |}.
Definition msg (p : option c2s) (src : N) (addr : option bytes) : wrapper :=
  {| w_secret := [9; 9; 9]; w_payload := p; w_source := src; w_regaddr := addr; w_rr := None |}.

Definition run (lv : bool) cfg st w := process x_select x_params x_port x_geo x_covert (x_live lv) cfg st w.
Definition n_announced (x : table * list effect) : nat := count is_announce (snd x).
Definition n_probes (x : table * list effect) : nat := count is_probe (snd x).
Definition n_shares (x : table * list effect) : nat := count is_share (snd x).

Definition good := msg (Some (pl true false 1 0 [111; 107] false)) src_api (Some client4).

(* the admissible base row: one probe, one announcement, visible afterwards with the checked literal *)
Example base_announced : n_announced (run false cfg0 [] good) = 1%nat /\ n_probes (run false cfg0 [] good) = 1%nat /\
  map r_covert (visible_all (fst (run false cfg0 [] good))) = [[79; 75]].
Proof. vm_compute. auto. Qed.

(* one condition flipped at a time: never announced, never visible *)
Example flip_payload : run false cfg0 [] (msg None src_api (Some client4)) = ([], []).
Proof. vm_compute. reflexivity. Qed.
Example flip_transport : run false cfg0 [] (msg (Some (pl true false 1 5 [111; 107] false)) src_api (Some client4)) = ([], []).
Proof. vm_compute. reflexivity. Qed.
Example flip_generation : run false cfg0 [] (msg (Some (pl true false 99 0 [111; 107] false)) src_api (Some client4)) = ([], []).
Proof. vm_compute. reflexivity. Qed.
Example flip_family_enabled : run false cfg_no4 [] good = ([], []).
Proof. vm_compute. reflexivity. Qed.
Example flip_family_consistent : run false cfg0 [] (msg (Some (pl true false 1 0 [111; 107] false)) src_api (Some client6)) = ([], []).
Proof. vm_compute. reflexivity. Qed.
Example flip_phantom_blocked : n_announced (run false cfg_blocked [] good) = 0%nat /\ visible_all (fst (run false cfg_blocked [] good)) = [].
Proof. vm_compute. auto. Qed.
Example flip_covert : n_announced (run false cfg0 [] (msg (Some (pl true false 1 0 [110; 111] false)) src_api (Some client4))) = 0%nat.
Proof. vm_compute. reflexivity. Qed.
Example flip_live : n_announced (run true cfg0 [] good) = 0%nat /\ n_probes (run true cfg0 [] good) = 1%nat /\
  visible_all (fst (run true cfg0 [] good)) = [].
Proof. vm_compute. auto. Qed.
Example flip_duplicate : n_announced (run false cfg0 (fst (run false cfg0 [] good)) good) = 0%nat /\
  n_probes (run false cfg0 (fst (run false cfg0 [] good)) good) = 0%nat.
Proof. vm_compute. auto. Qed.

(* probe only when needed: pre-scanned, or an IPv6 phantom, is admitted without a probe even if "live" *)
Example prescanned_no_probe :
  let m := msg (Some (pl true false 1 0 [111; 107] true)) src_detector_prescan (Some client4) in
  n_probes (run true cfg0 [] m) = 0%nat /\ n_announced (run true cfg0 [] m) = 1%nat.
Proof. vm_compute. auto. Qed.
Example v6_no_probe :
  let m := msg (Some (pl false true 1 0 [111; 107] false)) src_api (Some client6) in
  n_probes (run true cfg0 [] m) = 0%nat /\ n_announced (run true cfg0 [] m) = 1%nat.
Proof. vm_compute. auto. Qed.

(* sharing: a dual-stack detector registration is shared once (by its IPv4 draft), announced twice;
   the blocklisted phantom of a detector registration is still shared but not announced;
   a live phantom is neither; API registrations are never shared *)
Definition dual := msg (Some (pl true true 1 0 [111; 107] false)) src_detector (Some client4).
Example dual_shared_once : n_shares (run false cfg0 [] dual) = 1%nat /\ n_announced (run false cfg0 [] dual) = 2%nat /\
  n_probes (run false cfg0 [] dual) = 1%nat.
Proof. vm_compute. auto. Qed.
Example detector_blocked_shared_not_announced :
  let m := msg (Some (pl true false 1 0 [111; 107] false)) src_detector (Some client4) in
  n_shares (run false cfg_blocked [] m) = 1%nat /\ n_announced (run false cfg_blocked [] m) = 0%nat.
Proof. vm_compute. auto. Qed.
Example live_not_shared : n_shares (run true cfg0 [] dual) = 0%nat /\ n_announced (run true cfg0 [] dual) = 1%nat.
Proof. vm_compute. auto. Qed.
Example api_not_shared : n_shares (run false cfg0 [] good) = 0%nat.
Proof. vm_compute. reflexivity. Qed.
Example shared_content :
  flat_map (fun e => match e with Share s => [(sh_source s, c_prescanned (sh_payload s), sh_regaddr s)] | _ => [] end)
           (snd (run false cfg0 [] dual)) = [(src_detector_prescan, true, client4)].
Proof. vm_compute. reflexivity. Qed.

(* the hypothesis of C07_share_at_most_once holds for this selector *)
Example x_select_family : forall s g l ip, x_select s g l true = Some ip -> is_v4 ip = false.
Proof. intros s g l ip. unfold x_select. destruct (g =? 1); [|discriminate]. intro H; injection H as <-. reflexivity. Qed.
