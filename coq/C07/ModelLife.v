(* C07, lifecycle: "a KNOWN ClientConf generation" is evaluated against the phantom subnet file IN FORCE, i.e. the one
   the station loaded at start-up or at its last SUCCESSFUL reload (RegistrationManager.OnReload: a freshly loaded
   selector replaces the old one wholesale; a file that does not load leaves the old selector in place).
   Definitions only.  The set of known generations (with what each generation selects from) is part of the station
   state; a history interleaves registration messages (Model.process) with reloads. *)
From CJ Require Import Common.Base C06.Model C07.Model.

Section Life.
  (* what a generation's entry in the file says (weighted subnets ...): abstract; `pick` is PhantomIPSelector.Select
     within one generation (None: no subnet of that family, ...) *)
  Variable S : Type.
  Variable pick : S -> bytes -> N -> bool -> option ipraw.
  Variable params_ok : N -> N -> option N -> bool.
  Variable dst_port : bytes -> N -> N -> option N -> bool -> option N.
  Variable geoip_ok : ipraw -> bool.
  Variable covert_check : bytes -> option bytes.
  Variable live : ipraw -> N -> bool.

  (* a loaded phantom subnet file: generation -> entry *)
  Definition pfile := list (N * S).

  Fixpoint gen_lookup (f : pfile) (g : N) : option S :=
    match f with
    | [] => None
    | (g', s) :: rest => if N.eqb g g' then Some s else gen_lookup rest g
    end.

  Definition known (f : pfile) (g : N) : bool :=
    match gen_lookup f g with Some _ => true | None => false end.

  (* PhantomIPSelector.Select of the selector loaded from f: unknown generation = error *)
  Definition select_of (f : pfile) : bytes -> N -> N -> bool -> option ipraw :=
    fun secret g libver v6 =>
      match gen_lookup f g with
      | Some s => pick s secret libver v6
      | None => None
      end.

  (* a history step: a registration message reaches the ingest worker, or the operator sends SIGHUP after rewriting
     the file (None: the file does not load) *)
  Inductive lop := LMsg (w : wrapper) | LReload (r : option pfile).

  (* OnReload: replace wholesale on success, not at all on failure *)
  Definition reload (f : pfile) (r : option pfile) : pfile :=
    match r with Some f' => f' | None => f end.

  Definition lstate : Type := pfile * table.

  Definition lstep (cfg : config) (s : lstate) (o : lop) : lstate * list effect :=
    match o with
    | LMsg w =>
      let '(st', e) := process (select_of (fst s)) params_ok dst_port geoip_ok covert_check live cfg (snd s) w in
      ((fst s, st'), e)
    | LReload r => ((reload (fst s) r, snd s), [])
    end.

  (* effects are kept per step *)
  Fixpoint lrun (cfg : config) (s : lstate) (h : list lop) : lstate * list (list effect) :=
    match h with
    | [] => (s, [])
    | o :: rest => let '(s1, e) := lstep cfg s o in
                   let '(s2, es) := lrun cfg s1 rest in (s2, e :: es)
    end.

  (* the file in force after a history: the last successfully loaded one *)
  Fixpoint in_force (f : pfile) (h : list lop) : pfile :=
    match h with
    | [] => f
    | LReload r :: rest => in_force (reload f r) rest
    | LMsg _ :: rest => in_force f rest
    end.

  (* the variant that is NOT what the property allows: reloaded generations are merged into the selector in place *)
  Definition reload_merge (f : pfile) (r : option pfile) : pfile :=
    match r with Some f' => f' ++ f | None => f end.

  Definition lstep_merge (cfg : config) (s : lstate) (o : lop) : lstate * list effect :=
    match o with
    | LReload r => ((reload_merge (fst s) r, snd s), [])
    | _ => lstep cfg s o
    end.

  Fixpoint lrun_merge (cfg : config) (s : lstate) (h : list lop) : lstate * list (list effect) :=
    match h with
    | [] => (s, [])
    | o :: rest => let '(s1, e) := lstep_merge cfg s o in
                   let '(s2, es) := lrun_merge cfg s1 rest in (s2, e :: es)
    end.
End Life.
