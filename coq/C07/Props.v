(* C07 property theorems: statements + `exact lemma` only.
   External behaviour (covert policy function of C06, liveness probe, phantom selection, transport
   parameter handling, GeoIP) is universally quantified. *)
From CJ Require Import Common.Base C06.Model C07.Model C07.Proofs C07.ModelLive C07.ProofsLive C07.ProofsSeq C07.ModelLife C07.ProofsLife.

(* A draft registration handed to ingest is announced to the detector iff it is complete, its transport
   is enabled, its phantom is not blocklisted, it is not already tracked, its covert passes the covert
   policy, and (IPv4 phantom not pre-scanned => the probe said not live). *)
Theorem C07_announced_iff_admissible :
  forall covert_check live cfg st r,
    (exists r', In (Announce r') (snd (ingest covert_check live cfg st r))) <->
    admissible covert_check live cfg st r = true.
Proof. exact ingest_announce_iff. Qed.
Print Assumptions C07_announced_iff_admissible.

(* What is announced carries the checked literal in place of the provided covert string. *)
Theorem C07_announced_is_checked :
  forall covert_check live cfg st r r',
    In (Announce r') (snd (ingest covert_check live cfg st r)) ->
    exists lit, covert_check (r_covert r) = Some lit /\ r' = set_covert r lit.
Proof. exact ingest_announced_is_checked. Qed.
Print Assumptions C07_announced_is_checked.

(* A liveness probe is sent iff every earlier condition held and one is needed
   (needs_probe := not pre-scanned and the phantom is IPv4); it goes to the registration's phantom and port. *)
Theorem C07_probe_iff_needed :
  forall covert_check live cfg st r ip port,
    In (Probe ip port) (snd (ingest covert_check live cfg st r)) <->
    probe_required covert_check cfg st r = true /\ r_phantom r = Some ip /\ port = r_port r.
Proof. exact ingest_probe_iff. Qed.
Print Assumptions C07_probe_iff_needed.

(* Lookups return exactly what they returned before plus what was announced. *)
Theorem C07_never_visible_otherwise :
  forall covert_check live cfg st r,
    visible_all (fst (ingest covert_check live cfg st r)) =
    visible_all st ++ announced_regs (snd (ingest covert_check live cfg st r)).
Proof. exact ingest_visible. Qed.
Print Assumptions C07_never_visible_otherwise.

(* A registration is shared iff it came from the detector, sharing is enabled, every condition up to and
   including the probe held, and it is not the IPv6 twin of a dual-stack message. *)
Theorem C07_share_iff_due :
  forall covert_check live cfg st r s,
    In (Share s) (snd (ingest covert_check live cfg st r)) <->
    share_due covert_check live cfg st r = true /\ generate_c2s_wrapper r = Some s.
Proof. exact ingest_share_iff. Qed.
Print Assumptions C07_share_iff_due.

(* At most one Share, one Announce and one Probe per registration, in the order probe, share, announce. *)
Theorem C07_effects_once_and_ordered :
  forall covert_check live cfg st r,
    ((count is_share (snd (ingest covert_check live cfg st r)) <= 1)%nat /\
     (count is_announce (snd (ingest covert_check live cfg st r)) <= 1)%nat /\
     (count is_probe (snd (ingest covert_check live cfg st r)) <= 1)%nat) /\
    exists probes shares announces,
      snd (ingest covert_check live cfg st r) = probes ++ shares ++ announces /\
      forallb is_probe probes = true /\ forallb is_share shares = true /\ forallb is_announce announces = true.
Proof. exact ingest_effects_once_and_ordered. Qed.
Print Assumptions C07_effects_once_and_ordered.

(* ------------------------------------------------------------------ whole messages *)

(* parseRegMessage yields exactly the requested families (v4: the message asks for it, the station has
   IPv4 enabled and the registrant's address is IPv4; v6: asked for and enabled), provided each of them
   can be built; otherwise the message is dropped as a whole. *)
Theorem C07_message_drafts :
  forall select params_ok dst_port geoip_ok cfg w p,
    w_payload w = Some p ->
    (message_ok select params_ok dst_port geoip_ok cfg w p = true ->
       exists l4 l6, parse_reg_message select params_ok dst_port geoip_ok cfg w = Ok (l4 ++ l6) /\
         (if want cfg w p false then exists r, l4 = [r] /\ new_reg select params_ok dst_port geoip_ok cfg w p false = Ok r else l4 = []) /\
         (if want cfg w p true then exists r, l6 = [r] /\ new_reg select params_ok dst_port geoip_ok cfg w p true = Ok r else l6 = [])) /\
    (message_ok select params_ok dst_port geoip_ok cfg w p = false ->
       parse_reg_message select params_ok dst_port geoip_ok cfg w = Err ErrBuild).
Proof. exact parse_spec. Qed.
Print Assumptions C07_message_drafts.

(* A registration can be built for a family iff: the registrar's override (if any) is a valid address of
   that family, the generation is known (a phantom can be selected), the transport is enabled, its
   parameters parse and give a port, the registrant's address is an address, an IPv4 phantom goes with
   an IPv4 registrant, and the GeoIP lookups succeed. *)
Theorem C07_buildable_iff :
  forall select params_ok dst_port geoip_ok cfg w p v6,
    (exists r, new_reg select params_ok dst_port geoip_ok cfg w p v6 = Ok r) <->
    buildable select params_ok dst_port geoip_ok cfg w p v6 = true.
Proof. exact new_reg_ok_iff. Qed.
Print Assumptions C07_buildable_iff.

(* The headline statement for a whole message: something is announced iff the message has a payload
   (complete), every requested family can be built, and for the announced family the draft is admissible
   in the table state it meets; what is announced is that draft with the checked covert literal. *)
Theorem C07_message_announced_iff_admissible :
  forall select params_ok dst_port geoip_ok covert_check live cfg st w r',
    In (Announce r') (snd (process select params_ok dst_port geoip_ok covert_check live cfg st w)) <->
    exists p v6 r lit,
      w_payload w = Some p /\ message_ok select params_ok dst_port geoip_ok cfg w p = true /\
      want cfg w p v6 = true /\
      new_reg select params_ok dst_port geoip_ok cfg w p v6 = Ok r /\
      admissible covert_check live cfg (state_before select params_ok dst_port geoip_ok covert_check live cfg st w p v6) r = true /\
      covert_check (r_covert r) = Some lit /\ r' = set_covert r lit.
Proof. exact process_announce_iff. Qed.
Print Assumptions C07_message_announced_iff_admissible.

(* Necessity, one conjunct at a time. *)
Theorem C07_admissible_conjuncts_necessary :
  forall covert_check live cfg st r,
    admissible covert_check live cfg st r = true ->
    complete r = true /\ transport_enabled cfg (r_transport r) = true /\ reg_phantom_blocked cfg r = false /\
    tracked st r = false /\ covert_ok covert_check r = true /\ (needs_probe r = true -> probe_live live r = false).
Proof. exact admissible_conjuncts. Qed.
Print Assumptions C07_admissible_conjuncts_necessary.

Theorem C07_buildable_conjuncts_necessary :
  forall select params_ok dst_port geoip_ok cfg w p v6,
    buildable select params_ok dst_port geoip_ok cfg w p v6 = true ->
    override_valid w v6 = true /\
    select (w_secret w) (c_gen p) (c_libver p) v6 <> None /\
    transport_enabled cfg (c_transport p) = true /\
    params_ok (c_transport p) (c_libver p) (effective_params w p) = true /\
    dst_port (w_secret w) (c_transport p) (c_libver p) (effective_params w p) v6 <> None /\
    valid_ip (regaddr_of w) = true /\
    (exists ph, phantom_of select w p v6 = Some ph /\ (is_v4 ph = true -> is_v4 (regaddr_of w) = true)) /\
    geoip_ok (regaddr_of w) = true.
Proof. exact buildable_conjuncts. Qed.
Print Assumptions C07_buildable_conjuncts_necessary.

(* A message one of whose requested families cannot be built changes nothing and has no effect. *)
Theorem C07_unbuildable_message_dropped :
  forall select params_ok dst_port geoip_ok covert_check live cfg st w p v6,
    w_payload w = Some p -> want cfg w p v6 = true ->
    buildable select params_ok dst_port geoip_ok cfg w p v6 = false ->
    process select params_ok dst_port geoip_ok covert_check live cfg st w = (st, []).
Proof. exact process_dropped. Qed.
Print Assumptions C07_unbuildable_message_dropped.

Theorem C07_no_payload_no_effect :
  forall select params_ok dst_port geoip_ok covert_check live cfg st w,
    w_payload w = None -> process select params_ok dst_port geoip_ok covert_check live cfg st w = (st, []).
Proof. exact process_no_payload. Qed.
Print Assumptions C07_no_payload_no_effect.

(* Lookups after a message: what they returned before plus what was announced, nothing else. *)
Theorem C07_message_never_visible_otherwise :
  forall select params_ok dst_port geoip_ok covert_check live cfg st w,
    visible_all (fst (process select params_ok dst_port geoip_ok covert_check live cfg st w)) =
    visible_all st ++ announced_regs (snd (process select params_ok dst_port geoip_ok covert_check live cfg st w)).
Proof. exact process_visible. Qed.
Print Assumptions C07_message_never_visible_otherwise.

(* For every history of messages from an empty table: the registrations lookups return are exactly the
   announced ones, and a lookup for any phantom returns only announced registrations. *)
Theorem C07_history_visible_eq_announced :
  forall select params_ok dst_port geoip_ok covert_check live cfg st ws,
    visible_all (fst (process_all select params_ok dst_port geoip_ok covert_check live cfg st ws)) =
    visible_all st ++ announced_regs (snd (process_all select params_ok dst_port geoip_ok covert_check live cfg st ws)).
Proof. exact process_all_visible. Qed.
Print Assumptions C07_history_visible_eq_announced.

Theorem C07_lookup_only_announced :
  forall select params_ok dst_port geoip_ok covert_check live cfg ws ph r,
    In r (visible (fst (process_all select params_ok dst_port geoip_ok covert_check live cfg [] ws)) ph) ->
    In r (announced_regs (snd (process_all select params_ok dst_port geoip_ok covert_check live cfg [] ws))).
Proof. exact lookup_only_announced. Qed.
Print Assumptions C07_lookup_only_announced.

(* One client message is passed on to the peers at most once (the IPv6 twin of a dual-stack message
   never shares).  Assumed about phantom selection: an IPv6 selection is not an IPv4 address (C14). *)
Theorem C07_share_at_most_once :
  forall select params_ok dst_port geoip_ok covert_check live,
    (forall s g l ip, select s g l true = Some ip -> is_v4 ip = false) ->
    forall cfg st w,
      (count is_share (snd (process select params_ok dst_port geoip_ok covert_check live cfg st w)) <= 1)%nat.
Proof. exact process_share_at_most_once. Qed.
Print Assumptions C07_share_at_most_once.

(* What is shared is marked pre-scanned, sourced DetectorPrescan, and is the client's own message. *)
Theorem C07_shared_is_marked_prescanned :
  forall r s, generate_c2s_wrapper r = Some s ->
    sh_source s = src_detector_prescan /\ c_prescanned (sh_payload s) = true /\
    sh_secret s = r_secret r /\ sh_regaddr s = r_regaddr r /\
    exists p, r_orig r = Some p /\ sh_payload s = set_prescanned p.
Proof. exact shared_is_marked. Qed.
Print Assumptions C07_shared_is_marked_prescanned.

(* ------------------------------------------------------------------ the "if" direction as the property states it
   OPEN known findings (coq/C07/Refuted.v: if_direction_refuted_sibling, if_direction_refuted_retry): the
   statement below does not hold — a dual-stack message is dropped as a whole when one family cannot be
   built, and a registration tracked and then rejected blocks re-admission until it expires.  It is kept
   visible; the part that holds is C07_if_direction_partial (and the two iff theorems above). *)
Definition C07_if_direction_full_statement : Prop :=
  forall select params_ok dst_port geoip_ok covert_check live,
    if_direction_statement select params_ok dst_port geoip_ok covert_check live.

Theorem C07_if_direction_partial :
  forall select params_ok dst_port geoip_ok covert_check live cfg st w p v6 r,
    w_payload w = Some p -> message_ok select params_ok dst_port geoip_ok cfg w p = true ->
    want cfg w p v6 = true ->
    new_reg select params_ok dst_port geoip_ok cfg w p v6 = Ok r ->
    admissible covert_check live cfg (state_before select params_ok dst_port geoip_ok covert_check live cfg st w p v6) r = true ->
    exists r', In (Announce r') (snd (process select params_ok dst_port geoip_ok covert_check live cfg st w)).
Proof. exact if_direction_partial. Qed.
Print Assumptions C07_if_direction_partial.

(* ================================================================== the liveness verdict through the tester stack
   ModelLive.v: ingestRegistration over a STATEFUL tester whose answer is (verdict, error class); `Probe` in the effect
   list of ingest_l is a NETWORK probe.  First for any tester (any state type, any PhantomIsLive), then for the tester
   liveness.New builds -- C18's model of the live / non-live caches (map or LRU) over the network probe -- across
   histories of registrations, clock advances and ClearExpired sweeps that share one tester, table and counters. *)

(* The stateful ingest IS the verdict-function ingest of Model.v run with "the verdict the tester gives in its current
   state"; the tester is consulted (state, counters moved) exactly when a verdict is required; network probes are the
   consultations for which the tester sent one.  Every theorem above therefore holds with live := verdict_now. *)
Theorem C07_stack_refines_verdict_model :
  forall T ask covert_check cfg (w : world T) r,
    ingest_l T ask covert_check cfg w r =
    let '(st', ef) := ingest covert_check (verdict_now T ask (wd_tester w)) cfg (wd_table w) r in
    match (if probe_required covert_check cfg (wd_table w) r then r_phantom r else None) with
    | Some ip => let '(t1, a, sent) := ask (wd_tester w) ip (r_port r) in
                 (Build_world st' t1 (bump (wd_cnt w) a), strip_probes sent ef, [(ip, r_port r, a, sent)])
    | None => (Build_world st' (wd_tester w) (wd_cnt w), ef, [])
    end.
Proof. exact ingest_l_spec. Qed.
Print Assumptions C07_stack_refines_verdict_model.

(* Admission over any tester: announced iff complete, transport enabled, phantom not blocklisted, not yet tracked, covert
   passes, and (IPv4 phantom not pre-scanned => the VERDICT the tester gives at that moment is not-live). *)
Theorem C07_stack_announced_iff_admissible :
  forall T ask covert_check cfg (w : world T) r,
    (exists r', In (Announce r') (snd (fst (ingest_l T ask covert_check cfg w r)))) <->
    admissible covert_check (verdict_now T ask (wd_tester w)) cfg (wd_table w) r = true.
Proof. exact stack_announce_iff. Qed.
Print Assumptions C07_stack_announced_iff_admissible.

(* ... WHATEVER the error class says: testers that agree on state, verdict and probes sent, and differ arbitrarily in
   the error they return (nil, ErrCachedPhantom, NotLive, ErrLiveHost, a network error), admit exactly the same. *)
Theorem C07_error_class_irrelevant :
  forall T (ask1 ask2 : T -> ipraw -> N -> T * answer * bool) covert_check cfg (w : world T) r,
    same_but_error ask1 ask2 ->
    let x1 := ingest_l T ask1 covert_check cfg w r in let x2 := ingest_l T ask2 covert_check cfg w r in
    wd_table (fst (fst x1)) = wd_table (fst (fst x2)) /\ wd_tester (fst (fst x1)) = wd_tester (fst (fst x2)) /\
    snd (fst x1) = snd (fst x2).
Proof. exact error_class_irrelevant. Qed.
Print Assumptions C07_error_class_irrelevant.

Theorem C07_stack_share_iff_due :
  forall T ask covert_check cfg (w : world T) r s,
    In (Share s) (snd (fst (ingest_l T ask covert_check cfg w r))) <->
    share_due covert_check (verdict_now T ask (wd_tester w)) cfg (wd_table w) r = true /\ generate_c2s_wrapper r = Some s.
Proof. exact stack_share_iff. Qed.
Print Assumptions C07_stack_share_iff_due.

(* the tester is consulted iff a verdict is required (not for IPv6, not for pre-scanned, not when an earlier condition
   failed): once, for the registration's phantom and port; otherwise its state and the counters do not move *)
Theorem C07_stack_consulted_iff_required :
  forall T ask covert_check cfg (w : world T) r,
    (probe_required covert_check cfg (wd_table w) r = true ->
       exists ip, r_phantom r = Some ip /\
         let '(t1, a, sent) := ask (wd_tester w) ip (r_port r) in
         snd (ingest_l T ask covert_check cfg w r) = [(ip, r_port r, a, sent)] /\
         wd_tester (fst (fst (ingest_l T ask covert_check cfg w r))) = t1 /\
         wd_cnt (fst (fst (ingest_l T ask covert_check cfg w r))) = bump (wd_cnt w) a) /\
    (probe_required covert_check cfg (wd_table w) r = false ->
       snd (ingest_l T ask covert_check cfg w r) = [] /\
       wd_tester (fst (fst (ingest_l T ask covert_check cfg w r))) = wd_tester w /\
       wd_cnt (fst (fst (ingest_l T ask covert_check cfg w r))) = wd_cnt w).
Proof. exact stack_consulted_iff. Qed.
Print Assumptions C07_stack_consulted_iff_required.

(* ---- histories over the real stack (lc: liveness configuration, h: history) ---- *)

(* the station's tester after h is C18's tester after the operations h performed on it: C18's theorems apply *)
Theorem C07_history_tester_is_C18 :
  forall select params_ok dst_port geoip_ok covert_check cfg lc h,
    wd_tester (world_after select params_ok dst_port geoip_ok covert_check cfg lc h) =
    L18.after lc (lops_of select params_ok dst_port geoip_ok covert_check cfg lc h).
Proof. exact tester_reachable. Qed.
Print Assumptions C07_history_tester_is_C18.

Theorem C07_history_stack_visible_eq_announced :
  forall select params_ok dst_port geoip_ok covert_check cfg lc h,
    visible_all (wd_table (world_after select params_ok dst_port geoip_ok covert_check cfg lc h)) =
    announced_regs (effects_of select params_ok dst_port geoip_ok covert_check cfg lc h).
Proof. exact history_visible_eq_announced. Qed.
Print Assumptions C07_history_stack_visible_eq_announced.

(* A registration (any client, any secret) whose IPv4 phantom is known live from the cache -- after ANY history --
   has no effect at all: no network probe, not shared, not announced; lookups are unchanged. *)
Theorem C07_cached_live_never_admitted :
  forall select params_ok dst_port geoip_ok covert_check cfg lc h r pl pe ip,
    let w := world_after select params_ok dst_port geoip_ok covert_check cfg lc h in
    r_phantom r = Some ip -> needs_probe r = true ->
    P18.fresh_on true (wd_tester w) (addr_key ip) ->
    snd (fst (ingest_l L18.st (stack_ask pl pe) covert_check cfg w r)) = [] /\
    visible_all (wd_table (fst (fst (ingest_l L18.st (stack_ask pl pe) covert_check cfg w r)))) = visible_all (wd_table w).
Proof. exact cached_live_never_admitted. Qed.
Print Assumptions C07_cached_live_never_admitted.

(* A network probe is sent iff a verdict is required and neither cache holds a fresh verdict for the phantom. *)
Theorem C07_network_probe_only_on_cache_miss :
  forall select params_ok dst_port geoip_ok covert_check cfg lc h r pl pe ip port,
    let w := world_after select params_ok dst_port geoip_ok covert_check cfg lc h in
    In (Probe ip port) (snd (fst (ingest_l L18.st (stack_ask pl pe) covert_check cfg w r))) <->
    probe_required covert_check cfg (wd_table w) r = true /\ r_phantom r = Some ip /\ port = r_port r /\
    ~ P18.fresh_on true (wd_tester w) (addr_key ip) /\ ~ P18.fresh_on false (wd_tester w) (addr_key ip).
Proof. exact network_probe_iff. Qed.
Print Assumptions C07_network_probe_only_on_cache_miss.

(* An admitted registration that needed a verdict got "not live" either from a network probe sent for it now, or from
   the most recent measurement of that address, made less than the non-live lifetime ago (C18_served_only_fresh). *)
Theorem C07_admitted_verdict_provenance :
  forall select params_ok dst_port geoip_ok covert_check cfg lc h r pl pe ip r',
    let w := world_after select params_ok dst_port geoip_ok covert_check cfg lc h in
    In (Announce r') (snd (fst (ingest_l L18.st (stack_ask pl pe) covert_check cfg w r))) ->
    needs_probe r = true -> r_phantom r = Some ip ->
    (pl = false /\ In (Probe ip (r_port r)) (snd (fst (ingest_l L18.st (stack_ask pl pe) covert_check cfg w r)))) \/
    (exists g ttl, L18.last_measured (L18.trace lc (lops_of select params_ok dst_port geoip_ok covert_check cfg lc h)) (addr_key ip) = Some (false, g) /\
                   L18.dur_nonlive lc = Some ttl /\ (Z.of_N g < ttl)%Z).
Proof. exact admitted_verdict_provenance. Qed.
Print Assumptions C07_admitted_verdict_provenance.

(* The station's liveness counters after any history: every verdict the tester gave is counted exactly once
   (pass = not-live verdicts, fail = live verdicts, cached = live verdicts that came with ErrCachedPhantom). *)
Theorem C07_history_counters_once :
  forall select params_ok dst_port geoip_ok covert_check cfg lc h,
    let c := wd_cnt (world_after select params_ok dst_port geoip_ok covert_check cfg lc h) in
    let l := asked_of select params_ok dst_port geoip_ok covert_check cfg lc h in
    n_pass c = cnt (fun a => negb (a_live a)) l /\
    n_fail c = cnt a_live l /\
    n_cached c = cnt (fun a => a_live a && (a_err a =? err_cached)) l /\
    n_pass c + n_fail c = N.of_nat (length l).
Proof. exact history_counters. Qed.
Print Assumptions C07_history_counters_once.

(* ================================================================== sequences with duplicates
   A client registration message that has been through ingest once arrives again -- after any further messages, under
   any liveness verdicts, as often as one likes: nothing happens (the table is unchanged; not probed, not shared, not
   announced again).  With C07_share_at_most_once (one message, dual-stack twin included) this gives "passed on to the
   peers at most once per client registration" over whole histories, within the registration's lifetime (expiry: C08). *)
Theorem C07_repeated_message_no_effect :
  forall select params_ok dst_port geoip_ok covert_check live1 live2 live3 cfg st w ws,
    let st1 := fst (process select params_ok dst_port geoip_ok covert_check live1 cfg st w) in
    let st2 := fst (process_all select params_ok dst_port geoip_ok covert_check live2 cfg st1 ws) in
    process select params_ok dst_port geoip_ok covert_check live3 cfg st2 w = (st2, []).
Proof. exact repeated_message_no_effect. Qed.
Print Assumptions C07_repeated_message_no_effect.

(* the same over the tester stack, anywhere later in a history of messages, hand-built registrations, clock advances and
   sweeps: the world (table, tester state, counters) is unchanged and the tester is not even consulted *)
Theorem C07_repeated_message_no_effect_stack :
  forall select params_ok dst_port geoip_ok covert_check cfg lc h1 m pl pe h2 pl' pe',
    let w := world_after select params_ok dst_port geoip_ok covert_check cfg lc (h1 ++ HMsg m pl pe :: h2) in
    hstep select params_ok dst_port geoip_ok covert_check cfg w (HMsg m pl' pe') = (w, [], [], []).
Proof. exact repeated_message_no_effect_stack. Qed.
Print Assumptions C07_repeated_message_no_effect_stack.

(* A registration is announced somewhere in a history iff at some step it was announced in the world the earlier steps
   left -- and there (C07_stack_announced_iff_admissible) iff every admission condition held with the verdict the stack
   gave at that moment. *)
Theorem C07_history_announced_iff :
  forall select params_ok dst_port geoip_ok covert_check cfg lc h r',
    In (Announce r') (effects_of select params_ok dst_port geoip_ok covert_check cfg lc h) <->
    exists h1 o h2, h = h1 ++ o :: h2 /\
      In (Announce r') (heffects (hstep select params_ok dst_port geoip_ok covert_check cfg
                                        (world_after select params_ok dst_port geoip_ok covert_check cfg lc h1) o)).
Proof. exact history_announced_iff. Qed.
Print Assumptions C07_history_announced_iff.

(* ================================================================== more of the "if" direction
   C07_if_direction_partial assumes "not already tracked" about the table.  Here that hypothesis is discharged into a
   condition on the INPUTS of the history: after any history of messages from the empty table, a message all of whose
   requested families can be built yields an announced registration for every requested family that meets the listed
   conditions, provided no earlier draft registration (of an earlier message, or the IPv4 sibling of this one) used its
   identifier (phantom, transport, shared secret).  What remains open of C07_if_direction_full_statement is exactly:
   an unbuildable sibling family (finding 1) and a reused identifier (finding 2; see C07_repeated_message_no_effect). *)
Theorem C07_if_direction_fresh_identifier :
  forall select params_ok dst_port geoip_ok covert_check live cfg ws w p v6 r,
    let st := fst (process_all select params_ok dst_port geoip_ok covert_check live cfg [] ws) in
    w_payload w = Some p -> message_ok select params_ok dst_port geoip_ok cfg w p = true -> want cfg w p v6 = true ->
    new_reg select params_ok dst_port geoip_ok cfg w p v6 = Ok r ->
    listed_conditions covert_check live cfg r = true ->
    (forall w0 r0, In w0 ws -> In r0 (drafts_of select params_ok dst_port geoip_ok cfg w0) -> same_key r0 r = false) ->
    (v6 = true -> forall r4, new_reg select params_ok dst_port geoip_ok cfg w p false = Ok r4 -> same_key r4 r = false) ->
    exists r', In (Announce r') (snd (process select params_ok dst_port geoip_ok covert_check live cfg st w)).
Proof. exact if_direction_fresh_identifier. Qed.
Print Assumptions C07_if_direction_fresh_identifier.

(* ================================================================== lifecycle: the generation set IN FORCE
   "names a KNOWN ClientConf generation" is evaluated against the phantom subnet file the station loaded at start-up or
   at its last successful reload.  The file in force is part of the station state (ModelLife.v); a reload replaces it
   wholesale when the new file loads and not at all when it does not.  S / pick: what a generation's entry holds and
   the selection within one generation, universally quantified. *)

(* The headline over ALL histories of messages and reloads: the message at position |h1| has a registration announced iff
   the whole-message conditions of C07_message_announced_iff_admissible hold with phantom selection (hence "generation
   known", C07_lifecycle_buildable_needs_known) taken from the file in force after h1 and the table h1 left. *)
Theorem C07_lifecycle_announced_iff :
  forall S pick params_ok dst_port geoip_ok covert_check live cfg f st h1 w h2 r',
    let f1 := in_force S f h1 in
    let st1 := snd (fst (lrun S pick params_ok dst_port geoip_ok covert_check live cfg (f, st) h1)) in
    let sel := select_of S pick f1 in
    In (Announce r') (nth (length h1) (snd (lrun S pick params_ok dst_port geoip_ok covert_check live cfg (f, st) (h1 ++ LMsg S w :: h2))) []) <->
    exists p v6 r lit,
      w_payload w = Some p /\ message_ok sel params_ok dst_port geoip_ok cfg w p = true /\
      want cfg w p v6 = true /\
      new_reg sel params_ok dst_port geoip_ok cfg w p v6 = Ok r /\
      admissible covert_check live cfg (state_before sel params_ok dst_port geoip_ok covert_check live cfg st1 w p v6) r = true /\
      covert_check (r_covert r) = Some lit /\ r' = set_covert r lit.
Proof. exact lifecycle_announced_iff. Qed.
Print Assumptions C07_lifecycle_announced_iff.

(* every step of a lifecycle history is Model.process under the selector of the file in force (what the tie compares) *)
Theorem C07_lifecycle_step_is_in_force :
  forall S pick params_ok dst_port geoip_ok covert_check live cfg f st h1 w h2,
    nth (length h1) (snd (lrun S pick params_ok dst_port geoip_ok covert_check live cfg (f, st) (h1 ++ LMsg S w :: h2))) [] =
    snd (process (select_of S pick (in_force S f h1)) params_ok dst_port geoip_ok covert_check live cfg
                 (snd (fst (lrun S pick params_ok dst_port geoip_ok covert_check live cfg (f, st) h1))) w).
Proof. exact lifecycle_step. Qed.
Print Assumptions C07_lifecycle_step_is_in_force.

(* a registration message naming a generation that the file in force does not hold -- never configured, or retired by an
   earlier reload -- has no effect at all (no probe, share, announcement) and leaves the table as it was *)
Theorem C07_lifecycle_unknown_generation_no_effect :
  forall S pick params_ok dst_port geoip_ok covert_check live cfg f st h1 w h2 p,
    w_payload w = Some p -> known S (in_force S f h1) (c_gen p) = false ->
    nth (length h1) (snd (lrun S pick params_ok dst_port geoip_ok covert_check live cfg (f, st) (h1 ++ LMsg S w :: h2))) [] = [] /\
    snd (fst (lrun S pick params_ok dst_port geoip_ok covert_check live cfg (f, st) (h1 ++ [LMsg S w]))) =
    snd (fst (lrun S pick params_ok dst_port geoip_ok covert_check live cfg (f, st) h1)).
Proof. exact lifecycle_unknown_no_effect. Qed.
Print Assumptions C07_lifecycle_unknown_generation_no_effect.

Theorem C07_lifecycle_buildable_needs_known :
  forall S pick params_ok dst_port geoip_ok cfg f w p v6,
    buildable (select_of S pick f) params_ok dst_port geoip_ok cfg w p v6 = true -> known S f (c_gen p) = true.
Proof. exact known_buildable_conj. Qed.
Print Assumptions C07_lifecycle_buildable_needs_known.

(* the file in force is the last successfully loaded one: a successful reload replaces it wholesale, a failed reload
   and a message leave it alone; the station's state after any history holds exactly that file *)
Theorem C07_lifecycle_in_force_is_last_successful_reload :
  forall S pick params_ok dst_port geoip_ok covert_check live cfg f st h f' w,
    in_force S f (h ++ [LReload S (Some f')]) = f' /\
    in_force S f (h ++ [LReload S None]) = in_force S f h /\
    in_force S f (h ++ [LMsg S w]) = in_force S f h /\
    fst (fst (lrun S pick params_ok dst_port geoip_ok covert_check live cfg (f, st) h)) = in_force S f h.
Proof.
  intros. repeat split.
  - apply in_force_last_reload. - apply in_force_failed_reload. - apply in_force_msg.
  - exact (lrun_file S pick params_ok dst_port geoip_ok covert_check live cfg (f, st) h).
Qed.
Print Assumptions C07_lifecycle_in_force_is_last_successful_reload.

(* a reload has no effect on registrations and changes no lookup; over a whole lifecycle history lookups return exactly
   the announced registrations *)
Theorem C07_lifecycle_visible_eq_announced :
  forall S pick params_ok dst_port geoip_ok covert_check live cfg s h,
    visible_all (snd (fst (lrun S pick params_ok dst_port geoip_ok covert_check live cfg s h))) =
    visible_all (snd s) ++ announced_regs (concat (snd (lrun S pick params_ok dst_port geoip_ok covert_check live cfg s h))).
Proof. exact lifecycle_visible. Qed.
Print Assumptions C07_lifecycle_visible_eq_announced.

Theorem C07_lifecycle_reload_no_effect :
  forall S pick params_ok dst_port geoip_ok covert_check live cfg f st h1 r h2,
    nth (length h1) (snd (lrun S pick params_ok dst_port geoip_ok covert_check live cfg (f, st) (h1 ++ LReload S r :: h2))) [] = [].
Proof. exact lifecycle_reload_step. Qed.
Print Assumptions C07_lifecycle_reload_no_effect.

(* refuted variant: merging the reloaded generations into the selector in place keeps a removed generation known *)
Theorem C07_merge_reload_refuted :
  exists (f f' : pfile unit) g, known unit (reload_merge unit f (Some f')) g = true /\ known unit f' g = false /\
                                known unit (reload unit f (Some f')) g = false.
Proof. exact merge_keeps_retired. Qed.
Print Assumptions C07_merge_reload_refuted.

(* general form: whatever the old and the new file, merging keeps EVERY generation the operator removed known, where the
   station as modelled (replace) forgets it *)
Theorem C07_merge_reload_keeps_every_retired :
  forall S (f f' : pfile S) g,
    known S f g = true -> known S f' g = false ->
    known S (reload_merge S f (Some f')) g = true /\ known S (reload S f (Some f')) g = false.
Proof. exact merge_keeps_every_retired. Qed.
Print Assumptions C07_merge_reload_keeps_every_retired.
