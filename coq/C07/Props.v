(* C07 property theorems: statements + `exact lemma` only.
   External behaviour (covert policy function of C06, liveness probe, phantom selection, transport
   parameter handling, GeoIP) is universally quantified. *)
From CJ Require Import Common.Base C06.Model C07.Model C07.Proofs.

(* A draft registration handed to ingest is announced to the detector iff it is complete, its transport
   is enabled, its phantom is not blocklisted, it is not already tracked, its covert passes the covert
   policy, and (IPv4 phantom not pre-scanned => the probe said not live). *)
Theorem C07_announced_iff_admissible :
  forall covert_check live cfg st r,
    (exists r', In (Announce r') (snd (ingest covert_check live cfg st r))) <->
    admissible covert_check live cfg st r = true.
Proof. exact ingest_announce_iff. Qed.
Print Assumptions C07_announced_iff_admissible.

(* What is announced carries the checked literal in place of the provided covert string. *)
Theorem C07_announced_is_checked :
  forall covert_check live cfg st r r',
    In (Announce r') (snd (ingest covert_check live cfg st r)) ->
    exists lit, covert_check (r_covert r) = Some lit /\ r' = set_covert r lit.
Proof. exact ingest_announced_is_checked. Qed.
Print Assumptions C07_announced_is_checked.

(* A liveness probe is sent iff every earlier condition held and one is needed
   (needs_probe := not pre-scanned and the phantom is IPv4); it goes to the registration's phantom and port. *)
Theorem C07_probe_iff_needed :
  forall covert_check live cfg st r ip port,
    In (Probe ip port) (snd (ingest covert_check live cfg st r)) <->
    probe_required covert_check cfg st r = true /\ r_phantom r = Some ip /\ port = r_port r.
Proof. exact ingest_probe_iff. Qed.
Print Assumptions C07_probe_iff_needed.

(* Lookups return exactly what they returned before plus what was announced. *)
Theorem C07_never_visible_otherwise :
  forall covert_check live cfg st r,
    visible_all (fst (ingest covert_check live cfg st r)) =
    visible_all st ++ announced_regs (snd (ingest covert_check live cfg st r)).
Proof. exact ingest_visible. Qed.
Print Assumptions C07_never_visible_otherwise.

(* A registration is shared iff it came from the detector, sharing is enabled, every condition up to and
   including the probe held, and it is not the IPv6 twin of a dual-stack message. *)
Theorem C07_share_iff_due :
  forall covert_check live cfg st r s,
    In (Share s) (snd (ingest covert_check live cfg st r)) <->
    share_due covert_check live cfg st r = true /\ generate_c2s_wrapper r = Some s.
Proof. exact ingest_share_iff. Qed.
Print Assumptions C07_share_iff_due.

(* At most one Share, one Announce and one Probe per registration, in the order probe, share, announce. *)
Theorem C07_effects_once_and_ordered :
  forall covert_check live cfg st r,
    ((count is_share (snd (ingest covert_check live cfg st r)) <= 1)%nat /\
     (count is_announce (snd (ingest covert_check live cfg st r)) <= 1)%nat /\
     (count is_probe (snd (ingest covert_check live cfg st r)) <= 1)%nat) /\
    exists probes shares announces,
      snd (ingest covert_check live cfg st r) = probes ++ shares ++ announces /\
      forallb is_probe probes = true /\ forallb is_share shares = true /\ forallb is_announce announces = true.
Proof. intros. split; [apply ingest_effect_counts | apply ingest_effect_order]. Qed.
Print Assumptions C07_effects_once_and_ordered.
