(* C07 lifecycle, non-vacuity: concrete histories of messages and reloads (retire, add, failed reload, restore) and the
   refutation of merge-instead-of-replace at the level of announcements. *)
From CJ Require Import Common.Base C06.Model C07.Model C07.Proofs C07.Examples C07.ModelLife.
Local Open Scope N_scope.

(* every generation's entry selects the same two phantoms; which generations exist is what varies *)
Definition l_pick (_ : unit) (_ : bytes) (_ : N) (v6 : bool) : option ipraw := Some (if v6 then ph6 else ph4).
Definition f12 : pfile unit := [(1, tt); (2, tt)].
Definition f1 : pfile unit := [(1, tt)].
Definition f13 : pfile unit := [(1, tt); (3, tt)].

Definition lmsg (secret : bytes) (gen : N) : wrapper :=
  {| w_secret := secret; w_payload := Some (pl true false gen 0 [111; 107] false); w_source := src_api;
     w_regaddr := Some client4; w_rr := None |}.

Definition l_run := lrun unit l_pick x_params x_port x_geo x_covert (x_live false) cfg0.
Definition l_run_merge := lrun_merge unit l_pick x_params x_port x_geo x_covert (x_live false) cfg0.
Definition anns (x : lstate unit * list (list effect)) : list nat := map (count is_announce) (snd x).

(* {1,2} -> {1}: generation 2 is served before the reload and not after it; generation 1 throughout *)
Example life_retire :
  anns (l_run (f12, []) [LMsg unit (lmsg [1] 2); LMsg unit (lmsg [2] 1); LReload unit (Some f1);
                         LMsg unit (lmsg [3] 2); LMsg unit (lmsg [4] 1)]) = [1; 1; 0; 0; 1]%nat.
Proof. vm_compute. reflexivity. Qed.

(* {1} -> {1,3}: generation 3 is served only after the reload *)
Example life_add :
  anns (l_run (f1, []) [LMsg unit (lmsg [1] 3); LReload unit (Some f13); LMsg unit (lmsg [2] 3)]) = [0; 0; 1]%nat.
Proof. vm_compute. reflexivity. Qed.

(* a file that does not load keeps the old set: 2 still served; a later successful reload retires it *)
Example life_failed_reload_keeps :
  anns (l_run (f12, []) [LReload unit None; LMsg unit (lmsg [1] 2); LReload unit (Some f1); LReload unit None;
                         LMsg unit (lmsg [2] 2)]) = [0; 1; 0; 0; 0]%nat.
Proof. vm_compute. reflexivity. Qed.

(* retire, then restore *)
Example life_restore :
  anns (l_run (f12, []) [LReload unit (Some f1); LMsg unit (lmsg [1] 2); LReload unit (Some f12); LMsg unit (lmsg [2] 2)])
  = [0; 0; 0; 1]%nat.
Proof. vm_compute. reflexivity. Qed.

(* merge-instead-of-replace announces a registration naming a generation that the file in force does not hold,
   where the station as modelled (replace) has no effect *)
Example merge_reload_announces_retired :
  let h1 := [LReload unit (Some f1)] in
  let w := lmsg [1] 2 in
  known unit (in_force unit f12 h1) 2 = false /\
  anns (l_run_merge (f12, []) (h1 ++ [LMsg unit w])) = [0; 1]%nat /\
  anns (l_run (f12, []) (h1 ++ [LMsg unit w])) = [0; 0]%nat.
Proof. vm_compute. auto. Qed.
