(* C16 (v): key material is a function of the secret; routing separates secrets under a named hypothesis. *)
From CJ Require Import Common.Base C16.Model.
From Coq Require Import Lia ZifyN.

(* every derived private scalar is a valid P-256 key and every serial is below the bound *)
Lemma cert_of_valid st c r :
  cert_of st = Some (c, r) ->
  1 <= cm_d c < p256_order /\ cm_serial c < serial_max /\ r = skipn 65 st.
Proof.
  unfold cert_of.
  set (x := be2n (firstn 40 st)).
  set (sr := be2n match firstn 17 (skipn 40 st) with [] => [] | y :: r0 => N.land y 3 :: r0 end).
  assert (Hq : exists q, q = p256_order - 1 /\ 0 < q).
  { eexists. split; [reflexivity|]. unfold p256_order. lia. }
  destruct Hq as (q & Hq & Hpos). rewrite <- Hq.
  destruct (N.ltb_spec sr serial_max); [|discriminate].
  intros E. injection E as <- <-. cbn [cm_d cm_serial].
  split; [|split; [assumption|reflexivity]].
  pose proof (N.mod_lt x q) as Hm.
  assert (x mod q < q) by (apply Hm; lia).
  assert (1 <= p256_order) by (unfold p256_order; lia).
  lia.
Qed.


Section MatProofs.
  Variable hkdf : bytes -> bytes -> nat -> bytes.

  (* both ends run the same derivation: equal secrets give equal hello-random,
     client certificate material and server certificate material *)
  Lemma same_secret_same_material s1 s2 : s1 = s2 -> material hkdf s1 = material hkdf s2.
  Proof. intros ->. reflexivity. Qed.

  (* assumed about HKDF-SHA256, not proved: the 28 bytes of output used as hello-random separate secrets *)
  Definition hkdf_hello_injective : Prop :=
    forall s1 s2, hkdf s1 label_hello 28 = hkdf s2 label_hello 28 -> s1 = s2.

  Lemma different_secret_different_route :
    hkdf_hello_injective -> forall s1 s2, s1 <> s2 -> hello_random hkdf s1 <> hello_random hkdf s2.
  Proof. intros Hinj s1 s2 Hne He. apply Hne, Hinj, He. Qed.

  Lemma certs_from_seed_split s c1 c2 :
    certs_from_seed hkdf s = Some (c1, c2) ->
    exists r, cert_of (hkdf s label_certs 130) = Some (c1, r) /\
              exists r', cert_of (skipn 65 (hkdf s label_certs 130)) = Some (c2, r').
  Proof.
    unfold certs_from_seed. destruct (cert_of (hkdf s label_certs 130)) as [[d1 r]|] eqn:E1; [|discriminate].
    destruct (cert_of_valid _ _ _ E1) as (_ & _ & ->).
    destruct (cert_of (skipn 65 (hkdf s label_certs 130))) as [[d2 r']|] eqn:E2; [|discriminate].
    intros E. inversion E; subst. eauto.
  Qed.
End MatProofs.

(* ---- the instance on the concrete HKDF-SHA256 of coq/C14 ---- *)
From CJ Require Import C16.Concrete.

(* the concrete functions are instances of the parametric ones by definition; they
   are kept opaque here so that no tactic ever starts evaluating SHA-256 *)
Lemma concrete_key_valid s c1 c2 :
  certs_from_seed_conc s = Some (c1, c2) ->
  (1 <= cm_d c1 < p256_order /\ cm_serial c1 < serial_max) /\
  (1 <= cm_d c2 < p256_order /\ cm_serial c2 < serial_max).
Proof.
  unfold certs_from_seed_conc. generalize hkdf_conc. intros h H.
  destruct (certs_from_seed_split h s c1 c2 H) as (r & E1 & r' & E2).
  destruct (cert_of_valid _ _ _ E1) as (A & B & _). destruct (cert_of_valid _ _ _ E2) as (C & D & _).
  split; split; assumption.
Qed.

Lemma concrete_same_secret s1 s2 : s1 = s2 -> material_conc s1 = material_conc s2.
Proof. intros ->. reflexivity. Qed.

Lemma concrete_different_route :
  hkdf_hello_injective hkdf_conc -> forall s1 s2, s1 <> s2 -> hello_random_conc s1 <> hello_random_conc s2.
Proof.
  unfold hello_random_conc. generalize hkdf_conc. intros h. exact (different_secret_different_route h).
Qed.
