(* C16 property theorems: statements + `exact lemma` only. *)
From CJ Require Import Common.Base C16.Model C16.Concrete C16.ProofsRead C16.ProofsHb C16.ProofsHb2 C16.ProofsFc C16.ModelMw C16.ProofsMw C16.ProofsMr C16.ProofsReg C16.ProofsMat C16.ModelMax C16.ProofsMax.

(* ------------------------------------------------------------------ *)
(* (i) SCTPConn.Read                                                   *)
(* ------------------------------------------------------------------ *)

(* For every message script whose messages fit the maximum message size, every
   sequence of read-buffer sizes (0, 1, ..., beyond the maximum message size)
   and either end-of-stream behaviour: the bytes and errors handed to the
   caller, followed by what the buffer still owes and what the stream has not
   delivered yet, are exactly the bytes and errors of the script, in order. *)
Theorem C16_read_lossless :
  forall mx eos msgs sizes res st' rest,
    fits mx msgs -> reads mx eos sizes rinit msgs = (res, st', rest) ->
    exists k, flat res ++ pend st' ++ flat rest = flat msgs ++ repeat (EvE eos) k.
Proof. exact read_lossless. Qed.
Print Assumptions C16_read_lossless.

(* the Appendix-A shape: the bytes returned are a prefix of the concatenation of the messages *)
Theorem C16_read_concat :
  forall mx eos msgs sizes, fits mx msgs ->
    exists k, concat (map fst (fst (fst (reads mx eos sizes rinit msgs))))
              = firstn k (concat (map fst msgs)).
Proof. exact read_concat_bytes. Qed.
Print Assumptions C16_read_concat.

(* positive read sizes drain the stream: nothing is withheld *)
Theorem C16_read_complete :
  forall mx eos sizes st s res st' rest,
    fits mx s -> rwf st -> Forall (fun n => (0 < n)%nat) sizes ->
    (remaining st s <= length sizes)%nat ->
    reads mx eos sizes st s = (res, st', rest) -> pend st' = [] /\ rest = [].
Proof. exact reads_complete. Qed.
Print Assumptions C16_read_complete.

(* an error is reported only when nothing delivered with it stays behind, and
   the read that hands out the last buffered byte is the one that reports it *)
Theorem C16_read_error_timing :
  forall mx eos st s n st1 s1 o e,
    rwf st -> sctp_read mx eos st s n = (st1, s1, o, e) ->
    (e <> None -> pend st1 = []) /\
    (roff st <> length (rbuf st) -> roff st1 = length (rbuf st1) -> e = rerr st) /\
    (roff st <> length (rbuf st) -> s1 = s /\ o = firstn n (skipn (roff st) (rbuf st))).
Proof. exact read_error_timing. Qed.
Print Assumptions C16_read_error_timing.

(* an error without data comes only from a read that itself met an empty
   message, the end of the stream or an oversize message: never a deferred one *)
Theorem C16_read_error_without_data :
  forall mx eos st s n st1 s1 o x,
    rwf st -> (0 < n)%nat -> sctp_read mx eos st s n = (st1, s1, o, Some x) -> o = [] ->
    roff st = length (rbuf st) /\
    (s = [] \/ exists m em r, s = (m, em) :: r /\
        (m = [] \/ (mx < length m)%nat \/ (n < length m)%nat /\ (mx <= n)%nat)).
Proof. exact read_error_without_data. Qed.
Print Assumptions C16_read_error_without_data.

(* ------------------------------------------------------------------ *)
(* (ii) heartbeat server                                               *)
(* ------------------------------------------------------------------ *)

(* no message handed to SCTPConn equals the heartbeat, for every raw stream *)
Theorem C16_hb_never_surfaces :
  forall mx hb raw, hb <> [] -> Forall (fun m => fst m <> hb) (hb_filter mx hb raw).
Proof. exact hb_filter_no_hb. Qed.
Print Assumptions C16_hb_never_surfaces.

(* recvLoop is the specification filter: the stream without heartbeats up to its first error *)
Theorem C16_hb_filter_spec :
  forall mx hb raw, fits mx raw -> hb_filter mx hb raw = delivered hb raw.
Proof. exact hb_filter_spec. Qed.
Print Assumptions C16_hb_filter_spec.

(* the queue between recvLoop and Read, for every interleaving of loop steps,
   reads, closes and queue-full timeouts: returned messages followed by the
   queue are a prefix of the filtered stream; no heartbeat is ever returned *)
Theorem C16_hb_queue_prefix :
  forall mx hb raw ops st' os,
    hb_run mx hb (hb_init raw) ops = (st', os) ->
    exists F, got_msgs os ++ hq st' ++ F = hb_filter mx hb raw.
Proof. exact hb_queue_prefix. Qed.
Print Assumptions C16_hb_queue_prefix.

Theorem C16_hb_never_surfaces_any_schedule :
  forall mx hb raw ops st' os,
    hb <> [] -> hb_run mx hb (hb_init raw) ops = (st', os) ->
    Forall (fun m => fst m <> hb) (got_msgs os).
Proof. exact hb_never_surfaces_lts. Qed.
Print Assumptions C16_hb_never_surfaces_any_schedule.

(* closed is reported only once the queue is drained, and is final *)
Theorem C16_hb_closed_after_drain :
  forall mx hb raw ops1 st1 os1 ops2 st2 os2,
    hb_run mx hb (hb_init raw) (ops1 ++ [HRead]) = (st1, os1) ->
    last os1 HNone = HErrClosed ->
    hb_run mx hb st1 ops2 = (st2, os2) ->
    hq st1 = [] /\ got_msgs os2 = [].
Proof. exact hb_errclosed_after_drain. Qed.
Print Assumptions C16_hb_closed_after_drain.

(* The same with hbConn.Read split into the selects it consists of (non-blocking
   receive; blocking select with either ready case taken; inner receive after
   closed), direct hand-over to a parked reader, and recvLoop blocked on the full
   queue (hand-over on a pop, or the interval elapses and it closes): every
   interleaving.  [fast] = the non-blocking receive is present or not; the
   theorems need only the inner drain (the last argument [true]). *)
Theorem C16_hb2_queue_prefix :
  forall mx hb fast raw ops st' os,
    h2_run mx hb fast true (h2_init raw) ops = (st', os) ->
    exists F, got2 os ++ rheld (h2rd st') ++ h2q st' ++ lheld (h2loop st') ++ F = hb_filter mx hb raw.
Proof. exact h2_queue_prefix. Qed.
Print Assumptions C16_hb2_queue_prefix.

Theorem C16_hb2_never_surfaces :
  forall mx hb fast raw ops st' os,
    hb <> [] -> h2_run mx hb fast true (h2_init raw) ops = (st', os) ->
    Forall (fun m => fst m <> hb) (got2 os).
Proof. exact h2_never_surfaces. Qed.
Print Assumptions C16_hb2_never_surfaces.

Theorem C16_hb2_closed_after_drain :
  forall mx hb fast raw ops1 st1 os1 ops2 st2 os2,
    h2_run mx hb fast true (h2_init raw) ops1 = (st1, os1) -> last os1 ONone = OErrClosed ->
    h2_run mx hb fast true st1 ops2 = (st2, os2) ->
    h2q st1 = [] /\ got2 os2 = [].
Proof. exact h2_closed_after_drain. Qed.
Print Assumptions C16_hb2_closed_after_drain.

(* The server side end to end.  The full statement of the property ... *)
Definition C16_server_read_concat_full_statement : Prop :=
  forall mx hb raw sizes res st' rest,
    fits mx raw ->
    server_reads mx hb sizes raw = (res, st', rest) ->
    exists k, flat res ++ pend st' ++ flat rest =
              flat (if has_err raw then upto_err raw else raw ++ [([], Some E_EOS)])
              ++ repeat (EvE E_CLOSED) k.
(* ... is refuted by a peer message equal to the heartbeat (Refuted.v, open
   known finding); it holds whenever no message equals the heartbeat. *)
Theorem C16_server_read_concat_partial :
  forall mx hb raw sizes res st' rest,
    fits mx raw -> Forall (fun m => fst m <> hb) raw ->
    server_reads mx hb sizes raw = (res, st', rest) ->
    exists k, flat res ++ pend st' ++ flat rest =
              flat (if has_err raw then upto_err raw else raw ++ [([], Some E_EOS)])
              ++ repeat (EvE E_CLOSED) k.
Proof. exact server_read_concat. Qed.
Print Assumptions C16_server_read_concat_partial.

(* without that hypothesis: what the reader gets is the filtered stream *)
Theorem C16_server_read_lossless :
  forall mx hb raw sizes res st' rest,
    server_reads mx hb sizes raw = (res, st', rest) ->
    exists k, flat res ++ pend st' ++ flat rest
              = flat (hb_filter mx hb raw) ++ repeat (EvE E_CLOSED) k.
Proof. exact server_read_lossless. Qed.
Print Assumptions C16_server_read_lossless.

(* the watchdog: three loop actions (check, reset, check -- one full interval)
   without a heartbeat close the connection, from any state *)
Theorem C16_silent_peer_closed :
  forall st t, no_hb t -> (3 <= length t)%nat -> wclosed (wrun st t) = true.
Proof. exact silent_peer_closed. Qed.
Print Assumptions C16_silent_peer_closed.

(* and a peer whose heartbeats reach every sleep of the loop is never closed *)
Theorem C16_live_peer_kept_open :
  forall t t', live_trace (t ++ t') -> wclosed (wrun winit t) = false.
Proof. exact live_peer_kept_open. Qed.
Print Assumptions C16_live_peer_kept_open.

(* ------------------------------------------------------------------ *)
(* (iii) write flow control                                            *)
(* ------------------------------------------------------------------ *)

(* in every state of every run the buffered amount is at most 256 KiB + 128 KiB
   plus the bytes that bypassed SCTPConn.Write (client heartbeats) *)
Theorem C16_buffered_bounded :
  forall ops, Forall (fun st => fbuf st <= 393216 + fforeign st) (fc_trace fc_init ops).
Proof. exact buffered_bounded. Qed.
Print Assumptions C16_buffered_bounded.

Theorem C16_buffered_bounded_no_foreign :
  forall ops, Forall (fun op => match op with FForeign _ => False | _ => True end) ops ->
    Forall (fun st => fbuf st <= 393216) (fc_trace fc_init ops).
Proof. exact buffered_bounded_no_foreign. Qed.
Print Assumptions C16_buffered_bounded_no_foreign.

(* ------------------------------------------------------------------ *)
(* (vi) any number of goroutines writing to one SCTPConn               *)
(*      (threads are natural numbers; every size sequence, every       *)
(*      interleaving of the atomic sections of Write, a network that   *)
(*      drains by arbitrary amounts at arbitrary moments or never)     *)
(* ------------------------------------------------------------------ *)

(* the same fixed bound as for one writer: 256 KiB + one maximal write, plus what bypassed flow control *)
Theorem C16_mw_buffered_bounded :
  forall ops, Forall (fun st => mbuf st <= 393216 + mforeign st) (mw_trace VLocked mw_init ops).
Proof. exact mw_buffered_bounded. Qed.
Print Assumptions C16_mw_buffered_bounded.

Theorem C16_mw_buffered_bounded_no_foreign :
  forall ops, Forall (fun op => match op with MForeign _ => False | _ => True end) ops ->
    Forall (fun st => mbuf st <= 393216) (mw_trace VLocked mw_init ops).
Proof. exact mw_buffered_bounded_no_foreign. Qed.
Print Assumptions C16_mw_buffered_bounded_no_foreign.

(* as long as no token has been consumed (in particular: the network never drains) the bound is
   writeMaxBufferedAmount itself *)
Theorem C16_mw_buffered_bounded_no_token_taken :
  forall ops, Forall (fun st => mtaken st = false -> mbuf st <= 262144 + mforeign st)
                     (mw_trace VLocked mw_init ops).
Proof. exact mw_buffered_bounded_no_token_taken. Qed.
Print Assumptions C16_mw_buffered_bounded_no_token_taken.

(* check, wait and write are one critical section: at most one writer is inside it *)
Theorem C16_mw_mutual_exclusion :
  forall ops st t1 t2, In st (mw_trace VLocked mw_init ops) ->
    in_critical VLocked (mpcs st t1) = true -> in_critical VLocked (mpcs st t2) = true -> t1 = t2.
Proof. exact mw_mutual_exclusion. Qed.
Print Assumptions C16_mw_mutual_exclusion.

(* a writer held back in the select has a token waiting, or the amount is still above the low
   threshold (so the drain that brings it down posts one): no lost wake-up *)
Theorem C16_mw_no_lost_wakeup :
  forall ops st t n, In st (mw_trace VLocked mw_init ops) -> mpcs st t = MSel n ->
    mtoken st = true \/ wthr < mbuf st.
Proof. exact mw_no_lost_wakeup. Qed.
Print Assumptions C16_mw_no_lost_wakeup.

(* ... and it proceeds to stream.Write once the network has drained to the low threshold *)
Theorem C16_mw_blocked_writer_proceeds :
  forall ops st t n d, In st (mw_trace VLocked mw_init ops) -> mpcs st t = MSel n ->
    mbuf st - d <= wthr -> mpcs (mw_run VLocked st [MDrain d; MTake t]) t = MGo n.
Proof. exact mw_blocked_writer_proceeds. Qed.
Print Assumptions C16_mw_blocked_writer_proceeds.

(* whoever holds the mutex returns and releases it after at most six steps: its own and at most
   one drain of the network; no other writer is touched *)
Theorem C16_mw_holder_finishes :
  forall ops0 st t, In st (mw_trace VLocked mw_init ops0) -> mlock st = Some t ->
    exists ops, (length ops <= 6)%nat /\ Forall (own_or_drain t) ops /\
                finished_from st t (mw_run VLocked st ops).
Proof. exact mw_holder_finishes. Qed.
Print Assumptions C16_mw_holder_finishes.

(* no deadlock: from every reachable state every Write that has been started can return, by steps of
   the writers and drains of the network alone (no Close needed) *)
Theorem C16_mw_every_write_can_complete :
  forall ops0 st t, In st (mw_trace VLocked mw_init ops0) ->
    exists ops, Forall writer_or_drain ops /\ mpcs (mw_run VLocked st ops) t = MIdle.
Proof. exact mw_every_write_can_complete. Qed.
Print Assumptions C16_mw_every_write_can_complete.

(* under the mutex, any number of writers is a run of the one-writer model of (iii) *)
Theorem C16_mw_refines_fc :
  forall ops, exists fops, mw_proj (mw_run VLocked mw_init ops) = fst (fc_run fc_init fops).
Proof. exact mw_refines_fc. Qed.
Print Assumptions C16_mw_refines_fc.

(* REFUTED VARIANT.  With the test outside the critical section (lock taken only around stream.Write) k writers
   that all test before any of them writes buffer k x 128 KiB -- no drain, no token, nothing written past flow
   control -- so no bound independent of the number of writers holds: the mutual exclusion of check-and-write is
   what C16_mw_buffered_bounded rests on.  (Two writers already exceed 384 KiB: Examples.ex_unl_two_writers_exceed.) *)
Theorem C16_mw_unlocked_variant_grows :
  forall k, let st := mw_run VUnlocked mw_init (unl_schedule k) in
    mbuf st = N.of_nat k * wthr /\ mforeign st = 0 /\ mtaken st = false.
Proof. exact mw_unlocked_grows. Qed.
Print Assumptions C16_mw_unlocked_variant_grows.

Theorem C16_mw_unlocked_variant_unbounded :
  forall B, exists ops, let st := mw_run VUnlocked mw_init ops in B < mbuf st /\ mforeign st = 0.
Proof. exact mw_unlocked_unbounded. Qed.
Print Assumptions C16_mw_unlocked_variant_unbounded.

(* ------------------------------------------------------------------ *)
(* (vii) any number of goroutines reading one SCTPConn: Read as Lock / *)
(*       refill-or-bypass / hand-out / Unlock, every interleaving      *)
(* ------------------------------------------------------------------ *)

(* the completed Reads, in the order of their critical sections, returned exactly what the sequential model
   (sctp_read) returns for their buffer sizes *)
Theorem C16_mr_reads_serial :
  forall mx eos script0 ops,
    let st := mr_run mx eos (mr_init script0) ops in
    exists R S, reads mx eos (map fst (mr_log st)) rinit script0 = (map snd (mr_log st), R, S).
Proof. exact mr_reads_serial. Qed.
Print Assumptions C16_mr_reads_serial.

(* hence nothing is lost, duplicated or reordered across the readers, errors included *)
Theorem C16_mr_reads_lossless :
  forall mx eos script0 ops, fits mx script0 ->
    let st := mr_run mx eos (mr_init script0) ops in
    exists R S k, flat (map snd (mr_log st)) ++ pend R ++ flat S = flat script0 ++ repeat (EvE eos) k.
Proof. exact mr_reads_lossless. Qed.
Print Assumptions C16_mr_reads_lossless.

Theorem C16_mr_mutual_exclusion :
  forall mx eos script0 ops t1 t2,
    let st := mr_run mx eos (mr_init script0) ops in
    q_holds (mr_pcs st t1) = true -> q_holds (mr_pcs st t2) = true -> t1 = t2.
Proof. exact mr_mutual_exclusion. Qed.
Print Assumptions C16_mr_mutual_exclusion.

(* ------------------------------------------------------------------ *)
(* (iv) listener registry: any number of acceptor and connection       *)
(*      threads, every schedule, cancellation at any step              *)
(* ------------------------------------------------------------------ *)

Theorem C16_delivery_to_matching_acceptor :
  forall hr asecs csecs ops a c,
    ares (acc (lrun hr asecs csecs linit ops) a) = RGot c ->
    hr (csecs c) = hr (asecs a) /\
    cverified (cns (lrun hr asecs csecs linit ops) c) = true /\
    exists a0, asecs a0 = csecs c /\ apc (acc (lrun hr asecs csecs linit ops) a0) <> A0.
Proof. exact delivery_to_matching_acceptor. Qed.
Print Assumptions C16_delivery_to_matching_acceptor.

Theorem C16_delivered_to_one :
  forall hr asecs csecs ops a1 a2 c,
    ares (acc (lrun hr asecs csecs linit ops) a1) = RGot c ->
    ares (acc (lrun hr asecs csecs linit ops) a2) = RGot c -> a1 = a2.
Proof. exact delivered_to_one. Qed.
Print Assumptions C16_delivered_to_one.

(* named hypothesis: the hello-random derivation separates secrets *)
Theorem C16_delivery_same_secret :
  forall hr asecs csecs ops a c,
    (forall s1 s2, hr s1 = hr s2 -> s1 = s2) ->
    ares (acc (lrun hr asecs csecs linit ops) a) = RGot c -> csecs c = asecs a.
Proof. exact delivery_same_secret. Qed.
Print Assumptions C16_delivery_same_secret.

Theorem C16_cancel_leaves_nothing :
  forall hr asecs csecs ops,
    (forall a, holds_cert (apc (acc (lrun hr asecs csecs linit ops) a)) = false) ->
    forall i, certs (lrun hr asecs csecs linit ops) i = None /\
              chans (lrun hr asecs csecs linit ops) i = None.
Proof. exact cancel_leaves_nothing. Qed.
Print Assumptions C16_cancel_leaves_nothing.

Theorem C16_registry_exact :
  forall hr asecs csecs ops i a,
    (certs (lrun hr asecs csecs linit ops) i = Some a <->
       hr (asecs a) = i /\ holds_cert (apc (acc (lrun hr asecs csecs linit ops) a)) = true) /\
    (chans (lrun hr asecs csecs linit ops) i = Some a <->
       hr (asecs a) = i /\ holds_chan (apc (acc (lrun hr asecs csecs linit ops) a)) = true).
Proof. exact registry_exact. Qed.
Print Assumptions C16_registry_exact.

Theorem C16_second_accept_fails :
  forall hr asecs csecs ops a b,
    let g := lrun hr asecs csecs linit ops in
    hr (asecs a) = hr (asecs b) -> holds_cert (apc (acc g a)) = true -> apc (acc g b) = A0 ->
    let g' := lstep hr asecs csecs g (LA b) in
    certs g' = certs g /\ chans g' = chans g /\ bufs g' = bufs g /\ cns g' = cns g /\
    (forall x, x <> b -> acc g' x = acc g x) /\
    apc (acc g' b) = ADone /\ ares (acc g' b) = RErrDup.
Proof. exact second_accept_fails. Qed.
Print Assumptions C16_second_accept_fails.

Theorem C16_register_channel_never_fails :
  forall hr asecs csecs ops a, ares (acc (lrun hr asecs csecs linit ops) a) <> RErrChan.
Proof. exact register_channel_never_fails. Qed.
Print Assumptions C16_register_channel_never_fails.

Theorem C16_unregistered_never_completes :
  forall hr asecs csecs ops c,
    (forall a, asecs a <> csecs c) ->
    cverified (cns (lrun hr asecs csecs linit ops) c) = false /\
    forall a, ares (acc (lrun hr asecs csecs linit ops) a) <> RGot c.
Proof. exact unregistered_never_completes. Qed.
Print Assumptions C16_unregistered_never_completes.

(* once its context is cancelled, an accept returns in five steps of its own,
   from any configuration (no other thread is needed) *)
Theorem C16_cancelled_accept_returns :
  forall hr asecs csecs g a,
    acancel (acc g a) = true ->
    apc (acc (lrun hr asecs csecs g [LA a; LA a; LCancelled a; LA a; LA a]) a) = ADone.
Proof. exact cancelled_accept_returns. Qed.
Print Assumptions C16_cancelled_accept_returns.

(* ------------------------------------------------------------------ *)
(* (v) key material                                                    *)
(* ------------------------------------------------------------------ *)

Theorem C16_same_secret_same_material :
  forall hkdf s1 s2, s1 = s2 -> material hkdf s1 = material hkdf s2.
Proof. exact same_secret_same_material. Qed.
Print Assumptions C16_same_secret_same_material.

Theorem C16_different_secret_different_route :
  forall hkdf, hkdf_hello_injective hkdf ->
    forall s1 s2, s1 <> s2 -> hello_random hkdf s1 <> hello_random hkdf s2.
Proof. exact different_secret_different_route. Qed.
Print Assumptions C16_different_secret_different_route.

Theorem C16_derived_key_valid :
  forall st c r, cert_of st = Some (c, r) ->
    1 <= cm_d c < p256_order /\ cm_serial c < serial_max /\ r = skipn 65 st.
Proof. exact cert_of_valid. Qed.
Print Assumptions C16_derived_key_valid.

(* the same statements for the concrete derivation (SHA-256 / HMAC / HKDF of coq/C14, the
   functions that are compared with seedtocert.go from the secret alone on every run) *)
Theorem C16_concrete_same_secret_same_material :
  forall s1 s2, s1 = s2 -> material_conc s1 = material_conc s2.
Proof. exact concrete_same_secret. Qed.
Print Assumptions C16_concrete_same_secret_same_material.

Theorem C16_concrete_different_secret_different_route :
  hkdf_hello_injective hkdf_conc ->
  forall s1 s2, s1 <> s2 -> hello_random_conc s1 <> hello_random_conc s2.
Proof. exact concrete_different_route. Qed.
Print Assumptions C16_concrete_different_secret_different_route.

Theorem C16_concrete_key_valid :
  forall s c1 c2, certs_from_seed_conc s = Some (c1, c2) ->
    (1 <= cm_d c1 < p256_order /\ cm_serial c1 < serial_max) /\
    (1 <= cm_d c2 < p256_order /\ cm_serial c2 < serial_max).
Proof. exact concrete_key_valid. Qed.
Print Assumptions C16_concrete_key_valid.

(* ------------------------------------------------------------------ *)
(* (viii) receive-buffer size against the writer's maximum message size *)
(* ------------------------------------------------------------------ *)

(* a reader whose buffers cover the largest message the writer's association accepts gets, for
   every sequence of writes (accepted or refused by Write) and every sequence of read sizes,
   exactly what Write reported as written, in order, and no error before the end of the stream *)
Theorem C16_lossless_when_rbuf_covers_wmax :
  forall wmax rbuf eos ms sizes, (wmax <= rbuf)%nat -> pair_lossless wmax rbuf eos ms sizes.
Proof. exact lossless_when_rbuf_covers_wmax. Qed.
Print Assumptions C16_lossless_when_rbuf_covers_wmax.

Theorem C16_lossless_bytes_when_rbuf_covers_wmax :
  forall wmax rbuf eos ms sizes, (wmax <= rbuf)%nat ->
    exists k, concat (map fst (fst (fst (pair_reads wmax rbuf eos ms sizes)))) = firstn k (wr_reported wmax ms).
Proof. exact lossless_bytes_when_rbuf_covers_wmax. Qed.
Print Assumptions C16_lossless_bytes_when_rbuf_covers_wmax.

(* ... and only then *)
Theorem C16_lossless_iff_rbuf_covers_wmax :
  forall wmax rbuf eos, (forall ms sizes, pair_lossless wmax rbuf eos ms sizes) <-> (wmax <= rbuf)%nat.
Proof. exact lossless_iff_rbuf_covers_wmax. Qed.
Print Assumptions C16_lossless_iff_rbuf_covers_wmax.

Theorem C16_lossy_witness_when_rbuf_below_wmax :
  forall wmax rbuf eos, (rbuf < wmax)%nat ->
    pair_reads wmax rbuf eos (short_witness wmax) [rbuf] = ([([], Some E_SHORT)], rinit, []) /\
    ~ pair_lossless wmax rbuf eos (short_witness wmax) [rbuf].
Proof. intros. split; [apply short_witness_run | apply lossy_when_rbuf_below_wmax]; assumption. Qed.
Print Assumptions C16_lossy_witness_when_rbuf_below_wmax.

(* messages no longer than the buffer are unaffected by a larger writer limit *)
Theorem C16_lossless_below_rbuf :
  forall wmax rbuf eos ms sizes,
    Forall (fun m => (length m <= rbuf)%nat) ms -> pair_lossless wmax rbuf eos ms sizes.
Proof. exact lossless_below_rbuf. Qed.
Print Assumptions C16_lossless_below_rbuf.
