(* C16 property theorems: statements + `exact lemma` only. *)
From CJ Require Import Common.Base C16.Model C16.ProofsRead.

(* (i) SCTPConn.Read: for every message script whose messages fit the maximum
   message size, every sequence of read-buffer sizes (0, 1, ..., beyond the
   maximum message size) and either end-of-stream behaviour, the bytes and
   errors handed to the caller, followed by what the buffer still owes and what
   the stream has not delivered yet, are exactly the bytes and errors of the
   script, in order. *)
Theorem C16_read_lossless :
  forall mx eos msgs sizes res st' rest,
    fits mx msgs -> reads mx eos sizes rinit msgs = (res, st', rest) ->
    exists k, flat res ++ pend st' ++ flat rest = flat msgs ++ repeat (EvE eos) k.
Proof. exact read_lossless. Qed.
Print Assumptions C16_read_lossless.

(* the Appendix-A shape: the bytes returned are a prefix of the concatenation of the messages *)
Theorem C16_read_concat :
  forall mx eos msgs sizes, fits mx msgs ->
    exists k, concat (map fst (fst (fst (reads mx eos sizes rinit msgs))))
              = firstn k (concat (map fst msgs)).
Proof. exact read_concat_bytes. Qed.
Print Assumptions C16_read_concat.
