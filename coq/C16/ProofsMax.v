(* C16 (viii): the receive-buffer size [rbuf] (what openSCTP / acceptSCTP size the heartbeat
   server's read buffer, SCTPConn's intermediate buffer and the bypass threshold with) against the
   largest message the writer's association accepts, [wmax].  The read model of (i) already has the
   buffer size as its parameter [mx]; here the writer's limit becomes a parameter as well, and the
   hypothesis [fits] of read_lossless is discharged from [wmax <= rbuf]. *)
From Coq Require Import Lia Arith List.
From CJ Require Import Common.Base C16.Model C16.ModelMax C16.ProofsRead.
Import ListNotations.

Lemma wr_sent_fits wmax rbuf ms : (wmax <= rbuf)%nat -> fits rbuf (wr_sent wmax ms).
Proof.
  intros H. unfold fits, wr_sent. apply Forall_forall. intros x Hx.
  apply in_map_iff in Hx. destruct Hx as (m & <- & Hm). apply filter_In in Hm. destruct Hm as [_ Hm].
  unfold wr_accepts in Hm. apply Nat.leb_le in Hm. cbn. lia.
Qed.

Lemma flat_wr_sent wmax ms : flat (wr_sent wmax ms) = map EvB (wr_reported wmax ms).
Proof.
  unfold wr_sent, wr_reported. induction (filter (wr_accepts wmax) ms) as [|m l IH]; [reflexivity|].
  cbn [map concat]. rewrite flat_cons, IH, map_app. unfold flat1. cbn. rewrite app_nil_r. reflexivity.
Qed.

Theorem lossless_when_rbuf_covers_wmax wmax rbuf eos ms sizes :
  (wmax <= rbuf)%nat -> pair_lossless wmax rbuf eos ms sizes.
Proof.
  intros H. unfold pair_lossless, pair_reads.
  destruct (reads rbuf eos sizes rinit (wr_sent wmax ms)) as [[res st'] rest] eqn:Hr.
  destruct (read_lossless _ _ _ _ _ _ _ (wr_sent_fits _ _ ms H) Hr) as [k Hk].
  exists k. rewrite Hk, flat_wr_sent. reflexivity.
Qed.

(* the bytes alone: the concatenation of the data of the reads is a prefix of what Write reported *)
Theorem lossless_bytes_when_rbuf_covers_wmax wmax rbuf eos ms sizes :
  (wmax <= rbuf)%nat ->
  exists k, concat (map fst (fst (fst (pair_reads wmax rbuf eos ms sizes)))) = firstn k (wr_reported wmax ms).
Proof.
  intros H. unfold pair_reads.
  destruct (read_concat_bytes rbuf eos (wr_sent wmax ms) sizes (wr_sent_fits _ _ ms H)) as [k Hk].
  exists k. rewrite Hk. f_equal. unfold wr_sent, wr_reported. rewrite map_map. cbn. rewrite map_id. reflexivity.
Qed.

(* the witness when the buffer is smaller: one message of exactly [wmax] bytes, one read of
   [rbuf] bytes -- the message is dropped, the reader gets "short buffer" instead of its bytes *)
Definition short_witness (wmax : nat) : list bytes := [repeat 0%N wmax].

Lemma short_witness_run wmax rbuf eos :
  (rbuf < wmax)%nat ->
  pair_reads wmax rbuf eos (short_witness wmax) [rbuf] = ([([], Some E_SHORT)], rinit, []).
Proof.
  intros H. unfold pair_reads, short_witness, wr_sent. cbn [filter].
  unfold wr_accepts. rewrite repeat_length, Nat.leb_refl. cbn [map reads].
  unfold sctp_read. change (roff rinit =? length (Model.rbuf rinit))%nat with true. cbn [andb]. rewrite Nat.leb_refl.
  cbn [sread fst]. rewrite repeat_length.
  destruct (wmax <=? rbuf)%nat eqn:E; [apply Nat.leb_le in E; lia|]. reflexivity.
Qed.

Theorem lossy_when_rbuf_below_wmax wmax rbuf eos :
  (rbuf < wmax)%nat -> ~ pair_lossless wmax rbuf eos (short_witness wmax) [rbuf].
Proof.
  intros H. unfold pair_lossless. rewrite (short_witness_run _ _ eos H).
  intros [k Hk]. unfold short_witness, wr_reported in Hk. cbn [filter] in Hk.
  unfold wr_accepts in Hk. rewrite repeat_length, Nat.leb_refl in Hk.
  destruct wmax as [|w]; [lia|]. cbn in Hk. discriminate.
Qed.

Theorem lossless_iff_rbuf_covers_wmax wmax rbuf eos :
  (forall ms sizes, pair_lossless wmax rbuf eos ms sizes) <-> (wmax <= rbuf)%nat.
Proof.
  split.
  - intros H. destruct (le_lt_dec wmax rbuf) as [L|L]; [exact L|].
    exfalso. exact (lossy_when_rbuf_below_wmax _ _ eos L (H _ _)).
  - intros H ms sizes. apply lossless_when_rbuf_covers_wmax. exact H.
Qed.

(* the refuted variant: a buffer one byte short of the writer's limit *)
Theorem one_short_refuted wmax eos :
  (0 < wmax)%nat -> ~ (forall ms sizes, pair_lossless wmax (wmax - 1) eos ms sizes).
Proof.
  intros H A. apply (lossless_iff_rbuf_covers_wmax wmax (wmax - 1) eos) in A. lia.
Qed.

(* sizes up to the buffer are not affected by the writer's larger limit *)
Theorem lossless_below_rbuf wmax rbuf eos ms sizes :
  Forall (fun m => (length m <= rbuf)%nat) ms -> pair_lossless wmax rbuf eos ms sizes.
Proof.
  intros H. unfold pair_lossless, pair_reads.
  destruct (reads rbuf eos sizes rinit (wr_sent wmax ms)) as [[res st'] rest] eqn:Hr.
  assert (Hf : fits rbuf (wr_sent wmax ms)).
  { unfold fits, wr_sent. apply Forall_forall. intros x Hx.
    apply in_map_iff in Hx. destruct Hx as (m & <- & Hm). apply filter_In in Hm. destruct Hm as [Hm _].
    rewrite Forall_forall in H. cbn. apply H. exact Hm. }
  destruct (read_lossless _ _ _ _ _ _ _ Hf Hr) as [k Hk].
  exists k. rewrite Hk, flat_wr_sent. reflexivity.
Qed.
