(* C16 (vii): any number of goroutines reading one SCTPConn -- the Reads are serialised by readMutex and, in the
   order of their critical sections, return what the sequential model sctp_read returns. *)
From CJ Require Import Common.Base C16.Model C16.ModelMw C16.ProofsRead.
From Coq Require Import Lia.

(* ------------------------------------------------------------------ *)
(* (vii) any number of goroutines reading one connection                *)
(* ------------------------------------------------------------------ *)
Lemma reads_snoc mx eos sizes n : forall st s,
  reads mx eos (sizes ++ [n]) st s =
  let '(res, st1, s1) := reads mx eos sizes st s in
  let '(st2, s2, o, e) := sctp_read mx eos st1 s1 n in (res ++ [(o, e)], st2, s2).
Proof.
  induction sizes as [|m sizes IH]; intros st s; cbn [app reads].
  - destruct (sctp_read mx eos st s n) as [[[st2 s2] o] e]. reflexivity.
  - destruct (sctp_read mx eos st s m) as [[[st1 s1] o1] e1]. rewrite IH.
    destruct (reads mx eos sizes st1 s1) as [[res st2] s2].
    destruct (sctp_read mx eos st2 s2 n) as [[[st3 s3] o] e]. reflexivity.
Qed.

Section MR.
  Variables (mx : nat) (eos : err) (script0 : mscript).

  (* what the completed Reads returned is what the sequential model returns for their sizes, in the order of the
     critical sections; (R, S) is the sequential state after them *)
  Definition mr_serial (st : mrst) (R : rst) (S : mscript) : Prop :=
    reads mx eos (map fst (mr_log st)) rinit script0 = (map snd (mr_log st), R, S).

  Definition mr_mid (st : mrst) (R : rst) (S : mscript) (n : nat) : Prop :=
    let '(r', o, e) := read_copy (mr_rst st) n in sctp_read mx eos R S n = (r', mr_script st, o, e).

  Definition mr_inv (st : mrst) : Prop :=
    (forall t, q_holds (mr_pcs st t) = true -> mr_lock st = Some t) /\
    (forall t, mr_lock st = Some t -> q_holds (mr_pcs st t) = true) /\
    exists R S, mr_serial st R S /\
      match mr_lock st with
      | Some t => match mr_pcs st t with
                  | QIn2 n => mr_mid st R S n
                  | _ => R = mr_rst st /\ S = mr_script st
                  end
      | None => R = mr_rst st /\ S = mr_script st
      end.

  Lemma mr_inv_init : mr_inv (mr_init script0).
  Proof.
    unfold mr_inv, mr_init; cbn. split; [discriminate|]. split; [discriminate|].
    exists rinit, script0. split; [reflexivity|auto].
  Qed.

  Ltac rsimp := cbn [mr_rst mr_script mr_lock mr_pcs mr_log] in *.
  Ltac rupd t0 t := unfold updn; destruct (Nat.eqb_spec t0 t) as [->|?].

  Lemma mr_step_inv st op : mr_inv st -> mr_inv (mr_step mx eos st op).
  Proof.
    intros Hinv. pose proof Hinv as (Ha & Hb & R & S & Hser & Hst).
    destruct st as [rs sc lk pcs lg]. rsimp. unfold mr_serial in *; rsimp.
    destruct op as [t n|t|t|t|t]; unfold mr_step; rsimp.
    - (* QStart *)
      destruct (pcs t) eqn:Ept; try exact Hinv.
      assert (Hnh : lk <> Some t) by (intros E; specialize (Hb t E); rewrite Ept in Hb; discriminate).
      unfold mr_inv, mr_serial; rsimp. split; [|split].
      + intros t0; rupd t0 t; [discriminate|apply Ha].
      + intros t0 E; rupd t0 t; [congruence|apply Hb; exact E].
      + exists R, S. split; [exact Hser|]. destruct lk as [u|]; [|exact Hst].
        unfold updn. destruct (Nat.eqb_spec u t); [congruence|]. unfold mr_mid in *; rsimp. exact Hst.
    - (* QLockOp *)
      destruct (pcs t) eqn:Ept; try exact Hinv.
      destruct lk as [u|]; [exact Hinv|].
      unfold mr_inv, mr_serial; rsimp. split; [|split].
      + intros t0; rupd t0 t; [reflexivity|]. intros E. specialize (Ha t0 E). discriminate.
      + intros t0 E. injection E as <-. unfold updn. rewrite Nat.eqb_refl. reflexivity.
      + exists R, S. split; [exact Hser|]. unfold updn. rewrite Nat.eqb_refl. exact Hst.
    - (* QFill *)
      destruct (pcs t) eqn:Ept; try exact Hinv.
      assert (Hlk : lk = Some t) by (apply Ha; rewrite Ept; reflexivity). subst lk.
      rewrite Ept in Hst. destruct Hst as [-> ->].
      assert (Hcrit : forall (p : mrpc), q_holds p = true ->
                (forall t0, q_holds (updn pcs t p t0) = true -> Some t = Some t0) /\
                (forall t0, Some t = Some t0 -> q_holds (updn pcs t p t0) = true)).
      { intros p Hp. split.
        - intros t0; rupd t0 t; [reflexivity|apply Ha].
        - intros t0 E. injection E as <-. unfold updn. rewrite Nat.eqb_refl. exact Hp. }
      destruct ((roff rs =? length (rbuf rs))%nat) eqn:Hfull; cbn [andb].
      + destruct ((mx <=? n)%nat) eqn:Hbig.
        * (* bypass *)
          destruct (sread eos sc n) as [[s' d] e] eqn:Hsr.
          unfold mr_inv, mr_serial; rsimp. destruct (Hcrit (QGot (d, e)) eq_refl) as [H1 H2].
          split; [exact H1|]. split; [exact H2|].
          exists rs, s'. split.
          -- rewrite !map_app. cbn [map fst snd]. rewrite reads_snoc, Hser.
             unfold sctp_read. rewrite Hfull, Hbig. cbn [andb]. rewrite Hsr. reflexivity.
          -- unfold updn. rewrite Nat.eqb_refl. auto.
        * destruct (sread eos sc mx) as [[s' d] e] eqn:Hsr.
          unfold mr_inv, mr_serial; rsimp. destruct (Hcrit (QIn2 n) eq_refl) as [H1 H2].
          split; [exact H1|]. split; [exact H2|].
          exists rs, sc. split; [exact Hser|].
          unfold updn. rewrite Nat.eqb_refl. unfold mr_mid, read_copy; rsimp.
          unfold sctp_read. rewrite Hfull, Hbig. cbn [andb]. rewrite Hsr. reflexivity.
      + unfold mr_inv, mr_serial; rsimp. destruct (Hcrit (QIn2 n) eq_refl) as [H1 H2].
        split; [exact H1|]. split; [exact H2|].
        exists rs, sc. split; [exact Hser|].
        unfold updn. rewrite Nat.eqb_refl. unfold mr_mid, read_copy; rsimp.
        unfold sctp_read. rewrite Hfull. cbn [andb]. reflexivity.
    - (* QCopy *)
      destruct (pcs t) eqn:Ept; try exact Hinv.
      assert (Hlk : lk = Some t) by (apply Ha; rewrite Ept; reflexivity). subst lk.
      rewrite Ept in Hst. unfold mr_mid in Hst; rsimp.
      destruct (read_copy rs n) as [[r' o] e] eqn:Hcp.
      unfold mr_inv, mr_serial; rsimp. split; [|split].
      + intros t0; rupd t0 t; [reflexivity|apply Ha].
      + intros t0 E. injection E as <-. unfold updn. rewrite Nat.eqb_refl. reflexivity.
      + exists r', sc. split.
        * rewrite !map_app. cbn [map fst snd]. rewrite reads_snoc, Hser, Hst. reflexivity.
        * unfold updn. rewrite Nat.eqb_refl. auto.
    - (* QUnlock *)
      destruct (pcs t) eqn:Ept; try exact Hinv.
      assert (Hlk : lk = Some t) by (apply Ha; rewrite Ept; reflexivity). subst lk.
      rewrite Ept in Hst.
      unfold mr_inv, mr_serial; rsimp. split; [|split].
      + intros t0; rupd t0 t; [discriminate|]. intros E. specialize (Ha t0 E). congruence.
      + discriminate.
      + exists R, S. split; [exact Hser|exact Hst].
  Qed.

  Lemma mr_run_inv ops : forall st, mr_inv st -> mr_inv (mr_run mx eos st ops).
  Proof.
    unfold mr_run. induction ops as [|op ops IH]; intros st Hi; cbn [fold_left]; [assumption|].
    apply IH. now apply mr_step_inv.
  Qed.

  (* any number of goroutines, any interleaving of the sections of Read: the completed Reads, in the order of their
     critical sections, returned exactly what the sequential model returns for their buffer sizes *)
  Theorem mr_reads_serial ops :
    let st := mr_run mx eos (mr_init script0) ops in
    exists R S, reads mx eos (map fst (mr_log st)) rinit script0 = (map snd (mr_log st), R, S).
  Proof.
    destruct (mr_run_inv ops _ mr_inv_init) as (_ & _ & R & S & Hser & _). exists R, S. exact Hser.
  Qed.

  (* hence nothing is lost, duplicated or reordered across the readers *)
  Theorem mr_reads_lossless ops :
    fits mx script0 ->
    let st := mr_run mx eos (mr_init script0) ops in
    exists R S k, flat (map snd (mr_log st)) ++ pend R ++ flat S = flat script0 ++ repeat (EvE eos) k.
  Proof.
    intros Hfit. destruct (mr_reads_serial ops) as (R & S & Hser).
    destruct (read_lossless mx eos script0 _ _ _ _ Hfit Hser) as (k & Hk). exists R, S, k. exact Hk.
  Qed.

  Theorem mr_mutual_exclusion ops t1 t2 :
    let st := mr_run mx eos (mr_init script0) ops in
    q_holds (mr_pcs st t1) = true -> q_holds (mr_pcs st t2) = true -> t1 = t2.
  Proof.
    destruct (mr_run_inv ops _ mr_inv_init) as (Ha & _). intros st H1 H2.
    pose proof (Ha t1 H1) as E1. pose proof (Ha t2 H2) as E2. congruence.
  Qed.
End MR.
