(* C16 (viii) model: a writer whose association accepts messages up to [wmax] bytes paired with a
   reader whose receive buffers were built with size [rbuf] (the parameter [mx] of sctp_read /
   hb_filter in Model.v: heartbeat server read buffer, SCTPConn intermediate buffer, bypass threshold). *)
From Coq Require Import Arith List.
From CJ Require Import Common.Base C16.Model.
Import ListNotations.

(* Write on the association: a message longer than [wmax] is refused with nothing written
   (pion: ErrOutboundPacketTooLarge), every other one is reported fully written and is sent
   as ONE message. *)
Definition wr_accepts (wmax : nat) (m : bytes) : bool := (length m <=? wmax)%nat.
Definition wr_result (wmax : nat) (m : bytes) : nat := if wr_accepts wmax m then length m else 0%nat.
Definition wr_sent (wmax : nat) (ms : list bytes) : mscript :=
  map (fun m => (m, None)) (filter (wr_accepts wmax) ms).
Definition wr_reported (wmax : nat) (ms : list bytes) : bytes := concat (filter (wr_accepts wmax) ms).

(* a pair: writer with limit [wmax], reader built with buffer size [rbuf], reading with [sizes] *)
Definition pair_reads (wmax rbuf : nat) (eos : err) (ms : list bytes) (sizes : list nat) :=
  reads rbuf eos sizes rinit (wr_sent wmax ms).

(* lossless, in the words of the property: what the reads return (data and errors, in order)
   followed by what is still owed is everything Write reported as written, then only end of stream *)
Definition pair_lossless (wmax rbuf : nat) (eos : err) (ms : list bytes) (sizes : list nat) : Prop :=
  let '(res, st', rest) := pair_reads wmax rbuf eos ms sizes in
  exists k, flat res ++ pend st' ++ flat rest = map EvB (wr_reported wmax ms) ++ repeat (EvE eos) k.

