(* C16 (ii): the heartbeat filter, the receive queue and the watchdog. *)
From CJ Require Import Common.Base Common.BaseProofs C16.Model C16.ProofsRead.
From Coq Require Import Lia.

Local Open Scope nat_scope.

Lemma bytes_eqb_false a b : bytes_eqb a b = false -> a <> b.
Proof. intros H E. apply bytes_eqb_eq in E. congruence. Qed.

Lemma hb_filter_fits mx hb raw : fits mx (hb_filter mx hb raw).
Proof.
  unfold fits. induction raw as [|[d e] r IH]; cbn.
  - repeat constructor. cbn. lia.
  - destruct (Nat.leb_spec (length d) mx).
    + destruct (bytes_eqb hb d); [assumption|]. destruct e; repeat constructor; auto.
    + repeat constructor. cbn. lia.
Qed.

Lemma hb_filter_no_hb mx hb raw :
  hb <> [] -> Forall (fun m => fst m <> hb) (hb_filter mx hb raw).
Proof.
  intros Hne. induction raw as [|[d e] r IH]; cbn.
  - repeat constructor. cbn. congruence.
  - destruct (length d <=? mx).
    + destruct (bytes_eqb hb d) eqn:Hb; [assumption|]. apply bytes_eqb_false in Hb.
      destruct e; repeat constructor; cbn; auto.
    + repeat constructor. cbn. congruence.
Qed.

Lemma has_err_cons_none d f : has_err ((d, None) :: f) = has_err f.
Proof. reflexivity. Qed.

Lemma hb_filter_spec mx hb raw : fits mx raw -> hb_filter mx hb raw = delivered hb raw.
Proof.
  unfold delivered. induction raw as [|[d e] r IH]; intros Hf; [reflexivity|].
  inversion Hf as [|? ? Hd Hr]; subst. cbn in Hd. specialize (IH Hr).
  cbn [hb_filter filter]. destruct (Nat.leb_spec (length d) mx); [|lia].
  replace (not_hb hb (d, e)) with (negb (bytes_eqb hb d)) by reflexivity.
  destruct (bytes_eqb hb d); cbn [negb]; [exact IH|].
  destruct e as [x|].
  - reflexivity.
  - rewrite has_err_cons_none. cbn [upto_err]. rewrite IH.
    destruct (has_err (filter (not_hb hb) r)); reflexivity.
Qed.

Lemma filter_id {A} (p : A -> bool) l : Forall (fun x => p x = true) l -> filter p l = l.
Proof. induction 1; cbn; [reflexivity|]. rewrite H. now f_equal. Qed.

Lemma delivered_clean hb raw :
  Forall (fun m => fst m <> hb) raw ->
  delivered hb raw = if has_err raw then upto_err raw else raw ++ [([], Some E_EOS)].
Proof.
  intros H. unfold delivered. rewrite filter_id; [reflexivity|].
  eapply Forall_impl; [|exact H]. intros m Hm. unfold not_hb.
  destruct (bytes_eqb hb (fst m)) eqn:E; [|reflexivity].
  apply bytes_eqb_eq in E. congruence.
Qed.

(* the server side as a whole: SCTPConn.Read over hbConn *)
Theorem server_read_lossless mx hb raw sizes res st' rest :
  server_reads mx hb sizes raw = (res, st', rest) ->
  exists k, flat res ++ pend st' ++ flat rest = flat (hb_filter mx hb raw) ++ repeat (EvE E_CLOSED) k.
Proof. intros H. eapply read_lossless; [apply hb_filter_fits|exact H]. Qed.

Theorem server_read_concat mx hb raw sizes res st' rest :
  fits mx raw -> Forall (fun m => fst m <> hb) raw ->
  server_reads mx hb sizes raw = (res, st', rest) ->
  exists k, flat res ++ pend st' ++ flat rest =
            flat (if has_err raw then upto_err raw else raw ++ [([], Some E_EOS)])
            ++ repeat (EvE E_CLOSED) k.
Proof.
  intros Hf Hn H. destruct (server_read_lossless _ _ _ _ _ _ _ H) as [k Hk].
  exists k. rewrite Hk, hb_filter_spec, delivered_clean by assumption. reflexivity.
Qed.

(* ---------------- the queue between recvLoop and Read ---------------- *)

Definition hb_inv (mx : nat) (hb : bytes) (raw0 : mscript) (st : hbst) (got : list msg) : Prop :=
  hclosed st = negb (hloop st) /\
  exists F, got ++ hq st ++ F = hb_filter mx hb raw0 /\
            (hloop st = true -> F = hb_filter mx hb (hraw st)).

Lemma hb_inv_init mx hb raw : hb_inv mx hb raw (hb_init raw) [].
Proof. split; [reflexivity|]. exists (hb_filter mx hb raw). split; [reflexivity|]. intros _. reflexivity. Qed.

Definition got1 (o : hbout) : list msg := match o with HGot m => [m] | _ => [] end.

Lemma hb_step_inv mx hb raw0 st got op st' o :
  hb_inv mx hb raw0 st got -> hb_step mx hb st op = (st', o) ->
  hb_inv mx hb raw0 st' (got ++ got1 o).
Proof.
  unfold hb_inv. intros (Hc & F & HF & HL) Hs. destruct st as [raw q cl lp w].
  cbn [hclosed hloop hq hraw] in *.
  assert (Hsame : cl = negb lp /\ exists F0, (got ++ []) ++ q ++ F0 = hb_filter mx hb raw0 /\
                                   (lp = true -> F0 = hb_filter mx hb raw)).
  { split; [assumption|]. exists F. rewrite app_nil_r. auto. }
  destruct op; unfold hb_step in Hs; cbn [hloop hq hraw hclosed hwaiting] in Hs.
  - (* HRecv *)
    destruct lp; cbn [negb] in Hs.
    2:{ injection Hs as <- <-. exact Hsame. }
    specialize (HL eq_refl).
    destruct (recvChBufSize <=? length q).
    { injection Hs as <- <-. exact Hsame. }
    destruct raw as [|[d e] r].
    + injection Hs as <- <-. cbn [got1 hclosed hloop hq hraw]. split; [reflexivity|].
      exists []. split; [|discriminate]. rewrite <- HF, HL. cbn [hb_filter].
      now rewrite !app_nil_r.
    + cbn [hb_filter] in HL. destruct (length d <=? mx).
      * destruct (bytes_eqb hb d).
        { injection Hs as <- <-. cbn [got1 hclosed hloop hq hraw]. split; [assumption|].
          exists F. rewrite app_nil_r. auto. }
        destruct e as [x|]; injection Hs as <- <-; cbn [got1 hclosed hloop hq hraw]; rewrite app_nil_r.
        { split; [reflexivity|]. exists []. split; [|discriminate]. rewrite <- HF, HL. now rewrite app_nil_r. }
        { split; [assumption|]. exists (hb_filter mx hb r). split; [|auto]. rewrite <- HF, HL.
          now rewrite <- !app_assoc. }
      * injection Hs as <- <-; cbn [got1 hclosed hloop hq hraw]; rewrite app_nil_r.
        split; [reflexivity|]. exists []. split; [|discriminate]. rewrite <- HF, HL. now rewrite app_nil_r.
  - (* HRead *)
    destruct q as [|m q].
    + destruct cl; injection Hs as <- <-; exact Hsame.
    + injection Hs as <- <-. cbn [got1 hclosed hloop hq hraw]. split; [assumption|]. exists F. split; [|auto].
      rewrite <- HF. now rewrite <- app_assoc.
  - (* HClose *)
    injection Hs as <- <-. cbn [got1 hclosed hloop hq hraw]. rewrite app_nil_r. split; [reflexivity|].
    exists F. split; [assumption|discriminate].
  - (* HQueueTimeout *)
    destruct (lp && (recvChBufSize <=? length q)); injection Hs as <- <-; [|exact Hsame].
    cbn [got1 hclosed hloop hq hraw]. rewrite app_nil_r.
    split; [reflexivity|]. exists F. split; [assumption|discriminate].
Qed.

Lemma got_msgs_cons o os : got_msgs (o :: os) = got1 o ++ got_msgs os.
Proof. reflexivity. Qed.

Lemma hb_run_inv mx hb raw0 ops : forall st got st' os,
  hb_inv mx hb raw0 st got -> hb_run mx hb st ops = (st', os) ->
  hb_inv mx hb raw0 st' (got ++ got_msgs os).
Proof.
  induction ops as [|op ops IH]; intros st got st' os Hi Hr; cbn in Hr.
  - inversion Hr; subst. cbn. now rewrite app_nil_r.
  - destruct (hb_step mx hb st op) as [st1 o] eqn:H1.
    destruct (hb_run mx hb st1 ops) as [st2 os2] eqn:H2. inversion Hr; subst.
    rewrite got_msgs_cons, app_assoc. eapply IH; [|exact H2]. eapply hb_step_inv; eauto.
Qed.

(* For every interleaving of recvLoop steps, Reads and closes: what Read has
   returned so far, followed by the queue, is a prefix of the filtered stream. *)
Theorem hb_queue_prefix mx hb raw ops st' os :
  hb_run mx hb (hb_init raw) ops = (st', os) ->
  exists F, got_msgs os ++ hq st' ++ F = hb_filter mx hb raw.
Proof.
  intros H. destruct (hb_run_inv _ _ _ _ _ _ _ _ (hb_inv_init mx hb raw) H) as (_ & F & HF & _).
  exists F. exact HF.
Qed.

Theorem hb_never_surfaces_lts mx hb raw ops st' os :
  hb <> [] -> hb_run mx hb (hb_init raw) ops = (st', os) ->
  Forall (fun m => fst m <> hb) (got_msgs os).
Proof.
  intros Hne H. destruct (hb_queue_prefix _ _ _ _ _ _ H) as [F HF].
  pose proof (hb_filter_no_hb mx hb raw Hne) as Hall. rewrite <- HF in Hall.
  apply Forall_app in Hall. tauto.
Qed.

(* net.ErrClosed is reported only when the queue is empty and recvLoop has
   ended, and from then on no message is ever returned *)
Lemma hb_closed_final mx hb ops : forall st st' os,
  hq st = [] -> hloop st = false -> hb_run mx hb st ops = (st', os) ->
  got_msgs os = [] /\ hq st' = [] /\ hloop st' = false.
Proof.
  induction ops as [|op ops IH]; intros st st' os Hq Hl Hr; cbn in Hr.
  - inversion Hr; subst. auto.
  - destruct (hb_step mx hb st op) as [st1 o] eqn:H1.
    destruct (hb_run mx hb st1 ops) as [st2 os2] eqn:H2. inversion Hr; subst.
    assert (got1 o = [] /\ hq st1 = [] /\ hloop st1 = false) as (Hg & Hq1 & Hl1).
    { destruct st as [raw q cl lp w]. cbn in Hq, Hl. subst.
      destruct op; unfold hb_step in H1; cbn [hloop hq hraw hclosed hwaiting negb andb] in H1.
      - inversion H1; subst. auto.
      - destruct cl; inversion H1; subst; auto.
      - inversion H1; subst. auto.
      - inversion H1; subst. auto. }
    destruct (IH _ _ _ Hq1 Hl1 H2) as (Hg2 & ? & ?).
    rewrite got_msgs_cons, Hg, Hg2. auto.
Qed.

Lemma hb_run_app mx hb a : forall st b,
  hb_run mx hb st (a ++ b) =
  let '(s1, o1) := hb_run mx hb st a in let '(s2, o2) := hb_run mx hb s1 b in (s2, o1 ++ o2).
Proof.
  induction a as [|op a IH]; intros st b.
  - cbn [app hb_run]. destruct (hb_run mx hb st b); reflexivity.
  - change ((op :: a) ++ b) with (op :: (a ++ b)).
    change (hb_run mx hb st (op :: a ++ b)) with
      (let '(st1, o) := hb_step mx hb st op in
       let '(st2, os) := hb_run mx hb st1 (a ++ b) in (st2, o :: os)).
    change (hb_run mx hb st (op :: a)) with
      (let '(st1, o) := hb_step mx hb st op in
       let '(st2, os) := hb_run mx hb st1 a in (st2, o :: os)).
    destruct (hb_step mx hb st op) as [st1 o]. rewrite IH.
    destruct (hb_run mx hb st1 a) as [s1 o1]. destruct (hb_run mx hb s1 b) as [s2 o2]. reflexivity.
Qed.

Theorem hb_errclosed_after_drain mx hb raw ops1 st1 os1 ops2 st2 os2 :
  hb_run mx hb (hb_init raw) (ops1 ++ [HRead]) = (st1, os1) ->
  last os1 HNone = HErrClosed ->
  hb_run mx hb st1 ops2 = (st2, os2) ->
  hq st1 = [] /\ got_msgs os2 = [].
Proof.
  intros H1 Hl H2. rewrite hb_run_app in H1.
  destruct (hb_run mx hb (hb_init raw) ops1) as [sm om] eqn:Ha.
  change (hb_run mx hb sm [HRead]) with
    (let '(s, o) := hb_step mx hb sm HRead in (s, [o])) in H1.
  destruct (hb_step mx hb sm HRead) as [s o] eqn:Hb. injection H1 as <- <-.
  rewrite last_last in Hl. subst o.
  pose proof (hb_run_inv _ _ _ _ _ _ _ _ (hb_inv_init mx hb raw) Ha) as (Hc & _).
  destruct sm as [rw q cl lp w]. unfold hb_step in Hb. cbn [hloop hq hraw hclosed hwaiting] in Hb, Hc.
  destruct q; [|inversion Hb].
  destruct cl; inversion Hb; subst.
  assert (lp = false) by (destruct lp; [discriminate|reflexivity]). subst.
  split; [reflexivity|]. eapply hb_closed_final; [| |exact H2]; reflexivity.
Qed.

(* ---------------- the watchdog ---------------- *)

Lemma wstep_closed st e : wclosed st = true -> wstep st e = st.
Proof. intros H. unfold wstep. now rewrite H. Qed.

Lemma wrun_closed t : forall st, wclosed st = true -> wclosed (wrun st t) = true.
Proof.
  induction t as [|e t IH]; intros st H; cbn; [assumption|].
  rewrite wstep_closed by assumption. now apply IH.
Qed.

(* no heartbeat while the loop checks, resets, sleeps a full interval and
   checks again (at most three loop actions from any state): closed *)
Theorem silent_peer_closed st t :
  no_hb t -> 3 <= length t -> wclosed (wrun st t) = true.
Proof.
  intros Hn Hl. destruct t as [|e1 [|e2 [|e3 t]]]; cbn in Hl; try lia.
  inversion Hn as [|? ? -> Hn1]; subst. inversion Hn1 as [|? ? -> Hn2]; subst.
  inversion Hn2 as [|? ? -> _]; subst.
  cbn [wrun fold_left]. apply wrun_closed.
  destruct st as [w ph cl]. destruct cl; [reflexivity|].
  destruct ph.
  - unfold wstep at 3. cbn [wclosed wphase_ wwaiting]. destruct (Nat.eqb_spec w 0).
    + reflexivity.
    + reflexivity.
  - reflexivity.
Qed.

Lemma wrun_app st a b : wrun st (a ++ b) = wrun (wrun st a) b.
Proof. unfold wrun. apply fold_left_app. Qed.

Lemma wrun_hbs h : forall st, all_hb h -> wclosed st = false ->
  wrun st h = mkW (length h + wwaiting st) (wphase_ st) false.
Proof.
  induction h as [|e h IH]; intros st Ha Hc.
  - destruct st; cbn in *. now subst.
  - inversion Ha as [|? ? -> Ha']; subst. cbn [wrun fold_left]. fold (wrun (wstep st WHb) h).
    rewrite IH; [|assumption|unfold wstep; rewrite Hc; reflexivity].
    unfold wstep. rewrite Hc. cbn. f_equal. lia.
Qed.

Definition wgood (st : wst) : Prop := wclosed st = false /\ wphase_ st = WCheck /\ 0 < wwaiting st.

Lemma live_round_good st h1 h2 :
  wgood st -> all_hb h1 -> all_hb h2 -> h2 <> [] ->
  wgood (wrun st (WLoop :: h1 ++ WLoop :: h2)).
Proof.
  intros (Hc & Hp & Hw) H1 H2 Hne. destruct st as [w ph cl]. cbn in Hc, Hp, Hw. subst.
  cbn [wrun fold_left]. fold (wrun (wstep (mkW w WCheck false) WLoop) (h1 ++ WLoop :: h2)).
  unfold wstep at 1. cbn [wclosed wphase_ wwaiting]. destruct (Nat.eqb_spec w 0); [lia|].
  rewrite wrun_app. rewrite (wrun_hbs h1) by (try assumption; reflexivity). cbn [wwaiting wphase_ wclosed].
  cbn [wrun fold_left]. fold (wrun (wstep (mkW (length h1 + w) WReset false) WLoop) h2).
  unfold wstep at 1. cbn [wclosed wphase_ wwaiting].
  rewrite (wrun_hbs h2) by (try assumption; reflexivity). cbn [wwaiting wphase_ wclosed]. unfold wgood. cbn.
  destruct h2; [congruence|]. cbn. repeat split. lia.
Qed.

Lemma live_trace_good t : live_trace t -> forall st, wgood st -> wgood (wrun st t).
Proof.
  induction 1 as [|h1 h2 t H1 H2 Hne Ht IH]; intros st Hg; [exact Hg|].
  replace (WLoop :: h1 ++ WLoop :: h2 ++ t) with ((WLoop :: h1 ++ WLoop :: h2) ++ t)
    by (cbn; now rewrite <- app_assoc).
  rewrite wrun_app. apply IH. now apply live_round_good.
Qed.

(* a peer whose heartbeats reach every sleep of the loop is never closed, at any
   point of the trace *)
Theorem live_peer_kept_open t t' : live_trace (t ++ t') -> wclosed (wrun winit t) = false.
Proof.
  intros H. destruct (wclosed (wrun winit t)) eqn:E; [|reflexivity].
  assert (wgood (wrun winit (t ++ t'))) as (Hc & _).
  { apply live_trace_good; [assumption|]. unfold wgood, winit. cbn. repeat split. lia. }
  rewrite wrun_app in Hc. rewrite (wrun_closed t' _ E) in Hc. discriminate.
Qed.
