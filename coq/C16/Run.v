(* C16: evaluation of the models on recorded cases (correspondence check). *)
From CJ Require Import Common.Base C16.Model.

Definition oerr_eqb (a b : option N) : bool := option_eqb N.eqb a b.

Definition mk_script (raw : list (bspec * option N)) : mscript :=
  map (fun m => (bspec_val (fst m), snd m)) raw.

Fixpoint rres_match (model : list rres) (obs : list (bspec * option N)) : bool :=
  match model, obs with
  | [], [] => true
  | (d, e) :: m', (od, oe) :: o' => bspec_matches od d && oerr_eqb e oe && rres_match m' o'
  | _, _ => false
  end.

Inductive case :=
| CRead (server : bool) (mx : N) (hb : bytes) (raw : list (bspec * option N)) (sizes : list N)
        (obs : list (bspec * option N)).

Definition chk (c : case) : bool :=
  match c with
  | CRead server mx hb raw sizes obs =>
      let s := mk_script raw in
      let sz := map N.to_nat sizes in
      let '(res, _, _) := if server then server_reads (N.to_nat mx) hb sz s
                          else client_reads (N.to_nat mx) sz s in
      rres_match res obs
  end.
