(* C16: evaluation of the models on recorded cases (correspondence check). *)
From CJ Require Import Common.Base C16.Model C16.ModelMw C16.ModelMax C16.Concrete.

Definition oerr_eqb (a b : option N) : bool := option_eqb N.eqb a b.

Definition mk_script (raw : list (bspec * option N)) : mscript :=
  map (fun m => (bspec_val (fst m), snd m)) raw.

Fixpoint rres_match (model : list rres) (obs : list (bspec * option N)) : bool :=
  match model, obs with
  | [], [] => true
  | (d, e) :: m', (od, oe) :: o' => bspec_matches od d && oerr_eqb e oe && rres_match m' o'
  | _, _ => false
  end.

(* ---------------- flow control: driver ops -> model steps ---------------- *)
(* op codes: 0 W n, 1 D n, 2 X n, 3 G, 4 C *)
Definition fc_norm (st : fcst) : fcst * fcout :=
  let '(s1, _) := fc_step st FTake in fc_step s1 FAbort.
Definition first_ret (a b : fcout) : fcout := match a with FRet _ _ => a | FNone => b end.
Definition fc_drv_step (st : fcst) (op : N * N) : fcst * fcout :=
  let '(code, n) := op in
  let '(s1, o1) := match code with
                   | 0 => fc_step st (FStart n)
                   | 1 => fc_step st (FDrain n)
                   | 2 => fc_step st (FForeign n)
                   | 3 => fc_step st FDo
                   | _ => fc_step st FCloseOp
                   end in
  let '(s2, o2) := fc_norm s1 in (s2, first_ret o1 o2).
Definition fwriter_code (w : fwriter) : N := match w with FIdle => 0 | FWait _ => 1 | FGo _ => 2 end.
Definition fcobs := (N * bool * N * option (N * option N))%type.
Definition fc_obs_of (st : fcst) (o : fcout) : fcobs :=
  (fbuf st, ftoken st, fwriter_code (fwr st), match o with FRet n e => Some (n, e) | FNone => None end).
Definition fcobs_eqb (a b : fcobs) : bool :=
  let '(a1, a2, a3, a4) := a in let '(b1, b2, b3, b4) := b in
  (a1 =? b1) && Bool.eqb a2 b2 && (a3 =? b3) &&
  option_eqb (fun x y => (fst x =? fst y) && oerr_eqb (snd x) (snd y)) a4 b4.
Fixpoint fc_drv (st : fcst) (ops : list (N * N)) (obs : list fcobs) : bool :=
  match ops, obs with
  | [], [] => true
  | op :: r, ob :: r' => let '(s1, o) := fc_drv_step st op in fcobs_eqb (fc_obs_of s1 o) ob && fc_drv s1 r r'
  | _, _ => false
  end.

(* ---------------- several writers on one connection: is the observed event order one the LTS allows? ---------------- *)
(* The driver's stream stand-in makes BufferedAmount() and Write() schedule points: a call ARRIVES (and is held),
   later it is RELEASED (answered / performed).  Taking the mutex, taking the token and seeing closed are not
   visible by themselves; they are implied by what arrives:
     EArrBA t        the writer got the mutex                      (MLockOp)
     ERelBA t v      the test ran on the amount v                  (MCheck; v must be the model's amount)
     EArrW t n       the writer is past the test / took the token  (MTake if it was waiting)
     ERelW t         the stream took the bytes                     (MDo)
     ERet t k e      Write returned                                (MAbort?, MUnlock, MRet)
     EQuiet ...      every writer is at rest: the model must have no enabled hidden step left, and agrees on
                     which writers are parked inside Write, on the buffered amount and on the token *)
Inductive mwev :=
| EStart (t : nat) (n : N)
| EArrBA (t : nat)
| ERelBA (t : nat) (v : N)
| EArrW (t : nat) (n : N)
| ERelW (t : nat)
| ERet (t : nat) (k : N) (e : option N)
| EDrain (d : N)
| EForeign (k : N)
| EClose
| EQuiet (parked : list bool) (buf : N) (token : bool).

Definition mem_nat (t : nat) (l : list nat) : bool := existsb (Nat.eqb t) l.
Definition rem_nat (t : nat) (l : list nat) : list nat := filter (fun u => negb (Nat.eqb t u)) l.

Fixpoint quiet_ok (st : mwst) (arr : list nat) (t : nat) (parked : list bool) : bool :=
  match parked with
  | [] => true
  | p :: r =>
      (match mpcs st t with
       | MIdle => negb p
       | MLock _ => p && match mlock st with Some _ => true | None => false end
       | MChk _ => negb p
       | MSel _ => p && negb (mtoken st) && negb (mclosed st)
       | MGo _ => negb p && mem_nat t arr
       | MUnl _ _ | MDone _ _ => false
       end) && quiet_ok st arr (S t) r
  end.

Definition mw_ev (s : mwst * list nat) (e : mwev) : option (mwst * list nat) :=
  let '(st, arr) := s in
  let stp := mw_step VLocked st in
  match e with
  | EStart t n => match mpcs st t with MIdle => Some (stp (MStart t n), arr) | _ => None end
  | EArrBA t => match mpcs st t, mlock st with MLock _, None => Some (stp (MLockOp t), arr) | _, _ => None end
  | ERelBA t v => match mpcs st t with
                  | MChk _ => if v =? mbuf st then Some (stp (MCheck t), arr) else None
                  | _ => None
                  end
  | EArrW t n => match mpcs st t with
                 | MGo m => if (m =? n) && negb (mem_nat t arr) then Some (st, t :: arr) else None
                 | MSel m => if (m =? n) && mtoken st then Some (stp (MTake t), t :: arr) else None
                 | _ => None
                 end
  | ERelW t => match mpcs st t with
               | MGo _ => if mem_nat t arr then Some (stp (MDo t), rem_nat t arr) else None
               | _ => None
               end
  | ERet t k e =>
      match mpcs st t with
      | MUnl k' e' => if (k =? k') && oerr_eqb e e' then Some (mw_run VLocked st [MUnlock t; MRet t], arr) else None
      | MDone k' e' => if (k =? k') && oerr_eqb e e' then Some (stp (MRet t), arr) else None
      | MSel _ => if mclosed st && (k =? 0) && oerr_eqb e (Some E_WCLOSED)
                  then Some (mw_run VLocked st [MAbort t; MUnlock t; MRet t], arr) else None
      | _ => None
      end
  | EDrain d => Some (stp (MDrain d), arr)
  | EForeign k => Some (stp (MForeign k), arr)
  | EClose => Some (stp MClose, arr)
  | EQuiet parked buf token =>
      if (mbuf st =? buf) && Bool.eqb (mtoken st) token && quiet_ok st arr 0 parked then Some s else None
  end.

Fixpoint mw_accepts (s : mwst * list nat) (evs : list mwev) : bool :=
  match evs with
  | [] => true
  | e :: r => match mw_ev s e with Some s' => mw_accepts s' r | None => false end
  end.

(* ---------------- hbConn queue under a schedule ---------------- *)
(* The driver's ops on the real hbConn, expressed in the steps of the refined model
   (h2_step, fast and drain both present = the fixed code):
   0 'r' = one permit for recvLoop (read one message, push or hold it, Close if it carried an error),
   1 'R' = let the reader run until it returns or parks (a parked reader is completed by a later push/close),
   2 'T' = the interval elapses while recvLoop waits for room.
   observed per op: kind 0 none / 1 blocked / 2 got / 3 ErrClosed *)
Section HbqRun.
  Variable mx : nat.
  Variable hb : bytes.
  Definition h2s := h2_step mx hb true true.
  (* recvLoop closes as soon as it has pushed a message that came with an error *)
  Definition h2norm (st : h2st) : h2st :=
    match h2loop st with LClosing => fst (h2s st OLoop) | _ => st end.
  Definition hbq_op (st : h2st) (op : N) : h2st * h2out :=
    match op with
    | 0 => (h2norm (fst (h2s st OLoop)), ONone)
    | 1 =>
        match h2rd st with
        | RIdle =>
            let '(s1, o) := h2s st ORStart in
            match o with
            | OGot _ => (h2norm s1, o)
            | _ => if h2closed s1 then let '(s2, _) := h2s s1 OREnterC in
                                        let '(s3, o3) := h2s s2 ORDrain in (h2norm s3, o3)
                   else (fst (h2s s1 OREnterPark), ONone)
            end
        | RParked => (st, ONone)
        | RHas _ => h2s st ORWake
        | RDrain => let '(s1, o) := h2s st ORDrain in (h2norm s1, o)
        | RSel => (st, ONone)
        end
    | _ => (fst (h2s st OTimeout), ONone)
    end.
  Fixpoint hbq_run (st : h2st) (ops : list N) (obs : list (N * bspec * option N)) : bool :=
    match ops, obs with
    | [], [] => true
    | op :: ops', (k, d, e) :: obs' =>
        let '(s1, o) := hbq_op st op in
        (if op =? 1 then
           match o with
           | ONone => k =? 1
           | OGot (md, me) => (k =? 2) && bspec_matches d md && oerr_eqb me e
           | OErrClosed => k =? 3
           end
         else true) && hbq_run s1 ops' obs'
    | _, _ => false
    end.
End HbqRun.

(* ---------------- watchdog ---------------- *)
(* hbs k = number of heartbeats that arrive during the k-th sleep of the loop;
   the result is the index (from 1) of the wake-up at which the loop closes, 0 if it never does *)
Fixpoint wd_close (st : wst) (hbs : list nat) (tick : N) : N :=
  match hbs with
  | [] => 0
  | n :: r =>
      let st1 := wrun st (repeat WHb n ++ [WLoop]) in      (* heartbeats, then the check *)
      if wclosed st1 then tick else wd_close (wstep st1 WLoop) r (tick + 1)
  end.
Definition wd_model (hbs : list nat) : N := wd_close (wrun winit [WLoop; WLoop]) hbs 1.

(* ---------------- listener registry ---------------- *)
(* op codes: 0 start, 1 cancel, 2 astep, 3 arecv, 4 acancelled, 5 cstep, 6 csend, 7 ctimeout *)
Section RegRun.
  Variable asecl csecl : list N.
  Variable areal : list bool.
  Variable nsec : nat.
  Definition asecs (a : nat) : N := nth a asecl 0.
  Definition csecs (c : nat) : N := nth c csecl 0.
  Definition is_real (a : nat) : bool := nth a areal false.
  Definition hrid (s : N) : N := s.
  Definition st1 (g : lcfg) (op : lop) : lcfg := lstep hrid asecs csecs g op.

  Definition apc_code (p : apc_t) : N :=
    match p with A0 => 0 | A1 => 1 | A2 => 2 | A3 => 3 | A4 => 4 | ADone => 5 end.
  (* shifted by one so that "none" fits in N *)
  Definition ares_code (r : ares_t) : N :=
    match r with RNone => 0 | RGot c => 101 + N.of_nat c | RErrDup => 2 | RErrChan => 3 | RCancelled => 4 end.

  (* real acceptors run to completion as soon as they can *)
  Definition settle1 (g : lcfg) (a : nat) : lcfg :=
    if is_real a then
      match apc (acc g a) with
      | A2 | A3 | A4 => st1 (st1 (st1 (st1 g (LRecv a)) (LCancelled a)) (LA a)) (LA a)
      | _ => g
      end
    else g.
  Definition settle (g : lcfg) : lcfg := fold_left settle1 (seq 0 (length asecl)) g.

  Definition count_some (f : N -> option nat) : N :=
    N.of_nat (length (filter (fun i => match f (N.of_nat i) with Some _ => true | None => false end) (seq 0 nsec))).

  (* returns the new configuration and the op's result code (shifted by one) *)
  Definition reg_drv_step (g : lcfg) (op : N * nat) : lcfg * N :=
    let '(code, t) := op in
    match code with
    | 0 => if is_real t && (apc_code (apc (acc g t)) =? 0)
           then (settle (st1 (st1 g (LA t)) (LA t)), 1) else (g, 1)
    | 1 => if is_real t
           then match apc (acc g t) with
                | A0 | ADone => (g, 1)
                | _ => (settle (st1 g (LCancel t)), 1)
                end
           else (st1 g (LCancel t), 1)
    | 2 => if is_real t then (g, 1)
           else let g' := st1 g (LA t) in (g', 1 + apc_code (apc (acc g' t)))
    | 3 => if is_real t then (g, 1)
           else match apc (acc g t) with
                | A2 => let g' := st1 g (LRecv t) in (g', 1 + apc_code (apc (acc g' t)))
                | _ => (g, 1)
                end
    | 4 => if is_real t then (g, 1)
           else match apc (acc g t) with
                | A2 => if acancel (acc g t) then (st1 g (LCancelled t), 4) else (g, 1)
                | _ => (g, 1)
                end
    | 5 => let g' := st1 g (LC t) in
           match cpc (cns g t) with
           | C0 => (g', match cserver (cns g' t) with Some s => 1 + s | None => 0 end)
           | C1 => (g', match cpc (cns g' t) with C2 => 2 | _ => 1 end)
           | C2 => (g', match cpc (cns g' t) with C3 => 2 | _ => 1 end)
           | _ => (g, 1)
           end
    | 6 => let g' := st1 g (LSend t) in
           match cpc (cns g t), cpc (cns g' t) with
           | C3, CSent => (settle g', 2)
           | _, _ => (g', 1)
           end
    | _ => (st1 g (LTimeout t), 1)
    end.

  Definition regobs := (N * N * N)%type.
  Fixpoint reg_drv (g : lcfg) (ops : list (N * nat)) (obs : list regobs) : option lcfg :=
    match ops, obs with
    | [], [] => Some g
    | op :: r, (orr, oc, oh) :: r' =>
        let '(g', rr) := reg_drv_step g op in
        if (rr =? orr) && (count_some (certs g') =? oc) && (count_some (chans g') =? oh)
        then reg_drv g' r r' else None
    | _, _ => None
    end.

  Fixpoint final_match (g : lcfg) (a : nat) (ares_obs apc_obs : list N) : bool :=
    match ares_obs, apc_obs with
    | [], [] => true
    | r :: rs, p :: ps =>
        (ares_code (ares (acc g a)) =? r) && (apc_code (apc (acc g a)) =? p) && final_match g (S a) rs ps
    | _, _ => false
    end.
End RegRun.

(* ---------------- key material ---------------- *)
Definition mat_hkdf (sh sc : bytes) : bytes -> bytes -> nat -> bytes :=
  fun _ info n => firstn n (if bytes_eqb info label_hello then sh else sc).
Definition cm_eqb (a : certmat) (d serial : N) (cn : bytes) : bool :=
  (cm_d a =? d) && (cm_serial a =? serial) && bytes_eqb (cm_cn a) cn.

Fixpoint nlist_eqb (a b : list N) : bool :=
  match a, b with
  | [], [] => true
  | x :: a', y :: b' => (x =? y) && nlist_eqb a' b'
  | _, _ => false
  end.

Inductive case :=
(* real pair: limits read from the constructed objects, what Write reported, reads before the close *)
| CRp (wmax rbuf : N) (msgs : list bspec) (wobs : list N) (sizes : list N) (obs : list (bspec * option N))
| CRead (server : bool) (mx : N) (hb : bytes) (raw : list (bspec * option N)) (sizes : list N)
        (obs : list (bspec * option N))
| CFc (ops : list (N * N)) (obs : list fcobs)
| CMw (evs : list mwev)
| CHbq (mx : N) (hb : bytes) (raw : list (bspec * option N)) (ops : list N) (obs : list (N * bspec * option N))
| CWd (hbs : list nat) (closed_tick : N)
| CReg (nsec : nat) (asecl : list N) (areal : list bool) (csecl : list N) (ops : list (N * nat))
       (obs : list regobs) (ares_obs apc_obs : list N)
| CMat (sh sc : bytes) (hello : bytes) (cd cserial : N) (ccn : bytes) (sd sserial : N) (scn : bytes)
(* from the secret alone, through the concrete SHA-256 / HMAC / HKDF of coq/C14 *)
| CMatS (secret : bytes) (hello : bytes) (cd cserial : N) (ccn : bytes) (sd sserial : N) (scn : bytes).

Definition chk (c : case) : bool :=
  match c with
  | CRp wmax rbuf msgs wobs sizes obs =>
      let ms := map bspec_val msgs in
      let '(res, _, _) := pair_reads (N.to_nat wmax) (N.to_nat rbuf) E_EOS ms (map N.to_nat sizes) in
      (wmax <=? rbuf) && nlist_eqb (map (fun m => N.of_nat (wr_result (N.to_nat wmax) m)) ms) wobs
      && rres_match res obs
  | CRead server mx hb raw sizes obs =>
      let s := mk_script raw in
      let sz := map N.to_nat sizes in
      let '(res, _, _) := if server then server_reads (N.to_nat mx) hb sz s
                          else client_reads (N.to_nat mx) sz s in
      rres_match res obs
  | CFc ops obs => fc_drv fc_init ops obs
  | CMw evs => mw_accepts (mw_init, []) evs
  | CHbq mx hb raw ops obs => hbq_run (N.to_nat mx) hb (h2_init (mk_script raw)) ops obs
  | CWd hbs tick => wd_model hbs =? tick
  | CReg nsec asecl areal csecl ops obs ares_obs apc_obs =>
      match reg_drv asecl csecl areal nsec linit ops obs with
      | Some g => final_match g 0 ares_obs apc_obs
      | None => false
      end
  | CMat sh sc hello cd cserial ccn sd sserial scn =>
      let h := mat_hkdf sh sc in
      bytes_eqb (hello_random h []) hello &&
      match certs_from_seed h [] with
      | Some (c1, c2) => cm_eqb c1 cd cserial ccn && cm_eqb c2 sd sserial scn
      | None => false
      end
  | CMatS secret hello cd cserial ccn sd sserial scn =>
      bytes_eqb (hello_random_conc secret) hello &&
      match certs_from_seed_conc secret with
      | Some (c1, c2) => cm_eqb c1 cd cserial ccn && cm_eqb c2 sd sserial scn
      | None => false
      end
  end.
