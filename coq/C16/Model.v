(* C16 — pkg/dtls: executable models (definitions only).

   (i)   SCTPConn.Read: the four-field read buffer over a scripted message stream
   (ii)  hbConn: recvLoop as a filter, the receive queue + closed flag as an LTS,
         hbLoop as an interval automaton
   (iii) SCTPConn.Write flow control against the stream's buffered amount
   (iv)  Listener: connToCert / connMap as an LTS over any number of acceptor
         and connection threads
   (v)   hello-random and certificate material derived from the secret        *)
From CJ Require Import Common.Base.

(* ------------------------------------------------------------------ *)
(* (i) SCTPConn.Read (sctpconn.go:138-176)                             *)
(* ------------------------------------------------------------------ *)

Definition err := N.
Definition E_EOS    : err := 1.   (* the scripted stream has no further message *)
Definition E_CLOSED : err := 2.   (* net.ErrClosed reported by hbConn.Read *)
Definition E_SHORT  : err := 3.   (* message longer than the buffer offered to the stream *)
(* codes >= 10 are error classes chosen by the script *)

Definition msg := (bytes * option err)%type.
Definition mscript := list msg.

(* one Read on the message stream below SCTPConn with a buffer of [cap] bytes:
   the next message with its error, or the end-of-stream error [eos] *)
Definition sread (eos : err) (s : mscript) (cap : nat) : mscript * bytes * option err :=
  match s with
  | [] => ([], [], Some eos)
  | (m, e) :: r => if (length m <=? cap)%nat then (r, m, e) else (r, [], Some E_SHORT)
  end.

(* readBuffer[:readLength], readOffset, readErr *)
Record rst := mkR { rbuf : bytes; roff : nat; rerr : option err }.
Definition rinit : rst := mkR [] 0 None.

Definition sctp_read (mx : nat) (eos : err) (st : rst) (s : mscript) (n : nat)
  : rst * mscript * bytes * option err :=
  let full := (roff st =? length (rbuf st))%nat in
  if full && (mx <=? n)%nat then
    (* large caller buffer: bypass the intermediate buffer *)
    let '(s', d, e) := sread eos s n in (st, s', d, e)
  else
    let '(st1, s1) :=
      if full then let '(s', d, e) := sread eos s mx in (mkR d 0 e, s') else (st, s) in
    let out := firstn n (skipn (roff st1) (rbuf st1)) in
    let off := (roff st1 + length out)%nat in
    (mkR (rbuf st1) off (rerr st1), s1, out,
     if (off =? length (rbuf st1))%nat then rerr st1 else None).

Definition rres := (bytes * option err)%type.

Fixpoint reads (mx : nat) (eos : err) (sizes : list nat) (st : rst) (s : mscript)
  : list rres * rst * mscript :=
  match sizes with
  | [] => ([], st, s)
  | n :: r =>
      let '(st1, s1, o, e) := sctp_read mx eos st s n in
      let '(res, st2, s2) := reads mx eos r st1 s1 in
      ((o, e) :: res, st2, s2)
  end.

(* the ordered stream of bytes and errors that a script / a list of read results stands for *)
Inductive ev := EvB (b : byte) | EvE (e : err).
Definition flat1 (m : msg) : list ev :=
  map EvB (fst m) ++ match snd m with Some e => [EvE e] | None => [] end.
Definition flat (l : list msg) : list ev := flat_map flat1 l.
(* what the read buffer still owes the caller *)
Definition pend (st : rst) : list ev :=
  match skipn (roff st) (rbuf st) with
  | [] => []
  | rest => flat1 (rest, rerr st)
  end.
Definition rwf (st : rst) : Prop := (roff st <= length (rbuf st))%nat.

(* every message fits the maximum message size the connection was built with *)
Definition fits (mx : nat) (s : mscript) : Prop := Forall (fun m => (length (fst m) <= mx)%nat) s.
Definition evbytes (l : list ev) : bytes :=
  flat_map (fun e => match e with EvB b => [b] | EvE _ => [] end) l.
(* events still to be delivered, plus one unit per message still in the script *)
Definition remaining (st : rst) (s : mscript) : nat :=
  (length (pend st) + length (flat s) + length s)%nat.

(* the bytes a caller that stops at the first error has received, and that error *)
Fixpoint until_err (res : list rres) : bytes * option err :=
  match res with
  | [] => ([], None)
  | (o, Some e) :: _ => (o, Some e)
  | (o, None) :: r => let '(o2, e2) := until_err r in (o ++ o2, e2)
  end.

(* ------------------------------------------------------------------ *)
(* (ii) heartbeat server (heartbeat.go)                                *)
(* ------------------------------------------------------------------ *)

(* recvLoop as a function: what it queues for the reader, given everything the
   raw stream will deliver ([mx] is the size of its read buffer). A message
   equal to the heartbeat is counted and dropped together with its error; any
   other message is queued with its error, and an error ends the loop. *)
Fixpoint hb_filter (mx : nat) (hb : bytes) (raw : mscript) : mscript :=
  match raw with
  | [] => [([], Some E_EOS)]
  | (d, e) :: r =>
      if (length d <=? mx)%nat then
        if bytes_eqb hb d then hb_filter mx hb r
        else match e with
             | None => (d, None) :: hb_filter mx hb r
             | Some x => [(d, Some x)]
             end
      else [([], Some E_SHORT)]
  end.

(* number of heartbeats the loop counts while doing so *)
Fixpoint hb_count (mx : nat) (hb : bytes) (raw : mscript) : nat :=
  match raw with
  | [] => 0
  | (d, e) :: r =>
      if (length d <=? mx)%nat then
        if bytes_eqb hb d then S (hb_count mx hb r)
        else match e with None => hb_count mx hb r | Some _ => 0 end
      else 0
  end.

(* the server side of a session: SCTPConn over hbConn over the raw stream;
   the client side: SCTPConn directly over the raw stream *)
Definition server_reads (mx : nat) (hb : bytes) (sizes : list nat) (raw : mscript) :=
  reads mx E_CLOSED sizes rinit (hb_filter mx hb raw).
Definition client_reads (mx : nat) (sizes : list nat) (raw : mscript) :=
  reads mx E_EOS sizes rinit raw.

(* what the stream says up to and including its first error *)
Fixpoint upto_err (raw : mscript) : mscript :=
  match raw with
  | [] => []
  | (d, None) :: r => (d, None) :: upto_err r
  | (d, Some x) :: _ => [(d, Some x)]
  end.
Definition has_err (raw : mscript) : bool := existsb (fun m => match snd m with Some _ => true | None => false end) raw.

(* hbConn as a transition system: recvLoop (producer), Read (consumer), and a
   Close that may come from the watchdog / the queue-full timer at any moment.
   [hq] is recvCh, [hclosed] the closed channel, [hloop] whether recvLoop still runs. *)
Record hbst := mkH { hraw : mscript; hq : list msg; hclosed : bool; hloop : bool; hwaiting : nat }.
Definition hb_init (raw : mscript) : hbst := mkH raw [] false true 2.
Definition recvChBufSize : nat := 64.

Inductive hbop := HRecv | HRead | HClose | HQueueTimeout.
Inductive hbout := HNone | HBlocked | HGot (m : msg) | HErrClosed.

Definition hb_step (mx : nat) (hb : bytes) (st : hbst) (op : hbop) : hbst * hbout :=
  match op with
  | HRecv =>
      if negb (hloop st) then (st, HNone) else
      if (recvChBufSize <=? length (hq st))%nat then (st, HBlocked) else
      match hraw st with
      | [] => (mkH [] (hq st ++ [([], Some E_EOS)]) true false (hwaiting st), HNone)
      | (d, e) :: r =>
          if (length d <=? mx)%nat then
            if bytes_eqb hb d then (mkH r (hq st) (hclosed st) true (S (hwaiting st)), HNone)
            else match e with
                 | None => (mkH r (hq st ++ [(d, None)]) (hclosed st) true (hwaiting st), HNone)
                 | Some x => (mkH r (hq st ++ [(d, Some x)]) true false (hwaiting st), HNone)
                 end
          else (mkH r (hq st ++ [([], Some E_SHORT)]) true false (hwaiting st), HNone)
      end
  | HQueueTimeout =>
      (* the reader did not make room within the interval: recvLoop closes and returns *)
      if hloop st && (recvChBufSize <=? length (hq st))%nat
      then (mkH (hraw st) (hq st) true false (hwaiting st), HNone) else (st, HNone)
  | HClose => (mkH (hraw st) (hq st) true false (hwaiting st), HNone)
  | HRead =>
      match hq st with
      | m :: q => (mkH (hraw st) q (hclosed st) (hloop st) (hwaiting st), HGot m)
      | [] => if hclosed st then (st, HErrClosed) else (st, HBlocked)
      end
  end.

Fixpoint hb_run (mx : nat) (hb : bytes) (st : hbst) (ops : list hbop) : hbst * list hbout :=
  match ops with
  | [] => (st, [])
  | op :: r => let '(st1, o) := hb_step mx hb st op in
               let '(st2, os) := hb_run mx hb st1 r in (st2, o :: os)
  end.
Definition got_msgs (os : list hbout) : list msg :=
  flat_map (fun o => match o with HGot m => [m] | _ => [] end) os.

(* hbLoop: waiting is loaded and compared, then reset, then the loop sleeps for
   one interval; heartbeats increment it at any point in between. *)
Inductive wev := WHb | WLoop.
Inductive wphase := WCheck | WReset.
Record wst := mkW { wwaiting : nat; wphase_ : wphase; wclosed : bool }.
Definition winit : wst := mkW 2 WCheck false.
Definition wstep (st : wst) (e : wev) : wst :=
  if wclosed st then st else
  match e with
  | WHb => mkW (S (wwaiting st)) (wphase_ st) false
  | WLoop =>
      match wphase_ st with
      | WCheck => if (wwaiting st =? 0)%nat then mkW 0 WCheck true else mkW (wwaiting st) WReset false
      | WReset => mkW 0 WCheck false      (* store 0, then sleep one interval *)
      end
  end.
Definition wrun (st : wst) (t : list wev) : wst := fold_left wstep t st.
Definition no_hb (t : list wev) : Prop := Forall (fun e => e = WLoop) t.
