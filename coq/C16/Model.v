(* C16 — pkg/dtls: executable models (definitions only).

   (i)   SCTPConn.Read: the four-field read buffer over a scripted message stream
   (ii)  hbConn: recvLoop as a filter, the receive queue + closed flag as an LTS,
         hbLoop as an interval automaton
   (iii) SCTPConn.Write flow control against the stream's buffered amount
   (iv)  Listener: connToCert / connMap as an LTS over any number of acceptor
         and connection threads
   (v)   hello-random and certificate material derived from the secret        *)
From CJ Require Import Common.Base.

(* ------------------------------------------------------------------ *)
(* (i) SCTPConn.Read (sctpconn.go:138-176)                             *)
(* ------------------------------------------------------------------ *)

Definition err := N.
Definition E_EOS    : err := 1.   (* the scripted stream has no further message *)
Definition E_CLOSED : err := 2.   (* net.ErrClosed reported by hbConn.Read *)
Definition E_SHORT  : err := 3.   (* message longer than the buffer offered to the stream *)
(* codes >= 10 are error classes chosen by the script *)

Definition msg := (bytes * option err)%type.
Definition mscript := list msg.

(* one Read on the message stream below SCTPConn with a buffer of [cap] bytes:
   the next message with its error, or the end-of-stream error [eos] *)
Definition sread (eos : err) (s : mscript) (cap : nat) : mscript * bytes * option err :=
  match s with
  | [] => ([], [], Some eos)
  | (m, e) :: r => if (length m <=? cap)%nat then (r, m, e) else (r, [], Some E_SHORT)
  end.

(* readBuffer[:readLength], readOffset, readErr *)
Record rst := mkR { rbuf : bytes; roff : nat; rerr : option err }.
Definition rinit : rst := mkR [] 0 None.

Definition sctp_read (mx : nat) (eos : err) (st : rst) (s : mscript) (n : nat)
  : rst * mscript * bytes * option err :=
  let full := (roff st =? length (rbuf st))%nat in
  if full && (mx <=? n)%nat then
    (* large caller buffer: bypass the intermediate buffer *)
    let '(s', d, e) := sread eos s n in (st, s', d, e)
  else
    let '(st1, s1) :=
      if full then let '(s', d, e) := sread eos s mx in (mkR d 0 e, s') else (st, s) in
    let out := firstn n (skipn (roff st1) (rbuf st1)) in
    let off := (roff st1 + length out)%nat in
    (mkR (rbuf st1) off (rerr st1), s1, out,
     if (off =? length (rbuf st1))%nat then rerr st1 else None).

Definition rres := (bytes * option err)%type.

Fixpoint reads (mx : nat) (eos : err) (sizes : list nat) (st : rst) (s : mscript)
  : list rres * rst * mscript :=
  match sizes with
  | [] => ([], st, s)
  | n :: r =>
      let '(st1, s1, o, e) := sctp_read mx eos st s n in
      let '(res, st2, s2) := reads mx eos r st1 s1 in
      ((o, e) :: res, st2, s2)
  end.

(* the ordered stream of bytes and errors that a script / a list of read results stands for *)
Inductive ev := EvB (b : byte) | EvE (e : err).
Definition flat1 (m : msg) : list ev :=
  map EvB (fst m) ++ match snd m with Some e => [EvE e] | None => [] end.
Definition flat (l : list msg) : list ev := flat_map flat1 l.
(* what the read buffer still owes the caller *)
Definition pend (st : rst) : list ev :=
  match skipn (roff st) (rbuf st) with
  | [] => []
  | rest => flat1 (rest, rerr st)
  end.
Definition rwf (st : rst) : Prop := (roff st <= length (rbuf st))%nat.

(* every message fits the maximum message size the connection was built with *)
Definition fits (mx : nat) (s : mscript) : Prop := Forall (fun m => (length (fst m) <= mx)%nat) s.
Definition evbytes (l : list ev) : bytes :=
  flat_map (fun e => match e with EvB b => [b] | EvE _ => [] end) l.
(* events still to be delivered, plus one unit per message still in the script *)
Definition remaining (st : rst) (s : mscript) : nat :=
  (length (pend st) + length (flat s) + length s)%nat.

(* the bytes a caller that stops at the first error has received, and that error *)
Fixpoint until_err (res : list rres) : bytes * option err :=
  match res with
  | [] => ([], None)
  | (o, Some e) :: _ => (o, Some e)
  | (o, None) :: r => let '(o2, e2) := until_err r in (o ++ o2, e2)
  end.

(* ------------------------------------------------------------------ *)
(* (ii) heartbeat server (heartbeat.go)                                *)
(* ------------------------------------------------------------------ *)

(* recvLoop as a function: what it queues for the reader, given everything the
   raw stream will deliver ([mx] is the size of its read buffer). A message
   equal to the heartbeat is counted and dropped together with its error; any
   other message is queued with its error, and an error ends the loop. *)
Fixpoint hb_filter (mx : nat) (hb : bytes) (raw : mscript) : mscript :=
  match raw with
  | [] => [([], Some E_EOS)]
  | (d, e) :: r =>
      if (length d <=? mx)%nat then
        if bytes_eqb hb d then hb_filter mx hb r
        else match e with
             | None => (d, None) :: hb_filter mx hb r
             | Some x => [(d, Some x)]
             end
      else [([], Some E_SHORT)]
  end.

(* number of heartbeats the loop counts while doing so *)
Fixpoint hb_count (mx : nat) (hb : bytes) (raw : mscript) : nat :=
  match raw with
  | [] => 0
  | (d, e) :: r =>
      if (length d <=? mx)%nat then
        if bytes_eqb hb d then S (hb_count mx hb r)
        else match e with None => hb_count mx hb r | Some _ => 0 end
      else 0
  end.

(* the server side of a session: SCTPConn over hbConn over the raw stream;
   the client side: SCTPConn directly over the raw stream *)
Definition server_reads (mx : nat) (hb : bytes) (sizes : list nat) (raw : mscript) :=
  reads mx E_CLOSED sizes rinit (hb_filter mx hb raw).
Definition client_reads (mx : nat) (sizes : list nat) (raw : mscript) :=
  reads mx E_EOS sizes rinit raw.

(* what the stream says up to and including its first error *)
Fixpoint upto_err (raw : mscript) : mscript :=
  match raw with
  | [] => []
  | (d, None) :: r => (d, None) :: upto_err r
  | (d, Some x) :: _ => [(d, Some x)]
  end.
Definition has_err (raw : mscript) : bool := existsb (fun m => match snd m with Some _ => true | None => false end) raw.

(* specification of the filter: the stream without the heartbeats, up to and
   including its first error; the end of the script shows as an E_EOS error *)
Definition not_hb (hb : bytes) (m : msg) : bool := negb (bytes_eqb hb (fst m)).
Definition delivered (hb : bytes) (raw : mscript) : mscript :=
  let f := filter (not_hb hb) raw in
  if has_err f then upto_err f else f ++ [([], Some E_EOS)].

(* hbConn as a transition system: recvLoop (producer), Read (consumer), and a
   Close that may come from the watchdog / the queue-full timer at any moment.
   [hq] is recvCh, [hclosed] the closed channel, [hloop] whether recvLoop still runs. *)
Record hbst := mkH { hraw : mscript; hq : list msg; hclosed : bool; hloop : bool; hwaiting : nat }.
Definition hb_init (raw : mscript) : hbst := mkH raw [] false true 2.
Definition recvChBufSize : nat := 64.

Inductive hbop := HRecv | HRead | HClose | HQueueTimeout.
Inductive hbout := HNone | HBlocked | HGot (m : msg) | HErrClosed.

Definition hb_step (mx : nat) (hb : bytes) (st : hbst) (op : hbop) : hbst * hbout :=
  match op with
  | HRecv =>
      if negb (hloop st) then (st, HNone) else
      if (recvChBufSize <=? length (hq st))%nat then (st, HBlocked) else
      match hraw st with
      | [] => (mkH [] (hq st ++ [([], Some E_EOS)]) true false (hwaiting st), HNone)
      | (d, e) :: r =>
          if (length d <=? mx)%nat then
            if bytes_eqb hb d then (mkH r (hq st) (hclosed st) true (S (hwaiting st)), HNone)
            else match e with
                 | None => (mkH r (hq st ++ [(d, None)]) (hclosed st) true (hwaiting st), HNone)
                 | Some x => (mkH r (hq st ++ [(d, Some x)]) true false (hwaiting st), HNone)
                 end
          else (mkH r (hq st ++ [([], Some E_SHORT)]) true false (hwaiting st), HNone)
      end
  | HQueueTimeout =>
      (* the reader did not make room within the interval: recvLoop closes and returns *)
      if hloop st && (recvChBufSize <=? length (hq st))%nat
      then (mkH (hraw st) (hq st) true false (hwaiting st), HNone) else (st, HNone)
  | HClose => (mkH (hraw st) (hq st) true false (hwaiting st), HNone)
  | HRead =>
      match hq st with
      | m :: q => (mkH (hraw st) q (hclosed st) (hloop st) (hwaiting st), HGot m)
      | [] => if hclosed st then (st, HErrClosed) else (st, HBlocked)
      end
  end.

Fixpoint hb_run (mx : nat) (hb : bytes) (st : hbst) (ops : list hbop) : hbst * list hbout :=
  match ops with
  | [] => (st, [])
  | op :: r => let '(st1, o) := hb_step mx hb st op in
               let '(st2, os) := hb_run mx hb st1 r in (st2, o :: os)
  end.
Definition got_msgs (os : list hbout) : list msg :=
  flat_map (fun o => match o with HGot m => [m] | _ => [] end) os.

(* hbLoop: waiting is loaded and compared, then reset, then the loop sleeps for
   one interval; heartbeats increment it at any point in between. *)
Inductive wev := WHb | WLoop.
Inductive wphase := WCheck | WReset.
Record wst := mkW { wwaiting : nat; wphase_ : wphase; wclosed : bool }.
Definition winit : wst := mkW 2 WCheck false.
Definition wstep (st : wst) (e : wev) : wst :=
  if wclosed st then st else
  match e with
  | WHb => mkW (S (wwaiting st)) (wphase_ st) false
  | WLoop =>
      match wphase_ st with
      | WCheck => if (wwaiting st =? 0)%nat then mkW 0 WCheck true else mkW (wwaiting st) WReset false
      | WReset => mkW 0 WCheck false      (* store 0, then sleep one interval *)
      end
  end.
Definition wrun (st : wst) (t : list wev) : wst := fold_left wstep t st.
Definition no_hb (t : list wev) : Prop := Forall (fun e => e = WLoop) t.
Definition all_hb (t : list wev) : Prop := Forall (fun e => e = WHb) t.
(* a trace in which every sleep of the loop sees at least one heartbeat:
   check, (heartbeats), reset, heartbeats+ , ... *)
Inductive live_trace : list wev -> Prop :=
| live_nil : live_trace []
| live_round h1 h2 t : all_hb h1 -> all_hb h2 -> h2 <> [] -> live_trace t ->
    live_trace (WLoop :: h1 ++ WLoop :: h2 ++ t).

(* ------------------------------------------------------------------ *)
(* (iii) SCTPConn.Write flow control (sctpconn.go:94-136)              *)
(* ------------------------------------------------------------------ *)

Definition wmax : N := 262144.     (* writeMaxBufferedAmount *)
Definition wthr : N := 131072.     (* writeMaxBufferedAmount / 2: low threshold and per-write limit *)
Definition E_LIMIT   : err := 4.   (* "write limit exceeded" *)
Definition E_WCLOSED : err := 5.   (* "closed" *)

(* the writer holding writeMutex: idle, blocked in the select, or past it and about to call stream.Write *)
Inductive fwriter := FIdle | FWait (n : N) | FGo (n : N).
(* [fforeign] is a ghost: bytes written to the stream without passing flow control (client heartbeats) *)
Record fcst := mkF { fbuf : N; ftoken : bool; fwr : fwriter; fclosed : bool; fforeign : N }.
Definition fc_init : fcst := mkF 0 false FIdle false 0.

Inductive fcop :=
| FStart (n : N)     (* Write(b) with len(b) = n up to the BufferedAmount check *)
| FTake              (* the blocked writer receives the token *)
| FAbort             (* the blocked writer sees closed *)
| FDo                (* stream.Write *)
| FDrain (d : N)     (* the network releases d buffered bytes; the callback fires on a downward crossing *)
| FForeign (k : N)   (* a write that bypasses SCTPConn (hbClient.sendLoop) *)
| FCloseOp.
Inductive fcout := FNone | FRet (n : N) (e : option err).

Definition fc_step (st : fcst) (op : fcop) : fcst * fcout :=
  match op with
  | FStart n =>
      match fwr st with
      | FIdle =>
          if n =? 0 then (st, FRet 0 None)
          else if wthr <? n then (st, FRet 0 (Some E_LIMIT))
          else if wmax <? fbuf st + n
               then (mkF (fbuf st) (ftoken st) (FWait n) (fclosed st) (fforeign st), FNone)
               else (mkF (fbuf st) (ftoken st) (FGo n) (fclosed st) (fforeign st), FNone)
      | _ => (st, FNone)
      end
  | FTake =>
      match fwr st with
      | FWait n => if ftoken st then (mkF (fbuf st) false (FGo n) (fclosed st) (fforeign st), FNone)
                   else (st, FNone)
      | _ => (st, FNone)
      end
  | FAbort =>
      match fwr st with
      | FWait n => if fclosed st then (mkF (fbuf st) (ftoken st) FIdle true (fforeign st), FRet 0 (Some E_WCLOSED))
                   else (st, FNone)
      | _ => (st, FNone)
      end
  | FDo =>
      match fwr st with
      | FGo n => (mkF (fbuf st + n) (ftoken st) FIdle (fclosed st) (fforeign st), FRet n None)
      | _ => (st, FNone)
      end
  | FDrain d =>
      let b' := fbuf st - d in
      (mkF b' (ftoken st || ((wthr <? fbuf st) && (b' <=? wthr))) (fwr st) (fclosed st) (fforeign st), FNone)
  | FForeign k => (mkF (fbuf st + k) (ftoken st) (fwr st) (fclosed st) (fforeign st + k), FNone)
  | FCloseOp => (mkF (fbuf st) (ftoken st) (fwr st) true (fforeign st), FNone)
  end.

Fixpoint fc_run (st : fcst) (ops : list fcop) : fcst * list fcout :=
  match ops with
  | [] => (st, [])
  | op :: r => let '(st1, o) := fc_step st op in
               let '(st2, os) := fc_run st1 r in (st2, o :: os)
  end.
(* every state the run passes through *)
Fixpoint fc_trace (st : fcst) (ops : list fcop) : list fcst :=
  st :: match ops with [] => [] | op :: r => fc_trace (fst (fc_step st op)) r end.

(* ------------------------------------------------------------------ *)
(* (iv) Listener: connToCert / connMap (listener.go)                   *)
(* ------------------------------------------------------------------ *)
(* Any number of acceptor threads (acceptDTLSConn) and connection threads (the
   goroutine acceptLoop starts per inbound connection) are identified by
   natural numbers; their secrets are fixed by [asecs] / [csecs]; [hr] is
   clientHelloRandomFromSeed.  Each atomic step is one mutex-protected section
   or one channel operation of the Go code. *)

Definition updN {A} (f : N -> A) (k : N) (v : A) : N -> A := fun j => if j =? k then v else f j.
Definition updn {A} (f : nat -> A) (k : nat) (v : A) : nat -> A := fun j => if (j =? k)%nat then v else f j.

Inductive apc_t :=
| A0      (* before registerCert *)
| A1      (* cert registered, before registerChannel *)
| A2      (* channel registered: in the select *)
| A3      (* select left: deferred removeChannel pending *)
| A4      (* deferred removeCert pending *)
| ADone.  (* returned *)
Inductive ares_t := RNone | RGot (c : nat) | RErrDup | RErrChan | RCancelled.
Record athread := mkA { apc : apc_t; acancel : bool; ares : ares_t }.

Inductive cpc_t :=
| C0      (* ClientHello received: getCertificateFromClientHello pending *)
| C1      (* verifyConnection pending *)
| C2      (* handshake complete: chFromID pending *)
| C3      (* holds a channel: select { send, ctx.Done } *)
| CSent   (* connection handed over *)
| CFail   (* handshake failed *)
| CDrop.  (* connection not delivered (id not registered, or timeout) *)
Record cthread := mkC { cpc : cpc_t; cserver : option N; cverified : bool; cchan : option nat }.

Record lcfg := mkL {
  certs : N -> option nat;      (* connToCert: hello-random -> the acceptor whose certificates are stored *)
  chans : N -> option nat;      (* connMap: hello-random -> the acceptor whose channel is stored *)
  bufs  : nat -> option nat;    (* the one-slot buffer of each acceptor's channel *)
  acc   : nat -> athread;
  cns   : nat -> cthread }.

Definition linit : lcfg :=
  mkL (fun _ => None) (fun _ => None) (fun _ => None)
      (fun _ => mkA A0 false RNone) (fun _ => mkC C0 None false None).

Inductive lop :=
| LA (a : nat)           (* the acceptor's next mutex-protected section *)
| LRecv (a : nat)        (* select: conn := <-connCh *)
| LCancelled (a : nat)   (* select: <-ctx.Done() *)
| LCancel (a : nat)      (* the caller cancels the accept's context *)
| LC (c : nat)           (* the connection thread's next section *)
| LSend (c : nat)        (* select: acceptCh <- conn *)
| LTimeout (c : nat).    (* select: <-ctx.Done() *)

Definition holds_cert (p : apc_t) : bool := match p with A1 | A2 | A3 | A4 => true | _ => false end.
Definition holds_chan (p : apc_t) : bool := match p with A2 | A3 => true | _ => false end.

Section Registry.
  Variable hr : N -> N.
  Variable asecs csecs : nat -> N.

  Definition set_acc (g : lcfg) (a : nat) (t : athread) : lcfg :=
    mkL (certs g) (chans g) (bufs g) (updn (acc g) a t) (cns g).
  Definition set_cn (g : lcfg) (c : nat) (t : cthread) : lcfg :=
    mkL (certs g) (chans g) (bufs g) (acc g) (updn (cns g) c t).

  Definition lstep (g : lcfg) (op : lop) : lcfg :=
    match op with
    | LA a =>
        let t := acc g a in
        let k := hr (asecs a) in
        match apc t with
        | A0 => match certs g k with
                | Some _ => set_acc g a (mkA ADone (acancel t) RErrDup)
                | None => mkL (updN (certs g) k (Some a)) (chans g) (bufs g)
                              (updn (acc g) a (mkA A1 (acancel t) (ares t))) (cns g)
                end
        | A1 => match chans g k with
                | Some _ => set_acc g a (mkA A4 (acancel t) RErrChan)
                | None => mkL (certs g) (updN (chans g) k (Some a)) (bufs g)
                              (updn (acc g) a (mkA A2 (acancel t) (ares t))) (cns g)
                end
        | A3 => mkL (certs g) (updN (chans g) k None) (bufs g)
                    (updn (acc g) a (mkA A4 (acancel t) (ares t))) (cns g)
        | A4 => mkL (updN (certs g) k None) (chans g) (bufs g)
                    (updn (acc g) a (mkA ADone (acancel t) (ares t))) (cns g)
        | _ => g
        end
    | LRecv a =>
        let t := acc g a in
        match apc t, bufs g a with
        | A2, Some c => mkL (certs g) (chans g) (updn (bufs g) a None)
                            (updn (acc g) a (mkA A3 (acancel t) (RGot c))) (cns g)
        | _, _ => g
        end
    | LCancelled a =>
        let t := acc g a in
        match apc t with
        | A2 => if acancel t then set_acc g a (mkA A3 true RCancelled) else g
        | _ => g
        end
    | LCancel a => let t := acc g a in set_acc g a (mkA (apc t) true (ares t))
    | LC c =>
        let t := cns g c in
        let k := hr (csecs c) in
        match cpc t with
        | C0 => (* the server certificate is picked by the client's hello-random; a random one if none *)
                set_cn g c (mkC C1 (match certs g k with Some a => Some (asecs a) | None => None end)
                                (cverified t) (cchan t))
        | C1 => (* assumption on pion: the handshake completes iff the client accepted the server
                   certificate (same key as its own) and verifyConnection finds the client's key *)
                match cserver t, certs g k with
                | Some s, Some a =>
                    if (s =? csecs c) && (asecs a =? csecs c)
                    then set_cn g c (mkC C2 (cserver t) true (cchan t))
                    else set_cn g c (mkC CFail (cserver t) (cverified t) (cchan t))
                | _, _ => set_cn g c (mkC CFail (cserver t) (cverified t) (cchan t))
                end
        | C2 => match chans g k with
                | Some a => set_cn g c (mkC C3 (cserver t) (cverified t) (Some a))
                | None => set_cn g c (mkC CDrop (cserver t) (cverified t) (cchan t))
                end
        | _ => g
        end
    | LSend c =>
        let t := cns g c in
        match cpc t, cchan t with
        | C3, Some a =>
            match bufs g a with
            | None => mkL (certs g) (chans g) (updn (bufs g) a (Some c)) (acc g)
                          (updn (cns g) c (mkC CSent (cserver t) (cverified t) (cchan t)))
            | Some _ => g
            end
        | _, _ => g
        end
    | LTimeout c =>
        let t := cns g c in
        match cpc t with
        | C3 => set_cn g c (mkC CDrop (cserver t) (cverified t) (cchan t))
        | _ => g
        end
    end.

  Definition lrun (g : lcfg) (ops : list lop) : lcfg := fold_left lstep ops g.
End Registry.

(* ------------------------------------------------------------------ *)
(* (v) hello-random and certificate material from the secret           *)
(*     (seedtocert.go)                                                 *)
(* ------------------------------------------------------------------ *)

Definition bytes_of_string (s : string) : bytes := map N_of_ascii (list_ascii_of_string s).
Definition be2n (b : bytes) : N := fold_left (fun a x => a * 256 + x) b 0.
Definition p256_order : N :=
  115792089210356248762697446949407573529996955224135760342422259061068512044369.
Definition serial_max : N := 2 ^ 130 - 1.

Definition hello_len : nat := 28.
(* what identifies a certificate of this package: the ECDSA private scalar,
   the serial number and the 8 raw bytes behind the common name *)
Record certmat := mkCM { cm_d : N; cm_serial : N; cm_cn : bytes }.

Section Material.
  (* hkdf secret info n = the first n bytes of HKDF-SHA256(secret, salt = info, info = nil)
     exactly as seedtocert.go calls hkdf.New(sha256.New, seed, []byte(label), nil) *)
  Variable hkdf : bytes -> bytes -> nat -> bytes.

  Definition label_hello : bytes := bytes_of_string "clientHelloRandomFromSeed".
  Definition label_certs : bytes := bytes_of_string "certsFromSeed".

  (* handshake.RandomBytesLength = 28: the random part of the DTLS hello random *)
  Definition hello_random (s : bytes) : bytes := hkdf s label_hello 28.

  (* newCertificate on a byte stream: 40 bytes for keygen.ECDSALegacy (P-256),
     17 bytes for rand.Int(2^130-1) (two top bits kept; the all-ones value would be
     resampled: None, outside the model), 8 bytes for the common name *)
  Definition cert_of (st : bytes) : option (certmat * bytes) :=
    let kb := firstn 40 st in
    let sb := firstn 17 (skipn 40 st) in
    let serial := be2n (match sb with x :: r => N.land x 3 :: r | [] => [] end) in
    if serial <? serial_max
    then Some (mkCM (be2n kb mod (p256_order - 1) + 1) serial (firstn 8 (skipn 57 st)), skipn 65 st)
    else None.

  (* certsFromSeed: client certificate first, then the server certificate, from one stream *)
  Definition certs_from_seed (s : bytes) : option (certmat * certmat) :=
    match cert_of (hkdf s label_certs 130) with
    | Some (c1, r) => match cert_of r with Some (c2, _) => Some (c1, c2) | None => None end
    | None => None
    end.

  Definition material (s : bytes) := (hello_random s, certs_from_seed s).
End Material.

(* ------------------------------------------------------------------ *)
(* (ii') hbConn refined: Read as the selects it really is, recvLoop     *)
(*       with its blocked push (heartbeat.go, fixed code)               *)
(* ------------------------------------------------------------------ *)
(* recvLoop: about to read / blocked pushing [m] into the full queue / pushed a
   message that came with an error, about to Close / ended *)
Inductive lpc := LRead | LHeld (m : msg) | LClosing | LStop.
(* hbConn.Read: not running / past the non-blocking receive, about to enter the
   blocking select / parked in it / woken with a message handed over by the
   sender / woken by closed, about to run the inner non-blocking receive *)
Inductive rpc := RIdle | RSel | RParked | RHas (m : msg) | RDrain.
Record h2st := mkH2 { h2raw : mscript; h2q : list msg; h2loop : lpc; h2closed : bool; h2rd : rpc }.
Definition h2_init (raw : mscript) : h2st := mkH2 raw [] LRead false RIdle.

Inductive h2op :=
| OLoop        (* recvLoop's next action *)
| OTimeout     (* the interval elapsed while recvLoop waits for room: Close, return *)
| OClose       (* Close from outside (watchdog, user) *)
| ORStart      (* Read: the non-blocking receive *)
| OREnterQ     (* Read enters the blocking select and the receive case is taken *)
| OREnterC     (* ... and the closed case is taken *)
| OREnterPark  (* ... and nothing is ready: park *)
| ORWake       (* the parked Read returns the message handed to it *)
| ORDrain.     (* after closed: the inner non-blocking receive *)
Inductive h2out := ONone | OGot (m : msg) | OErrClosed.

Definition after_push (m : msg) : lpc := match snd m with Some _ => LClosing | None => LRead end.
(* the receiver takes the head; a sender blocked on the full queue puts its message at the tail at once *)
Definition pop_rest (st : h2st) (q' : list msg) : h2st :=
  match h2loop st with
  | LHeld h => mkH2 (h2raw st) (q' ++ [h]) (after_push h) (h2closed st) RIdle
  | _ => mkH2 (h2raw st) q' (h2loop st) (h2closed st) RIdle
  end.
Definition wake_closed (r : rpc) : rpc := match r with RParked => RDrain | r => r end.

Section H2.
  Variable mx : nat.
  Variable hb : bytes.
  (* the two steps of the fixed Read that the variants drop *)
  Variable fast drain : bool.

  Definition h2_push (st : h2st) (raw' : mscript) (m : msg) : h2st :=
    match h2rd st with
    | RParked => mkH2 raw' (h2q st) (after_push m) (h2closed st) (RHas m)
    | _ => if (length (h2q st) <? recvChBufSize)%nat
           then mkH2 raw' (h2q st ++ [m]) (after_push m) (h2closed st) (h2rd st)
           else mkH2 raw' (h2q st) (LHeld m) (h2closed st) (h2rd st)
    end.

  Definition h2_step (st : h2st) (op : h2op) : h2st * h2out :=
    match op with
    | OLoop =>
        match h2loop st with
        | LRead =>
            match h2raw st with
            | [] => (h2_push st [] ([], Some E_EOS), ONone)
            | (d, e) :: r =>
                if (length d <=? mx)%nat then
                  if bytes_eqb hb d then (mkH2 r (h2q st) LRead (h2closed st) (h2rd st), ONone)
                  else (h2_push st r (d, e), ONone)
                else (h2_push st r ([], Some E_SHORT), ONone)
            end
        | LClosing => (mkH2 (h2raw st) (h2q st) LStop true (wake_closed (h2rd st)), ONone)
        | _ => (st, ONone)
        end
    | OTimeout =>
        match h2loop st with
        | LHeld _ => (mkH2 (h2raw st) (h2q st) LStop true (wake_closed (h2rd st)), ONone)
        | _ => (st, ONone)
        end
    | OClose => (mkH2 (h2raw st) (h2q st) LStop true (wake_closed (h2rd st)), ONone)
    | ORStart =>
        match h2rd st with
        | RIdle => if fast then
                     match h2q st with
                     | m :: q' => (pop_rest st q', OGot m)
                     | [] => (mkH2 (h2raw st) (h2q st) (h2loop st) (h2closed st) RSel, ONone)
                     end
                   else (mkH2 (h2raw st) (h2q st) (h2loop st) (h2closed st) RSel, ONone)
        | _ => (st, ONone)
        end
    | OREnterQ =>
        match h2rd st, h2q st with
        | RSel, m :: q' => (pop_rest st q', OGot m)
        | _, _ => (st, ONone)
        end
    | OREnterC =>
        match h2rd st with
        | RSel => if h2closed st then
                    if drain then (mkH2 (h2raw st) (h2q st) (h2loop st) true RDrain, ONone)
                    else (mkH2 (h2raw st) (h2q st) (h2loop st) true RIdle, OErrClosed)
                  else (st, ONone)
        | _ => (st, ONone)
        end
    | OREnterPark =>
        match h2rd st, h2q st with
        | RSel, [] => if h2closed st then (st, ONone)
                      else (mkH2 (h2raw st) [] (h2loop st) false RParked, ONone)
        | _, _ => (st, ONone)
        end
    | ORWake =>
        match h2rd st with
        | RHas m => (mkH2 (h2raw st) (h2q st) (h2loop st) (h2closed st) RIdle, OGot m)
        | _ => (st, ONone)
        end
    | ORDrain =>
        match h2rd st with
        | RDrain => match h2q st with
                    | m :: q' => (pop_rest st q', OGot m)
                    | [] => (mkH2 (h2raw st) [] (h2loop st) (h2closed st) RIdle, OErrClosed)
                    end
        | _ => (st, ONone)
        end
    end.

  Fixpoint h2_run (st : h2st) (ops : list h2op) : h2st * list h2out :=
    match ops with
    | [] => (st, [])
    | op :: r => let '(st1, o) := h2_step st op in
                 let '(st2, os) := h2_run st1 r in (st2, o :: os)
    end.
End H2.
Definition got2 (os : list h2out) : list msg :=
  flat_map (fun o => match o with OGot m => [m] | _ => [] end) os.
