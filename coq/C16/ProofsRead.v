(* C16 (i): the read buffer is a lossless, order-preserving re-chunking of the message stream. *)
From CJ Require Import Common.Base Common.BaseProofs C16.Model.
From Coq Require Import Lia.

Local Open Scope nat_scope.

Lemma skipn_add {A} (a b : nat) (l : list A) : skipn (a + b) l = skipn b (skipn a l).
Proof.
  revert l; induction a as [|a IH]; intros l; cbn; [reflexivity|].
  destruct l; [now rewrite skipn_nil|]. apply IH.
Qed.

Lemma flat1_split n rest e :
  n < length rest ->
  flat1 (firstn n rest, None) ++ flat1 (skipn n rest, e) = flat1 (rest, e).
Proof.
  intros _. unfold flat1; cbn [fst snd]. rewrite app_nil_r, app_assoc, <- map_app, firstn_skipn.
  reflexivity.
Qed.

(* the copy-out half of Read: what is handed out plus what stays owed is what was owed *)
Lemma copy_owed buf off e n :
  off <= length buf ->
  let rest := skipn off buf in
  let out := firstn n rest in
  let off' := off + length out in
  flat1 (out, if off' =? length buf then e else None)
    ++ pend (mkR buf off' e) = flat1 (rest, e)
  /\ off' <= length buf.
Proof.
  intros Hwf rest out off'.
  assert (Hlr : length rest = length buf - off) by (unfold rest; apply skipn_length).
  assert (Hlo : length out = Nat.min n (length rest)) by (unfold out; apply firstn_length).
  split; [|unfold off'; lia].
  unfold pend; cbn [rbuf roff rerr].
  replace (skipn off' buf) with (skipn (length out) rest)
    by (unfold off', rest; now rewrite skipn_add).
  destruct (Nat.eqb_spec off' (length buf)) as [Heq|Hne].
  - assert (length rest <= n) by (unfold off' in Heq; lia).
    assert (Hout : out = rest) by (unfold out; now apply firstn_all2).
    rewrite Hout, skipn_all2 by lia. now rewrite app_nil_r.
  - assert (Hn : n < length rest) by (unfold off' in Hne; lia).
    assert (Hlen : length out = n) by lia.
    rewrite Hlen.
    destruct (skipn n rest) eqn:Hs.
    + exfalso. assert (length (skipn n rest) = length rest - n) by apply skipn_length.
      rewrite Hs in H. cbn in H. lia.
    + rewrite <- Hs. unfold out. now apply flat1_split.
Qed.

Lemma pend_full st : roff st = length (rbuf st) -> pend st = [].
Proof. intros H. unfold pend. rewrite H, skipn_all. reflexivity. Qed.

Lemma pend_nonfull st : rwf st -> roff st <> length (rbuf st) ->
  pend st = flat1 (skipn (roff st) (rbuf st), rerr st).
Proof.
  unfold rwf, pend. intros Hwf Hne.
  destruct (skipn (roff st) (rbuf st)) eqn:Hs; [|reflexivity].
  exfalso. assert (length (skipn (roff st) (rbuf st)) = length (rbuf st) - roff st) by apply skipn_length.
  rewrite Hs in H. cbn in H. lia.
Qed.

Lemma sread_flat eos mx s cap s' d e :
  fits mx s -> mx <= cap -> sread eos s cap = (s', d, e) ->
  fits mx s' /\ length d <= cap /\
  exists k, flat1 (d, e) ++ flat s' = flat s ++ repeat (EvE eos) k /\ (s <> [] -> k = 0).
Proof.
  intros Hf Hc Hr. destruct s as [|[m em] r]; cbn in Hr.
  - inversion Hr; subst. split; [constructor|]. split; [cbn; lia|]. exists 1. split; [reflexivity|congruence].
  - inversion Hf as [|? ? Hm Hf']; subst. cbn in Hm.
    destruct (Nat.leb_spec (length m) cap); [|lia].
    inversion Hr; subst. split; [assumption|]. split; [assumption|].
    exists 0. cbn. now rewrite app_nil_r.
Qed.

Lemma sctp_read_script mx eos st s n st1 s1 o e :
  sctp_read mx eos st s n = (st1, s1, o, e) ->
  (roff st = length (rbuf st) -> s1 = tl s) /\
  (roff st <> length (rbuf st) -> s1 = s /\ o = firstn n (skipn (roff st) (rbuf st))).
Proof.
  intros Hr. unfold sctp_read in Hr.
  destruct (Nat.eqb_spec (roff st) (length (rbuf st))) as [Hfull|Hnf]; cbn [andb] in Hr.
  - split; [intros _|intros; contradiction].
    destruct (mx <=? n).
    + destruct s as [|[m em] r]; cbn in Hr; [inversion Hr; reflexivity|].
      destruct (length m <=? n); inversion Hr; reflexivity.
    + destruct s as [|[m em] r]; cbn in Hr; [inversion Hr; reflexivity|].
      destruct (length m <=? mx); inversion Hr; reflexivity.
  - split; [intros; contradiction|intros _]. inversion Hr; auto.
Qed.

(* one Read: lossless, order preserving *)
Lemma sctp_read_flat mx eos st s n st1 s1 o e :
  fits mx s -> rwf st -> sctp_read mx eos st s n = (st1, s1, o, e) ->
  fits mx s1 /\ rwf st1 /\
  exists k, flat1 (o, e) ++ pend st1 ++ flat s1 = pend st ++ flat s ++ repeat (EvE eos) k
            /\ (s <> [] \/ roff st <> length (rbuf st) -> k = 0).
Proof.
  intros Hf Hwf Hr. unfold sctp_read in Hr.
  destruct (Nat.eqb_spec (roff st) (length (rbuf st))) as [Hfull|Hnf]; cbn [andb] in Hr.
  - destruct (Nat.leb_spec mx n) as [Hby|Hnb].
    + (* bypass *)
      destruct (sread eos s n) as [[s' d] e'] eqn:Hs. inversion Hr; subst.
      destruct (sread_flat _ _ _ _ _ _ _ Hf Hby Hs) as (Hf' & _ & k & Hk & Hk0).
      split; [assumption|]. split; [assumption|]. exists k. split; [|intros [?|?]; auto; contradiction].
      rewrite (pend_full st1 Hfull). cbn [app]. exact Hk.
    + destruct (sread eos s mx) as [[s' d] e'] eqn:Hs.
      destruct (sread_flat _ _ _ _ _ _ _ Hf (le_n mx) Hs) as (Hf' & _ & k & Hk & Hk0).
      cbn [rbuf roff rerr] in Hr. inversion Hr; subst. clear Hr.
      destruct (copy_owed d 0 e' n (Nat.le_0_l _)) as [Hc Hw]. cbn [skipn] in Hc, Hw.
      rewrite !Nat.add_0_l in Hc, Hw.
      split; [assumption|]. split; [exact Hw|]. exists k. split; [|intros [?|?]; auto; contradiction].
      rewrite (pend_full st Hfull). cbn [app].
      rewrite app_assoc. etransitivity; [apply (f_equal2 (@app ev)); [exact Hc|reflexivity]|exact Hk].
  - inversion Hr; subst. clear Hr.
    destruct (copy_owed (rbuf st) (roff st) (rerr st) n Hwf) as [Hc Hw].
    split; [assumption|]. split; [exact Hw|]. exists 0. split; [|reflexivity].
    rewrite (pend_nonfull st Hwf Hnf). cbn [repeat]. rewrite app_nil_r.
    rewrite app_assoc. cbn zeta in Hc. apply (f_equal2 (@app ev)); [exact Hc|reflexivity].
Qed.

Lemma flat_cons m l : flat (m :: l) = flat1 m ++ flat l.
Proof. reflexivity. Qed.

(* any sequence of Reads *)
Lemma reads_flat mx eos sizes : forall st s res st' rest,
  fits mx s -> rwf st -> reads mx eos sizes st s = (res, st', rest) ->
  fits mx rest /\ rwf st' /\
  exists k, flat res ++ pend st' ++ flat rest = pend st ++ flat s ++ repeat (EvE eos) k.
Proof.
  induction sizes as [|n sizes IH]; intros st s res st' rest Hf Hwf Hr; cbn in Hr.
  - inversion Hr; subst. split; [assumption|]. split; [assumption|]. exists 0. cbn. now rewrite app_nil_r.
  - destruct (sctp_read mx eos st s n) as [[[st1 s1] o] e] eqn:H1.
    destruct (reads mx eos sizes st1 s1) as [[res2 st2] s2] eqn:H2.
    inversion Hr; subst. clear Hr.
    destruct (sctp_read_flat _ _ _ _ _ _ _ _ _ Hf Hwf H1) as (Hf1 & Hw1 & k1 & Hk1 & _).
    destruct (IH _ _ _ _ _ Hf1 Hw1 H2) as (Hf2 & Hw2 & k2 & Hk2).
    split; [assumption|]. split; [assumption|]. exists (k1 + k2).
    rewrite flat_cons, <- app_assoc, Hk2.
    rewrite !app_assoc. rewrite <- (app_assoc (flat1 (o, e))). rewrite Hk1.
    rewrite repeat_app. now rewrite !app_assoc.
Qed.

Lemma rwf_init : rwf rinit. Proof. unfold rwf; cbn; lia. Qed.
Lemma pend_init : pend rinit = []. Proof. reflexivity. Qed.

Theorem read_lossless mx eos msgs sizes res st' rest :
  fits mx msgs -> reads mx eos sizes rinit msgs = (res, st', rest) ->
  exists k, flat res ++ pend st' ++ flat rest = flat msgs ++ repeat (EvE eos) k.
Proof.
  intros Hf Hr. destruct (reads_flat _ _ _ _ _ _ _ _ Hf rwf_init Hr) as (_ & _ & k & Hk).
  exists k. exact Hk.
Qed.

(* ---- bytes only: the Appendix-A shape ---- *)
Lemma evbytes_app a b : evbytes (a ++ b) = evbytes a ++ evbytes b.
Proof. unfold evbytes. apply flat_map_app. Qed.
Lemma evbytes_mapB d : evbytes (map EvB d) = d.
Proof. induction d as [|a d IH]; [reflexivity|]. cbn. f_equal. exact IH. Qed.
Lemma evbytes_flat1 m : evbytes (flat1 m) = fst m.
Proof.
  unfold flat1. rewrite evbytes_app, evbytes_mapB. destruct (snd m); cbn; now rewrite app_nil_r.
Qed.
Lemma evbytes_flat l : evbytes (flat l) = concat (map fst l).
Proof.
  induction l as [|m l IH]; [reflexivity|].
  rewrite flat_cons, evbytes_app, evbytes_flat1, IH. reflexivity.
Qed.
Lemma evbytes_repeatE e k : evbytes (repeat (EvE e) k) = [].
Proof. induction k; cbn; auto. Qed.

Lemma prefix_firstn {A} (a b c : list A) : a ++ b = c -> a = firstn (length a) c.
Proof. intros <-. rewrite firstn_app, Nat.sub_diag, firstn_all. cbn. now rewrite app_nil_r. Qed.

Theorem read_concat_bytes mx eos msgs sizes :
  fits mx msgs ->
  exists k, concat (map fst (fst (fst (reads mx eos sizes rinit msgs))))
            = firstn k (concat (map fst msgs)).
Proof.
  intros Hf. destruct (reads mx eos sizes rinit msgs) as [[res st'] rest] eqn:Hr.
  destruct (read_lossless _ _ _ _ _ _ _ Hf Hr) as [k Hk]. cbn [fst].
  apply (f_equal evbytes) in Hk.
  rewrite !evbytes_app, !evbytes_flat, evbytes_repeatE, app_nil_r in Hk.
  eexists. eapply prefix_firstn. exact Hk.
Qed.

(* ---- error timing ---- *)

(* A Read reports an error only when nothing that was delivered with it stays
   behind, and the read that hands out the last buffered byte reports the
   error stored with that message (never a later read). *)
Lemma read_error_timing mx eos st s n st1 s1 o e :
  rwf st -> sctp_read mx eos st s n = (st1, s1, o, e) ->
  (e <> None -> pend st1 = []) /\
  (roff st <> length (rbuf st) -> roff st1 = length (rbuf st1) -> e = rerr st) /\
  (roff st <> length (rbuf st) -> s1 = s /\ o = firstn n (skipn (roff st) (rbuf st))).
Proof.
  intros Hwf Hr. unfold sctp_read in Hr.
  destruct (Nat.eqb_spec (roff st) (length (rbuf st))) as [Hfull|Hnf]; cbn [andb] in Hr.
  - split; [|split; intros; contradiction].
    destruct (mx <=? n).
    + destruct (sread eos s n) as [[s' d] e']. inversion Hr; subst. intros _. now apply pend_full.
    + destruct (sread eos s mx) as [[s' d] e']. cbn [rbuf roff rerr] in Hr. inversion Hr; subst.
      destruct (Nat.eqb_spec (0 + length (firstn n (skipn 0 d))) (length d)); [|congruence].
      intros _. now apply pend_full.
  - inversion Hr; subst. clear Hr. cbn [rbuf roff rerr]. repeat split.
    + destruct (Nat.eqb_spec (roff st + length (firstn n (skipn (roff st) (rbuf st)))) (length (rbuf st)));
        [|congruence]. intros _. now apply pend_full.
    + intros _ H. now rewrite H, Nat.eqb_refl.
Qed.

(* an error without data is reported only by a read that itself fetched an
   empty message (or hit the end of the script / an oversize message) *)
Lemma read_error_without_data mx eos st s n st1 s1 o x :
  rwf st -> 0 < n -> sctp_read mx eos st s n = (st1, s1, o, Some x) -> o = [] ->
  roff st = length (rbuf st) /\
  (s = [] \/ exists m em r, s = (m, em) :: r /\ (m = [] \/ mx < length m \/ n < length m /\ mx <= n)).
Proof.
  intros Hwf Hn Hr Ho. unfold sctp_read in Hr.
  destruct (Nat.eqb_spec (roff st) (length (rbuf st))) as [Hfull|Hnf]; cbn [andb] in Hr.
  - split; [assumption|]. destruct s as [|[m em] r]; [now left|]. right. exists m, em, r. split; [reflexivity|].
    destruct (Nat.leb_spec mx n).
    + cbn in Hr. destruct (Nat.leb_spec (length m) n); inversion Hr; subst; auto.
    + cbn in Hr. destruct (Nat.leb_spec (length m) mx); cbn [rbuf roff rerr] in Hr.
      * inversion Hr as [[H1 H2 H3 H4]]. destruct m; [now left|]. destruct n; [lia|]. rewrite Ho in H3. cbn in H3. discriminate.
      * right. left. assumption.
  - exfalso. inversion Hr as [[H1 H2 H3 H4]]. clear Hr.
    assert (Hl : length (skipn (roff st) (rbuf st)) = length (rbuf st) - roff st) by apply skipn_length.
    unfold rwf in Hwf. destruct (skipn (roff st) (rbuf st)) eqn:Hs; [cbn in Hl; lia|].
    destruct n; [lia|]. cbn in H3. rewrite Ho in H3. discriminate.
Qed.

(* ---- progress: positive read sizes drain the stream ---- *)

Lemma read_progress mx eos st s n st1 s1 o e :
  fits mx s -> rwf st -> 0 < n -> sctp_read mx eos st s n = (st1, s1, o, e) ->
  (pend st = [] /\ s = [] /\ pend st1 = [] /\ s1 = []) \/ remaining st1 s1 < remaining st s.
Proof.
  intros Hf Hwf Hn Hr.
  destruct (sctp_read_flat _ _ _ _ _ _ _ _ _ Hf Hwf Hr) as (_ & Hw1 & k & Hk & Hk0).
  destruct (sctp_read_script _ _ _ _ _ _ _ _ _ Hr) as [Hsf Hsn].
  apply (f_equal (@length ev)) in Hk. rewrite !app_length, repeat_length in Hk.
  unfold remaining.
  destruct (Nat.eq_dec (roff st) (length (rbuf st))) as [Hfull|Hnf].
  - rewrite (Hsf Hfull) in *. rewrite (pend_full st Hfull) in *. cbn [length] in *.
    destruct s as [|m r].
    + left. cbn [tl] in *. repeat split; auto.
      unfold sctp_read in Hr. rewrite Hfull, Nat.eqb_refl in Hr. cbn [andb] in Hr.
      destruct (mx <=? n); cbn in Hr; inversion Hr; subst; [now apply pend_full|].
      unfold pend; cbn [rbuf roff]. now rewrite skipn_nil.
    + right. cbn [tl] in *. rewrite Hk0 in Hk by (left; congruence). cbn [length]. lia.
  - right. destruct (Hsn Hnf) as [-> Ho]. rewrite Hk0 in Hk by now right.
    assert (0 < length (flat1 (o, e))).
    { unfold flat1; cbn [fst snd]. rewrite app_length, map_length. rewrite Ho.
      assert (Hl : length (skipn (roff st) (rbuf st)) = length (rbuf st) - roff st) by apply skipn_length.
      unfold rwf in Hwf. destruct (skipn (roff st) (rbuf st)); [cbn in Hl; lia|].
      destruct n; [lia|]. cbn. lia. }
    lia.
Qed.

Lemma reads_complete mx eos sizes : forall st s res st' rest,
  fits mx s -> rwf st -> Forall (fun n => 0 < n) sizes ->
  remaining st s <= length sizes ->
  reads mx eos sizes st s = (res, st', rest) ->
  pend st' = [] /\ rest = [].
Proof.
  induction sizes as [|n sizes IH]; intros st s res st' rest Hf Hwf Hpos Hlen Hr; cbn in Hr.
  - inversion Hr; subst. unfold remaining in Hlen. cbn in Hlen.
    destruct (pend st'); [|cbn in Hlen; lia]. destruct rest; [auto|cbn in Hlen; lia].
  - destruct (sctp_read mx eos st s n) as [[[st1 s1] o] e] eqn:H1.
    destruct (reads mx eos sizes st1 s1) as [[res2 st2] s2] eqn:H2.
    inversion Hr; subst. clear Hr. inversion Hpos; subst.
    destruct (sctp_read_flat _ _ _ _ _ _ _ _ _ Hf Hwf H1) as (Hf1 & Hw1 & _).
    destruct (read_progress _ _ _ _ _ _ _ _ _ Hf Hwf H3 H1) as [[Hp Hs]|Hlt].
    + (* already drained: stays drained *)
      destruct Hs as (-> & Hp1 & ->). eapply IH; eauto.
      unfold remaining. rewrite Hp1. cbn. lia.
    + eapply IH; eauto. cbn in Hlen. lia.
Qed.
