(* C16 (ii'): hbConn with Read as two selects and recvLoop with its blocked push. *)
From CJ Require Import Common.Base Common.BaseProofs C16.Model C16.ProofsRead C16.ProofsHb.
From Coq Require Import Lia.

Local Open Scope nat_scope.

Section H2Proofs.
  Variable mx : nat.
  Variable hb : bytes.
  Variable fast : bool.
  Notation step := (h2_step mx hb fast true).
  Notation run := (h2_run mx hb fast true).
  Notation filt := (hb_filter mx hb).

  Definition rheld (r : rpc) : list msg := match r with RHas m => [m] | _ => [] end.
  Definition lheld (l : lpc) : list msg := match l with LHeld m => [m] | _ => [] end.
  Definition cont (m : msg) (raw : mscript) : list msg :=
    match snd m with None => filt raw | Some _ => [] end.
  Definition tailF (st : h2st) (F : list msg) : Prop :=
    match h2loop st with
    | LRead => F = filt (h2raw st)
    | LHeld m => F = cont m (h2raw st)
    | LClosing => F = []
    | LStop => True
    end.

  Record inv2 (raw0 : mscript) (st : h2st) (got : list msg) : Prop := mkInv2 {
    i_closed : h2closed st = true -> h2loop st = LStop;
    i_drain  : h2rd st = RDrain -> h2closed st = true;
    i_parked : h2rd st = RParked -> h2q st = [] /\ h2closed st = false;
    i_eq     : exists F, got ++ rheld (h2rd st) ++ h2q st ++ lheld (h2loop st) ++ F = filt raw0 /\ tailF st F
  }.

  Lemma inv2_init raw : inv2 raw (h2_init raw) [].
  Proof. constructor; cbn; try discriminate. exists (filt raw). auto. Qed.

  Definition g1 (o : h2out) : list msg := match o with OGot m => [m] | _ => [] end.

  Lemma tail_after_push m raw : tailF (mkH2 raw [] (after_push m) false RIdle) (cont m raw).
  Proof. unfold tailF, after_push, cont. cbn. destruct (snd m); reflexivity. Qed.

  Lemma lheld_after m : lheld (after_push m) = [].
  Proof. unfold after_push. destruct (snd m); reflexivity. Qed.

  Ltac np id Heq m raw' :=
    constructor; cbn [h2closed h2loop h2rd h2q h2raw];
    [ let X := fresh in intros X; congruence
    | let X := fresh in intros X; first [discriminate X | exact (id X)]
    | let X := fresh in intros X; discriminate X
    | exists (cont m raw'); split;
      [ rewrite ?lheld_after; cbn [rheld lheld] in *; rewrite <- Heq; rewrite <- ?app_assoc; cbn [app]; reflexivity
      | unfold tailF, after_push, cont; cbn [h2loop h2raw]; destruct (snd m); reflexivity ] ].

  (* pushing message m, when the stream still owes m :: cont m raw' *)
  Lemma push_inv raw0 st got raw' m :
    inv2 raw0 st got -> h2loop st = LRead ->
    got ++ rheld (h2rd st) ++ h2q st ++ m :: cont m raw' = filt raw0 ->
    inv2 raw0 (h2_push st raw' m) got.
  Proof.
    intros [ic id ip _] Hl Heq. unfold h2_push.
    assert (Hc : h2closed st = false).
    { destruct (h2closed st) eqn:E; [|reflexivity]. rewrite (ic eq_refl) in Hl. discriminate. }
    destruct (h2rd st) eqn:Hr.
    - destruct (length (h2q st) <? recvChBufSize); np id Heq m raw'.
    - destruct (length (h2q st) <? recvChBufSize); np id Heq m raw'.
    - (* parked: handed over directly *)
      destruct (ip eq_refl) as [Hq _].
      constructor; cbn [h2closed h2loop h2rd h2q h2raw]; try (intros X; congruence).
      exists (cont m raw'). split.
      + rewrite lheld_after. cbn [rheld lheld] in *. rewrite Hq in *. rewrite <- Heq. cbn [app]. reflexivity.
      + unfold tailF, after_push, cont; cbn [h2loop h2raw]; destruct (snd m); reflexivity.
    - destruct (length (h2q st) <? recvChBufSize); np id Heq m raw'.
    - destruct (length (h2q st) <? recvChBufSize); np id Heq m raw'.
  Qed.

  Lemma pop_inv raw0 st got m q' :
    inv2 raw0 st got -> h2q st = m :: q' -> rheld (h2rd st) = [] ->
    inv2 raw0 (pop_rest st q') (got ++ [m]).
  Proof.
    intros [ic id ip (F & Heq & Ht)] Hq Hr. rewrite Hq, Hr in Heq. unfold pop_rest.
    destruct (h2loop st) as [|h| |] eqn:Hl;
      constructor; cbn [h2closed h2loop h2rd h2q h2raw]; try (intros X; discriminate X).
    - auto.
    - exists F. split; [|unfold tailF in *; rewrite Hl in Ht; cbn [h2loop h2raw]; exact Ht].
      cbn [rheld lheld app] in *. rewrite <- Heq. now rewrite <- !app_assoc.
    - intros X. specialize (ic X). discriminate.
    - exists F. unfold tailF in Ht. rewrite Hl in Ht. split.
      + rewrite lheld_after. cbn [rheld lheld app] in *. rewrite <- Heq. now rewrite <- !app_assoc.
      + unfold tailF, after_push, cont in *. cbn [h2loop h2raw]. destruct (snd h); assumption.
    - auto.
    - exists F. split; [|unfold tailF in *; rewrite Hl in Ht; cbn [h2loop h2raw]; exact Ht].
      cbn [rheld lheld app] in *. rewrite <- Heq. now rewrite <- !app_assoc.
    - auto.
    - exists F. split; [|unfold tailF; cbn [h2loop]; exact I].
      cbn [rheld lheld app] in *. rewrite <- Heq. now rewrite <- !app_assoc.
  Qed.

  Lemma rheld_wake r : rheld (wake_closed r) = rheld r.
  Proof. destruct r; reflexivity. Qed.

  (* closing from any loop state: whatever recvLoop still held or owed is dropped *)
  Lemma close_inv raw0 st got :
    inv2 raw0 st got ->
    inv2 raw0 (mkH2 (h2raw st) (h2q st) LStop true (wake_closed (h2rd st))) got.
  Proof.
    intros [ic id ip (F & Heq & Ht)]. constructor; cbn [h2closed h2loop h2rd h2q h2raw]; auto.
    - intros X. destruct (h2rd st); discriminate X.
    - exists (lheld (h2loop st) ++ F). rewrite rheld_wake. cbn [lheld app]. split; [exact Heq|exact I].
  Qed.

  Lemma step_inv raw0 st got op st' o :
    inv2 raw0 st got -> step st op = (st', o) -> inv2 raw0 st' (got ++ g1 o).
  Proof.
    intros Hi Hs. pose proof Hi as [ic id ip (F & Heq & Ht)].
    assert (Hsame : inv2 raw0 st (got ++ [])) by (now rewrite app_nil_r).
    destruct op; unfold h2_step in Hs.
    - (* OLoop *)
      destruct (h2loop st) eqn:Hl.
      + unfold tailF in Ht. rewrite Hl in Ht. cbn [lheld app] in Heq. subst F.
        destruct (h2raw st) as [|[d e] r] eqn:Hraw.
        * injection Hs as <- <-. cbn [g1]. rewrite app_nil_r. apply push_inv; auto.
        * cbn [hb_filter] in Heq. destruct (length d <=? mx).
          { destruct (bytes_eqb hb d).
            - injection Hs as <- <-. cbn [g1]. rewrite app_nil_r.
              constructor; cbn [h2closed h2loop h2rd h2q h2raw]; auto.
              exists (filt r). split; [exact Heq|reflexivity].
            - injection Hs as <- <-. cbn [g1]. rewrite app_nil_r. apply push_inv; auto.
              unfold cont. cbn [snd]. destruct e; exact Heq. }
          { injection Hs as <- <-. cbn [g1]. rewrite app_nil_r. apply push_inv; auto. }
      + injection Hs as <- <-. exact Hsame.
      + injection Hs as <- <-. cbn [g1]. rewrite app_nil_r. now apply close_inv.
      + injection Hs as <- <-. exact Hsame.
    - (* OTimeout *)
      destruct (h2loop st); injection Hs as <- <-; try exact Hsame.
      cbn [g1]. rewrite app_nil_r. now apply close_inv.
    - (* OClose *)
      injection Hs as <- <-. cbn [g1]. rewrite app_nil_r. now apply close_inv.
    - (* ORStart *)
      destruct (h2rd st) eqn:Hr; try (injection Hs as <- <-; exact Hsame).
      assert (Hsel : inv2 raw0 (mkH2 (h2raw st) (h2q st) (h2loop st) (h2closed st) RSel) (got ++ [])).
      { rewrite app_nil_r. constructor; cbn [h2closed h2loop h2rd h2q h2raw]; auto; try (intros X; discriminate X).
        exists F. try rewrite Hr in Heq. split; assumption. }
      destruct fast; [|injection Hs as <- <-; exact Hsel].
      destruct (h2q st) as [|m q'] eqn:Hq; injection Hs as <- <-; [exact Hsel|].
      cbn [g1]. apply pop_inv; auto. rewrite ?Hr; reflexivity.
    - (* OREnterQ *)
      destruct (h2rd st) eqn:Hr; try (injection Hs as <- <-; exact Hsame).
      destruct (h2q st) as [|m q'] eqn:Hq; injection Hs as <- <-; [exact Hsame|].
      cbn [g1]. apply pop_inv; auto. rewrite ?Hr; reflexivity.
    - (* OREnterC *)
      destruct (h2rd st) eqn:Hr; try (injection Hs as <- <-; exact Hsame).
      destruct (h2closed st) eqn:Hc; injection Hs as <- <-; [|exact Hsame].
      cbn [g1]. rewrite app_nil_r. constructor; cbn [h2closed h2loop h2rd h2q h2raw]; auto; try (intros X; discriminate X).
      exists F. try rewrite Hr in Heq. split; assumption.
    - (* OREnterPark *)
      destruct (h2rd st) eqn:Hr; try (injection Hs as <- <-; exact Hsame).
      destruct (h2q st) as [|m q'] eqn:Hq; [|injection Hs as <- <-; exact Hsame].
      destruct (h2closed st) eqn:Hc; injection Hs as <- <-; [exact Hsame|].
      cbn [g1]. rewrite app_nil_r. constructor; cbn [h2closed h2loop h2rd h2q h2raw]; auto; try (intros X; discriminate X).
      exists F. try rewrite Hr in Heq. split; assumption.
    - (* ORWake *)
      destruct (h2rd st) eqn:Hr; try (injection Hs as <- <-; exact Hsame).
      injection Hs as <- <-. cbn [g1]. constructor; cbn [h2closed h2loop h2rd h2q h2raw]; auto; try (intros X; discriminate X).
      exists F. try rewrite Hr in Heq. cbn [rheld app] in *. split; [|assumption]. rewrite <- Heq. now rewrite <- app_assoc.
    - (* ORDrain *)
      destruct (h2rd st) eqn:Hr; try (injection Hs as <- <-; exact Hsame).
      destruct (h2q st) as [|m q'] eqn:Hq; injection Hs as <- <-.
      + cbn [g1]. rewrite app_nil_r. constructor; cbn [h2closed h2loop h2rd h2q h2raw]; auto; try (intros X; discriminate X).
        exists F. try rewrite Hr in Heq. split; assumption.
      + cbn [g1]. apply pop_inv; auto. rewrite ?Hr; reflexivity.
  Qed.

  Lemma got2_cons o os : got2 (o :: os) = g1 o ++ got2 os.
  Proof. reflexivity. Qed.

  Lemma run_inv raw0 ops : forall st got st' os,
    inv2 raw0 st got -> run st ops = (st', os) -> inv2 raw0 st' (got ++ got2 os).
  Proof.
    induction ops as [|op ops IH]; intros st got st' os Hi Hr; cbn [h2_run] in Hr.
    - injection Hr as <- <-. cbn. now rewrite app_nil_r.
    - destruct (step st op) as [st1 o] eqn:H1. destruct (run st1 ops) as [st2 os2] eqn:H2.
      injection Hr as <- <-. rewrite got2_cons, app_assoc. eapply IH; [|exact H2]. eapply step_inv; eauto.
  Qed.

  (* every interleaving of loop steps, timeouts, closes and the individual steps of Read:
     what Read returned, what it was handed, the queue, and what recvLoop holds
     form a prefix of the filtered stream *)
  Theorem h2_queue_prefix raw ops st' os :
    run (h2_init raw) ops = (st', os) ->
    exists F, got2 os ++ rheld (h2rd st') ++ h2q st' ++ lheld (h2loop st') ++ F = filt raw.
  Proof.
    intros H. destruct (run_inv _ _ _ _ _ _ (inv2_init raw) H) as [_ _ _ (F & HF & _)].
    exists F. exact HF.
  Qed.

  Theorem h2_never_surfaces raw ops st' os :
    hb <> [] -> run (h2_init raw) ops = (st', os) -> Forall (fun m => fst m <> hb) (got2 os).
  Proof.
    intros Hne H. destruct (h2_queue_prefix _ _ _ _ H) as [F HF].
    pose proof (hb_filter_no_hb mx hb raw Hne) as Hall. rewrite <- HF in Hall.
    apply Forall_app in Hall. tauto.
  Qed.

  (* ---- net.ErrClosed only after the drain, and final ---- *)
  Definition dead (st : h2st) : Prop :=
    h2q st = [] /\ h2closed st = true /\ h2loop st = LStop /\ rheld (h2rd st) = [].

  Lemma errclosed_dead raw0 st got op st' :
    inv2 raw0 st got -> step st op = (st', OErrClosed) -> dead st'.
  Proof.
    intros [ic id ip _] Hs. unfold dead.
    destruct op; unfold h2_step in Hs.
    - destruct (h2loop st); [destruct (h2raw st) as [|[d e] r]; [|destruct (length d <=? mx); [destruct (bytes_eqb hb d)|]]| | |];
        discriminate Hs.
    - destruct (h2loop st); discriminate Hs.
    - discriminate Hs.
    - destruct (h2rd st); try discriminate Hs. destruct fast; [destruct (h2q st)|]; discriminate Hs.
    - destruct (h2rd st); try discriminate Hs. destruct (h2q st); discriminate Hs.
    - destruct (h2rd st); try discriminate Hs. destruct (h2closed st); discriminate Hs.
    - destruct (h2rd st); try discriminate Hs. destruct (h2q st); [destruct (h2closed st)|]; discriminate Hs.
    - destruct (h2rd st); discriminate Hs.
    - destruct (h2rd st) eqn:Hr; try discriminate Hs.
      pose proof (id eq_refl) as Hc. pose proof (ic Hc) as Hl.
      destruct (h2q st); [|discriminate Hs]. injection Hs as <-.
      cbn [h2closed h2loop h2rd h2q h2raw rheld]. auto.
  Qed.

  Lemma dead_stable st op st' o : dead st -> step st op = (st', o) -> dead st' /\ g1 o = [].
  Proof.
    intros (Hq & Hc & Hl & Hr) Hs. unfold dead.
    assert (Hsame : (h2q st = [] /\ h2closed st = true /\ h2loop st = LStop /\ rheld (h2rd st) = []) /\ g1 ONone = [])
      by (repeat split; auto).
    destruct op; unfold h2_step in Hs; rewrite ?Hq, ?Hc, ?Hl in Hs.
    - injection Hs as <- <-. exact Hsame.
    - injection Hs as <- <-. exact Hsame.
    - injection Hs as <- <-. cbn [h2closed h2loop h2rd h2q h2raw g1]. rewrite rheld_wake. auto.
    - destruct (h2rd st) eqn:E; try (injection Hs as <- <-; rewrite ?E; exact Hsame).
      destruct fast; injection Hs as <- <-; cbn [h2closed h2loop h2rd h2q h2raw g1 rheld]; auto.
    - destruct (h2rd st) eqn:E; injection Hs as <- <-; rewrite ?E; exact Hsame.
    - destruct (h2rd st) eqn:E; try (injection Hs as <- <-; rewrite ?E; exact Hsame).
      injection Hs as <- <-. cbn [h2closed h2loop h2rd h2q h2raw g1 rheld]. auto.
    - destruct (h2rd st) eqn:E; injection Hs as <- <-; rewrite ?E; exact Hsame.
    - destruct (h2rd st) eqn:E; try (injection Hs as <- <-; rewrite ?E; exact Hsame). cbn in Hr. discriminate Hr.
    - destruct (h2rd st) eqn:E; try (injection Hs as <- <-; rewrite ?E; exact Hsame).
      injection Hs as <- <-. cbn [h2closed h2loop h2rd h2q h2raw g1 rheld]. auto.
  Qed.

  Lemma dead_run ops : forall st st' os, dead st -> run st ops = (st', os) -> dead st' /\ got2 os = [].
  Proof.
    induction ops as [|op ops IH]; intros st st' os Hd Hr; cbn [h2_run] in Hr.
    - injection Hr as <- <-. auto.
    - destruct (step st op) as [st1 o] eqn:H1. destruct (run st1 ops) as [st2 os2] eqn:H2.
      injection Hr as <- <-. destruct (dead_stable _ _ _ _ Hd H1) as [Hd1 Hg].
      destruct (IH _ _ _ Hd1 H2) as [Hd2 Hg2]. rewrite got2_cons, Hg, Hg2. auto.
  Qed.

  Lemma run_last_errclosed raw0 ops : forall st got st' os,
    inv2 raw0 st got -> run st ops = (st', os) -> last os ONone = OErrClosed -> dead st'.
  Proof.
    induction ops as [|op ops IH]; intros st got st' os Hi Hr Hl; cbn [h2_run] in Hr.
    - injection Hr as <- <-. discriminate Hl.
    - destruct (step st op) as [st1 o] eqn:H1. destruct (run st1 ops) as [st2 os2] eqn:H2.
      injection Hr as <- <-. pose proof (step_inv _ _ _ _ _ _ Hi H1) as Hi1.
      destruct ops as [|op2 ops'].
      + cbn [h2_run] in H2. injection H2 as <- <-. cbn in Hl. subst o. exact (errclosed_dead _ _ _ _ _ Hi H1).
      + eapply IH; [exact Hi1|exact H2|].
        cbn [h2_run] in H2. destruct (step st1 op2). destruct (run h ops'). injection H2 as _ <-. exact Hl.
  Qed.

  (* For every interleaving, with Read split into its selects: once Read has
     reported net.ErrClosed the queue is empty, recvLoop has ended, and no message
     is ever returned afterwards. *)
  Theorem h2_closed_after_drain raw ops1 st1 os1 ops2 st2 os2 :
    run (h2_init raw) ops1 = (st1, os1) -> last os1 ONone = OErrClosed ->
    run st1 ops2 = (st2, os2) ->
    h2q st1 = [] /\ got2 os2 = [].
  Proof.
    intros H1 Hl H2. pose proof (run_last_errclosed _ _ _ _ _ _ (inv2_init raw) H1 Hl) as Hd.
    destruct (dead_run _ _ _ _ Hd H2) as [_ Hg]. destruct Hd as [Hq _]. auto.
  Qed.
End H2Proofs.
