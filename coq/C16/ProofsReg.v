(* C16 (iv): the listener registry — invariant over all schedules, any number of threads. *)
From CJ Require Import Common.Base C16.Model.
From Coq Require Import Lia.

Section RegProofs.
  Variable hr : N -> N.
  Variable asecs csecs : nat -> N.
  Notation lstep := (lstep hr asecs csecs).
  Notation lrun := (lrun hr asecs csecs).

  Record linv (g : lcfg) : Prop := mkInv {
    O1  : forall a, holds_cert (apc (acc g a)) = true -> certs g (hr (asecs a)) = Some a;
    O1r : forall i a, certs g i = Some a -> hr (asecs a) = i /\ holds_cert (apc (acc g a)) = true;
    O2  : forall a, holds_chan (apc (acc g a)) = true -> chans g (hr (asecs a)) = Some a;
    O2r : forall i a, chans g i = Some a -> hr (asecs a) = i /\ holds_chan (apc (acc g a)) = true;
    B1  : forall a c, bufs g a = Some c ->
            cpc (cns g c) = CSent /\ cchan (cns g c) = Some a /\ ares (acc g a) <> RGot c;
    R1  : forall a c, ares (acc g a) = RGot c -> cpc (cns g c) = CSent /\ cchan (cns g c) = Some a;
    H1  : forall c a, cchan (cns g c) = Some a ->
            hr (csecs c) = hr (asecs a) /\ cverified (cns g c) = true;
    V1  : forall c, cverified (cns g c) = true -> exists a, asecs a = csecs c /\ apc (acc g a) <> A0;
    VP  : forall c, cpc (cns g c) = C2 -> cverified (cns g c) = true;
    NC  : forall a, ares (acc g a) <> RErrChan
  }.

  Lemma linv_init : linv linit.
  Proof. constructor; cbn; try discriminate; try congruence. Qed.

  Ltac brk :=
    repeat match goal with
    | |- context [Nat.eqb ?x ?y] => destruct (Nat.eqb_spec x y); subst
    | |- context [N.eqb ?x ?y] => destruct (N.eqb_spec x y); subst
    | H : context [Nat.eqb ?x ?y] |- _ => destruct (Nat.eqb_spec x y); subst
    | H : context [N.eqb ?x ?y] |- _ => destruct (N.eqb_spec x y); subst
    end.

  Ltac unf := unfold set_acc, set_cn, updn, updN in *;
              cbn [certs chans bufs acc cns apc acancel ares cpc cserver cverified cchan] in *.

  (* saturate the context with the consequences of the invariant's clauses *)
  Ltac addh H :=
    let P := type of H in
    lazymatch goal with
    | _ : P |- _ => fail
    | _ => pose proof H
    end.
  Ltac sat1 :=
    match goal with
    | O : (forall a, holds_cert (apc (acc ?g a)) = true -> _), H : holds_cert (apc (acc ?g ?a)) = true |- _ => addh (O a H)
    | O : (forall i a, certs ?g i = Some a -> _), H : certs ?g ?i = Some ?a |- _ => addh (O i a H)
    | O : (forall a, holds_chan (apc (acc ?g a)) = true -> _), H : holds_chan (apc (acc ?g ?a)) = true |- _ => addh (O a H)
    | O : (forall i a, chans ?g i = Some a -> _), H : chans ?g ?i = Some ?a |- _ => addh (O i a H)
    | O : (forall a c, bufs ?g a = Some c -> _), H : bufs ?g ?a = Some ?c |- _ => addh (O a c H)
    | O : (forall a c, ares (acc ?g a) = RGot c -> _), H : ares (acc ?g ?a) = RGot ?c |- _ => addh (O a c H)
    | O : (forall c a, cchan (cns ?g c) = Some a -> _), H : cchan (cns ?g ?c) = Some ?a |- _ => addh (O c a H)
    | O : (forall c, cpc (cns ?g c) = C2 -> _), H : cpc (cns ?g ?c) = C2 |- _ => addh (O c H)
    | H : _ /\ _ |- _ => first [addh (proj1 H) | addh (proj2 H)]
    end.
  Ltac pcs :=
    repeat match goal with
    | H : apc (acc ?g ?a) = _ |- _ => rewrite H in *
    | H : cpc (cns ?g ?c) = _ |- _ => rewrite H in *
    end; cbn [holds_cert holds_chan] in *.
  Ltac exv :=
    match goal with
    | O : (forall c, cverified (cns ?g c) = true -> exists _, _), H : cverified (cns ?g ?c) = true |- exists _, _ =>
        let x := fresh "x" in destruct (O c H) as (x & ? & ?); exists x; split; [assumption|]; brk
    end.
  Ltac pcfacts :=
    repeat match goal with
    | H : apc (acc ?g ?a) = ?p |- _ =>
        lazymatch goal with
        | _ : holds_cert (apc (acc g a)) = _ |- _ => fail
        | _ => assert (holds_cert (apc (acc g a)) = holds_cert p) by (rewrite H; reflexivity);
               assert (holds_chan (apc (acc g a)) = holds_chan p) by (rewrite H; reflexivity)
        end
    end; cbn [holds_cert holds_chan] in *.
  Ltac fin := try exv; pcfacts; repeat sat1; pcs; repeat sat1;
              try discriminate; try congruence; eauto;
              try (repeat split; first [congruence | discriminate | eauto]);
              try (let X := fresh in intro X; repeat sat1; pcs; repeat sat1; congruence).

  Ltac go := constructor; unf; intros; unf; brk; unf; fin.

  Lemma lstep_inv g op : linv g -> linv (lstep g op).
  Proof.
    intros Hi. pose proof Hi as [o1 o1r o2 o2r b1 r1 h1 v1 vp nc].
    destruct op; unfold lstep.
    - (* LA *)
      destruct (apc (acc g a)) eqn:Hpc; try assumption.
      + destruct (certs g (hr (asecs a))) eqn:Hk; go.
      + destruct (chans g (hr (asecs a))) eqn:Hk; [exfalso|go].
        (* registerChannel cannot fail: whoever holds the channel also holds the certificate *)
        destruct (o2r _ _ Hk) as [He Hh].
        assert (Hc : holds_cert (apc (acc g n)) = true) by (destruct (apc (acc g n)); cbn in *; congruence).
        pose proof (o1 n Hc) as Hn. assert (Ha : holds_cert (apc (acc g a)) = true) by (rewrite Hpc; reflexivity).
        pose proof (o1 a Ha) as Ha'. rewrite He in Hn. assert (n = a) by congruence. subst.
        rewrite Hpc in Hh. discriminate.
      + go.
      + go.
    - (* LRecv *)
      destruct (apc (acc g a)) eqn:Hpc; try assumption.
      destruct (bufs g a) eqn:Hb; try assumption. go.
    - (* LCancelled *)
      destruct (apc (acc g a)) eqn:Hpc; try assumption.
      destruct (acancel (acc g a)) eqn:Hc; try assumption. go.
    - (* LCancel *) go.
    - (* LC *)
      destruct (cpc (cns g c)) eqn:Hpc; try assumption.
      + go.
      + destruct (cserver (cns g c)) eqn:Hs; [|go].
        destruct (certs g (hr (csecs c))) eqn:Hk; [|go].
        destruct ((n =? csecs c) && (asecs n0 =? csecs c)) eqn:Hv; [|go].
        constructor; unf; intros; unf; brk; unf; try solve [fin].
        exists n0. split; [assumption|]. destruct (o1r _ _ Hk) as [_ Hh].
        destruct (apc (acc g n0)); cbn in Hh; congruence.
      + destruct (chans g (hr (csecs c))) eqn:Hk; go.
    - (* LSend *)
      destruct (cpc (cns g c)) eqn:Hpc; try assumption.
      destruct (cchan (cns g c)) eqn:Hch; try assumption.
      destruct (bufs g n) eqn:Hb; try assumption. go.
    - (* LTimeout *)
      destruct (cpc (cns g c)) eqn:Hpc; try assumption. go.
  Qed.

  Lemma lrun_inv ops : forall g, linv g -> linv (lrun g ops).
  Proof.
    induction ops as [|op ops IH]; intros g Hi; [exact Hi|]. cbn. apply IH. now apply lstep_inv.
  Qed.

  Lemma reach_inv ops : linv (lrun linit ops).
  Proof. apply lrun_inv, linv_init. Qed.

  (* a connection is handed only to the acceptor registered under its hello-random,
     only after a handshake that some registered acceptor's certificates passed *)
  Theorem delivery_to_matching_acceptor ops a c :
    ares (acc (lrun linit ops) a) = RGot c ->
    hr (csecs c) = hr (asecs a) /\
    cverified (cns (lrun linit ops) c) = true /\
    exists a0, asecs a0 = csecs c /\ apc (acc (lrun linit ops) a0) <> A0.
  Proof.
    intros H. destruct (reach_inv ops) as [_ _ _ _ _ r1 h1 v1 _ _].
    destruct (r1 _ _ H) as [_ Hc]. destruct (h1 _ _ Hc) as [He Hv]. auto.
  Qed.

  (* ... and to no other acceptor *)
  Theorem delivered_to_one ops a1 a2 c :
    ares (acc (lrun linit ops) a1) = RGot c -> ares (acc (lrun linit ops) a2) = RGot c -> a1 = a2.
  Proof.
    intros H1 H2. destruct (reach_inv ops) as [_ _ _ _ _ r1 _ _ _ _].
    destruct (r1 _ _ H1) as [_ E1]. destruct (r1 _ _ H2) as [_ E2]. congruence.
  Qed.

  (* under injectivity of the hello-random derivation: same secret *)
  Theorem delivery_same_secret ops a c :
    (forall s1 s2, hr s1 = hr s2 -> s1 = s2) ->
    ares (acc (lrun linit ops) a) = RGot c -> csecs c = asecs a.
  Proof. intros Hinj H. apply Hinj. now destruct (delivery_to_matching_acceptor _ _ _ H). Qed.

  (* when every accept has returned (or has not started), both maps are empty *)
  Theorem cancel_leaves_nothing ops :
    (forall a, holds_cert (apc (acc (lrun linit ops) a)) = false) ->
    forall i, certs (lrun linit ops) i = None /\ chans (lrun linit ops) i = None.
  Proof.
    intros Hall i. destruct (reach_inv ops) as [_ o1r _ o2r _ _ _ _ _ _]. split.
    - destruct (certs (lrun linit ops) i) as [a|] eqn:E; [|reflexivity].
      destruct (o1r _ _ E) as [_ Hh]. rewrite Hall in Hh. discriminate.
    - destruct (chans (lrun linit ops) i) as [a|] eqn:E; [|reflexivity].
      destruct (o2r _ _ E) as [_ Hh].
      specialize (Hall a). destruct (apc (acc (lrun linit ops) a)); cbn in *; congruence.
  Qed.

  (* exactly the accepts in flight are registered: an entry belongs to the one
     acceptor that is between its registration and its deferred removal *)
  Theorem registry_exact ops i a :
    (certs (lrun linit ops) i = Some a <->
       hr (asecs a) = i /\ holds_cert (apc (acc (lrun linit ops) a)) = true) /\
    (chans (lrun linit ops) i = Some a <->
       hr (asecs a) = i /\ holds_chan (apc (acc (lrun linit ops) a)) = true).
  Proof.
    destruct (reach_inv ops) as [o1 o1r o2 o2r _ _ _ _ _ _]. split; split.
    - apply o1r.
    - intros [<- H]. now apply o1.
    - apply o2r.
    - intros [<- H]. now apply o2.
  Qed.

  (* a second accept for a secret that is registered fails and disturbs nothing *)
  Theorem second_accept_fails ops a b :
    let g := lrun linit ops in
    hr (asecs a) = hr (asecs b) -> holds_cert (apc (acc g a)) = true -> apc (acc g b) = A0 ->
    let g' := lstep g (LA b) in
    certs g' = certs g /\ chans g' = chans g /\ bufs g' = bufs g /\ cns g' = cns g /\
    (forall x, x <> b -> acc g' x = acc g x) /\
    apc (acc g' b) = ADone /\ ares (acc g' b) = RErrDup.
  Proof.
    intros g He Hh Hb g'. destruct (reach_inv ops) as [o1 _ _ _ _ _ _ _ _ _].
    pose proof (o1 _ Hh) as Hc. fold g in Hc. rewrite He in Hc.
    subst g'. unfold lstep. rewrite Hb, Hc. unfold set_acc, updn. cbn.
    repeat split; try reflexivity.
    - intros x Hx. destruct (Nat.eqb_spec x b); [contradiction|reflexivity].
    - now rewrite Nat.eqb_refl.
    - now rewrite Nat.eqb_refl.
  Qed.

  Theorem register_channel_never_fails ops a : ares (acc (lrun linit ops) a) <> RErrChan.
  Proof. destruct (reach_inv ops) as [_ _ _ _ _ _ _ _ _ nc]. apply nc. Qed.

  (* a client whose secret no acceptor uses never completes a handshake, hence is never delivered *)
  Theorem unregistered_never_completes ops c :
    (forall a, asecs a <> csecs c) ->
    cverified (cns (lrun linit ops) c) = false /\ forall a, ares (acc (lrun linit ops) a) <> RGot c.
  Proof.
    intros Hno. destruct (reach_inv ops) as [_ _ _ _ _ r1 h1 v1 _ _].
    assert (Hv : cverified (cns (lrun linit ops) c) = false).
    { destruct (cverified (cns (lrun linit ops) c)) eqn:E; [|reflexivity].
      destruct (v1 _ E) as (a & Ha & _). exfalso. exact (Hno a Ha). }
    split; [exact Hv|]. intros a H. destruct (r1 _ _ H) as [_ Hc]. destruct (h1 _ _ Hc) as [_ Hv'].
    congruence.
  Qed.

  (* ---- a cancelled accept returns by its own steps alone ---- *)
  Definition la_next (p p' : apc_t) : Prop :=
    match p with
    | A0 => p' = ADone \/ p' = A1
    | A1 => p' = A4 \/ p' = A2
    | A2 => p' = A2
    | A3 => p' = A4
    | A4 => p' = ADone
    | ADone => p' = ADone
    end.

  Lemma LA_pc g a :
    la_next (apc (acc g a)) (apc (acc (lstep g (LA a)) a)) /\
    acancel (acc (lstep g (LA a)) a) = acancel (acc g a).
  Proof.
    unfold lstep. destruct (apc (acc g a)) eqn:Hp; cbn [la_next].
    - destruct (certs g (hr (asecs a))); unfold set_acc, updn; cbn [acc apc acancel];
        rewrite Nat.eqb_refl; cbn; auto.
    - destruct (chans g (hr (asecs a))); unfold set_acc, updn; cbn [acc apc acancel];
        rewrite Nat.eqb_refl; cbn; auto.
    - rewrite Hp. auto.
    - unfold updn; cbn [acc apc acancel]; rewrite Nat.eqb_refl; cbn; auto.
    - unfold updn; cbn [acc apc acancel]; rewrite Nat.eqb_refl; cbn; auto.
    - rewrite Hp. auto.
  Qed.

  Lemma LCancelled_pc g a :
    acancel (acc g a) = true ->
    apc (acc (lstep g (LCancelled a)) a) = match apc (acc g a) with A2 => A3 | p => p end /\
    acancel (acc (lstep g (LCancelled a)) a) = true.
  Proof.
    intros Hc. unfold lstep. destruct (apc (acc g a)) eqn:Hp; try (rewrite Hp; auto).
    rewrite Hc. unfold set_acc, updn; cbn [acc apc acancel]. rewrite Nat.eqb_refl. cbn. auto.
  Qed.

  (* from any configuration: once its context is cancelled, an accept reaches
     its return in five of its own steps, whatever the other threads did before *)
  Theorem cancelled_accept_returns g a :
    acancel (acc g a) = true ->
    apc (acc (lrun g [LA a; LA a; LCancelled a; LA a; LA a]) a) = ADone.
  Proof.
    intros Hc. unfold lrun. cbn [fold_left].
    destruct (LA_pc g a) as [P1 Q1]. remember (lstep g (LA a)) as g1 eqn:E1. clear E1.
    destruct (LA_pc g1 a) as [P2 Q2]. remember (lstep g1 (LA a)) as g2 eqn:E2. clear E2.
    assert (Hc2 : acancel (acc g2 a) = true) by congruence.
    destruct (LCancelled_pc g2 a Hc2) as [P3 Q3]. remember (lstep g2 (LCancelled a)) as g3 eqn:E3. clear E3.
    destruct (LA_pc g3 a) as [P4 _]. remember (lstep g3 (LA a)) as g4 eqn:E4. clear E4.
    destruct (LA_pc g4 a) as [P5 _]. remember (lstep g4 (LA a)) as g5 eqn:E5. clear E5.
    destruct (apc (acc g a)); cbn [la_next] in P1; (try destruct P1 as [P1|P1]);
      rewrite P1 in P2; cbn [la_next] in P2; (try destruct P2 as [P2|P2]);
      rewrite P2 in P3; cbn in P3; rewrite P3 in P4; cbn [la_next] in P4; (try destruct P4 as [P4|P4]);
      rewrite P4 in P5; cbn [la_next] in P5; (try destruct P5 as [P5|P5]); assumption.
  Qed.
End RegProofs.
