(* C16 (iii): write flow control keeps the buffered amount bounded. *)
From CJ Require Import Common.Base C16.Model.
From Coq Require Import Lia ZifyN ZifyBool.

Local Open Scope N_scope.

Definition fpending (st : fcst) : N := match fwr st with FGo n => n | _ => 0 end.

Definition fc_inv (st : fcst) : Prop :=
  fbuf st + fpending st <= wmax + wthr + fforeign st /\
  (ftoken st = true -> fbuf st + fpending st <= wmax + fforeign st) /\
  match fwr st with FIdle => True | FWait n | FGo n => 0 < n <= wthr end.

Lemma fc_inv_init : fc_inv fc_init.
Proof. unfold fc_inv, fc_init, fpending, wmax, wthr; cbn. repeat split; try lia. Qed.

Lemma fc_step_inv st op : fc_inv st -> fc_inv (fst (fc_step st op)).
Proof.
  unfold fc_inv, fpending. destruct st as [b tk wr cl F]. cbn [fbuf ftoken fwr fclosed fforeign].
  intros (I1 & I2 & I3). unfold wmax, wthr in *.
  assert (Hp : match wr with FGo n => n | _ => 0 end <= 131072) by (destruct wr; lia).
  destruct op; unfold fc_step, wmax, wthr; cbn [fbuf ftoken fwr fclosed fforeign].
  - (* FStart *)
    destruct wr; cbn [fst fbuf ftoken fwr fforeign]; auto.
    destruct (N.eqb_spec n 0); cbn [fst fbuf ftoken fwr fforeign]; auto.
    destruct (N.ltb_spec 131072 n); cbn [fst fbuf ftoken fwr fforeign]; auto.
    destruct (N.ltb_spec 262144 (b + n)); cbn [fst fbuf ftoken fwr fforeign]; repeat split; auto; try lia;
      try (intros Ht; specialize (I2 Ht); lia).
  - (* FTake *)
    destruct wr; cbn [fst fbuf ftoken fwr fforeign]; auto.
    destruct tk; cbn [fst fbuf ftoken fwr fforeign]; auto.
    specialize (I2 eq_refl). repeat split; try lia; try discriminate.
  - (* FAbort *)
    destruct wr; cbn [fst fbuf ftoken fwr fforeign]; auto.
    destruct cl; cbn [fst fbuf ftoken fwr fforeign]; auto.
  - (* FDo *)
    destruct wr; cbn [fst fbuf ftoken fwr fforeign]; auto.
    repeat split; auto; try lia; try (intros Ht; specialize (I2 Ht); lia).
  - (* FDrain *)
    cbn [fst fbuf ftoken fwr fforeign].
    repeat split; [lia| |assumption].
    intros Ht. apply orb_true_iff in Ht as [Ht|Ht]; [specialize (I2 Ht); lia|].
    apply andb_true_iff in Ht as [_ Hle]. apply N.leb_le in Hle. lia.
  - (* FForeign *)
    cbn [fst fbuf ftoken fwr fforeign]. repeat split; auto; try lia;
      try (intros Ht; specialize (I2 Ht); lia).
  - cbn [fst fbuf ftoken fwr fforeign]. auto.
Qed.

Lemma fc_trace_inv ops : forall st, fc_inv st -> Forall fc_inv (fc_trace st ops).
Proof.
  induction ops as [|op ops IH]; intros st Hi; cbn [fc_trace].
  - constructor; [assumption|constructor].
  - constructor; [assumption|]. apply IH. now apply fc_step_inv.
Qed.

(* In every state of every run -- any order of writes (each at most 128 KiB, or
   rejected), drains, token deliveries, closes and foreign writes -- the
   buffered amount is at most 256 KiB + 128 KiB plus what bypassed flow control. *)
Theorem buffered_bounded ops :
  Forall (fun st => fbuf st <= 393216 + fforeign st) (fc_trace fc_init ops).
Proof.
  eapply Forall_impl; [|apply fc_trace_inv, fc_inv_init].
  intros st (I1 & _ & _). unfold wmax, wthr, fpending in I1. destruct (fwr st); lia.
Qed.

Lemma fc_foreign_zero ops : forall st,
  Forall (fun op => match op with FForeign _ => False | _ => True end) ops ->
  Forall (fun s => fforeign s = fforeign st) (fc_trace st ops).
Proof.
  induction ops as [|op ops IH]; intros st Hn; cbn [fc_trace].
  - constructor; [reflexivity|constructor].
  - inversion Hn; subst. constructor; [reflexivity|].
    assert (E : fforeign (fst (fc_step st op)) = fforeign st).
    { destruct st as [b tk wr cl F]. destruct op; unfold fc_step; cbn [fbuf ftoken fwr fclosed fforeign];
        try contradiction;
        repeat match goal with |- context [match ?x with _ => _ end] => destruct x end; reflexivity. }
    rewrite <- E. apply IH. assumption.
Qed.

Theorem buffered_bounded_no_foreign ops :
  Forall (fun op => match op with FForeign _ => False | _ => True end) ops ->
  Forall (fun st => fbuf st <= 393216) (fc_trace fc_init ops).
Proof.
  intros Hn. pose proof (buffered_bounded ops) as Hb. pose proof (fc_foreign_zero ops fc_init Hn) as Hz.
  rewrite Forall_forall in *. intros st Hin. specialize (Hb st Hin). specialize (Hz st Hin).
  cbn in Hz. lia.
Qed.

(* a write larger than 128 KiB is refused and changes nothing; an empty write is a no-op *)
Lemma write_limit st n :
  fwr st = FIdle -> wthr < n -> fc_step st (FStart n) = (st, FRet 0 (Some E_LIMIT)).
Proof.
  intros Hi Hn. unfold fc_step. rewrite Hi. unfold wthr in *.
  destruct (N.eqb_spec n 0); [lia|]. destruct (N.ltb_spec 131072 n); [reflexivity|lia].
Qed.
