(* C16 (vi): any number of goroutines writing to one SCTPConn.
   - the buffered amount stays within writeMaxBufferedAmount + one maximal write, for every
     number of writers, every size sequence, every interleaving, every drain behaviour;
   - mutual exclusion of the check-wait-write section, no lost wake-up, every pending Write can
     complete once the network drains (no deadlock);
   - the multi-writer system under the mutex refines the one-writer model fc_step;
   - without the mutex around the check the bound grows with the number of writers. *)
From CJ Require Import Common.Base C16.Model C16.ModelMw C16.ProofsFc.
From Coq Require Import Lia ZifyN ZifyNat ZifyBool.

Local Open Scope N_scope.

Definition mw_pending (st : mwst) : N :=
  match mlock st with
  | Some t => match mpcs st t with MGo n => n | _ => 0 end
  | None => 0
  end.

Definition pc_size_ok (p : mpc) : Prop :=
  match p with MLock n | MChk n | MSel n | MGo n => 0 < n <= wthr | _ => True end.

Definition mw_inv (st : mwst) : Prop :=
  (forall t, in_critical VLocked (mpcs st t) = true -> mlock st = Some t) /\
  (forall t, mlock st = Some t -> in_critical VLocked (mpcs st t) = true) /\
  (forall t, pc_size_ok (mpcs st t)) /\
  mbuf st + mw_pending st <= wmax + wthr + mforeign st /\
  (mtoken st = true -> mbuf st + mw_pending st <= wmax + mforeign st) /\
  (mtaken st = false -> mbuf st + mw_pending st <= wmax + mforeign st) /\
  (forall t n, mpcs st t = MSel n -> mtoken st = true \/ wthr < mbuf st).

Lemma mw_inv_init : mw_inv mw_init.
Proof.
  unfold mw_inv, mw_init, mw_pending, wmax, wthr; cbn.
  repeat split; try lia; try discriminate.
Qed.

Ltac upd t0 t := unfold updn; destruct (Nat.eqb_spec t0 t) as [->|?].

(* the pending amount when the lock holder is known *)
Lemma pending_holder b tk cl F tkn u pcs :
  mw_pending (mkM b tk cl F tkn (Some u) pcs) = match pcs u with MGo n => n | _ => 0 end.
Proof. reflexivity. Qed.

Lemma pending_upd_other b tk cl F tkn lk pcs t p :
  lk <> Some t ->
  mw_pending (mkM b tk cl F tkn lk (updn pcs t p)) = mw_pending (mkM b tk cl F tkn lk pcs).
Proof.
  intros Hne. unfold mw_pending; cbn. destruct lk as [u|]; [|reflexivity].
  unfold updn. destruct (Nat.eqb_spec u t) as [->|?]; [congruence|reflexivity].
Qed.

Lemma pending_upd_holder b tk cl F tkn pcs t p :
  mw_pending (mkM b tk cl F tkn (Some t) (updn pcs t p)) = match p with MGo n => n | _ => 0 end.
Proof. unfold mw_pending; cbn. unfold updn. rewrite Nat.eqb_refl. reflexivity. Qed.

Lemma noncrit_not_holder st t :
  mw_inv st -> in_critical VLocked (mpcs st t) = false -> mlock st <> Some t.
Proof. intros (_ & Hb & _) Hn E. rewrite (Hb t E) in Hn. discriminate. Qed.

Ltac split7 := refine (conj _ (conj _ (conj _ (conj _ (conj _ (conj _ _)))))).
Ltac simp := cbn [mbuf mtoken mclosed mforeign mtaken mlock mpcs] in *.

Lemma mw_step_inv st op : mw_inv st -> mw_inv (mw_step VLocked st op).
Proof.
  intros Hinv. pose proof Hinv as (Ha & Hb & Hs & I1 & I2 & I3 & Hw).
  destruct st as [b tk cl F tkn lk pcs]. simp.
  unfold wmax, wthr in *.
  destruct op as [t n|t|t|t|t|t|t|t|d|k|]; unfold mw_step, set_pc, after_check, wmax, wthr; simp.
  - (* MStart *)
    destruct (pcs t) eqn:Ept; try exact Hinv.
    assert (Hnh : lk <> Some t).
    { apply (noncrit_not_holder _ t Hinv); cbn; rewrite Ept; reflexivity. }
    assert (forall p, in_critical VLocked p = false -> pc_size_ok p ->
              mw_inv (mkM b tk cl F tkn lk (updn pcs t p))) as Hgen.
    { intros p Hp Hsz. unfold mw_inv; simp; unfold wmax, wthr.
      rewrite (pending_upd_other b tk cl F tkn lk pcs t p Hnh).
      split7; try assumption.
      - intros t0; upd t0 t; [rewrite Hp; discriminate|apply Ha].
      - intros t0 E; upd t0 t; [congruence|apply Hb; exact E].
      - intros t0; upd t0 t; [exact Hsz|apply Hs].
      - intros t0 m; upd t0 t; [intros E; subst p; discriminate|apply Hw]. }
    destruct (N.eqb_spec n 0); [apply Hgen; cbn; auto|].
    destruct (N.ltb_spec 131072 n); [apply Hgen; cbn; auto|].
    apply Hgen; cbn; auto. unfold wthr; lia.
  - (* MLockOp *)
    destruct (pcs t) eqn:Ept; try exact Hinv.
    destruct lk as [u|]; [exact Hinv|].
    assert (Hnc : forall t0, in_critical VLocked (pcs t0) = false).
    { intros t0. destruct (in_critical VLocked (pcs t0)) eqn:E; [|reflexivity].
      specialize (Ha t0 E). discriminate. }
    unfold mw_inv; simp; unfold wmax, wthr.
    rewrite pending_upd_holder. unfold mw_pending in I1, I2, I3; simp.
    pose proof (Hs t) as Hst. rewrite Ept in Hst. cbn [pc_size_ok] in Hst. unfold wthr in Hst.
    split7.
    + intros t0; upd t0 t; [reflexivity|]. rewrite Hnc. discriminate.
    + intros t0 E. injection E as <-. unfold updn. rewrite Nat.eqb_refl. reflexivity.
    + intros t0; upd t0 t; [cbn [pc_size_ok]; unfold wthr; lia|apply Hs].
    + lia.
    + intros H; specialize (I2 H); lia.
    + intros H; specialize (I3 H); lia.
    + intros t0 m; upd t0 t; [discriminate|apply Hw].
  - (* MCheck *)
    destruct (pcs t) eqn:Ept; try exact Hinv.
    assert (Hlk : lk = Some t) by (apply Ha; rewrite Ept; reflexivity). subst lk.
    pose proof (Hs t) as Hst. rewrite Ept in Hst. cbn [pc_size_ok] in Hst. unfold wthr in Hst.
    rewrite pending_holder in I1, I2, I3. rewrite Ept in I1, I2, I3.
    destruct (N.ltb_spec 262144 (b + n)); unfold mw_inv; simp; unfold wmax, wthr; rewrite pending_upd_holder.
    + split7.
      * intros t0; upd t0 t; [reflexivity|apply Ha].
      * intros t0 E; upd t0 t; [reflexivity|apply Hb; exact E].
      * intros t0; upd t0 t; [cbn [pc_size_ok]; unfold wthr; lia|apply Hs].
      * lia.
      * intros H0; specialize (I2 H0); lia.
      * intros H0; specialize (I3 H0); lia.
      * intros t0 m; upd t0 t; [intros _; right; lia|apply Hw].
    + split7.
      * intros t0; upd t0 t; [reflexivity|apply Ha].
      * intros t0 E; upd t0 t; [reflexivity|apply Hb; exact E].
      * intros t0; upd t0 t; [cbn [pc_size_ok]; unfold wthr; lia|apply Hs].
      * lia.
      * intros _; lia.
      * intros _; lia.
      * intros t0 m; upd t0 t; [discriminate|apply Hw].
  - (* MTake *)
    destruct (pcs t) eqn:Ept; try exact Hinv.
    destruct tk; [|exact Hinv].
    assert (Hlk : lk = Some t) by (apply Ha; rewrite Ept; reflexivity). subst lk.
    pose proof (Hs t) as Hst. rewrite Ept in Hst. cbn [pc_size_ok] in Hst. unfold wthr in Hst.
    rewrite pending_holder in I1, I2, I3. rewrite Ept in I1, I2, I3.
    specialize (I2 eq_refl).
    unfold mw_inv; simp; unfold wmax, wthr. rewrite pending_upd_holder.
    split7.
    + intros t0; upd t0 t; [reflexivity|apply Ha].
    + intros t0 E; upd t0 t; [reflexivity|apply Hb; exact E].
    + intros t0; upd t0 t; [cbn [pc_size_ok]; unfold wthr; lia|apply Hs].
    + lia.
    + discriminate.
    + discriminate.
    + intros t0 m; upd t0 t; [discriminate|].
      intros E. assert (Some t = Some t0) by (apply Ha; rewrite E; reflexivity). congruence.
  - (* MAbort *)
    destruct (pcs t) eqn:Ept; try exact Hinv.
    destruct cl; [|exact Hinv].
    assert (Hlk : lk = Some t) by (apply Ha; rewrite Ept; reflexivity). subst lk.
    rewrite pending_holder in I1, I2, I3. rewrite Ept in I1, I2, I3.
    unfold mw_inv; simp; unfold wmax, wthr. rewrite pending_upd_holder.
    split7; try assumption.
    + intros t0; upd t0 t; [reflexivity|apply Ha].
    + intros t0 E; upd t0 t; [reflexivity|apply Hb; exact E].
    + intros t0; upd t0 t; [exact I|apply Hs].
    + intros t0 m; upd t0 t; [discriminate|apply Hw].
  - (* MDo *)
    destruct (pcs t) eqn:Ept; try exact Hinv.
    assert (Hlk : lk = Some t) by (apply Ha; rewrite Ept; reflexivity). subst lk.
    rewrite pending_holder in I1, I2, I3. rewrite Ept in I1, I2, I3.
    unfold mw_inv; simp; unfold wmax, wthr. rewrite pending_upd_holder.
    split7.
    + intros t0; upd t0 t; [reflexivity|apply Ha].
    + intros t0 E; upd t0 t; [reflexivity|apply Hb; exact E].
    + intros t0; upd t0 t; [exact I|apply Hs].
    + lia.
    + intros H; specialize (I2 H); lia.
    + intros H; specialize (I3 H); lia.
    + intros t0 m; upd t0 t; [discriminate|].
      intros E. assert (Some t = Some t0) by (apply Ha; rewrite E; reflexivity). congruence.
  - (* MUnlock *)
    destruct (pcs t) eqn:Ept; try exact Hinv.
    assert (Hlk : lk = Some t) by (apply Ha; rewrite Ept; reflexivity). subst lk.
    rewrite pending_holder in I1, I2, I3. rewrite Ept in I1, I2, I3.
    unfold mw_inv, mw_pending; simp; unfold wmax, wthr.
    split7.
    + intros t0; upd t0 t; [discriminate|].
      intros E. assert (Some t = Some t0) by (apply Ha; exact E). congruence.
    + discriminate.
    + intros t0; upd t0 t; [exact I|apply Hs].
    + lia.
    + intros H; specialize (I2 H); lia.
    + intros H; specialize (I3 H); lia.
    + intros t0 m; upd t0 t; [discriminate|apply Hw].
  - (* MRet *)
    destruct (pcs t) eqn:Ept; try exact Hinv.
    assert (Hnh : lk <> Some t).
    { apply (noncrit_not_holder _ t Hinv); cbn; rewrite Ept; reflexivity. }
    unfold mw_inv; simp; unfold wmax, wthr.
    rewrite (pending_upd_other b tk cl F tkn lk pcs t MIdle Hnh).
    split7; try assumption.
    + intros t0; upd t0 t; [discriminate|apply Ha].
    + intros t0 E; upd t0 t; [congruence|apply Hb; exact E].
    + intros t0; upd t0 t; [exact I|apply Hs].
    + intros t0 m; upd t0 t; [discriminate|apply Hw].
  - (* MDrain *)
    unfold mw_inv, mw_pending in *; simp; unfold wmax, wthr in *.
    assert (Hp : match lk with Some t => match pcs t with MGo n => n | _ => 0 end | None => 0 end <= 131072).
    { destruct lk as [u|]; [|lia]. pose proof (Hs u) as Hsu. destruct (pcs u); cbn [pc_size_ok] in Hsu; unfold wthr in Hsu; lia. }
    split7; try assumption.
    + lia.
    + intros Ht. apply orb_true_iff in Ht as [Ht|Ht]; [specialize (I2 Ht); lia|].
      apply andb_true_iff in Ht as [_ Hle]. apply N.leb_le in Hle. lia.
    + intros H; specialize (I3 H); lia.
    + intros t0 m E. destruct (Hw t0 m E) as [->|Hgt]; [left; reflexivity|].
      destruct (N.leb_spec (b - d) 131072) as [Hle|Hgt2].
      * left. apply orb_true_iff. right. apply andb_true_iff. split; [apply N.ltb_lt; exact Hgt|reflexivity].
      * right. exact Hgt2.
  - (* MForeign *)
    unfold mw_inv, mw_pending in *; simp; unfold wmax, wthr in *.
    split7; try assumption.
    + lia.
    + intros H; specialize (I2 H); lia.
    + intros H; specialize (I3 H); lia.
    + intros t0 m E. destruct (Hw t0 m E) as [->|Hgt]; [left; reflexivity|right; lia].
  - (* MClose *)
    exact Hinv.
Qed.

Lemma mw_trace_inv ops : forall st, mw_inv st -> Forall mw_inv (mw_trace VLocked st ops).
Proof.
  induction ops as [|op ops IH]; intros st Hi; cbn [mw_trace].
  - constructor; [assumption|constructor].
  - constructor; [assumption|]. apply IH. now apply mw_step_inv.
Qed.

Lemma mw_run_inv ops : forall st, mw_inv st -> mw_inv (mw_run VLocked st ops).
Proof.
  unfold mw_run. induction ops as [|op ops IH]; intros st Hi; cbn [fold_left]; [assumption|].
  apply IH. now apply mw_step_inv.
Qed.

(* ------------------------------------------------------------------ *)
(* the bound, independent of the number of writers                     *)
(* ------------------------------------------------------------------ *)

Theorem mw_buffered_bounded ops :
  Forall (fun st => mbuf st <= 393216 + mforeign st) (mw_trace VLocked mw_init ops).
Proof.
  eapply Forall_impl; [|apply mw_trace_inv, mw_inv_init].
  intros st (_ & _ & _ & I1 & _). unfold wmax, wthr in I1. lia.
Qed.

(* as long as no token has been consumed -- in particular when the network never drains --
   the amount stays within writeMaxBufferedAmount itself *)
Theorem mw_buffered_bounded_no_token_taken ops :
  Forall (fun st => mtaken st = false -> mbuf st <= 262144 + mforeign st) (mw_trace VLocked mw_init ops).
Proof.
  eapply Forall_impl; [|apply mw_trace_inv, mw_inv_init].
  intros st (_ & _ & _ & _ & _ & I3 & _) H. specialize (I3 H). unfold wmax in I3. lia.
Qed.

Lemma mw_foreign_const ops : forall st,
  Forall (fun op => match op with MForeign _ => False | _ => True end) ops ->
  Forall (fun s => mforeign s = mforeign st) (mw_trace VLocked st ops).
Proof.
  induction ops as [|op ops IH]; intros st Hn; cbn [mw_trace].
  - constructor; [reflexivity|constructor].
  - inversion Hn; subst. constructor; [reflexivity|].
    assert (E : mforeign (mw_step VLocked st op) = mforeign st).
    { destruct st as [b tk cl F tkn lk pcs]. destruct op; unfold mw_step, set_pc;
        cbn [mbuf mtoken mclosed mforeign mtaken mlock mpcs]; try contradiction;
        repeat match goal with |- context [match ?x with _ => _ end] => destruct x end; reflexivity. }
    rewrite <- E. apply IH. assumption.
Qed.

Theorem mw_buffered_bounded_no_foreign ops :
  Forall (fun op => match op with MForeign _ => False | _ => True end) ops ->
  Forall (fun st => mbuf st <= 393216) (mw_trace VLocked mw_init ops).
Proof.
  intros Hn. pose proof (mw_buffered_bounded ops) as Hb. pose proof (mw_foreign_const ops mw_init Hn) as Hz.
  rewrite Forall_forall in *. intros st Hin. specialize (Hb st Hin). specialize (Hz st Hin).
  cbn in Hz. lia.
Qed.

(* ------------------------------------------------------------------ *)
(* mutual exclusion, no lost wake-up                                    *)
(* ------------------------------------------------------------------ *)

Theorem mw_mutual_exclusion ops st t1 t2 :
  In st (mw_trace VLocked mw_init ops) ->
  in_critical VLocked (mpcs st t1) = true -> in_critical VLocked (mpcs st t2) = true -> t1 = t2.
Proof.
  intros Hin H1 H2. pose proof (mw_trace_inv ops mw_init mw_inv_init) as Hf.
  rewrite Forall_forall in Hf. destruct (Hf st Hin) as (Ha & _).
  pose proof (Ha t1 H1) as E1. pose proof (Ha t2 H2) as E2. congruence.
Qed.

(* a writer waiting in the select either has a token waiting for it, or the buffered amount is
   still above the low threshold, so that the drain that brings it down posts one *)
Theorem mw_no_lost_wakeup ops st t n :
  In st (mw_trace VLocked mw_init ops) -> mpcs st t = MSel n -> mtoken st = true \/ wthr < mbuf st.
Proof.
  intros Hin E. pose proof (mw_trace_inv ops mw_init mw_inv_init) as Hf.
  rewrite Forall_forall in Hf. destruct (Hf st Hin) as (_ & _ & _ & _ & _ & _ & Hw). eauto.
Qed.

(* ------------------------------------------------------------------ *)
(* progress                                                            *)
(* ------------------------------------------------------------------ *)

Lemma updn_same {A} (f : nat -> A) t v : updn f t v t = v.
Proof. unfold updn. rewrite Nat.eqb_refl. reflexivity. Qed.

(* a writer held back on a full buffer proceeds to stream.Write as soon as the network has
   drained to the low threshold (whatever else happened before) *)
Lemma blocked_proceeds_inv st t n d :
  mw_inv st -> mpcs st t = MSel n -> mbuf st - d <= wthr ->
  mpcs (mw_run VLocked st [MDrain d; MTake t]) t = MGo n.
Proof.
  intros Hinv E Hd. destruct Hinv as (_ & _ & _ & _ & _ & _ & Hw).
  destruct st as [b tk cl F tkn lk pcs]. cbn [mbuf mtoken mclosed mforeign mtaken mlock mpcs] in *.
  unfold mw_run; cbn [fold_left]. unfold mw_step at 2; cbn [mbuf mtoken mclosed mforeign mtaken mlock mpcs].
  assert (Htk : (tk || ((wthr <? b) && (b - d <=? wthr)))%bool = true).
  { destruct (Hw t n E) as [->|Hgt]; [reflexivity|].
    apply orb_true_iff; right. apply andb_true_iff. split; [apply N.ltb_lt; exact Hgt|apply N.leb_le; exact Hd]. }
  unfold mw_step; cbn [mbuf mtoken mclosed mforeign mtaken mlock mpcs]. rewrite E, Htk.
  cbn [mpcs]. apply updn_same.
Qed.

Theorem mw_blocked_writer_proceeds ops st t n d :
  In st (mw_trace VLocked mw_init ops) -> mpcs st t = MSel n -> mbuf st - d <= wthr ->
  mpcs (mw_run VLocked st [MDrain d; MTake t]) t = MGo n.
Proof.
  intros Hin. pose proof (mw_trace_inv ops mw_init mw_inv_init) as Hf.
  rewrite Forall_forall in Hf. apply blocked_proceeds_inv. auto.
Qed.

(* the steps of thread t itself, and the network releasing buffered bytes *)
Definition own_or_drain (t : nat) (op : mwop) : Prop :=
  match op with
  | MDrain _ => True
  | MCheck u | MTake u | MDo u | MUnlock u | MRet u => u = t
  | _ => False
  end.

Definition finished_from (st : mwst) (t : nat) (st' : mwst) : Prop :=
  mlock st' = None /\ mpcs st' t = MIdle /\ (forall u, u <> t -> mpcs st' u = mpcs st u).

Lemma updn_other {A} (f : nat -> A) t v u : u <> t -> updn f t v u = f u.
Proof. intros Hne. unfold updn. destruct (Nat.eqb_spec u t); [contradiction|reflexivity]. Qed.

Lemma run_cons v st op r : mw_run v st (op :: r) = mw_run v (mw_step v st op) r.
Proof. reflexivity. Qed.

Lemma fin_done st t k e :
  mlock st = None -> mpcs st t = MDone k e ->
  finished_from st t (mw_run VLocked st [MRet t]).
Proof.
  intros Hl E. destruct st as [b tk cl F tkn lk pcs]. simp. subst lk.
  unfold mw_run; cbn [fold_left]. unfold mw_step, set_pc; simp. rewrite E.
  unfold finished_from; simp. split; [reflexivity|]. split; [apply updn_same|].
  intros u Hne. apply updn_other. exact Hne.
Qed.

Lemma fin_unl st t k e :
  mpcs st t = MUnl k e ->
  finished_from st t (mw_run VLocked st [MUnlock t; MRet t]).
Proof.
  intros E. destruct st as [b tk cl F tkn lk pcs]. simp.
  rewrite run_cons. unfold mw_step; simp. rewrite E.
  pose proof (fin_done (mkM b tk cl F tkn None (updn pcs t (MDone k e))) t k e eq_refl (updn_same _ _ _)) as (H1 & H2 & H3).
  split; [exact H1|]. split; [exact H2|].
  intros u Hne. rewrite (H3 u Hne). simp. apply updn_other. exact Hne.
Qed.

Lemma fin_go st t n :
  mpcs st t = MGo n ->
  finished_from st t (mw_run VLocked st [MDo t; MUnlock t; MRet t]).
Proof.
  intros E. destruct st as [b tk cl F tkn lk pcs]. simp.
  rewrite run_cons. unfold mw_step; simp. rewrite E.
  pose proof (fin_unl (mkM (b + n) tk cl F tkn lk (updn pcs t (MUnl n None))) t n None (updn_same _ _ _)) as (H1 & H2 & H3).
  split; [exact H1|]. split; [exact H2|].
  intros u Hne. rewrite (H3 u Hne). simp. apply updn_other. exact Hne.
Qed.

Lemma fin_sel st t n :
  mpcs st t = MSel n -> (mtoken st = true \/ wthr < mbuf st) ->
  finished_from st t (mw_run VLocked st [MDrain (mbuf st); MTake t; MDo t; MUnlock t; MRet t]).
Proof.
  intros E Hw. destruct st as [b tk cl F tkn lk pcs]. simp.
  rewrite run_cons. unfold mw_step; simp.
  assert (Htk : (tk || ((wthr <? b) && (b - b <=? wthr)))%bool = true).
  { destruct Hw as [->|Hgt]; [reflexivity|]. apply orb_true_iff; right.
    unfold wthr in *. apply andb_true_iff; split; [apply N.ltb_lt; lia|apply N.leb_le; lia]. }
  rewrite Htk. rewrite run_cons. unfold mw_step; simp. rewrite E. unfold after_check.
  pose proof (fin_go (mkM (b - b) false cl F true lk (updn pcs t (MGo n))) t n (updn_same _ _ _)) as (H1 & H2 & H3).
  split; [exact H1|]. split; [exact H2|].
  intros u Hne. rewrite (H3 u Hne). simp. apply updn_other. exact Hne.
Qed.

Lemma fin_chk st t n :
  mpcs st t = MChk n -> 0 < n <= wthr ->
  exists ops, (length ops <= 6)%nat /\ Forall (own_or_drain t) ops /\
              finished_from st t (mw_run VLocked st ops).
Proof.
  intros E Hn. destruct st as [b tk cl F tkn lk pcs]. simp.
  destruct (N.ltb_spec wmax (b + n)) as [Hfull|Hroom].
  - exists [MCheck t; MDrain b; MTake t; MDo t; MUnlock t; MRet t].
    split; [cbn; lia|]. split; [repeat constructor|].
    rewrite run_cons. unfold mw_step; simp. rewrite E.
    destruct (N.ltb_spec wmax (b + n)); [|lia]. unfold set_pc; simp.
    assert (Hgt : wthr < b) by (unfold wmax, wthr in *; lia).
    pose proof (fin_sel (mkM b tk cl F tkn lk (updn pcs t (MSel n))) t n (updn_same _ _ _) (or_intror Hgt)) as (H1 & H2 & H3).
    simp. split; [exact H1|]. split; [exact H2|].
    intros u Hne. rewrite (H3 u Hne). simp. apply updn_other. exact Hne.
  - exists [MCheck t; MDo t; MUnlock t; MRet t].
    split; [cbn; lia|]. split; [repeat constructor|].
    rewrite run_cons. unfold mw_step; simp. rewrite E.
    destruct (N.ltb_spec wmax (b + n)); [lia|]. unfold set_pc, after_check; simp.
    pose proof (fin_go (mkM b tk cl F tkn lk (updn pcs t (MGo n))) t n (updn_same _ _ _)) as (H1 & H2 & H3).
    split; [exact H1|]. split; [exact H2|].
    intros u Hne. rewrite (H3 u Hne). simp. apply updn_other. exact Hne.
Qed.

(* whoever holds the mutex finishes its Write and releases the mutex with its own steps and
   at most one drain of the network; nobody else is touched *)
Lemma holder_finishes_inv st t :
  mw_inv st -> mlock st = Some t ->
  exists ops, (length ops <= 6)%nat /\ Forall (own_or_drain t) ops /\
              finished_from st t (mw_run VLocked st ops).
Proof.
  intros Hinv Hl. pose proof Hinv as (_ & Hb & Hs & _ & _ & _ & Hw). specialize (Hb t Hl).
  pose proof (Hs t) as Hst.
  destruct (mpcs st t) eqn:Ept; cbn in Hb; try discriminate.
  - apply (fin_chk st t n Ept Hst).
  - eexists. split; [|split; [|apply (fin_sel st t n Ept (Hw t n Ept))]]; [cbn; lia|repeat constructor].
  - eexists. split; [|split; [|apply (fin_go st t n Ept)]]; [cbn; lia|repeat constructor].
  - eexists. split; [|split; [|apply (fin_unl st t k e Ept)]]; [cbn; lia|repeat constructor].
Qed.

Theorem mw_holder_finishes ops0 st t :
  In st (mw_trace VLocked mw_init ops0) -> mlock st = Some t ->
  exists ops, (length ops <= 6)%nat /\ Forall (own_or_drain t) ops /\
              finished_from st t (mw_run VLocked st ops).
Proof.
  intros Hin. pose proof (mw_trace_inv ops0 mw_init mw_inv_init) as Hf.
  rewrite Forall_forall in Hf. apply holder_finishes_inv. auto.
Qed.

Lemma mw_run_app v st a b : mw_run v st (a ++ b) = mw_run v (mw_run v st a) b.
Proof. unfold mw_run. apply fold_left_app. Qed.

(* no deadlock: from every reachable state, every Write that has been started can return,
   using only steps of the writers and drains of the network *)
Definition writer_or_drain (op : mwop) : Prop :=
  match op with MDrain _ | MLockOp _ | MCheck _ | MTake _ | MDo _ | MUnlock _ | MRet _ => True | _ => False end.

Lemma own_is_writer t ops : Forall (own_or_drain t) ops -> Forall writer_or_drain ops.
Proof. apply Forall_impl. intros op. destruct op; cbn; auto. Qed.

Lemma can_complete_inv st t :
  mw_inv st -> exists ops, Forall writer_or_drain ops /\ mpcs (mw_run VLocked st ops) t = MIdle.
Proof.
  intros Hinv.
  destruct (in_critical VLocked (mpcs st t)) eqn:Hc.
  - (* t holds the mutex *)
    destruct Hinv as (Ha & Hrest). pose proof (Ha t Hc) as Hl.
    destruct (holder_finishes_inv st t (conj Ha Hrest) Hl) as (ops & _ & Hown & (_ & Hid & _)).
    exists ops. split; [eapply own_is_writer; eassumption|exact Hid].
  - destruct (mpcs st t) eqn:Ept; cbn in Hc; try discriminate.
    + exists []. split; [constructor|exact Ept].
    + (* waiting for the mutex: let the holder (if any) finish, take the mutex, finish *)
      assert (exists ops1, Forall writer_or_drain ops1 /\ mlock (mw_run VLocked st ops1) = None /\
                           mpcs (mw_run VLocked st ops1) t = MLock n) as (ops1 & Hw1 & Hl1 & Hp1).
      { destruct (mlock st) as [u|] eqn:Hl.
        - destruct (holder_finishes_inv st u Hinv Hl) as (ops & _ & Hown & (Hn & _ & Hoth)).
          exists ops. split; [eapply own_is_writer; eassumption|]. split; [exact Hn|].
          rewrite Hoth; [exact Ept|]. intros ->.
          destruct Hinv as (_ & Hb & _). specialize (Hb _ Hl). rewrite Ept in Hb. discriminate.
        - exists []. split; [constructor|]. split; assumption. }
      set (s1 := mw_run VLocked st ops1) in *.
      assert (Hi1 : mw_inv s1) by (apply mw_run_inv; exact Hinv).
      set (s2 := mw_step VLocked s1 (MLockOp t)).
      assert (Hi2 : mw_inv s2) by (apply mw_step_inv; exact Hi1).
      assert (Hl2 : mlock s2 = Some t).
      { unfold s2, mw_step. rewrite Hp1, Hl1. reflexivity. }
      destruct (holder_finishes_inv s2 t Hi2 Hl2) as (ops2 & _ & Hown & (_ & Hid & _)).
      exists (ops1 ++ MLockOp t :: ops2). split.
      * apply Forall_app. split; [exact Hw1|]. constructor; [exact I|eapply own_is_writer; eassumption].
      * rewrite mw_run_app. fold s1. rewrite run_cons. fold s2. exact Hid.
    + exists [MRet t]. split; [repeat constructor|].
      unfold mw_run; cbn [fold_left]. unfold mw_step. rewrite Ept. unfold set_pc; simp. apply updn_same.
Qed.

Theorem mw_every_write_can_complete ops0 st t :
  In st (mw_trace VLocked mw_init ops0) ->
  exists ops, Forall writer_or_drain ops /\ mpcs (mw_run VLocked st ops) t = MIdle.
Proof.
  intros Hin. pose proof (mw_trace_inv ops0 mw_init mw_inv_init) as Hf.
  rewrite Forall_forall in Hf. apply can_complete_inv. auto.
Qed.

(* ------------------------------------------------------------------ *)
(* refinement: under the mutex, n writers behave as the one writer of  *)
(* Model.v (iii)                                                       *)
(* ------------------------------------------------------------------ *)

Definition fc_of_op (st : mwst) (op : mwop) : option fcop :=
  match op with
  | MCheck t => match mpcs st t with MChk n => Some (FStart n) | _ => None end
  | MTake t => match mpcs st t with MSel _ => Some FTake | _ => None end
  | MAbort t => match mpcs st t with MSel _ => Some FAbort | _ => None end
  | MDo t => match mpcs st t with MGo _ => Some FDo | _ => None end
  | MDrain d => Some (FDrain d)
  | MForeign k => Some (FForeign k)
  | MClose => Some FCloseOp
  | _ => None
  end.

Lemma proj_upd_other b tk cl F tkn lk pcs t p :
  lk <> Some t ->
  mw_proj (mkM b tk cl F tkn lk (updn pcs t p)) = mw_proj (mkM b tk cl F tkn lk pcs).
Proof.
  intros Hne. unfold mw_proj; simp. destruct lk as [u|]; [|reflexivity].
  rewrite updn_other; [reflexivity|congruence].
Qed.

Lemma mw_step_refines st op :
  mw_inv st ->
  mw_proj (mw_step VLocked st op) =
  match fc_of_op st op with Some f => fst (fc_step (mw_proj st) f) | None => mw_proj st end.
Proof.
  intros Hinv. pose proof Hinv as (Ha & Hb & Hs & _).
  destruct st as [b tk cl F tkn lk pcs]. simp.
  destruct op as [t n|t|t|t|t|t|t|t|d|k|]; unfold fc_of_op, mw_step, set_pc, after_check; simp.
  - (* MStart *)
    destruct (pcs t) eqn:Ept; try reflexivity.
    assert (Hnh : lk <> Some t).
    { apply (noncrit_not_holder _ t Hinv); cbn; rewrite Ept; reflexivity. }
    destruct (n =? 0); [apply proj_upd_other; exact Hnh|].
    destruct (wthr <? n); apply proj_upd_other; exact Hnh.
  - (* MLockOp *)
    destruct (pcs t) eqn:Ept; try reflexivity.
    destruct lk as [u|]; [reflexivity|].
    unfold mw_proj; simp. rewrite updn_same. reflexivity.
  - (* MCheck *)
    destruct (pcs t) eqn:Ept; try reflexivity.
    assert (Hlk : lk = Some t) by (apply Ha; rewrite Ept; reflexivity). subst lk.
    pose proof (Hs t) as Hst. rewrite Ept in Hst. cbn [pc_size_ok] in Hst.
    unfold mw_proj at 2; simp. rewrite Ept. unfold fc_step; cbn [fwr fbuf ftoken fclosed fforeign].
    destruct (N.eqb_spec n 0); [lia|]. destruct (N.ltb_spec wthr n); [lia|].
    destruct (wmax <? b + n); unfold mw_proj; simp; rewrite updn_same; reflexivity.
  - (* MTake *)
    destruct (pcs t) eqn:Ept; try reflexivity.
    assert (Hlk : lk = Some t) by (apply Ha; rewrite Ept; reflexivity). subst lk.
    unfold mw_proj at 2; simp. rewrite Ept. unfold fc_step; cbn [fwr fbuf ftoken fclosed fforeign].
    destruct tk; unfold mw_proj; simp; [rewrite updn_same|rewrite Ept]; reflexivity.
  - (* MAbort *)
    destruct (pcs t) eqn:Ept; try reflexivity.
    assert (Hlk : lk = Some t) by (apply Ha; rewrite Ept; reflexivity). subst lk.
    unfold mw_proj at 2; simp. rewrite Ept. unfold fc_step; cbn [fwr fbuf ftoken fclosed fforeign].
    destruct cl; unfold mw_proj; simp; [rewrite updn_same|rewrite Ept]; reflexivity.
  - (* MDo *)
    destruct (pcs t) eqn:Ept; try reflexivity.
    assert (Hlk : lk = Some t) by (apply Ha; rewrite Ept; reflexivity). subst lk.
    unfold mw_proj at 2; simp. rewrite Ept. unfold fc_step; cbn [fwr fbuf ftoken fclosed fforeign].
    unfold mw_proj; simp; rewrite updn_same; reflexivity.
  - (* MUnlock *)
    destruct (pcs t) eqn:Ept; try reflexivity.
    assert (Hlk : lk = Some t) by (apply Ha; rewrite Ept; reflexivity). subst lk.
    unfold mw_proj; simp. rewrite Ept. reflexivity.
  - (* MRet *)
    destruct (pcs t) eqn:Ept; try reflexivity.
    apply proj_upd_other. apply (noncrit_not_holder _ t Hinv); cbn; rewrite Ept; reflexivity.
  - reflexivity.
  - reflexivity.
  - reflexivity.
Qed.

Lemma fc_run_app st a b :
  fst (fc_run st (a ++ b)) = fst (fc_run (fst (fc_run st a)) b).
Proof.
  revert st. induction a as [|op a IH]; intros st; cbn [app fc_run]; [reflexivity|].
  destruct (fc_step st op) as [s1 o] eqn:E1. specialize (IH s1).
  destruct (fc_run s1 (a ++ b)) as [s2 os] eqn:E2. destruct (fc_run s1 a) as [s3 os3] eqn:E3.
  cbn [fst] in *. exact IH.
Qed.

(* every run of any number of writers is, seen from the stream, a run of the one-writer model *)
Theorem mw_refines_fc ops :
  exists fops, mw_proj (mw_run VLocked mw_init ops) = fst (fc_run fc_init fops).
Proof.
  assert (forall st, mw_inv st -> forall fops0, mw_proj st = fst (fc_run fc_init fops0) ->
            exists fops, mw_proj (mw_run VLocked st ops) = fst (fc_run fc_init fops)) as H.
  { induction ops as [|op ops IH]; intros st Hinv fops0 E.
    - exists fops0. exact E.
    - rewrite run_cons. pose proof (mw_step_refines st op Hinv) as Hr.
      destruct (fc_of_op st op) as [f|].
      + apply (IH _ (mw_step_inv st op Hinv) (fops0 ++ [f])).
        rewrite Hr, fc_run_app, <- E. cbn [fc_run]. destruct (fc_step (mw_proj st) f). reflexivity.
      + apply (IH _ (mw_step_inv st op Hinv) fops0). rewrite Hr. exact E. }
  apply (H mw_init mw_inv_init []). reflexivity.
Qed.

(* ------------------------------------------------------------------ *)
(* the variant with the test outside the critical section: the amount  *)
(* grows with the number of writers                                    *)
(* ------------------------------------------------------------------ *)

Definition ushape (st : mwst) (b : N) (f : nat -> mpc) : Prop :=
  mbuf st = b /\ mlock st = None /\ mforeign st = 0 /\ mtaken st = false /\ forall t, mpcs st t = f t.

Lemma seq_snoc k : seq 0 (S k) = seq 0 k ++ [k].
Proof. rewrite seq_S. reflexivity. Qed.

Lemma unl_ph1 k :
  ushape (mw_run VUnlocked mw_init (unl_starts k)) 0 (fun t => if (t <? k)%nat then MChk wthr else MIdle).
Proof.
  induction k as [|k IH].
  - cbn. repeat split.
  - unfold unl_starts in *. rewrite seq_snoc, map_app, mw_run_app. cbn [map].
    remember (mw_run VUnlocked mw_init (map (fun t => MStart t wthr) (seq 0 k))) as st eqn:Hst; clear Hst.
    destruct IH as (Hb & Hl & Hf & Htk & Hp). destruct st as [b tk cl F tkn lk pcs]. simp. subst.
    unfold mw_run; cbn [fold_left]. unfold mw_step; simp. rewrite Hp. rewrite Nat.ltb_irrefl.
    change (wthr =? 0) with false. change (wthr <? wthr) with false. cbn iota. unfold set_pc; simp.
    repeat split. intros t. simp. unfold updn. rewrite Hp.
    destruct (Nat.eqb_spec t k) as [->|Hne].
    + replace (k <? S k)%nat with true by (symmetry; apply Nat.ltb_lt; lia). reflexivity.
    + destruct (Nat.ltb_spec t k), (Nat.ltb_spec t (S k)); try reflexivity; lia.
Qed.

Lemma unl_ph2 k st :
  ushape st 0 (fun t => if (t <? k)%nat then MChk wthr else MIdle) ->
  forall j, (j <= k)%nat ->
  ushape (mw_run VUnlocked st (map MCheck (seq 0 j))) 0
         (fun t => if (t <? j)%nat then MLock wthr else if (t <? k)%nat then MChk wthr else MIdle).
Proof.
  intros H0 j. induction j as [|j IH]; intros Hj.
  - cbn [seq map]. unfold mw_run; cbn [fold_left]. exact H0.
  - rewrite seq_snoc, map_app, mw_run_app. cbn [map].
    specialize (IH ltac:(lia)).
    remember (mw_run VUnlocked st (map MCheck (seq 0 j))) as s1 eqn:Hs1; clear Hs1.
    destruct IH as (Hb & Hl & Hf & Htk & Hp). destruct s1 as [b tk cl F tkn lk pcs]. simp. subst.
    unfold mw_run; cbn [fold_left]. unfold mw_step; simp. rewrite Hp. rewrite Nat.ltb_irrefl.
    replace (j <? k)%nat with true by (symmetry; apply Nat.ltb_lt; lia).
    change (wmax <? 0 + wthr) with false. cbn iota. unfold set_pc, after_check; simp.
    repeat split. intros t. simp. unfold updn. rewrite Hp.
    destruct (Nat.eqb_spec t j) as [->|Hne].
    + replace (j <? S j)%nat with true by (symmetry; apply Nat.ltb_lt; lia). reflexivity.
    + destruct (Nat.ltb_spec t j), (Nat.ltb_spec t (S j)); try reflexivity; lia.
Qed.

Lemma unl_write_one st j :
  mlock st = None -> mpcs st j = MLock wthr ->
  let st' := mw_run VUnlocked st [MLockOp j; MDo j; MUnlock j; MRet j] in
  mbuf st' = mbuf st + wthr /\ mlock st' = None /\ mforeign st' = mforeign st /\ mtaken st' = mtaken st /\
  mpcs st' j = MIdle /\ forall u, u <> j -> mpcs st' u = mpcs st u.
Proof.
  intros Hl Hp. destruct st as [b tk cl F tkn lk pcs]. simp. subst lk.
  rewrite run_cons. unfold mw_step; simp. rewrite Hp.
  rewrite run_cons. unfold mw_step; simp. rewrite updn_same.
  rewrite run_cons. unfold mw_step; simp. rewrite updn_same.
  rewrite run_cons. unfold mw_step; simp. rewrite updn_same. unfold set_pc; simp.
  unfold mw_run; cbn [fold_left]; simp.
  repeat split; [apply updn_same|]. intros u Hne. rewrite !updn_other by assumption. reflexivity.
Qed.

Lemma unl_writes_snoc j : unl_writes (S j) = unl_writes j ++ [MLockOp j; MDo j; MUnlock j; MRet j].
Proof. unfold unl_writes. rewrite seq_snoc, flat_map_app. cbn [flat_map]. rewrite app_nil_r. reflexivity. Qed.

Lemma unl_ph3 k st :
  ushape st 0 (fun t => if (t <? k)%nat then MLock wthr else MIdle) ->
  forall j, (j <= k)%nat ->
  ushape (mw_run VUnlocked st (unl_writes j)) (N.of_nat j * wthr)
         (fun t => if (t <? j)%nat then MIdle else if (t <? k)%nat then MLock wthr else MIdle).
Proof.
  intros H0 j. induction j as [|j IH]; intros Hj.
  - unfold unl_writes; cbn [seq flat_map]. unfold mw_run; cbn [fold_left].
    destruct H0 as (Hb & Hl & Hf & Htk & Hp). repeat split; try assumption.
  - rewrite unl_writes_snoc, mw_run_app. specialize (IH ltac:(lia)).
    remember (mw_run VUnlocked st (unl_writes j)) as s1 eqn:Hs1; clear Hs1.
    destruct IH as (Hb & Hl & Hf & Htk & Hp).
    assert (Hpj : mpcs s1 j = MLock wthr).
    { rewrite Hp, Nat.ltb_irrefl. replace (j <? k)%nat with true by (symmetry; apply Nat.ltb_lt; lia). reflexivity. }
    destruct (unl_write_one s1 j Hl Hpj) as (B1 & L1 & F1 & T1 & P1 & O1).
    repeat split.
    + rewrite B1, Hb. lia.
    + exact L1.
    + rewrite F1. exact Hf.
    + rewrite T1. exact Htk.
    + intros t. destruct (Nat.eq_dec t j) as [->|Hne].
      * rewrite P1. replace (j <? S j)%nat with true by (symmetry; apply Nat.ltb_lt; lia). reflexivity.
      * rewrite (O1 t Hne), Hp.
        destruct (Nat.ltb_spec t j), (Nat.ltb_spec t (S j)); try reflexivity; lia.
Qed.

Lemma ushape_ext st b f g : (forall t, f t = g t) -> ushape st b f -> ushape st b g.
Proof. intros E (H1 & H2 & H3 & H4 & H5). repeat split; try assumption. intros t. rewrite H5. apply E. Qed.

(* k writers that all test before any of them writes: k x 128 KiB buffered, without a single drain,
   token or byte written past flow control *)
Theorem mw_unlocked_grows k :
  let st := mw_run VUnlocked mw_init (unl_schedule k) in
  mbuf st = N.of_nat k * wthr /\ mforeign st = 0 /\ mtaken st = false.
Proof.
  unfold unl_schedule. rewrite !mw_run_app.
  pose proof (unl_ph1 k) as H1.
  pose proof (unl_ph2 k _ H1 k (le_n k)) as H2.
  assert (H2' : ushape (mw_run VUnlocked (mw_run VUnlocked mw_init (unl_starts k)) (unl_checks k)) 0
                       (fun t => if (t <? k)%nat then MLock wthr else MIdle)).
  { eapply ushape_ext; [|exact H2]. intros t. cbv beta. destruct (t <? k)%nat; reflexivity. }
  pose proof (unl_ph3 k _ H2' k (le_n k)) as (Hb & _ & Hf & Htk & _).
  repeat split; assumption.
Qed.

(* hence no bound independent of the number of writers holds for that variant *)
Theorem mw_unlocked_unbounded B :
  exists ops, let st := mw_run VUnlocked mw_init ops in B < mbuf st /\ mforeign st = 0.
Proof.
  exists (unl_schedule (S (N.to_nat B))).
  destruct (mw_unlocked_grows (S (N.to_nat B))) as (Hb & Hf & _).
  split; [|exact Hf]. rewrite Hb. unfold wthr. lia.
Qed.
