(* C16: witness for the open known finding "a peer message equal to the
   heartbeat payload is swallowed" (candidate 13b; in-band keep-alive, by design). *)
From Coq Require Import Lia.
From CJ Require Import Common.Base C16.Model C16.ModelMax C16.ProofsMax C16.Props.

Definition default_heartbeat : bytes := bytes_of_string "6v3jyM521GkBo1lsMyVLcRyzdZ7FKEM3".

(* the peer sends "ab", then 32 bytes that happen to equal the heartbeat, then "cd" *)
Definition refuting_raw : mscript := [([97; 98], None); (default_heartbeat, None); ([99; 100], Some 20)].

Lemma refuting_run :
  fst (fst (server_reads 64 default_heartbeat [64; 64; 64]%nat refuting_raw)) =
  [([97; 98], None); ([99; 100], Some 20); ([], Some E_CLOSED)].
Proof. vm_compute. reflexivity. Qed.

Theorem C16_server_read_concat_refuted : ~ C16_server_read_concat_full_statement.
Proof.
  intros H.
  destruct (server_reads 64 default_heartbeat [64; 64; 64]%nat refuting_raw) as [[res st'] rest] eqn:E.
  assert (Hf : fits 64 refuting_raw) by (unfold fits, refuting_raw; repeat constructor; vm_compute; discriminate).
  destruct (H 64%nat default_heartbeat refuting_raw [64; 64; 64]%nat res st' rest Hf E) as [k Hk].
  vm_compute in E. inversion E; subst. clear E.
  (* the delivered stream has 4 data bytes, the script 36 *)
  apply (f_equal (fun l => length (evbytes l))) in Hk.
  unfold evbytes in Hk. rewrite !flat_map_app in Hk. rewrite !app_length in Hk.
  assert (Hr : length (flat_map (fun e => match e with EvB b => [b] | EvE _ => [] end) (repeat (EvE E_CLOSED) k)) = 0%nat).
  { clear. induction k; cbn; auto. }
  rewrite Hr in Hk. vm_compute in Hk. discriminate.
Qed.
Print Assumptions C16_server_read_concat_refuted.

(* refuted variant of (viii): receive buffers one byte short of the writer's limit *)
Theorem C16_rbuf_one_short_refuted :
  forall wmax eos, (0 < wmax)%nat -> ~ (forall ms sizes, pair_lossless wmax (wmax - 1) eos ms sizes).
Proof. exact one_short_refuted. Qed.
Print Assumptions C16_rbuf_one_short_refuted.

(* the instance "association limit 65536, buffers of 65535" *)
Theorem C16_rbuf_65535_refuted :
  forall eos, ~ (forall ms sizes, pair_lossless (N.to_nat 65536) (N.to_nat 65535) eos ms sizes).
Proof. intros eos A. apply (lossless_iff_rbuf_covers_wmax _ _ eos) in A. lia. Qed.
Print Assumptions C16_rbuf_65535_refuted.

Example ex_one_short_run :
  pair_reads 4 3 E_EOS [[1; 2]; [3; 4; 5; 6]; [7]] [1; 1; 1; 1]%nat =
  ([([1], None); ([2], None); ([], Some E_SHORT); ([7], None)], mkR [7] 1 None, []).
Proof. vm_compute. reflexivity. Qed.
Example ex_covering_run :
  fst (fst (pair_reads 4 4 E_EOS [[1; 2]; [3; 4; 5; 6]; [9; 9; 9; 9; 9]; [7]] [1; 5; 3; 2; 9]%nat)) =
  [([1], None); ([2], None); ([3; 4; 5], None); ([6], None); ([7], None)].
Proof. vm_compute. reflexivity. Qed.
