(* C16 (v) instantiated on the concrete HKDF-SHA256 of coq/C14 (Sha256.v, Hkdf.v):
   hello-random and certificate material as executable functions of the secret alone. *)
From CJ Require Import Common.Base C14.Hkdf C16.Model.

(* seedtocert.go: hkdf.New(sha256.New, seed, []byte(label), nil) -- the label is the salt, info is nil *)
Definition hkdf_conc (secret label : bytes) (n : nat) : bytes :=
  match hkdf_sha256 secret (Some label) [] (N.of_nat n) with
  | Some b => b
  | None => []
  end.

Definition hello_random_conc (s : bytes) : bytes := hello_random hkdf_conc s.
Definition certs_from_seed_conc (s : bytes) : option (certmat * certmat) := certs_from_seed hkdf_conc s.
Definition material_conc (s : bytes) := material hkdf_conc s.

(* tactics must never start evaluating SHA-256 by conversion; vm_compute is unaffected *)
Global Opaque hkdf_conc.
