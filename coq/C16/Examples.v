(* C16 non-vacuity: concrete inputs that meet the hypotheses of the theorems in
   Props.v and exercise the interesting branches (checked by vm_compute). *)
From CJ Require Import Common.Base C16.Model C16.Concrete C16.ProofsRead C16.ProofsHb C16.ProofsFc C16.ModelMw C16.ProofsMw C16.ProofsMr C16.ProofsReg C16.ProofsMat.
From Coq Require Import Lia.

(* ---- (i) a script with partial reads, the bypass, an empty message and an error carrying data ---- *)
Definition ex_msgs : mscript := [([1; 2; 3], None); ([], None); ([4; 5], Some 17); ([6], None)].
Definition ex_sizes : list nat := [2; 5; 3; 1; 1; 4; 9]%nat.

Example ex_fits : fits 3 ex_msgs.
Proof. unfold fits, ex_msgs. repeat constructor; cbn; lia. Qed.

Example ex_reads :
  fst (fst (reads 3 E_EOS ex_sizes rinit ex_msgs)) =
  [([1; 2], None); ([3], None); ([], None); ([4], None); ([5], Some 17); ([6], None); ([], Some E_EOS)].
Proof. vm_compute. reflexivity. Qed.
(* the error 17 arrives with byte 5, the last byte of its message; 5-byte and
   9-byte reads (>= mx) take the bypass; the 7th read reports the end of the stream *)

Example ex_positive_sizes_drain :
  let '(_, st', rest) := reads 3 E_EOS [1; 1; 1; 1; 1; 1; 1; 1; 1; 1; 1; 1; 1; 1]%nat rinit ex_msgs in
  pend st' = [] /\ rest = [].
Proof. vm_compute. auto. Qed.

Example ex_remaining : (remaining rinit ex_msgs <= 14)%nat.
Proof. vm_compute. lia. Qed.

(* ---- (ii) heartbeats anywhere, also with an error attached; the error ends the stream ---- *)
Definition ex_hb : bytes := [170; 187].
Definition ex_raw : mscript :=
  [(ex_hb, None); ([1; 2; 3], None); (ex_hb, Some 41); ([4], None); (ex_hb, None); ([5; 6], Some 30); ([7], None)].

Example ex_filter : hb_filter 3 ex_hb ex_raw = [([1; 2; 3], None); ([4], None); ([5; 6], Some 30)].
Proof. vm_compute. reflexivity. Qed.
Example ex_filter_count : hb_count 3 ex_hb ex_raw = 3%nat.
Proof. vm_compute. reflexivity. Qed.

Example ex_server_reads :
  fst (fst (server_reads 3 ex_hb [2; 2; 1; 1; 2; 1]%nat ex_raw)) =
  [([1; 2], None); ([3], None); ([4], None); ([5], None); ([6], Some 30); ([], Some E_CLOSED)].
Proof. vm_compute. reflexivity. Qed.

(* a schedule in which everything, including the error, is queued before the reader starts
   (the history that lost data before the fix): all of it is delivered, then closed *)
Example ex_queue_schedule :
  snd (hb_run 3 ex_hb (hb_init ex_raw)
         [HRecv; HRecv; HRecv; HRecv; HRecv; HRecv; HRead; HRead; HRead; HRead; HRead]) =
  [HNone; HNone; HNone; HNone; HNone; HNone;
   HGot ([1; 2; 3], None); HGot ([4], None); HGot ([5; 6], Some 30); HErrClosed; HErrClosed].
Proof. vm_compute. reflexivity. Qed.

(* the reader blocks while nothing is queued and the connection is open *)
Example ex_queue_blocked :
  snd (hb_run 3 ex_hb (hb_init ex_raw) [HRead; HRecv; HRead; HRecv; HRead]) =
  [HBlocked; HNone; HBlocked; HNone; HGot ([1; 2; 3], None)].
Proof. vm_compute. reflexivity. Qed.

(* watchdog: heartbeats in the first two sleeps, then silence *)
Example ex_watchdog_closes :
  wclosed (wrun winit [WLoop; WLoop; WHb; WLoop; WLoop; WHb; WHb; WLoop; WLoop; WLoop]) = true /\
  wclosed (wrun winit [WLoop; WLoop; WHb; WLoop; WLoop; WHb; WHb; WLoop; WLoop]) = false.
Proof. vm_compute. auto. Qed.

Example ex_live_trace : live_trace ([WLoop; WLoop; WHb] ++ [WLoop; WHb; WLoop; WHb; WHb] ++ []).
Proof.
  apply (live_round [] [WHb]); try (repeat constructor); try discriminate.
  apply (live_round [WHb] [WHb; WHb]); try (repeat constructor); discriminate.
Qed.

(* a heartbeat that falls between the load and the reset is wiped: the next sleep must see another *)
Example ex_lost_heartbeat :
  wclosed (wrun winit [WLoop; WHb; WLoop; WLoop]) = true.
Proof. vm_compute. reflexivity. Qed.

(* ---- (iii) the bound is reached exactly through a stale token ---- *)
Definition ex_fc_ops : list fcop :=
  [FStart 131072; FDo; FStart 131072; FDo; FDrain 131072;      (* 256 KiB -> 128 KiB: token posted, nobody waits *)
   FStart 131072; FDo;                                          (* 256 KiB, token still there *)
   FStart 131072; FTake; FDo].                                  (* must wait, takes the stale token: 384 KiB *)
Example ex_fc_tight : fbuf (fst (fc_run fc_init ex_fc_ops)) = 393216.
Proof. vm_compute. reflexivity. Qed.
Example ex_fc_blocks :
  fwr (fst (fc_run fc_init (ex_fc_ops ++ [FStart 1; FTake]))) = FWait 1 /\
  fwr (fst (fc_run fc_init (ex_fc_ops ++ [FStart 1; FDrain 300000; FTake]))) = FGo 1.
Proof. vm_compute. auto. Qed.
Example ex_fc_foreign : fbuf (fst (fc_run fc_init (ex_fc_ops ++ [FForeign 32]))) = 393248.
Proof. vm_compute. reflexivity. Qed.

(* ---- (vi) several goroutines writing to one connection ---- *)
(* the mutex is contended: the second writer's Lock does nothing while the first is inside *)
Example ex_mw_contended :
  let st := mw_run VLocked mw_init [MStart 0 131072; MStart 1 131072; MLockOp 0; MLockOp 1; MCheck 0; MCheck 1] in
  mpcs st 0%nat = MGo 131072 /\ mpcs st 1%nat = MLock 131072 /\ mlock st = Some 0%nat.
Proof. vm_compute. auto. Qed.
(* eight writers, a network that never drains: two writes fit, the third writer is held in the select
   (holding the mutex), the others wait for the mutex; 256 KiB buffered *)
Definition ex_mw_locked8 : list mwop :=
  map (fun t => MStart t 131072) (seq 0 8) ++
  [MLockOp 0; MCheck 0; MDo 0; MUnlock 0; MRet 0; MLockOp 1; MCheck 1; MDo 1; MUnlock 1; MRet 1;
   MLockOp 2; MCheck 2; MTake 2; MDo 2; MLockOp 3; MCheck 3].
Example ex_mw_locked8_holds :
  let st := mw_run VLocked mw_init ex_mw_locked8 in
  mbuf st = 262144 /\ mpcs st 2%nat = MSel 131072 /\ mpcs st 3%nat = MLock 131072 /\ mtaken st = false.
Proof. vm_compute. auto. Qed.
(* the bound is tight with two writers as well (stale token) *)
Definition ex_mw_tight : list mwop :=
  [MStart 0 131072; MLockOp 0; MCheck 0; MDo 0; MUnlock 0; MRet 0;
   MStart 1 131072; MLockOp 1; MCheck 1; MDo 1; MUnlock 1; MRet 1; MDrain 131072;
   MStart 0 131072; MLockOp 0; MCheck 0; MDo 0; MUnlock 0; MRet 0;
   MStart 1 131072; MLockOp 1; MCheck 1; MTake 1; MDo 1].
Example ex_mw_tight_reached : mbuf (mw_run VLocked mw_init ex_mw_tight) = 393216.
Proof. vm_compute. reflexivity. Qed.

(* REFUTED VARIANT (the mutual-exclusion hypothesis is not vacuous): with the check outside the critical
   section, two writers exceed the bound -- writer 1 passes the test on an empty buffer and is then slow to
   take the mutex, writer 0 fills the buffer to 384 KiB meanwhile, writer 1 adds its 128 KiB on top *)
Definition ex_unl_two : list mwop :=
  [MStart 1 131072; MCheck 1;
   MStart 0 131072; MCheck 0; MLockOp 0; MDo 0; MUnlock 0; MRet 0;
   MStart 0 131072; MCheck 0; MLockOp 0; MDo 0; MUnlock 0; MRet 0; MDrain 131072;
   MStart 0 131072; MCheck 0; MLockOp 0; MDo 0; MUnlock 0; MRet 0;
   MStart 0 131072; MCheck 0; MTake 0; MLockOp 0; MDo 0; MUnlock 0; MRet 0;
   MLockOp 1; MDo 1].
Example ex_unl_two_writers_exceed :
  let st := mw_run VUnlocked mw_init ex_unl_two in mbuf st = 524288 /\ mforeign st = 0 /\ 393216 < mbuf st.
Proof. vm_compute. auto. Qed.
(* ... the same operations on the code as it is: writer 1 cannot test before it has the mutex *)
Example ex_unl_two_on_locked : mbuf (mw_run VLocked mw_init ex_unl_two) <= 393216.
Proof. vm_compute. discriminate. Qed.
(* k writers that all test before any writes: k x 128 KiB, no drain, no token involved *)
Example ex_unl_eight : mbuf (mw_run VUnlocked mw_init (unl_schedule 8)) = 1048576.
Proof. vm_compute. reflexivity. Qed.
Example ex_unl_four_no_token : let st := mw_run VUnlocked mw_init (unl_schedule 4) in
  mbuf st = 524288 /\ mtaken st = false.
Proof. vm_compute. auto. Qed.
(* and a wake-up is lost: two writers wait, one token is posted, the second stays in the select with an
   empty buffer (nothing will ever cross the threshold again) *)
Example ex_unl_lost_wakeup :
  let st := mw_run VUnlocked mw_init
    [MStart 2 131072; MCheck 2; MLockOp 2; MDo 2; MUnlock 2; MRet 2; MStart 2 131072; MCheck 2; MLockOp 2; MDo 2; MUnlock 2; MRet 2;
     MStart 0 1; MStart 1 1; MCheck 0; MCheck 1; MDrain 262144; MTake 0; MTake 1] in
  mpcs st 1%nat = MSel 1 /\ mtoken st = false /\ mbuf st = 0.
Proof. vm_compute. auto. Qed.

(* ---- (vii) two goroutines reading: a five-byte message handed out piecewise to both, refill and hand-out of
   reader 0 separated by reader 1's attempt to take the mutex ---- *)
Example ex_mr_two_readers :
  let st := mr_run 8 E_EOS (mr_init [([1;2;3;4;5], Some 30)])
              [QStart 0 2; QStart 1 4; QLockOp 0; QFill 0; QLockOp 1; QCopy 0; QLockOp 1; QUnlock 0; QLockOp 1;
               QFill 1; QCopy 1; QUnlock 1] in
  mr_log st = [(2%nat, ([1;2], None)); (4%nat, ([3;4;5], Some 30))] /\ mr_lock st = None.
Proof. vm_compute. auto. Qed.

(* ---- (iv) two acceptors with one secret, one with another; three connections ---- *)
Definition ex_asecs (a : nat) : N := match a with 0%nat => 7 | 1%nat => 7 | _ => 9 end.
Definition ex_csecs (c : nat) : N := match c with 0%nat => 7 | 1%nat => 9 | _ => 5 end.
Definition ex_hr (s : N) : N := s.
Definition ex_ops : list lop :=
  [LA 0; LA 0;                 (* acceptor 0 registers certificate and channel for secret 7 *)
   LA 1;                       (* acceptor 1, same secret: refused *)
   LA 2; LA 2;                 (* acceptor 2, secret 9 *)
   LC 0; LC 0; LC 0; LSend 0;  (* connection 0 (secret 7): hello, verify, lookup, hand over *)
   LC 1; LC 1; LC 1; LSend 1;  (* connection 1 (secret 9) *)
   LC 2; LC 2;                 (* connection 2 (secret 5, nobody accepts it): handshake fails *)
   LRecv 0; LA 0; LA 0;
   LCancel 2; LRecv 2; LA 2; LA 2].
Definition ex_g := lrun ex_hr ex_asecs ex_csecs linit ex_ops.

Example ex_registry_results :
  ares (acc ex_g 0) = RGot 0 /\ ares (acc ex_g 1) = RErrDup /\ ares (acc ex_g 2) = RGot 1 /\
  cpc (cns ex_g 2) = CFail /\
  certs ex_g 7 = None /\ certs ex_g 9 = None /\ chans ex_g 7 = None /\ chans ex_g 9 = None.
Proof. vm_compute. repeat split; reflexivity. Qed.

(* cancellation at the select, with a connection thread still holding the channel *)
Example ex_registry_cancel :
  let g := lrun ex_hr ex_asecs ex_csecs linit
             [LA 0; LA 0; LC 0; LC 0; LC 0; LCancel 0; LCancelled 0; LA 0; LA 0; LSend 0] in
  ares (acc g 0) = RCancelled /\ certs g 7 = None /\ chans g 7 = None /\ bufs g 0 = Some 0%nat /\
  cpc (cns g 0) = CSent.
Proof. vm_compute. repeat split; reflexivity. Qed.
(* the connection ends in the buffer of a channel nobody reads any more: it is
   delivered to no acceptor (and never closed by the listener) *)

(* the injectivity hypothesis of C16_delivery_same_secret is needed: with a
   colliding hello-random an acceptor for secret 7 adopts the connection that
   completed its handshake against the certificates of secret 9 ... *)
Example ex_collision_cross_delivery :
  let hr := fun _ : N => 0 in
  let asecs := fun a : nat => match a with 0%nat => 9 | _ => 7 end in
  let csecs := fun _ : nat => 9 in
  let g := lrun hr asecs csecs linit
             [LA 0; LA 0; LC 0; LC 0; LCancel 0; LCancelled 0; LA 0; LA 0;   (* acceptor 0 (secret 9) leaves *)
              LA 1; LA 1; LC 0; LSend 0; LRecv 1] in                          (* acceptor 1 (secret 7) gets it *)
  ares (acc g 1) = RGot 0 /\ asecs 1%nat <> csecs 0%nat.
Proof. vm_compute. split; [reflexivity|discriminate]. Qed.

(* ---- (v) the derivation on a concrete stream ---- *)
Definition ex_stream : bytes := lcg_bytes 12345 130.
Example ex_cert_of :
  match cert_of ex_stream with
  | Some (c, r) => length r = 65%nat /\ length (cm_cn c) = 8%nat /\ (cm_serial c <? 2 ^ 130) = true /\
                   (1 <=? cm_d c) && (cm_d c <? p256_order) = true
  | None => False
  end.
Proof. vm_compute. repeat split; reflexivity. Qed.
Example ex_certs_from_seed :
  match certs_from_seed (fun _ _ n => firstn n ex_stream) [1; 2; 3] with
  | Some (c1, c2) => (cm_d c1 =? cm_d c2) = false
  | None => False
  end.
Proof. vm_compute. reflexivity. Qed.
Example ex_labels :
  label_hello = unhex "636c69656e7448656c6c6f52616e646f6d46726f6d53656564" /\
  label_certs = unhex "636572747346726f6d53656564".
Proof. vm_compute. auto. Qed.

(* the concrete derivation on a 16-byte secret: the values seedtocert.go produces for it
   (observed from the Go code; the check compares fresh ones on every run) *)
Example ex_concrete_hello :
  hello_random_conc (unhex "00112233445566778899aabbccddeeff")
  = unhex "32f4bb76545d05043ad1b2bfae08c78f0353076cff4d4e4adee5e0c7".
Proof. vm_compute. reflexivity. Qed.
Example ex_concrete_client_key :
  match certs_from_seed_conc (unhex "00112233445566778899aabbccddeeff") with
  | Some (c1, c2) => (cm_d c1 =? 95012202899101622456394161801788781726703689307888598951196239159021068890826)
                     && negb (cm_d c1 =? cm_d c2)
  | None => false
  end = true.
Proof. vm_compute. reflexivity. Qed.

(* ---- (ii') Read as two selects: which of the two added steps is needed ---- *)
(* the window: Read finds the queue empty, recvLoop then queues the last message
   (it came with an error) and closes, Read enters the blocking select with both cases ready *)
Definition ex_window : list h2op := [ORStart; OLoop; OLoop; OREnterC; ORDrain; ORStart].
Definition ex_last : mscript := [([7; 8], Some 30)].

(* the fixed code (both steps): the message, with its error, before closed *)
Example ex_window_fixed :
  snd (h2_run 3 ex_hb true true (h2_init ex_last) ex_window) = [ONone; ONone; ONone; ONone; OGot ([7; 8], Some 30); ONone].
Proof. vm_compute. reflexivity. Qed.
(* without the non-blocking receive but with the inner drain: still correct (the theorems cover it) *)
Example ex_window_no_fast :
  snd (h2_run 3 ex_hb false true (h2_init ex_last) ex_window) = [ONone; ONone; ONone; ONone; OGot ([7; 8], Some 30); ONone].
Proof. vm_compute. reflexivity. Qed.
(* without the inner drain: net.ErrClosed while the message is still queued -- and the
   message comes out of a later Read, after the error *)
Example ex_window_no_drain :
  snd (h2_run 3 ex_hb true false (h2_init ex_last) ex_window) = [ONone; ONone; ONone; OErrClosed; ONone; OGot ([7; 8], Some 30)].
Proof. vm_compute. reflexivity. Qed.
(* the pre-fix Read (neither step) loses in the same way, and needs no window at all:
   everything queued and closed before Read is even called *)
Example ex_prefix_read :
  snd (h2_run 3 ex_hb false false (h2_init ex_last) [OLoop; OLoop; ORStart; OREnterC]) = [ONone; ONone; ONone; OErrClosed].
Proof. vm_compute. reflexivity. Qed.

(* the full queue: 64 messages queued, the 65th held by recvLoop; a pop hands it over ... *)
Definition ex_many : mscript := map (fun i => ([N.of_nat i], None)) (seq 1 70).
Example ex_full_queue_handover :
  let '(st, _) := h2_run 3 ex_hb true true (h2_init ex_many) (repeat OLoop 66 ++ [ORStart]) in
  length (h2q st) = 64%nat /\ h2loop st = LRead /\ last (h2q st) ([], None) = ([65], None) /\ length (h2raw st) = 5%nat.
Proof. vm_compute. auto. Qed.
(* ... or the interval elapses: recvLoop closes, the reader still gets the 64 queued messages, then closed *)
Example ex_full_queue_timeout :
  let '(st, os) := h2_run 3 ex_hb true true (h2_init ex_many)
                     (repeat OLoop 66 ++ [OTimeout] ++ repeat ORStart 64 ++ [ORStart; OREnterC; ORDrain]) in
  length (got2 os) = 64%nat /\ last os ONone = OErrClosed /\ h2loop st = LStop.
Proof. vm_compute. auto. Qed.
