(* C16 (vi) — SCTPConn.Write called from any number of goroutines on ONE connection
   (sctpconn.go:93-136), as the atomic sections the code has:

       writeLen == 0 / > max/2            -> return                       (no shared state touched)
       s.writeMutex.Lock()                                                 MLockOp
       s.stream.BufferedAmount()+writeLen > writeMaxBufferedAmount         MCheck
       select { <-s.closed: return "closed" ; <-s.write: }                 MAbort / MTake
       s.stream.Write(b)                                                   MDo
       (deferred) s.writeMutex.Unlock()                                    MUnlock
       the caller sees the result                                          MRet

   interleaved with a network that releases buffered bytes by arbitrary amounts at
   arbitrary moments, or never (MDrain: pion's onBufferReleased, which posts the
   one-slot token on a downward crossing of max/2), writes that bypass SCTPConn
   (MForeign: the client's heartbeat sendLoop) and Close (MClose).

   Threads are natural numbers: any number of writers.  [mvariant] selects the order
   of Lock and Check: VLocked is the code (lock, then check, wait and write inside the
   critical section); VUnlocked takes the lock only around stream.Write, i.e. check and
   write are not one atomic step -- the variant the mutual-exclusion hypothesis excludes
   (refuted in Examples.v for two writers, and for every k in ProofsMw.v).              *)
From CJ Require Import Common.Base C16.Model.

Local Open Scope N_scope.

Inductive mvariant := VLocked | VUnlocked.

Inductive mpc :=
| MIdle
| MLock (n : N)                    (* inside writeMutex.Lock() *)
| MChk (n : N)                     (* about to evaluate BufferedAmount()+n > max *)
| MSel (n : N)                     (* in the select: waits for the token or for closed *)
| MGo (n : N)                      (* about to call / inside stream.Write *)
| MUnl (k : N) (e : option err)    (* result computed, the deferred Unlock is pending *)
| MDone (k : N) (e : option err).  (* Write has returned (k, e) *)

(* [mforeign]: ghost, bytes written past flow control; [mtaken]: ghost, a token has been consumed *)
Record mwst := mkM { mbuf : N; mtoken : bool; mclosed : bool; mforeign : N; mtaken : bool;
                     mlock : option nat; mpcs : nat -> mpc }.
Definition mw_init : mwst := mkM 0 false false 0 false None (fun _ => MIdle).

Inductive mwop :=
| MStart (t : nat) (n : N)
| MLockOp (t : nat)
| MCheck (t : nat)
| MTake (t : nat)
| MAbort (t : nat)
| MDo (t : nat)
| MUnlock (t : nat)
| MRet (t : nat)
| MDrain (d : N)
| MForeign (k : N)
| MClose.

Definition set_pc (st : mwst) (t : nat) (p : mpc) : mwst :=
  mkM (mbuf st) (mtoken st) (mclosed st) (mforeign st) (mtaken st) (mlock st) (updn (mpcs st) t p).

(* where a writer that has passed the flow-control test goes *)
Definition after_check (v : mvariant) (n : N) : mpc :=
  match v with VLocked => MGo n | VUnlocked => MLock n end.

Definition mw_step (v : mvariant) (st : mwst) (op : mwop) : mwst :=
  match op with
  | MStart t n =>
      match mpcs st t with
      | MIdle =>
          if n =? 0 then set_pc st t (MDone 0 None)
          else if wthr <? n then set_pc st t (MDone 0 (Some E_LIMIT))
          else set_pc st t (match v with VLocked => MLock n | VUnlocked => MChk n end)
      | _ => st
      end
  | MLockOp t =>
      match mpcs st t, mlock st with
      | MLock n, None =>
          mkM (mbuf st) (mtoken st) (mclosed st) (mforeign st) (mtaken st) (Some t)
              (updn (mpcs st) t (match v with VLocked => MChk n | VUnlocked => MGo n end))
      | _, _ => st
      end
  | MCheck t =>
      match mpcs st t with
      | MChk n => if wmax <? mbuf st + n then set_pc st t (MSel n) else set_pc st t (after_check v n)
      | _ => st
      end
  | MTake t =>
      match mpcs st t with
      | MSel n => if mtoken st
                  then mkM (mbuf st) false (mclosed st) (mforeign st) true (mlock st)
                           (updn (mpcs st) t (after_check v n))
                  else st
      | _ => st
      end
  | MAbort t =>
      match mpcs st t with
      | MSel n => if mclosed st
                  then set_pc st t (match v with VLocked => MUnl 0 (Some E_WCLOSED)
                                               | VUnlocked => MDone 0 (Some E_WCLOSED) end)
                  else st
      | _ => st
      end
  | MDo t =>
      match mpcs st t with
      | MGo n => mkM (mbuf st + n) (mtoken st) (mclosed st) (mforeign st) (mtaken st) (mlock st)
                     (updn (mpcs st) t (MUnl n None))
      | _ => st
      end
  | MUnlock t =>
      match mpcs st t with
      | MUnl k e => mkM (mbuf st) (mtoken st) (mclosed st) (mforeign st) (mtaken st) None
                        (updn (mpcs st) t (MDone k e))
      | _ => st
      end
  | MRet t =>
      match mpcs st t with
      | MDone _ _ => set_pc st t MIdle
      | _ => st
      end
  | MDrain d =>
      let b' := mbuf st - d in
      mkM b' (mtoken st || ((wthr <? mbuf st) && (b' <=? wthr))) (mclosed st) (mforeign st) (mtaken st)
          (mlock st) (mpcs st)
  | MForeign k =>
      mkM (mbuf st + k) (mtoken st) (mclosed st) (mforeign st + k) (mtaken st) (mlock st) (mpcs st)
  | MClose =>
      mkM (mbuf st) (mtoken st) true (mforeign st) (mtaken st) (mlock st) (mpcs st)
  end.

Definition mw_run (v : mvariant) (st : mwst) (ops : list mwop) : mwst := fold_left (mw_step v) ops st.

(* every state the run passes through *)
Fixpoint mw_trace (v : mvariant) (st : mwst) (ops : list mwop) : list mwst :=
  st :: match ops with [] => [] | op :: r => mw_trace v (mw_step v st op) r end.

(* the part of Write in which the code holds writeMutex *)
Definition in_critical (v : mvariant) (p : mpc) : bool :=
  match v, p with
  | VLocked, (MChk _ | MSel _ | MGo _ | MUnl _ _) => true
  | VUnlocked, (MGo _ | MUnl _ _) => true
  | _, _ => false
  end.

(* the fixed bound of the property: writeMaxBufferedAmount plus one maximal write
   (the one a stale token lets through), independent of the number of writers *)
Definition mw_bound : N := wmax + wthr.

(* projection on the one-writer model of Model.v (iii): the writer is whoever holds the mutex *)
Definition mw_proj (st : mwst) : fcst :=
  mkF (mbuf st) (mtoken st)
      (match mlock st with
       | Some t => match mpcs st t with MSel n => FWait n | MGo n => FGo n | _ => FIdle end
       | None => FIdle
       end)
      (mclosed st) (mforeign st).

(* the schedule in which k writers of the unlocked variant all test before any writes *)
Definition unl_starts (k : nat) : list mwop := map (fun t => MStart t wthr) (seq 0 k).
Definition unl_checks (k : nat) : list mwop := map MCheck (seq 0 k).
Definition unl_writes (k : nat) : list mwop := flat_map (fun t => [MLockOp t; MDo t; MUnlock t; MRet t]) (seq 0 k).
Definition unl_schedule (k : nat) : list mwop := unl_starts k ++ unl_checks k ++ unl_writes k.
