(* C16 (vi) — SCTPConn.Write called from any number of goroutines on ONE connection
   (sctpconn.go:93-136), as the atomic sections the code has:

       writeLen == 0 / > max/2            -> return                       (no shared state touched)
       s.writeMutex.Lock()                                                 MLockOp
       s.stream.BufferedAmount()+writeLen > writeMaxBufferedAmount         MCheck
       select { <-s.closed: return "closed" ; <-s.write: }                 MAbort / MTake
       s.stream.Write(b)                                                   MDo
       (deferred) s.writeMutex.Unlock()                                    MUnlock
       the caller sees the result                                          MRet

   interleaved with a network that releases buffered bytes by arbitrary amounts at
   arbitrary moments, or never (MDrain: pion's onBufferReleased, which posts the
   one-slot token on a downward crossing of max/2), writes that bypass SCTPConn
   (MForeign: the client's heartbeat sendLoop) and Close (MClose).

   Threads are natural numbers: any number of writers.  [mvariant] selects the order
   of Lock and Check: VLocked is the code (lock, then check, wait and write inside the
   critical section); VUnlocked takes the lock only around stream.Write, i.e. check and
   write are not one atomic step -- the variant the mutual-exclusion hypothesis excludes
   (refuted in Examples.v for two writers, and for every k in ProofsMw.v).              *)
From CJ Require Import Common.Base C16.Model.

Local Open Scope N_scope.

Inductive mvariant := VLocked | VUnlocked.

Inductive mpc :=
| MIdle
| MLock (n : N)                    (* inside writeMutex.Lock() *)
| MChk (n : N)                     (* about to evaluate BufferedAmount()+n > max *)
| MSel (n : N)                     (* in the select: waits for the token or for closed *)
| MGo (n : N)                      (* about to call / inside stream.Write *)
| MUnl (k : N) (e : option err)    (* result computed, the deferred Unlock is pending *)
| MDone (k : N) (e : option err).  (* Write has returned (k, e) *)

(* [mforeign]: ghost, bytes written past flow control; [mtaken]: ghost, a token has been consumed *)
Record mwst := mkM { mbuf : N; mtoken : bool; mclosed : bool; mforeign : N; mtaken : bool;
                     mlock : option nat; mpcs : nat -> mpc }.
Definition mw_init : mwst := mkM 0 false false 0 false None (fun _ => MIdle).

Inductive mwop :=
| MStart (t : nat) (n : N)
| MLockOp (t : nat)
| MCheck (t : nat)
| MTake (t : nat)
| MAbort (t : nat)
| MDo (t : nat)
| MUnlock (t : nat)
| MRet (t : nat)
| MDrain (d : N)
| MForeign (k : N)
| MClose.

Definition set_pc (st : mwst) (t : nat) (p : mpc) : mwst :=
  mkM (mbuf st) (mtoken st) (mclosed st) (mforeign st) (mtaken st) (mlock st) (updn (mpcs st) t p).

(* where a writer that has passed the flow-control test goes *)
Definition after_check (v : mvariant) (n : N) : mpc :=
  match v with VLocked => MGo n | VUnlocked => MLock n end.

Definition mw_step (v : mvariant) (st : mwst) (op : mwop) : mwst :=
  match op with
  | MStart t n =>
      match mpcs st t with
      | MIdle =>
          if n =? 0 then set_pc st t (MDone 0 None)
          else if wthr <? n then set_pc st t (MDone 0 (Some E_LIMIT))
          else set_pc st t (match v with VLocked => MLock n | VUnlocked => MChk n end)
      | _ => st
      end
  | MLockOp t =>
      match mpcs st t, mlock st with
      | MLock n, None =>
          mkM (mbuf st) (mtoken st) (mclosed st) (mforeign st) (mtaken st) (Some t)
              (updn (mpcs st) t (match v with VLocked => MChk n | VUnlocked => MGo n end))
      | _, _ => st
      end
  | MCheck t =>
      match mpcs st t with
      | MChk n => if wmax <? mbuf st + n then set_pc st t (MSel n) else set_pc st t (after_check v n)
      | _ => st
      end
  | MTake t =>
      match mpcs st t with
      | MSel n => if mtoken st
                  then mkM (mbuf st) false (mclosed st) (mforeign st) true (mlock st)
                           (updn (mpcs st) t (after_check v n))
                  else st
      | _ => st
      end
  | MAbort t =>
      match mpcs st t with
      | MSel n => if mclosed st
                  then set_pc st t (match v with VLocked => MUnl 0 (Some E_WCLOSED)
                                               | VUnlocked => MDone 0 (Some E_WCLOSED) end)
                  else st
      | _ => st
      end
  | MDo t =>
      match mpcs st t with
      | MGo n => mkM (mbuf st + n) (mtoken st) (mclosed st) (mforeign st) (mtaken st) (mlock st)
                     (updn (mpcs st) t (MUnl n None))
      | _ => st
      end
  | MUnlock t =>
      match mpcs st t with
      | MUnl k e => mkM (mbuf st) (mtoken st) (mclosed st) (mforeign st) (mtaken st) None
                        (updn (mpcs st) t (MDone k e))
      | _ => st
      end
  | MRet t =>
      match mpcs st t with
      | MDone _ _ => set_pc st t MIdle
      | _ => st
      end
  | MDrain d =>
      let b' := mbuf st - d in
      mkM b' (mtoken st || ((wthr <? mbuf st) && (b' <=? wthr))) (mclosed st) (mforeign st) (mtaken st)
          (mlock st) (mpcs st)
  | MForeign k =>
      mkM (mbuf st + k) (mtoken st) (mclosed st) (mforeign st + k) (mtaken st) (mlock st) (mpcs st)
  | MClose =>
      mkM (mbuf st) (mtoken st) true (mforeign st) (mtaken st) (mlock st) (mpcs st)
  end.

Definition mw_run (v : mvariant) (st : mwst) (ops : list mwop) : mwst := fold_left (mw_step v) ops st.

(* every state the run passes through *)
Fixpoint mw_trace (v : mvariant) (st : mwst) (ops : list mwop) : list mwst :=
  st :: match ops with [] => [] | op :: r => mw_trace v (mw_step v st op) r end.

(* the part of Write in which the code holds writeMutex *)
Definition in_critical (v : mvariant) (p : mpc) : bool :=
  match v, p with
  | VLocked, (MChk _ | MSel _ | MGo _ | MUnl _ _) => true
  | VUnlocked, (MGo _ | MUnl _ _) => true
  | _, _ => false
  end.

(* the fixed bound of the property: writeMaxBufferedAmount plus one maximal write
   (the one a stale token lets through), independent of the number of writers *)
Definition mw_bound : N := wmax + wthr.

(* projection on the one-writer model of Model.v (iii): the writer is whoever holds the mutex *)
Definition mw_proj (st : mwst) : fcst :=
  mkF (mbuf st) (mtoken st)
      (match mlock st with
       | Some t => match mpcs st t with MSel n => FWait n | MGo n => FGo n | _ => FIdle end
       | None => FIdle
       end)
      (mclosed st) (mforeign st).

(* the schedule in which k writers of the unlocked variant all test before any writes *)
Definition unl_starts (k : nat) : list mwop := map (fun t => MStart t wthr) (seq 0 k).
Definition unl_checks (k : nat) : list mwop := map MCheck (seq 0 k).
Definition unl_writes (k : nat) : list mwop := flat_map (fun t => [MLockOp t; MDo t; MUnlock t; MRet t]) (seq 0 k).
Definition unl_schedule (k : nat) : list mwop := unl_starts k ++ unl_checks k ++ unl_writes k.

(* ------------------------------------------------------------------ *)
(* (vii) SCTPConn.Read called from any number of goroutines             *)
(* ------------------------------------------------------------------ *)
(* Read as the sections it consists of under readMutex: Lock, the refill of the intermediate buffer (or the bypass
   for a large caller buffer) -- QFill --, the hand-out from the buffer -- QCopy --, the deferred Unlock.  Refill and
   hand-out are SEPARATE steps on the shared buffer, so that the mutex matters: other goroutines' steps may come
   in between (they can only start or wait for the mutex). *)
Local Close Scope N_scope.
Inductive mrpc :=
| QIdle
| QWant (n : nat)      (* inside readMutex.Lock() *)
| QIn1 (n : nat)       (* holds the mutex, before the refill test *)
| QIn2 (n : nat)       (* holds the mutex, buffer non-empty or refilled, before the hand-out *)
| QGot (r : rres).     (* result computed, the deferred Unlock is pending *)

Record mrst := mkMR { mr_rst : rst; mr_script : mscript; mr_lock : option nat; mr_pcs : nat -> mrpc;
                      mr_log : list (nat * rres) }.   (* (size, result) of the completed Reads, in the order of their critical sections *)
Definition mr_init (s : mscript) : mrst := mkMR rinit s None (fun _ => QIdle) [].

Inductive mrop := QStart (t n : nat) | QLockOp (t : nat) | QFill (t : nat) | QCopy (t : nat) | QUnlock (t : nat).

(* the hand-out half of Read: copy from the buffer, advance the offset, attach the error to the last byte *)
Definition read_copy (st : rst) (n : nat) : rst * bytes * option err :=
  let out := firstn n (skipn (roff st) (rbuf st)) in
  let off := (roff st + length out)%nat in
  (mkR (rbuf st) off (rerr st), out, if (off =? length (rbuf st))%nat then rerr st else None).

Definition mr_step (mx : nat) (eos : err) (st : mrst) (op : mrop) : mrst :=
  match op with
  | QStart t n =>
      match mr_pcs st t with
      | QIdle => mkMR (mr_rst st) (mr_script st) (mr_lock st) (updn (mr_pcs st) t (QWant n)) (mr_log st)
      | _ => st
      end
  | QLockOp t =>
      match mr_pcs st t, mr_lock st with
      | QWant n, None => mkMR (mr_rst st) (mr_script st) (Some t) (updn (mr_pcs st) t (QIn1 n)) (mr_log st)
      | _, _ => st
      end
  | QFill t =>
      match mr_pcs st t with
      | QIn1 n =>
          let full := (roff (mr_rst st) =? length (rbuf (mr_rst st)))%nat in
          if full && (mx <=? n)%nat then
            let '(s', d, e) := sread eos (mr_script st) n in
            mkMR (mr_rst st) s' (mr_lock st) (updn (mr_pcs st) t (QGot (d, e))) (mr_log st ++ [(n, (d, e))])
          else if full then
            let '(s', d, e) := sread eos (mr_script st) mx in
            mkMR (mkR d 0 e) s' (mr_lock st) (updn (mr_pcs st) t (QIn2 n)) (mr_log st)
          else mkMR (mr_rst st) (mr_script st) (mr_lock st) (updn (mr_pcs st) t (QIn2 n)) (mr_log st)
      | _ => st
      end
  | QCopy t =>
      match mr_pcs st t with
      | QIn2 n =>
          let '(r', o, e) := read_copy (mr_rst st) n in
          mkMR r' (mr_script st) (mr_lock st) (updn (mr_pcs st) t (QGot (o, e))) (mr_log st ++ [(n, (o, e))])
      | _ => st
      end
  | QUnlock t =>
      match mr_pcs st t with
      | QGot _ => mkMR (mr_rst st) (mr_script st) None (updn (mr_pcs st) t QIdle) (mr_log st)
      | _ => st
      end
  end.
Definition mr_run (mx : nat) (eos : err) (st : mrst) (ops : list mrop) : mrst := fold_left (mr_step mx eos) ops st.
Definition q_holds (p : mrpc) : bool := match p with QIn1 _ | QIn2 _ | QGot _ => true | _ => false end.

