(* C20 proofs, part 2: every reachable world is idle or inside exactly one
   store whose invariant holds; the theorems of Props.v. *)
From CJ Require Import Common.Base C20.Model C20.Proofs.
From Coq Require Import Lia ZifyN ZifyNat ZifyBool.

Section Proofs2.
  Variable cfg : Type.
  Variable marshal : cfg -> option bytes.
  Variable parse : bytes -> option cfg.

  Notation world := (world cfg).
  Notation pstep := (pstep cfg marshal parse).
  Notation run_event := (run_event cfg marshal parse).
  Notation run := (run cfg marshal parse).
  Notation inflight := (inflight cfg marshal).
  Notation returned := (returned cfg marshal).

  (* a step taken in an idle world: it stays idle without touching a file, or a store begins *)
  Lemma begin_step (w : world) f r :
    pc w = Idle ->
    (pc (pstep f r w) = Idle /\ files (pstep f r w) = files w /\ gone (pstep f r w) = gone w) \/
    (exists o rest m' sv, pend w = o :: rest /\ begin_of o (mem w) = Some (m', sv) /\
                          inflight w o rest m' sv r [Step f r] (pstep f r w)).
  Proof.
    intro Hpc. unfold pstep. rewrite Hpc.
    destruct (pend w) as [|o rest] eqn:Ep; [left; auto|].
    destruct (begin_of o (mem w)) as [[m' sv]|] eqn:Eb.
    - right. exists o, rest, m', sv. split; [reflexivity|]. split; [exact Eb|].
      destruct (marshal m') as [buf|] eqn:Em.
      + destruct (is_nofault f && dir_ok (gone w) (cwd w)) eqn:Ef.
        * unfold Proofs.inflight. cbn [pend cwd mem hist pc files].
          do 4 (split; [reflexivity|]).
          split; [unfold jgood; cbn [jop jsv jd jr jbuf]; auto|].
          unfold jtmp; cbn [jd jr]. split.
          -- left. apply lookup_upd_same.
          -- intros p Hne. left. apply lookup_upd_other; exact Hne.
        * unfold Proofs.inflight. cbn [pend cwd mem hist pc files].
          do 4 (split; [reflexivity|]). do 3 (split; [reflexivity|]). split; [symmetry; exact Em|].
          unfold fileinv. split; [right; left; reflexivity | intros p _; left; reflexivity].
      + unfold Proofs.inflight. cbn [pend cwd mem hist pc files].
        do 4 (split; [reflexivity|]). do 3 (split; [reflexivity|]). split; [symmetry; exact Em|].
        unfold fileinv. split; [right; left; reflexivity | intros p _; left; reflexivity].
    - left. destruct (_ =? cwd w); [auto|]. destruct (dir_ok _ _); auto.
  Qed.

  Lemma inflight_not_idle w1 o rest m' sv r evs (w : world) :
    inflight w1 o rest m' sv r evs w -> pc w <> Idle.
  Proof. intros (_ & _ & _ & _ & H) E; rewrite E in H; exact H. Qed.

  Lemma estep_pc e (w : world) : pc (estep e w) = pc w.
  Proof. destruct e; reflexivity. Qed.

  (* the shape of every reachable world *)
  Definition in_store (w1 : world) (evs2 : list event) (w : world) : Prop :=
    exists o rest m' sv r, pend w1 = o :: rest /\ begin_of o (mem w1) = Some (m', sv) /\
                           inflight w1 o rest m' sv r evs2 w.

  Lemma reach_decomp (w0 : world) evs :
    pc w0 = Idle ->
    exists evs1 evs2, evs = evs1 ++ evs2 /\ pc (run evs1 w0) = Idle /\
                      (evs2 = [] \/ in_store (run evs1 w0) evs2 (run evs w0)).
  Proof.
    intro H0. induction evs as [|e evs IH] using rev_ind.
    - exists [], []. split; [reflexivity|]. split; [exact H0 | left; reflexivity].
    - destruct IH as (evs1 & evs2 & Hs & Hi & Hc). rewrite run_snoc.
      destruct Hc as [Hc|Hc].
      + subst evs2. rewrite app_nil_r in Hs. subst evs1.
        destruct e as [f r|e].
        * destruct (begin_step (run evs w0) f r Hi) as [(Hb & _)|Hb].
          -- exists (evs ++ [Step f r]), []. rewrite app_nil_r, run_snoc.
             split; [reflexivity|]. split; [exact Hb | left; reflexivity].
          -- exists evs, [Step f r]. split; [reflexivity|]. split; [exact Hi|]. right.
             destruct Hb as (o & rest & m' & sv & B1 & B2 & B3). exists o, rest, m', sv, r. auto.
        * exists (evs ++ [Env e]), []. rewrite app_nil_r, run_snoc.
          split; [reflexivity|]. split; [simpl; rewrite estep_pc; exact Hi | left; reflexivity].
      + destruct Hc as (o & rest & m' & sv & r & P1 & P2 & P3). subst evs.
        destruct e as [f r'|e].
        * destruct (inflight_step cfg marshal parse _ o rest m' sv r evs2 _ f r' P3) as [Hn|Hr].
          -- exists evs1, (evs2 ++ [Step f r']). split; [rewrite app_assoc; reflexivity|]. split; [exact Hi|].
             right. exists o, rest, m', sv, r. auto.
          -- exists ((evs1 ++ evs2) ++ [Step f r']), []. rewrite app_nil_r, run_snoc.
             split; [reflexivity|]. split; [destruct Hr as (Hr & _); exact Hr | left; reflexivity].
        * exists evs1, (evs2 ++ [Env e]). split; [rewrite app_assoc; reflexivity|]. split; [exact Hi|].
          right. exists o, rest, m', sv, r. split; [exact P1|]. split; [exact P2|].
          apply inflight_env; exact P3.
  Qed.

  Lemma return_decomp (w0 : world) evs f r :
    pc w0 = Idle -> pc (run evs w0) <> Idle -> pc (run (evs ++ [Step f r]) w0) = Idle ->
    exists evs1 evs2 o rest m' sv r1,
      evs = evs1 ++ evs2 /\ pc (run evs1 w0) = Idle /\
      pend (run evs1 w0) = o :: rest /\ begin_of o (mem (run evs1 w0)) = Some (m', sv) /\
      returned (run evs1 w0) rest m' sv r1 (evs2 ++ [Step f r]) (run (evs ++ [Step f r]) w0).
  Proof.
    intros H0 Hn Hi. destruct (reach_decomp w0 evs H0) as (evs1 & evs2 & Hs & Hi1 & Hc).
    destruct Hc as [Hc|(o & rest & m' & sv & r1 & P1 & P2 & P3)].
    - subst evs2. rewrite app_nil_r in Hs; subst evs1. contradiction.
    - exists evs1, evs2, o, rest, m', sv, r1. do 4 (split; [assumption|]).
      rewrite run_snoc in *.
      destruct (inflight_step cfg marshal parse _ o rest m' sv r1 evs2 _ f r P3) as [Hx|Hx]; [|exact Hx].
      apply inflight_not_idle in Hx. contradiction.
  Qed.

  (* ---------------------------------------------------------------- what the invariant says about the target *)
  Lemma target_path_neq d d0 : d <> d0 -> path_eqb (d, Target) (d0, Target) = false.
  Proof. intro H. apply path_eqb_neq. intro E; inversion E; contradiction. Qed.

  Definition prev_new_or_gone (w1 w : world) (new : option bytes) (evs2 : list event) (d : dir) : Prop :=
    target w d = target w1 d \/
    (exists b, new = Some b /\ d = cwd w1 /\ target w d = Some b) \/
    (target w d = None /\ removed d evs2 = true).

  Lemma unch_target w1 evs (w : world) d :
    unch cfg w1 evs w (d, Target) -> forall new, prev_new_or_gone w1 w new evs d.
  Proof. intros [H|[H1 H2]] new; [left; exact H | right; right; split; assumption]. Qed.

  Lemma fileinv_target w1 m' r ok evs (w : world) d :
    fileinv cfg marshal w1 m' r ok evs w -> prev_new_or_gone w1 w (marshal m') evs d.
  Proof.
    unfold fileinv. destruct ok.
    - intros (buf & B1 & B2 & B3 & B4). destruct (N.eq_dec d (cwd w1)) as [E|E].
      + subst d. destruct B2 as [B2|[B2 B2']].
        * right; left. exists buf. auto.
        * right; right. split; assumption.
      + apply unch_target. apply B4; [apply target_neq_tmp | apply target_path_neq; exact E].
    - intros [_ B2]. apply unch_target. apply B2. apply target_neq_tmp.
  Qed.

  Lemma inflight_target w1 o rest m' sv r evs (w : world) d :
    inflight w1 o rest m' sv r evs w -> prev_new_or_gone w1 w (marshal m') evs d.
  Proof.
    intros (_ & _ & _ & _ & H).
    destruct (pc w) as [|j|j wok|j|o' sv' d' nb ok]; [contradiction| | | |].
    - destruct H as (_ & _ & Hu). apply unch_target. apply Hu. apply target_neq_tmp.
    - destruct H as (_ & _ & Hu). apply unch_target. apply Hu. apply target_neq_tmp.
    - destruct H as (_ & _ & Hu). apply unch_target. apply Hu. apply target_neq_tmp.
    - destruct H as (_ & _ & _ & _ & Hf). eapply fileinv_target; exact Hf.
  Qed.

  (* ---------------------------------------------------------------- crash atomicity *)
  Theorem crash_atomic (w0 : world) evs :
    pc w0 = Idle ->
    exists evs1 evs2,
      evs = evs1 ++ evs2 /\
      let w1 := run evs1 w0 in
      let w := run evs w0 in
      pc w1 = Idle /\
      forall d,
        target w d = target w1 d \/
        (exists o rest m' sv b,
            pend w1 = o :: rest /\ begin_of o (mem w1) = Some (m', sv) /\ marshal m' = Some b /\
            d = cwd w1 /\ target w d = Some b) \/
        (target w d = None /\ removed d evs2 = true).
  Proof.
    intro H0. destruct (reach_decomp w0 evs H0) as (evs1 & evs2 & Hs & Hi & Hc).
    exists evs1, evs2. split; [exact Hs|]. cbv zeta. split; [exact Hi|]. intro d.
    destruct Hc as [Hc|(o & rest & m' & sv & r & P1 & P2 & P3)].
    - subst evs2. rewrite app_nil_r in Hs; subst evs1. left; reflexivity.
    - destruct (inflight_target _ _ _ _ _ _ _ _ d P3) as [H|[(b & B1 & B2 & B3)|H]].
      + left; exact H.
      + right; left. exists o, rest, m', sv, b. auto.
      + right; right; exact H.
  Qed.

  (* ---------------------------------------------------------------- the result of a store *)
  Theorem store_result (w0 : world) evs f r :
    pc w0 = Idle -> pc (run evs w0) <> Idle -> pc (run (evs ++ [Step f r]) w0) = Idle ->
    exists evs1 evs2 o rest m' sv ok,
      evs ++ [Step f r] = evs1 ++ evs2 /\
      let w1 := run evs1 w0 in
      let w := run (evs ++ [Step f r]) w0 in
      pc w1 = Idle /\ pend w1 = o :: rest /\ begin_of o (mem w1) = Some (m', sv) /\
      pend w = rest /\ cwd w = cwd w1 /\
      hist w = hist w1 ++ [HDone (cwd w1) (marshal m') ok] /\
      mem w = (if ok then m' else rollback sv m') /\
      (ok = true ->
         exists b, marshal m' = Some b /\
                   (target w (cwd w1) = Some b \/ (target w (cwd w1) = None /\ removed (cwd w1) evs2 = true))) /\
      (ok = false ->
         forall d, target w d = target w1 d \/ (target w d = None /\ removed d evs2 = true)) /\
      (forall d, d <> cwd w1 ->
         target w d = target w1 d \/ (target w d = None /\ removed d evs2 = true)).
  Proof.
    intros H0 Hn Hi.
    destruct (return_decomp w0 evs f r H0 Hn Hi) as (evs1 & evs2 & o & rest & m' & sv & r1 & Hs & Hi1 & P1 & P2 & P3).
    destruct P3 as (R1 & R2 & R3 & ok & R4 & R5 & R6).
    exists evs1, (evs2 ++ [Step f r]), o, rest, m', sv, ok.
    split; [rewrite Hs, app_assoc; reflexivity|]. cbv zeta.
    do 3 (split; [assumption|]). split; [exact R2|]. split; [exact R3|]. split; [exact R4|]. split; [exact R5|].
    unfold fileinv in R6. split; [|split].
    - intro E; subst ok. destruct R6 as (buf & B1 & B2 & _). exists buf. split; [exact B1|exact B2].
    - intro E; subst ok. destruct R6 as [_ B2]. intro d. apply B2. apply target_neq_tmp.
    - intros d Hd. destruct ok.
      + destruct R6 as (buf & _ & _ & _ & B4). apply B4; [apply target_neq_tmp | apply target_path_neq; exact Hd].
      + destruct R6 as [_ B2]. apply B2. apply target_neq_tmp.
  Qed.

  (* SetClientConf: a failed replacement leaves the previous configuration in memory *)
  Theorem failed_replace_rolls_back (w0 : world) evs f r :
    pc w0 = Idle -> pc (run evs w0) <> Idle -> pc (run (evs ++ [Step f r]) w0) = Idle ->
    exists evs1 evs2 o rest,
      evs ++ [Step f r] = evs1 ++ evs2 /\
      let w1 := run evs1 w0 in
      let w := run (evs ++ [Step f r]) w0 in
      pc w1 = Idle /\ pend w1 = o :: rest /\
      forall c nb, o = SetConf c -> hist w = hist w1 ++ [HDone (cwd w1) nb false] -> mem w = mem w1.
  Proof.
    intros H0 Hn Hi.
    destruct (store_result w0 evs f r H0 Hn Hi) as (evs1 & evs2 & o & rest & m' & sv & ok & Hs & Hrest).
    cbv zeta in Hrest. destruct Hrest as (A1 & A2 & A3 & A4 & A5 & A6 & A7 & _).
    exists evs1, evs2, o, rest. split; [exact Hs|]. cbv zeta. split; [exact A1|]. split; [exact A2|].
    intros c nb Ho Hh. subst o. simpl in A3. inversion A3; subst m' sv.
    rewrite A6 in Hh. apply app_inv_head in Hh. inversion Hh; subst. simpl in A7. exact A7.
  Qed.
End Proofs2.
