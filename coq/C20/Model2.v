(* C20 model, part 2: two client processes (the library embedded in two programs
   of one user) sharing the file system and, possibly, one assets directory.
   Each process is the machine of Model.v; an event lets ONE of them take one
   atomic step (any interleaving), or is an action of the environment.
   Definitions only; executable. *)
From CJ Require Export Common.Base C20.Model.

Section Model2.
  Variable cfg : Type.
  Variable marshal : cfg -> option bytes.
  Variable parse : bytes -> option cfg.

  Record proc := mkP {
    q_mem : cfg; q_cwd : dir; q_pend : list (op cfg); q_pc : pcst cfg; q_hist : list hitem; q_trace : list tstep
  }.

  Record world2 := mkW2 { files2 : fsmap; gone2 : list dir; pa : proc; pb : proc }.

  Definition proc_of (w : world2) (who : bool) : proc := if who then pa w else pb w.

  (* process `who` seen as a single-process world over the shared file system *)
  Definition view (w : world2) (who : bool) : world cfg :=
    let p := proc_of w who in
    mkW (files2 w) (gone2 w) (q_mem p) (q_cwd p) (q_pend p) (q_pc p) (q_hist p) (q_trace p).

  Definition proc_of_world (v : world cfg) : proc :=
    mkP (mem v) (cwd v) (pend v) (pc v) (hist v) (trace v).

  Definition put (w : world2) (who : bool) (v : world cfg) : world2 :=
    mkW2 (files v) (gone v)
         (if who then proc_of_world v else pa w)
         (if who then pb w else proc_of_world v).

  Inductive event2 := Step2 (who : bool) (f : fault) (r : N) | Env2 (e : envev).

  Definition run_event2 (w : world2) (ev : event2) : world2 :=
    match ev with
    | Step2 who f r => put w who (pstep cfg marshal parse f r (view w who))
    | Env2 e => mkW2 (match e with RmDir d => rmdir d (files2 w) | MkDir _ => files2 w end)
                     (match e with RmDir d => d :: gone2 w | MkDir d => filter (fun x => negb (x =? d)) (gone2 w) end)
                     (pa w) (pb w)
    end.

  Definition run2 (evs : list event2) (w : world2) : world2 := fold_left run_event2 evs w.

  Definition target2 (w : world2) (d : dir) : option bytes := lookup (d, Target) (files2 w).

  (* the temporary a process currently has in the file system (created, not yet renamed) *)
  Definition held_tmp (p : proc) : option path :=
    match q_pc p with
    | Opened j | Wrote j _ | Closed j => Some (jtmp j)
    | _ => None
    end.

  (* The one assumption about the random file names: when a process creates its
     temporary, the name is not the one the other process currently holds.
     (5 characters out of 62: a collision needs the same 1-in-916-million draw
     while the other store is in flight.) *)
  Definition safe_event (w : world2) (ev : event2) : bool :=
    match ev with
    | Step2 who f r =>
        match q_pc (proc_of w who), held_tmp (proc_of w (negb who)) with
        | Idle, Some p => negb (path_eqb p (q_cwd (proc_of w who), Tmp r))
        | _, _ => true
        end
    | Env2 _ => true
    end.

  Fixpoint safe_run (evs : list event2) (w : world2) : bool :=
    match evs with
    | [] => true
    | ev :: rest => safe_event w ev && safe_run rest (run_event2 w ev)
    end.

  Definition is_rm2 (d : dir) (ev : event2) : bool :=
    match ev with Env2 (RmDir d') => d' =? d | _ => false end.
  Definition removed2 (d : dir) (evs : list event2) : bool := existsb (is_rm2 d) evs.
End Model2.

Arguments mkP {cfg}. Arguments q_mem {cfg}. Arguments q_cwd {cfg}. Arguments q_pend {cfg}. Arguments q_pc {cfg}.
Arguments q_hist {cfg}. Arguments q_trace {cfg}.
Arguments mkW2 {cfg}. Arguments files2 {cfg}. Arguments gone2 {cfg}. Arguments pa {cfg}. Arguments pb {cfg}.
Arguments proc_of {cfg}. Arguments target2 {cfg}. Arguments held_tmp {cfg}.
