(* C20 proofs, part 3: the step-level invariant (the target only changes by the
   rename of a completely written, closed temporary of the same directory),
   the global "never partial" theorem, the fault-free run, and the
   design's Appendix-A statement. *)
From CJ Require Import Common.Base C20.Model C20.Proofs C20.Proofs2.
From Coq Require Import Lia ZifyN ZifyNat ZifyBool.

Section Proofs3.
  Variable cfg : Type.
  Variable marshal : cfg -> option bytes.
  Variable parse : bytes -> option cfg.

  Notation world := (world cfg).
  Notation pstep := (pstep cfg marshal parse).
  Notation run_event := (run_event cfg marshal parse).
  Notation run := (run cfg marshal parse).
  Notation inflight := (inflight cfg marshal).

  Lemma is_nofault_true f : is_nofault f = true -> f = NoFault.
  Proof. destruct f; simpl; intro H; try discriminate; reflexivity. Qed.

  (* ---------------------------------------------------------------- one event and the target *)
  Definition renamed_over (w w' : world) (ev : event) (d : dir) : Prop :=
    exists j r', ev = Step NoFault r' /\ pc w = Closed j /\ jd j = d /\
                 lookup (d, Tmp (jr j)) (files w) = Some (jbuf j) /\
                 marshal (mem w) = Some (jbuf j) /\
                 target w' d = Some (jbuf j).

  Theorem target_step (w0 : world) evs ev d :
    pc w0 = Idle ->
    let w := run evs w0 in
    let w' := run_event w ev in
    target w' d = target w d \/
    (ev = Env (RmDir d) /\ target w' d = None) \/
    renamed_over w w' ev d.
  Proof.
    intros H0 w w'. subst w'. destruct ev as [f r'|e].
    - simpl. unfold Model.pstep. destruct (pc w) as [|j|j wok|j|o' sv' d' nb ok] eqn:Epc.
      + (* Idle *)
        destruct (pend w) as [|o rest]; [left; reflexivity|].
        destruct (begin_of o (mem w)) as [[m' sv]|].
        * destruct (marshal m'); [|left; reflexivity].
          destruct (is_nofault f && dir_ok (gone w) (cwd w)); [|left; reflexivity].
          left. unfold target; cbn [files]. apply lookup_upd_other. apply target_neq_tmp.
        * destruct (_ =? cwd w); [left; reflexivity|]. destruct (dir_ok _ _); left; reflexivity.
      + (* Opened *)
        left. unfold target; cbn [files]. destruct (lookup (jtmp j) (files w)); [|reflexivity].
        apply lookup_upd_other. apply target_neq_tmp.
      + left; reflexivity.
      + (* Closed *)
        destruct (if is_nofault f && dir_ok (gone w) (jd j) then lookup (jtmp j) (files w) else None) as [content|] eqn:Ec;
          [|left; reflexivity].
        destruct (N.eq_dec d (jd j)) as [E|E].
        * right; right.
          destruct (is_nofault f) eqn:Ef; [|discriminate]. apply is_nofault_true in Ef. subst f.
          destruct (dir_ok (gone w) (jd j)); [|discriminate]. cbn [andb] in Ec.
          (* the invariant of the store in flight *)
          destruct (reach_decomp cfg marshal parse w0 evs H0) as (evs1 & evs2 & Hs & Hi & Hc).
          destruct Hc as [Hc|(o & rest & m' & sv & r & P1 & P2 & P3)].
          { subst evs2. rewrite app_nil_r in Hs; subst evs1. fold w in Hi. rewrite Hi in Epc; discriminate. }
          fold w in P3. destruct P3 as (_ & _ & Hm & _ & Hpc). rewrite Epc in Hpc.
          destruct Hpc as (Hj & Ht & _).
          pose proof (jgood_tmp cfg marshal _ _ _ _ _ j Hj) as Ej.
          destruct Hj as (J1 & J2 & J3 & J4 & J5).
          assert (content = jbuf j).
          { rewrite Ej in Ec. destruct Ht as [Ht|[Ht _]]; rewrite Ht in Ec; [inversion Ec; reflexivity | discriminate]. }
          subst content. exists j, r'. subst d.
          split; [reflexivity|]. split; [exact Epc|]. split; [reflexivity|].
          split; [exact Ec|]. split; [rewrite Hm; exact J5|].
          unfold target; cbn [files]. unfold jtarget. apply lookup_upd_same.
        * left. unfold target; cbn [files]. unfold jtarget, jtmp.
          rewrite lookup_upd_other by (apply target_path_neq; exact E).
          apply lookup_remove_other. apply target_neq_tmp.
      + left; reflexivity.
    - simpl. destruct e as [d'|d']; simpl.
      + destruct (N.eq_dec d' d) as [E|E].
        * subst d'. right; left. split; [reflexivity|]. unfold target; cbn [files]. apply lookup_rmdir_same; reflexivity.
        * left. unfold target; cbn [files]. apply lookup_rmdir_other. simpl. congruence.
      + left; reflexivity.
  Qed.

  (* ---------------------------------------------------------------- never a mixture, never a truncation *)
  Theorem never_partial (w0 : world) evs d :
    pc w0 = Idle ->
    let w := run evs w0 in
    target w d = target w0 d \/
    (target w d = None /\ removed d evs = true) \/
    (exists evs1 evs2 b, evs = evs1 ++ evs2 /\ marshal (mem (run evs1 w0)) = Some b /\ target w d = Some b).
  Proof.
    intro H0. induction evs as [|ev evs IH] using rev_ind; [left; reflexivity|].
    cbv zeta in *. rewrite run_snoc.
    destruct (target_step w0 evs ev d H0) as [Hs|[[He Hs]|Hs]]; cbv zeta in Hs.
    - rewrite Hs. destruct IH as [IH|[[IH1 IH2]|(e1 & e2 & b & I1 & I2 & I3)]].
      + left; exact IH.
      + right; left. split; [exact IH1 | apply removed_mono; exact IH2].
      + right; right. exists e1, (e2 ++ [ev]), b. split; [rewrite I1, app_assoc; reflexivity|]. auto.
    - right; left. split; [exact Hs|]. subst ev. rewrite removed_snoc. simpl. rewrite N.eqb_refl. apply orb_true_r.
    - destruct Hs as (j & r' & S1 & S2 & S3 & S4 & S5 & S6).
      right; right. exists evs, [ev], (jbuf j). auto.
  Qed.

  (* ---------------------------------------------------------------- the fault-free store *)
  Lemma pstep_opened f r fs g m c p j h t :
    pstep f r (mkW fs g m c p (Opened j) h t) =
    mkW (match lookup (jtmp j) fs with Some old => upd (jtmp j) (old ++ landed f (jbuf j)) fs | None => fs end)
        g m c p (Wrote j (is_nofault f)) h (t ++ [TAppend (jtmp j) (blen (landed f (jbuf j))) (is_nofault f)]).
  Proof. reflexivity. Qed.

  Lemma pstep_wrote f r fs g m c p j wok h t :
    pstep f r (mkW fs g m c p (Wrote j wok) h t) =
    mkW fs g m c p (if wok && is_nofault f then Closed j else Returning (jop j) (jsv j) (jd j) (Some (jbuf j)) false)
        h (t ++ [TClose (jtmp j) (is_nofault f)]).
  Proof. reflexivity. Qed.

  Lemma pstep_returning f r fs g m c p o sv d nb ok h t :
    pstep f r (mkW fs g m c p (Returning o sv d nb ok) h t) =
    mkW fs g (if ok then m else rollback sv m) c p Idle (h ++ [HDone d nb ok]) t.
  Proof. reflexivity. Qed.

  Section NoFault.
    Variable w : world.
    Variable o : op cfg.
    Variable rest : list (op cfg).
    Variable m' : cfg.
    Variable sv : option cfg.
    Variable b : bytes.
    Variable r : N.
    Hypothesis Hpc : pc w = Idle.
    Hypothesis Hpend : pend w = o :: rest.
    Hypothesis Hbeg : begin_of o (mem w) = Some (m', sv).
    Hypothesis Hmar : marshal m' = Some b.
    Hypothesis Hdir : dir_ok (gone w) (cwd w) = true.

    Let tmp : path := (cwd w, Tmp r).
    Let tgt : path := (cwd w, Target).
    Let j := mkJob o sv (cwd w) r b.
    Let f1 := upd tmp [] (files w).
    Let f2 := upd tmp b f1.
    Let f4 := upd tgt b (remove tmp f2).

    Lemma nf1 : run (steps 1 r) w =
      mkW f1 (gone w) m' (cwd w) rest (Opened j) (hist w) (trace w ++ [TCreate tmp true]).
    Proof.
      unfold steps, Model.run; simpl. unfold Model.pstep. rewrite Hpc, Hpend, Hbeg, Hmar. simpl. rewrite Hdir. reflexivity.
    Qed.

    Lemma nf2 : run (steps 2 r) w =
      mkW f2 (gone w) m' (cwd w) rest (Wrote j true) (hist w)
          (trace w ++ [TCreate tmp true; TAppend tmp (blen b) true]).
    Proof.
      change (steps 2 r) with (steps 1 r ++ [Step NoFault r]). rewrite run_snoc, nf1. simpl.
      rewrite pstep_opened. change (jtmp j) with tmp. unfold f1 at 1. rewrite lookup_upd_same. simpl.
      rewrite <- app_assoc. reflexivity.
    Qed.

    Lemma nf3 : run (steps 3 r) w =
      mkW f2 (gone w) m' (cwd w) rest (Closed j) (hist w)
          (trace w ++ [TCreate tmp true; TAppend tmp (blen b) true; TClose tmp true]).
    Proof.
      change (steps 3 r) with (steps 2 r ++ [Step NoFault r]). rewrite run_snoc, nf2. simpl.
      rewrite pstep_wrote. simpl. rewrite <- app_assoc. reflexivity.
    Qed.

    Lemma nf4 : run (steps 4 r) w =
      mkW f4 (gone w) m' (cwd w) rest (Returning o sv (cwd w) (Some b) true) (hist w)
          (trace w ++ save_steps (cwd w) r b).
    Proof.
      change (steps 4 r) with (steps 3 r ++ [Step NoFault r]). rewrite run_snoc, nf3. simpl.
      unfold Model.pstep. cbn [pc gone files jd j jtmp jr]. rewrite Hdir. cbn [is_nofault andb].
      fold tmp. unfold f2 at 1. rewrite lookup_upd_same.
      cbn [files gone mem cwd pend hist trace jop jsv jd jbuf jtarget jtmp jr j].
      fold tmp tgt. fold f4. rewrite <- app_assoc. reflexivity.
    Qed.

    Lemma nf5 : run (steps 5 r) w =
      mkW f4 (gone w) m' (cwd w) rest Idle (hist w ++ [HDone (cwd w) (Some b) true])
          (trace w ++ save_steps (cwd w) r b).
    Proof.
      change (steps 5 r) with (steps 4 r ++ [Step NoFault r]). rewrite run_snoc, nf4. simpl.
      rewrite pstep_returning. reflexivity.
    Qed.

    Lemma f1_other p : path_eqb p tmp = false -> lookup p f1 = lookup p (files w).
    Proof. intro H. unfold f1. apply lookup_upd_other; exact H. Qed.
    Lemma f2_other p : path_eqb p tmp = false -> lookup p f2 = lookup p (files w).
    Proof. intro H. unfold f2. rewrite lookup_upd_other by exact H. apply f1_other; exact H. Qed.
    Lemma f4_target : lookup tgt f4 = Some b.
    Proof. unfold f4. apply lookup_upd_same. Qed.
    Lemma f4_tmp : lookup tmp f4 = None.
    Proof. unfold f4. rewrite lookup_upd_other by apply tmp_neq_target. apply lookup_remove_same. Qed.
    Lemma f4_other p : path_eqb p tmp = false -> path_eqb p tgt = false -> lookup p f4 = lookup p (files w).
    Proof.
      intros H1 H2. unfold f4. rewrite lookup_upd_other by exact H2.
      rewrite lookup_remove_other by exact H1. apply f2_other; exact H1.
    Qed.

    (* a store that meets no fault and no interference succeeds: its system calls
       are exactly save_steps, the file holds the new bytes, the temporary is gone,
       no other file changed *)
    Theorem store_succeeds_without_faults :
      let w' := run (steps 5 r) w in
      pc w' = Idle /\ pend w' = rest /\ mem w' = m' /\ cwd w' = cwd w /\ gone w' = gone w /\
      hist w' = hist w ++ [HDone (cwd w) (Some b) true] /\
      trace w' = trace w ++ save_steps (cwd w) r b /\
      target w' (cwd w) = Some b /\
      lookup (cwd w, Tmp r) (files w') = None /\
      (forall p, p <> (cwd w, Tmp r) -> p <> (cwd w, Target) -> lookup p (files w') = lookup p (files w)).
    Proof.
      cbv zeta. rewrite nf5. cbn [pc pend mem cwd gone hist trace files]. unfold target. cbn [files].
      repeat (split; [reflexivity|]).
      split; [apply f4_target|]. split; [apply f4_tmp|].
      intros p H1 H2. apply f4_other; apply path_eqb_neq; assumption.
    Qed.

    (* crash after k fault-free steps of the store: previous content for k <= 3, the new one from the rename on *)
    Lemma nofault_prefix k d :
      (k <= 5)%nat ->
      target (run (steps k r) w) d = target w d \/ (d = cwd w /\ target (run (steps k r) w) d = Some b).
    Proof.
      intro Hk.
      assert (Hcases : k = 0%nat \/ k = 1%nat \/ k = 2%nat \/ k = 3%nat \/ k = 4%nat \/ k = 5%nat) by lia.
      assert (Hlow : forall fs, (forall p, path_eqb p tmp = false -> lookup p fs = lookup p (files w)) ->
                                lookup (d, Target) fs = lookup (d, Target) (files w)).
      { intros fs H. apply H. apply target_neq_tmp. }
      assert (Hhigh : lookup (d, Target) f4 = lookup (d, Target) (files w) \/ (d = cwd w /\ lookup (d, Target) f4 = Some b)).
      { destruct (N.eq_dec d (cwd w)) as [E|E].
        - right. split; [exact E|]. subst d. apply f4_target.
        - left. apply f4_other; [apply target_neq_tmp | apply target_path_neq; exact E]. }
      destruct Hcases as [ -> | [ -> | [ -> | [ -> | [ -> | -> ] ] ] ] ].
      - left; reflexivity.
      - left. rewrite nf1. unfold target; cbn [files]. apply Hlow, f1_other.
      - left. rewrite nf2. unfold target; cbn [files]. apply Hlow, f2_other.
      - left. rewrite nf3. unfold target; cbn [files]. apply Hlow, f2_other.
      - rewrite nf4. unfold target; cbn [files]. exact Hhigh.
      - rewrite nf5. unfold target; cbn [files]. exact Hhigh.
    Qed.
  End NoFault.
End Proofs3.
