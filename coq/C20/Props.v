(* C20 property theorems: statements + `exact lemma` only.
   cfg / marshal / parse are arbitrary (universally quantified): nothing is
   assumed about protobuf.  rename(2) atomicity is the semantics of the
   Rename step in Model.pstep (trusted base). *)
From CJ Require Import Common.Base C20.Model C20.Model2 C20.Proofs C20.Proofs2 C20.Proofs3 C20.Proofs4 C20.Proofs5.

(* For every sequence of API calls (pend w0), every event list evs (process
   steps under arbitrary faults interleaved with the directory vanishing or
   re-appearing) and every crash point (evs is any prefix of any execution):
   the world is either quiescent, or inside exactly one store that began in the
   idle world w1; and then every directory's ClientConf is what it was when
   that store began (the previous configuration), or the complete marshalled
   new configuration, or absent because its directory was removed meanwhile. *)
Theorem C20_crash_atomic :
  forall (cfg : Type) (marshal : cfg -> option bytes) (parse : bytes -> option cfg)
         (w0 : world cfg) (evs : list event),
    pc w0 = Idle ->
    exists evs1 evs2,
      evs = evs1 ++ evs2 /\
      let w1 := run cfg marshal parse evs1 w0 in
      let w := run cfg marshal parse evs w0 in
      pc w1 = Idle /\
      forall d,
        target w d = target w1 d \/
        (exists o rest m' sv b,
            pend w1 = o :: rest /\ begin_of o (mem w1) = Some (m', sv) /\ marshal m' = Some b /\
            d = cwd w1 /\ target w d = Some b) \/
        (target w d = None /\ removed d evs2 = true).
Proof. exact crash_atomic. Qed.
Print Assumptions C20_crash_atomic.

(* When a store returns: it reports ok only if the file now holds the complete
   new configuration, and an error only if every ClientConf is untouched; the
   in-memory configuration is the new one, or the rollback value. *)
Theorem C20_store_result :
  forall (cfg : Type) (marshal : cfg -> option bytes) (parse : bytes -> option cfg)
         (w0 : world cfg) (evs : list event) (f : fault) (r : N),
    pc w0 = Idle ->
    pc (run cfg marshal parse evs w0) <> Idle ->
    pc (run cfg marshal parse (evs ++ [Step f r]) w0) = Idle ->
    exists evs1 evs2 o rest m' sv ok,
      evs ++ [Step f r] = evs1 ++ evs2 /\
      let w1 := run cfg marshal parse evs1 w0 in
      let w := run cfg marshal parse (evs ++ [Step f r]) w0 in
      pc w1 = Idle /\ pend w1 = o :: rest /\ begin_of o (mem w1) = Some (m', sv) /\
      pend w = rest /\ cwd w = cwd w1 /\
      hist w = hist w1 ++ [HDone (cwd w1) (marshal m') ok] /\
      mem w = (if ok then m' else rollback sv m') /\
      (ok = true ->
         exists b, marshal m' = Some b /\
                   (target w (cwd w1) = Some b \/ (target w (cwd w1) = None /\ removed (cwd w1) evs2 = true))) /\
      (ok = false ->
         forall d, target w d = target w1 d \/ (target w d = None /\ removed d evs2 = true)) /\
      (forall d, d <> cwd w1 ->
         target w d = target w1 d \/ (target w d = None /\ removed d evs2 = true)).
Proof. exact store_result. Qed.
Print Assumptions C20_store_result.

Theorem C20_failed_replace_rolls_back :
  forall (cfg : Type) (marshal : cfg -> option bytes) (parse : bytes -> option cfg)
         (w0 : world cfg) (evs : list event) (f : fault) (r : N),
    pc w0 = Idle ->
    pc (run cfg marshal parse evs w0) <> Idle ->
    pc (run cfg marshal parse (evs ++ [Step f r]) w0) = Idle ->
    exists evs1 evs2 o rest,
      evs ++ [Step f r] = evs1 ++ evs2 /\
      let w1 := run cfg marshal parse evs1 w0 in
      let w := run cfg marshal parse (evs ++ [Step f r]) w0 in
      pc w1 = Idle /\ pend w1 = o :: rest /\
      forall c nb, o = SetConf c -> hist w = hist w1 ++ [HDone (cwd w1) nb false] -> mem w = mem w1.
Proof. exact failed_replace_rolls_back. Qed.
Print Assumptions C20_failed_replace_rolls_back.

(* The invariant behind the three theorems above, per event: the ClientConf of a
   directory only ever changes (i) by the environment removing the directory, or
   (ii) by the Rename step of a store whose temporary -- in the SAME directory --
   is closed and holds exactly the marshalled in-memory configuration. *)
Theorem C20_target_changes_only_by_rename :
  forall (cfg : Type) (marshal : cfg -> option bytes) (parse : bytes -> option cfg)
         (w0 : world cfg) (evs : list event) (ev : event) (d : dir),
    pc w0 = Idle ->
    let w := run cfg marshal parse evs w0 in
    let w' := run_event cfg marshal parse w ev in
    target w' d = target w d \/
    (ev = Env (RmDir d) /\ target w' d = None) \/
    (exists j r', ev = Step NoFault r' /\ pc w = Closed j /\ jd j = d /\
                  lookup (d, Tmp (jr j)) (files w) = Some (jbuf j) /\
                  marshal (mem w) = Some (jbuf j) /\
                  target w' d = Some (jbuf j)).
Proof. exact target_step. Qed.
Print Assumptions C20_target_changes_only_by_rename.

(* Never a mixture, never a truncation, over whole histories: whatever the file
   holds is what it held initially, or the complete marshalling of a configuration
   that was in memory at some earlier moment of the execution (or the file is
   absent because its directory was removed). *)
Theorem C20_never_partial :
  forall (cfg : Type) (marshal : cfg -> option bytes) (parse : bytes -> option cfg)
         (w0 : world cfg) (evs : list event) (d : dir),
    pc w0 = Idle ->
    let w := run cfg marshal parse evs w0 in
    target w d = target w0 d \/
    (target w d = None /\ removed d evs = true) \/
    (exists evs1 evs2 b, evs = evs1 ++ evs2 /\
                         marshal (mem (run cfg marshal parse evs1 w0)) = Some b /\ target w d = Some b).
Proof. exact never_partial. Qed.
Print Assumptions C20_never_partial.

(* ... and therefore parseable, given that Unmarshal inverts Marshal. *)
Theorem C20_stored_file_parses :
  forall (cfg : Type) (marshal : cfg -> option bytes) (parse : bytes -> option cfg),
    (forall c b, marshal c = Some b -> parse b = Some c) ->
    forall (w0 : world cfg) (evs : list event) (d : dir) (content : bytes),
      pc w0 = Idle ->
      target (run cfg marshal parse evs w0) d = Some content ->
      target w0 d = Some content \/
      exists evs1 evs2, evs = evs1 ++ evs2 /\ parse content = Some (mem (run cfg marshal parse evs1 w0)).
Proof. exact stored_file_parses. Qed.
Print Assumptions C20_stored_file_parses.

(* Non-triviality of the model: without faults and interference a store succeeds,
   its system calls are exactly save_steps (create temporary in the same
   directory, write everything, close, rename over ClientConf), the temporary is
   gone and no other file changed. *)
Theorem C20_store_succeeds_without_faults :
  forall (cfg : Type) (marshal : cfg -> option bytes) (parse : bytes -> option cfg)
         (w : world cfg) (o : op cfg) (rest : list (op cfg)) (m' : cfg) (sv : option cfg) (b : bytes) (r : N),
    pc w = Idle -> pend w = o :: rest -> begin_of o (mem w) = Some (m', sv) -> marshal m' = Some b ->
    dir_ok (gone w) (cwd w) = true ->
    let w' := run cfg marshal parse (steps 5 r) w in
    pc w' = Idle /\ pend w' = rest /\ mem w' = m' /\ cwd w' = cwd w /\ gone w' = gone w /\
    hist w' = hist w ++ [HDone (cwd w) (Some b) true] /\
    trace w' = trace w ++ save_steps (cwd w) r b /\
    target w' (cwd w) = Some b /\
    lookup (cwd w, Tmp r) (files w') = None /\
    (forall p, p <> (cwd w, Tmp r) -> p <> (cwd w, Target) -> lookup p (files w') = lookup p (files w)).
Proof. exact store_succeeds_without_faults. Qed.
Print Assumptions C20_store_succeeds_without_faults.

(* The statement of DESIGN.md Appendix A: any number of complete stores followed
   by one that is cut short anywhere leaves the previous or the last configuration. *)
Theorem C20_crash_atomic_cut :
  forall (cfg : Type) (marshal : cfg -> option bytes) (parse : bytes -> option cfg)
         (cs : list cfg) (w : world cfg) (lastc : cfg) (r : N) (k : nat),
    pc w = Idle ->
    pend w = map SetConf (cs ++ [lastc]) ->
    dir_ok (gone w) (cwd w) = true ->
    Forall (fun c => marshal c <> None) (cs ++ [lastc]) ->
    (k <= 5)%nat ->
    let w' := run cfg marshal parse (steps (5 * length cs + k) r) w in
    target w' (cwd w) = last_marshal cfg marshal cs (target w (cwd w)) \/
    target w' (cwd w) = marshal lastc.
Proof. exact crash_atomic_cut. Qed.
Print Assumptions C20_crash_atomic_cut.

(* Temporary files are stated, not hidden: at every crash point the only file
   (besides the ClientConf of the current directory) that the store in flight has
   touched is its own temporary, which holds a prefix of the new bytes, or is
   untouched, or is gone (renamed away / removed with the directory). *)
Theorem C20_temp_files_accounted :
  forall (cfg : Type) (marshal : cfg -> option bytes) (parse : bytes -> option cfg)
         (w0 : world cfg) (evs : list event),
    pc w0 = Idle ->
    exists evs1 evs2,
      evs = evs1 ++ evs2 /\
      let w1 := run cfg marshal parse evs1 w0 in
      let w := run cfg marshal parse evs w0 in
      pc w1 = Idle /\
      (evs2 = [] \/
       exists o rest m' sv r,
         pend w1 = o :: rest /\ begin_of o (mem w1) = Some (m', sv) /\
         (forall p, p <> (cwd w1, Tmp r) -> p <> (cwd w1, Target) ->
                    lookup p (files w) = lookup p (files w1) \/
                    (lookup p (files w) = None /\ removed (fst p) evs2 = true)) /\
         ((exists pre buf, marshal m' = Some buf /\ lookup (cwd w1, Tmp r) (files w) = Some pre /\ is_prefix pre buf) \/
          lookup (cwd w1, Tmp r) (files w) = lookup (cwd w1, Tmp r) (files w1) \/
          lookup (cwd w1, Tmp r) (files w) = None)).
Proof. exact temp_files_accounted. Qed.
Print Assumptions C20_temp_files_accounted.

(* Two client processes sharing the file system (and possibly one assets
   directory), any interleaving of their atomic steps, any faults, any crash
   point of either or both, any interference of the environment.  Under the one
   assumption that a process never draws the temporary name the other one
   currently holds (safe_run; the names carry 5 random characters): the
   ClientConf of every directory is its initial content, or absent after a
   removal, or the COMPLETE marshalling of a configuration one of the two
   processes was storing earlier -- never a mixture, never a truncation.
   Examples.collision_breaks_atomicity shows the assumption is necessary. *)
Theorem C20_two_writers_never_partial :
  forall (cfg : Type) (marshal : cfg -> option bytes) (parse : bytes -> option cfg)
         (w0 : world2 cfg) (evs : list event2) (d : dir),
    q_pc (pa w0) = Idle -> q_pc (pb w0) = Idle ->
    safe_run cfg marshal parse evs w0 = true ->
    target2 (run2 cfg marshal parse evs w0) d = target2 w0 d \/
    (target2 (run2 cfg marshal parse evs w0) d = None /\ removed2 d evs = true) \/
    (exists evs1 evs2 who b,
        evs = evs1 ++ evs2 /\
        marshal (q_mem (proc_of (run2 cfg marshal parse evs1 w0) who)) = Some b /\
        target2 (run2 cfg marshal parse evs w0) d = Some b).
Proof. exact two_writers_never_partial. Qed.
Print Assumptions C20_two_writers_never_partial.
