(* C20 property theorems: statements + `exact lemma` only.
   cfg / marshal / parse are arbitrary (universally quantified): nothing is
   assumed about protobuf.  rename(2) atomicity is the semantics of the
   Rename step in Model.pstep (trusted base). *)
From CJ Require Import Common.Base C20.Model C20.Proofs C20.Proofs2.

(* For every sequence of API calls (pend w0), every event list evs (process
   steps under arbitrary faults interleaved with the directory vanishing or
   re-appearing) and every crash point (evs is any prefix of any execution):
   the world is either quiescent, or inside exactly one store that began in the
   idle world w1; and then every directory's ClientConf is what it was when
   that store began (the previous configuration), or the complete marshalled
   new configuration, or absent because its directory was removed meanwhile. *)
Theorem C20_crash_atomic :
  forall (cfg : Type) (marshal : cfg -> option bytes) (parse : bytes -> option cfg)
         (w0 : world cfg) (evs : list event),
    pc w0 = Idle ->
    exists evs1 evs2,
      evs = evs1 ++ evs2 /\
      let w1 := run cfg marshal parse evs1 w0 in
      let w := run cfg marshal parse evs w0 in
      pc w1 = Idle /\
      forall d,
        target w d = target w1 d \/
        (exists o rest m' sv b,
            pend w1 = o :: rest /\ begin_of o (mem w1) = Some (m', sv) /\ marshal m' = Some b /\
            d = cwd w1 /\ target w d = Some b) \/
        (target w d = None /\ removed d evs2 = true).
Proof. exact crash_atomic. Qed.
Print Assumptions C20_crash_atomic.

(* When a store returns: it reports ok only if the file now holds the complete
   new configuration, and an error only if every ClientConf is untouched; the
   in-memory configuration is the new one, or the rollback value. *)
Theorem C20_store_result :
  forall (cfg : Type) (marshal : cfg -> option bytes) (parse : bytes -> option cfg)
         (w0 : world cfg) (evs : list event) (f : fault) (r : N),
    pc w0 = Idle ->
    pc (run cfg marshal parse evs w0) <> Idle ->
    pc (run cfg marshal parse (evs ++ [Step f r]) w0) = Idle ->
    exists evs1 evs2 o rest m' sv ok,
      evs ++ [Step f r] = evs1 ++ evs2 /\
      let w1 := run cfg marshal parse evs1 w0 in
      let w := run cfg marshal parse (evs ++ [Step f r]) w0 in
      pc w1 = Idle /\ pend w1 = o :: rest /\ begin_of o (mem w1) = Some (m', sv) /\
      pend w = rest /\ cwd w = cwd w1 /\
      hist w = hist w1 ++ [HDone (cwd w1) (marshal m') ok] /\
      mem w = (if ok then m' else rollback sv m') /\
      (ok = true ->
         exists b, marshal m' = Some b /\
                   (target w (cwd w1) = Some b \/ (target w (cwd w1) = None /\ removed (cwd w1) evs2 = true))) /\
      (ok = false ->
         forall d, target w d = target w1 d \/ (target w d = None /\ removed d evs2 = true)) /\
      (forall d, d <> cwd w1 ->
         target w d = target w1 d \/ (target w d = None /\ removed d evs2 = true)).
Proof. exact store_result. Qed.
Print Assumptions C20_store_result.

Theorem C20_failed_replace_rolls_back :
  forall (cfg : Type) (marshal : cfg -> option bytes) (parse : bytes -> option cfg)
         (w0 : world cfg) (evs : list event) (f : fault) (r : N),
    pc w0 = Idle ->
    pc (run cfg marshal parse evs w0) <> Idle ->
    pc (run cfg marshal parse (evs ++ [Step f r]) w0) = Idle ->
    exists evs1 evs2 o rest,
      evs ++ [Step f r] = evs1 ++ evs2 /\
      let w1 := run cfg marshal parse evs1 w0 in
      let w := run cfg marshal parse (evs ++ [Step f r]) w0 in
      pc w1 = Idle /\ pend w1 = o :: rest /\
      forall c nb, o = SetConf c -> hist w = hist w1 ++ [HDone (cwd w1) nb false] -> mem w = mem w1.
Proof. exact failed_replace_rolls_back. Qed.
Print Assumptions C20_failed_replace_rolls_back.
