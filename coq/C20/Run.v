(* C20: evaluation of the model on recorded runs of the real store
   (correspondence check).  Configurations are represented by their marshalled
   bytes (None = proto.Marshal fails); proto.Unmarshal is the table of byte
   strings the harness knows to be marshalled configurations. *)
From CJ Require Import Common.Base C20.Model.

Definition cfgR := option bytes.
Definition marshalR (c : cfgR) : option bytes := c.
Definition parseR (valid : list bytes) (b : bytes) : option cfgR :=
  if existsb (bytes_eqb b) valid then Some (Some b) else None.

Definition worldR := world cfgR.

(* how the adversary treats one API call: the fault of each step and the
   environment events that happen just before the step taken in pc-kind k
   (0 idle/create, 1 write, 2 close, 3 rename, 4 return) *)
Record plan := mkPlan { p_r : N; p_fc : fault; p_fw : fault; p_fcl : fault; p_frn : fault; p_env : list (N * envev) }.

Definition pc_kind (p : pcst cfgR) : N :=
  match p with Idle => 0 | Opened _ => 1 | Wrote _ _ => 2 | Closed _ => 3 | Returning _ _ _ _ _ => 4 end.

Definition envs_at (k : N) (pl : plan) : list envev :=
  map snd (filter (fun e => fst e =? k) (p_env pl)).

Definition events_at (k : N) (pl : plan) : list event :=
  map Env (envs_at k pl) ++
  [Step (match k with 0 => p_fc pl | 1 => p_fw pl | 2 => p_fcl pl | 3 => p_frn pl | _ => NoFault end) (p_r pl)].

Section WithValid.
  Variable valid : list bytes.
  Notation runR := (run cfgR marshalR (parseR valid)).

  Fixpoint run_op (fuel : nat) (pl : plan) (started : bool) (w : worldR) : worldR :=
    match fuel with
    | O => w
    | S f' =>
        let k := pc_kind (pc w) in
        if (k =? 0) && started then w
        else run_op f' pl true (runR (events_at k pl) w)
    end.

  Definition with_pend (w : worldR) (o : op cfgR) : worldR :=
    mkW (files w) (gone w) (mem w) (cwd w) [o] (pc w) (hist w) (trace w).
  Definition with_files (w : worldR) (f : fsmap) : worldR :=
    mkW f (gone w) (mem w) (cwd w) (pend w) (pc w) (hist w) (trace w).

  (* observed result of one API call: err == nil, marshalled in-memory configuration afterwards *)
  Definition obs_op := (bool * option bspec)%type.

  Inductive item :=
  | IOp (o : op cfgR) (pl : plan) (ob : obs_op)
  | IWrite (p : path) (b : bytes)                      (* the harness puts a file in place *)
  | IEnv (e : envev)                                   (* the harness removes / creates a directory between calls *)
  | ILs (d : dir) (l : list (fname * bspec)).          (* observed directory listing *)

  Definition opt_matches (o : option bspec) (b : option bytes) : bool :=
    match o, b with
    | None, None => true
    | Some s, Some x => bspec_matches s x
    | _, _ => false
    end.

  Definition last_ok (same : bool) (w : worldR) : bool :=
    match rev (hist w) with
    | HDone _ _ ok :: _ => ok
    | HDir _ changed loaded :: _ => if same then true else loaded
    | [] => false
    end.

  Definition listing (d : dir) (w : worldR) : list (fname * bytes) :=
    map (fun e => (snd (fst e), snd e)) (filter (fun e => fst (fst e) =? d) (files w)).

  Fixpoint find_name (n : fname) (l : list (fname * bytes)) : option bytes :=
    match l with
    | [] => None
    | (m, b) :: r => if fname_eqb n m then Some b else find_name n r
    end.

  (* the ClientConf entry must agree exactly; every other observed file must be
     one the model has, with the same content (the model may have further
     temporaries: an implementation that cleans up after a failure is fine) *)
  Definition listing_matches (obs : list (fname * bspec)) (l : list (fname * bytes)) : bool :=
    forallb (fun e => match find_name (fst e) l with Some b => bspec_matches (snd e) b | None => false end) obs &&
    match find_name Target l with
    | Some _ => match find_name Target (map (fun e => (fst e, bspec_val (snd e))) obs) with Some _ => true | None => false end
    | None => true
    end.

  Definition same_dir (o : op cfgR) (w : worldR) : bool :=
    match o with SetDir d => d =? cwd w | _ => false end.

  (* runs the items; returns the final world and whether every observation matched *)
  Fixpoint run_items (its : list item) (w : worldR) (good : bool) : worldR * bool :=
    match its with
    | [] => (w, good)
    | IOp o pl (ok, m) :: r =>
        let w' := run_op 8 pl false (with_pend w o) in
        let g := Bool.eqb (last_ok (same_dir o w) w') ok && opt_matches m (mem w') && is_idle (pc w') in
        run_items r w' (good && g)
    | IWrite p b :: r => run_items r (with_files w (upd p b (files w))) good
    | IEnv e :: r => run_items r (estep e w) good
    | ILs d l :: r => run_items r w (good && listing_matches l (listing d w))
    end.

  Definition tstep_eqb (a b : tstep) : bool :=
    match a, b with
    | TCreate p o, TCreate q o' => path_eqb p q && Bool.eqb o o'
    | TAppend p n o, TAppend q n' o' => path_eqb p q && (n =? n') && Bool.eqb o o'
    | TClose p o, TClose q o' => path_eqb p q && Bool.eqb o o'
    | TRename s d o, TRename s' d' o' => path_eqb s s' && path_eqb d d' && Bool.eqb o o'
    | TOther n, TOther n' => n =? n'
    | _, _ => false
    end.

  Definition world0 (mem0 : cfgR) (cwd0 : dir) : worldR := mkW [] [] mem0 cwd0 [] Idle [] [].

  Definition run_case (mem0 : cfgR) (cwd0 : dir) (its : list item) : worldR * bool := run_items its (world0 mem0 cwd0) true.
End WithValid.

(* a scripted case: table of valid marshalled byte strings, initial in-memory
   configuration, the items, and the projected strace trace *)
(* the last component: was the child traced (false: strace/ptrace not available, the trace is not compared) *)
Definition scase := (list bytes * bytes * dir * list item * list tstep * bool)%type.

Definition chk (c : scase) : bool :=
  let '(valid, mem0, cwd0, its, tr, traced) := c in
  let '(w, good) := run_case valid (Some mem0) cwd0 its in
  good && (negb traced || list_eqb tstep_eqb (trace w) tr).

(* what the model computes, for diagnostics (lengths instead of contents) *)
Definition show (c : scase) :=
  let '(valid, mem0, cwd0, its, tr, traced) := c in
  let '(w, good) := run_case valid (Some mem0) cwd0 its in
  (good, list_eqb tstep_eqb (trace w) tr, trace w,
   map (fun h => match h with HDone d nb ok => (d, option_map blen nb, ok, false) | HDir d c l => (d, None, c, l) end) (hist w),
   map (fun e => (fst e, blen (snd e))) (files w), option_map blen (mem w)).

(* kill test: the file held `prev`; a store of `new` was in flight (or had not
   begun, or had just completed) when the process was killed.  The observed
   directory must be the model's directory at one of its crash points. *)
Definition kcase := (option bytes * bytes * N * N * list (fname * bspec))%type.

Definition kill_world (prev : option bytes) (new : bytes) : worldR :=
  mkW (match prev with Some b => [((0, Target), b)] | None => [] end) [] (Some new) 0
      [SetConf (Some new)] Idle [] [].

(* r: suffix of the observed temporary (if any); tmplen: its length *)
Definition chk_kill (c : kcase) : bool :=
  let '(prev, new, r, tmplen, obs) := c in
  existsb (fun fw =>
    existsb (fun n =>
      listing_matches obs
        (listing 0 (run cfgR marshalR (parseR [])
                        (firstn n [Step NoFault r; Step fw r; Step NoFault r; Step NoFault r; Step NoFault r])
                        (kill_world prev new))))
      [0; 1; 2; 3; 4; 5]%nat)
    [NoFault; FailAfter tmplen].

(* multi-megabyte stores: the new configuration is rebuilt inside Coq from the
   generator (head ++ lcg_bytes seed n ++ tail); observed large files are
   compared through their length and a few thousand sampled bytes (a full
   bhash costs about 25 s per megabyte under vm_compute).  n: number of
   process steps before the kill; fw: the fault of the write step. *)
Inductive ospec := OLit (b : bytes) | OSamp (len : N) (s : list (nat * N)).

Fixpoint walk (s : list (nat * N)) (l : bytes) : bool :=
  match s with
  | [] => true
  | (g, v) :: s' => match skipn g l with
                    | x :: r => (x =? v) && walk s' r
                    | [] => false
                    end
  end.

Definition ospec_matches (o : ospec) (b : bytes) : bool :=
  match o with
  | OLit l => bytes_eqb l b
  | OSamp len s => (blen b =? len) && walk s b
  end.

Definition kbig := (option bytes * bytes * N * nat * fault * list (fname * ospec))%type.

Definition chk_kill_big (c : kbig) : bool :=
  let '(prev, new, r, n, fw, obs) := c in
  let l := listing 0 (run cfgR marshalR (parseR [])
                          (firstn n [Step NoFault r; Step fw r; Step NoFault r; Step NoFault r; Step NoFault r])
                          (kill_world prev new)) in
  (length obs =? length l)%nat &&
  forallb (fun e => match find_name (fst e) l with Some b => ospec_matches (snd e) b | None => false end) obs.
