(* C20 proofs, part 4: sequences of complete stores followed by a cut one (the
   design's Appendix-A statement), the account of temporary files, and the
   parseability corollary. *)
From CJ Require Import Common.Base C20.Model C20.Proofs C20.Proofs2 C20.Proofs3.
From Coq Require Import Lia ZifyN ZifyNat ZifyBool.

Section Proofs4.
  Variable cfg : Type.
  Variable marshal : cfg -> option bytes.
  Variable parse : bytes -> option cfg.

  Notation world := (world cfg).
  Notation run := (run cfg marshal parse).
  Notation inflight := (inflight cfg marshal).
  Notation returned := (returned cfg marshal).

  Notation last_marshal := (last_marshal cfg marshal).

  Lemma steps_add a b r : steps (a + b) r = steps a r ++ steps b r.
  Proof. unfold steps. apply repeat_app. Qed.

  Theorem crash_atomic_cut (cs : list cfg) :
    forall (w : world) (lastc : cfg) (r : N) (k : nat),
      pc w = Idle ->
      pend w = map SetConf (cs ++ [lastc]) ->
      dir_ok (gone w) (cwd w) = true ->
      Forall (fun c => marshal c <> None) (cs ++ [lastc]) ->
      (k <= 5)%nat ->
      let w' := run (steps (5 * length cs + k) r) w in
      target w' (cwd w) = last_marshal cs (target w (cwd w)) \/
      target w' (cwd w) = marshal lastc.
  Proof.
    induction cs as [|c cs IH]; intros w lastc r k Hpc Hpend Hdir Hall Hk; cbv zeta.
    - simpl in *. inversion Hall as [|x l Hm _]; subst.
      destruct (marshal lastc) as [b|] eqn:Em; [|contradiction].
      destruct (nofault_prefix cfg marshal parse w (SetConf lastc) [] lastc (Some (mem w)) b r Hpc Hpend eq_refl Em Hdir k (cwd w) Hk)
        as [H|[_ H]]; [left; exact H | right; exact H].
    - simpl in Hpend. inversion Hall as [|x l Hm Hall']; subst.
      destruct (marshal c) as [b|] eqn:Em; [|contradiction].
      replace (5 * length (c :: cs) + k)%nat with (5 + (5 * length cs + k))%nat by (simpl; lia).
      rewrite steps_add, run_app.
      pose proof (store_succeeds_without_faults cfg marshal parse w (SetConf c) (map SetConf (cs ++ [lastc])) c (Some (mem w)) b r
                    Hpc Hpend eq_refl Em Hdir) as S. cbv zeta in S.
      destruct S as (S1 & S2 & S3 & S4 & S5 & S6 & S7 & S8 & _).
      set (w5 := run (steps 5 r) w) in *.
      assert (Hdir5 : dir_ok (gone w5) (cwd w5) = true) by (rewrite S4, S5; exact Hdir).
      specialize (IH w5 lastc r k S1 S2 Hdir5 Hall' Hk). cbv zeta in IH. rewrite S4 in IH.
      unfold last_marshal in *. simpl. rewrite S8 in IH. rewrite Em. exact IH.
  Qed.

  (* ---------------------------------------------------------------- temporary files *)
  Lemma inflight_files w1 o rest m' sv r evs (w : world) :
    inflight w1 o rest m' sv r evs w ->
    (forall p, path_eqb p (cwd w1, Tmp r) = false -> path_eqb p (cwd w1, Target) = false -> unch cfg w1 evs w p) /\
    (tmp_any cfg w1 r (marshal m') evs w \/ lookup (cwd w1, Tmp r) (files w) = None).
  Proof.
    intros (_ & _ & _ & _ & H).
    destruct (pc w) as [|j|j wok|j|o' sv' d' nb ok]; [contradiction| | | |].
    - destruct H as (Hj & Ht & Hu). split; [intros p H1 _; apply Hu; exact H1|].
      destruct Hj as (_ & _ & _ & _ & J5).
      destruct Ht as [Ht|Ht]; [left; left; exists [], (jbuf j); split; [exact J5|split; [exact Ht|exists (jbuf j); reflexivity]]
                              | left; right; right; exact Ht].
    - destruct H as (Hj & Ht & Hu). split; [intros p H1 _; apply Hu; exact H1|].
      destruct Hj as (_ & _ & _ & _ & J5). destruct wok; [|left; exact Ht].
      destruct Ht as [Ht|Ht]; [left; left; exists (jbuf j), (jbuf j); split; [exact J5|split; [exact Ht|apply prefix_refl]]
                              | left; right; right; exact Ht].
    - destruct H as (Hj & Ht & Hu). split; [intros p H1 _; apply Hu; exact H1|].
      destruct Hj as (_ & _ & _ & _ & J5).
      destruct Ht as [Ht|Ht]; [left; left; exists (jbuf j), (jbuf j); split; [exact J5|split; [exact Ht|apply prefix_refl]]
                              | left; right; right; exact Ht].
    - destruct H as (_ & _ & _ & _ & Hf). unfold fileinv in Hf. destruct ok.
      + destruct Hf as (buf & _ & _ & B3 & B4). split; [exact B4 | right; exact B3].
      + destruct Hf as [B1 B2]. split; [intros p H1 _; apply B2; exact H1 | left; exact B1].
  Qed.

  (* at every crash point: besides the ClientConf of the current directory, the
     only file a store in flight has touched is its own temporary, which holds a
     prefix of the new bytes (or was never created, or vanished with the
     directory, or has already been renamed away) *)
  Theorem temp_files_accounted (w0 : world) evs :
    pc w0 = Idle ->
    exists evs1 evs2,
      evs = evs1 ++ evs2 /\
      let w1 := run evs1 w0 in
      let w := run evs w0 in
      pc w1 = Idle /\
      (evs2 = [] \/
       exists o rest m' sv r,
         pend w1 = o :: rest /\ begin_of o (mem w1) = Some (m', sv) /\
         (forall p, p <> (cwd w1, Tmp r) -> p <> (cwd w1, Target) ->
                    lookup p (files w) = lookup p (files w1) \/
                    (lookup p (files w) = None /\ removed (fst p) evs2 = true)) /\
         ((exists pre buf, marshal m' = Some buf /\ lookup (cwd w1, Tmp r) (files w) = Some pre /\ is_prefix pre buf) \/
          lookup (cwd w1, Tmp r) (files w) = lookup (cwd w1, Tmp r) (files w1) \/
          lookup (cwd w1, Tmp r) (files w) = None)).
  Proof.
    intro H0. destruct (reach_decomp cfg marshal parse w0 evs H0) as (evs1 & evs2 & Hs & Hi & Hc).
    exists evs1, evs2. split; [exact Hs|]. cbv zeta. split; [exact Hi|].
    destruct Hc as [Hc|(o & rest & m' & sv & r & P1 & P2 & P3)]; [left; exact Hc|].
    right. exists o, rest, m', sv, r. split; [exact P1|]. split; [exact P2|].
    destruct (inflight_files _ _ _ _ _ _ _ _ P3) as [F1 F2]. split.
    - intros p N1 N2. apply F1; apply path_eqb_neq; assumption.
    - destruct F2 as [[(pre & buf & T1 & T2 & T3)|[T|[T _]]]|T].
      + left. exists pre, buf. auto.
      + right; left; exact T.
      + right; right; exact T.
      + right; right; exact T.
  Qed.

  (* ---------------------------------------------------------------- parseability *)
  Hypothesis parse_marshal : forall c b, marshal c = Some b -> parse b = Some c.

  Theorem stored_file_parses (w0 : world) evs d content :
    pc w0 = Idle ->
    target (run evs w0) d = Some content ->
    target w0 d = Some content \/
    exists evs1 evs2, evs = evs1 ++ evs2 /\ parse content = Some (mem (run evs1 w0)).
  Proof.
    intros H0 Ht. destruct (never_partial cfg marshal parse w0 evs d H0) as [H|[[H _]|(e1 & e2 & b & I1 & I2 & I3)]]; cbv zeta in *.
    - left. rewrite <- H. exact Ht.
    - rewrite H in Ht; discriminate.
    - right. exists e1, e2. split; [exact I1|]. rewrite I3 in Ht. inversion Ht; subst. apply parse_marshal. exact I2.
  Qed.
End Proofs4.
