(* C20 proofs, part 5: two processes sharing the file system (any interleaving). *)
From CJ Require Import Common.Base C20.Model C20.Model2 C20.Proofs C20.Proofs2 C20.Proofs3.
From Coq Require Import Lia ZifyN ZifyNat ZifyBool.

Section Proofs5.
  Variable cfg : Type.
  Variable marshal : cfg -> option bytes.
  Variable parse : bytes -> option cfg.

  Notation world := (world cfg).
  Notation world2 := (world2 cfg).
  Notation proc := (proc cfg).
  Notation pstep := (pstep cfg marshal parse).
  Notation run_event2 := (run_event2 cfg marshal parse).
  Notation run2 := (run2 cfg marshal parse).
  Notation view := (view cfg).
  Notation put := (put cfg).
  Notation proc_of_world := (proc_of_world cfg).
  Notation safe_event := (safe_event cfg).
  Notation safe_run := (safe_run cfg marshal parse).

  (* what a process in flight knows about its own temporary *)
  Definition pinv (fs : fsmap) (p : proc) : Prop :=
    match q_pc p with
    | Opened j => marshal (q_mem p) = Some (jbuf j) /\ (lookup (jtmp j) fs = Some [] \/ lookup (jtmp j) fs = None)
    | Wrote j true => marshal (q_mem p) = Some (jbuf j) /\ (lookup (jtmp j) fs = Some (jbuf j) \/ lookup (jtmp j) fs = None)
    | Closed j => marshal (q_mem p) = Some (jbuf j) /\ (lookup (jtmp j) fs = Some (jbuf j) \/ lookup (jtmp j) fs = None)
    | _ => True
    end.

  Definition distinct (w : world2) : Prop :=
    match held_tmp (pa w), held_tmp (pb w) with
    | Some p, Some q => p <> q
    | _, _ => True
    end.

  Definition inv2 (w : world2) : Prop := pinv (files2 w) (pa w) /\ pinv (files2 w) (pb w) /\ distinct w.

  Lemma pinv_frame fs fs' (p : proc) :
    (forall q, held_tmp p = Some q -> lookup q fs' = lookup q fs \/ lookup q fs' = None) -> pinv fs p -> pinv fs' p.
  Proof.
    unfold pinv, held_tmp. intros H. destruct (q_pc p) as [|j|j wok|j|o sv d nb ok]; auto.
    - intros [Hm Hl]. split; [exact Hm|]. destruct (H _ eq_refl) as [E|E]; [rewrite E; exact Hl | right; exact E].
    - destruct wok; auto. intros [Hm Hl]. split; [exact Hm|]. destruct (H _ eq_refl) as [E|E]; [rewrite E; exact Hl | right; exact E].
    - intros [Hm Hl]. split; [exact Hm|]. destruct (H _ eq_refl) as [E|E]; [rewrite E; exact Hl | right; exact E].
  Qed.

  (* -- one step of a single-process world: which paths it can change -- *)
  Definition untouched (v : world) (r : N) (q : path) : Prop :=
    match pc v with
    | Idle => path_eqb q (cwd v, Tmp r) = false
    | Opened j => path_eqb q (jtmp j) = false
    | Closed j => path_eqb q (jtmp j) = false /\ path_eqb q (jtarget j) = false
    | _ => True
    end.

  Lemma pstep_frame (v : world) f r q : untouched v r q -> lookup q (files (pstep f r v)) = lookup q (files v).
  Proof.
    unfold untouched, Model.pstep. destruct (pc v) as [|j|j wok|j|o sv d nb ok]; intro H.
    - destruct (pend v) as [|o rest]; [reflexivity|].
      destruct (begin_of o (mem v)) as [[m' sv]|].
      + destruct (marshal m'); [|reflexivity].
        destruct (is_nofault f && dir_ok (gone v) (cwd v)); [|reflexivity].
        cbn [files]. apply lookup_upd_other. exact H.
      + destruct (_ =? cwd v); [reflexivity|]. destruct (dir_ok _ _); reflexivity.
    - cbn [files]. destruct (lookup (jtmp j) (files v)); [|reflexivity]. apply lookup_upd_other; exact H.
    - reflexivity.
    - destruct H as [H1 H2].
      destruct (if is_nofault f && dir_ok (gone v) (jd j) then lookup (jtmp j) (files v) else None); [|reflexivity].
      cbn [files]. rewrite lookup_upd_other by exact H2. apply lookup_remove_other; exact H1.
    - reflexivity.
  Qed.

  Lemma pstep_gone (v : world) f r : gone (pstep f r v) = gone v.
  Proof.
    unfold Model.pstep. destruct (pc v) as [|j|j wok|j|o sv d nb ok]; try reflexivity.
    - destruct (pend v) as [|o rest]; [reflexivity|].
      destruct (begin_of o (mem v)) as [[m' sv]|].
      + destruct (marshal m'); [|reflexivity]. destruct (is_nofault f && dir_ok (gone v) (cwd v)); reflexivity.
      + destruct (_ =? cwd v); [reflexivity|]. destruct (dir_ok _ _); reflexivity.
    - destruct (if is_nofault f && dir_ok (gone v) (jd j) then lookup (jtmp j) (files v) else None); reflexivity.
  Qed.

  (* the temporary held after a step: the same one, a freshly created (cwd, Tmp r), or none *)
  Lemma pstep_held (v : world) f r :
    let h := held_tmp (proc_of_world v) in
    let h' := held_tmp (proc_of_world (pstep f r v)) in
    h' = None \/ (h' = h /\ h <> None) \/ (pc v = Idle /\ h' = Some (cwd v, Tmp r)).
  Proof.
    unfold held_tmp, Model2.proc_of_world, Model.pstep; cbn [q_pc].
    destruct (pc v) as [|j|j wok|j|o sv d nb ok] eqn:Epc; cbn [pc].
    - destruct (pend v) as [|o rest]; [left; rewrite Epc; reflexivity|].
      destruct (begin_of o (mem v)) as [[m' sv]|].
      + destruct (marshal m'); [|left; reflexivity].
        destruct (is_nofault f && dir_ok (gone v) (cwd v)); [|left; reflexivity].
        right; right. split; reflexivity.
      + destruct (_ =? cwd v); [left; reflexivity|]. destruct (dir_ok _ _); left; reflexivity.
    - right; left. split; [reflexivity | discriminate].
    - destruct (wok && is_nofault f); [right; left; split; [reflexivity | discriminate] | left; reflexivity].
    - destruct (if is_nofault f && dir_ok (gone v) (jd j) then lookup (jtmp j) (files v) else None); left; reflexivity.
    - left; reflexivity.
  Qed.

  (* the stepping process keeps its own invariant *)
  Lemma pstep_pinv (v : world) f r :
    pinv (files v) (proc_of_world v) -> pinv (files (pstep f r v)) (proc_of_world (pstep f r v)).
  Proof.
    unfold pinv, Model2.proc_of_world, Model.pstep; cbn [q_pc q_mem].
    destruct (pc v) as [|j|j wok|j|o sv d nb ok] eqn:Epc; cbn [pc mem]; intro H.
    - destruct (pend v) as [|o rest]; [rewrite Epc; exact I|].
      destruct (begin_of o (mem v)) as [[m' sv]|].
      + destruct (marshal m') as [buf|] eqn:Em; [|exact I].
        destruct (is_nofault f && dir_ok (gone v) (cwd v)); [|exact I].
        cbn [pc mem files jbuf]. split; [exact Em|]. left. apply lookup_upd_same.
      + destruct (_ =? cwd v); [exact I|]. destruct (dir_ok _ _); exact I.
    - destruct H as [Hm Hl]. cbn [pc mem files]. destruct (is_nofault f) eqn:Ef; [|exact I].
      split; [exact Hm|]. destruct Hl as [Hl|Hl]; rewrite Hl.
      + left. rewrite lookup_upd_same. cbn [app]. rewrite landed_nofault by exact Ef. reflexivity.
      + right; exact Hl.
    - destruct wok; cbn [andb].
      + destruct (is_nofault f); [exact H | exact I].
      + exact I.
    - destruct (if is_nofault f && dir_ok (gone v) (jd j) then lookup (jtmp j) (files v) else None); exact I.
    - exact I.
  Qed.

  Lemma held_is_tmp (p : proc) q : held_tmp p = Some q -> exists d r, q = (d, Tmp r).
  Proof.
    unfold held_tmp. destruct (q_pc p) as [|j|j wok|j|o sv d nb ok]; intro H; inversion H; unfold jtmp; eauto.
  Qed.

  Lemma view_proc (w : world2) who : proc_of_world (view w who) = proc_of w who.
  Proof. unfold Model2.proc_of_world, Model2.view; cbn. destruct (proc_of w who); reflexivity. Qed.

  Lemma distinct_other (w : world2) who p q :
    distinct w -> held_tmp (proc_of w who) = Some p -> held_tmp (proc_of w (negb who)) = Some q -> p <> q.
  Proof.
    unfold distinct. destruct who; cbn [negb Model2.proc_of]; intros H H1 H2; rewrite H1, H2 in H;
      [exact H | intro E; apply H; symmetry; exact E].
  Qed.

  (* -- invariant preservation -- *)
  Lemma inv2_step (w : world2) ev : inv2 w -> safe_event w ev = true -> inv2 (run_event2 w ev).
  Proof.
    intros (Ia & Ib & Id) Hs. destruct ev as [who f r|e].
    - cbn [Model2.run_event2]. set (v := view w who).
      assert (Hown : pinv (files v) (proc_of_world v)).
      { unfold v. rewrite view_proc. unfold Model2.view; cbn [files]. destruct who; assumption. }
      pose proof (pstep_pinv v f r Hown) as Hown'.
      (* the other process: its temporary is not touched *)
      assert (Hother : forall q, held_tmp (proc_of w (negb who)) = Some q -> untouched v r q).
      { intros q Hq. destruct (held_is_tmp _ _ Hq) as (dq & rq & Eq). subst q.
        unfold untouched. unfold v at 1. unfold Model2.view; cbn [pc].
        destruct (q_pc (proc_of w who)) as [|j|j wok|j|o sv d nb ok] eqn:Epc; auto.
        - pose proof Hs as Hs0. unfold Model2.safe_event in Hs0. rewrite Epc, Hq in Hs0.
          apply negb_true_iff in Hs0. unfold v, Model2.view; cbn [cwd]. exact Hs0.
        - apply path_eqb_neq. intro E.
          apply (distinct_other w who (jtmp j) (dq, Tmp rq) Id); [unfold held_tmp; rewrite Epc; reflexivity | exact Hq | symmetry; exact E].
        - split.
          + apply path_eqb_neq. intro E.
            apply (distinct_other w who (jtmp j) (dq, Tmp rq) Id); [unfold held_tmp; rewrite Epc; reflexivity | exact Hq | symmetry; exact E].
          + unfold jtarget. apply tmp_neq_target. }
      assert (Hoth' : pinv (files (pstep f r v)) (proc_of w (negb who))).
      { eapply pinv_frame; [|destruct who; cbn [negb Model2.proc_of]; [exact Ib | exact Ia]].
        intros q Hq. left. rewrite (pstep_frame v f r q (Hother q Hq)). reflexivity. }
      unfold inv2, Model2.put. cbn [files2 pa pb].
      destruct who; cbn [negb Model2.proc_of] in *.
      + split; [exact Hown'|]. split; [exact Hoth'|].
        unfold distinct; cbn [pa pb].
        destruct (pstep_held v f r) as [H|[[H Hn]|[Hi H]]]; cbv zeta in H; rewrite H.
        * exact I.
        * unfold v. rewrite view_proc. cbn [Model2.proc_of]. exact Id.
        * destruct (held_tmp (pb w)) as [q|] eqn:Hq; [|exact I].
          unfold safe_event in Hs. cbn [negb Model2.proc_of] in Hs. rewrite Hq in Hs.
          unfold v, Model2.view in Hi; cbn [pc] in Hi. cbn [Model2.proc_of] in Hi. rewrite Hi in Hs.
          intro E. rewrite <- E in Hs. unfold v, Model2.view in Hs; cbn [cwd Model2.proc_of] in Hs.
          rewrite path_eqb_refl in Hs. discriminate.
      + split; [exact Hoth'|]. split; [exact Hown'|].
        unfold distinct; cbn [pa pb].
        destruct (pstep_held v f r) as [H|[[H Hn]|[Hi H]]]; cbv zeta in H; rewrite H.
        * destruct (held_tmp (pa w)); exact I.
        * unfold v. rewrite view_proc. cbn [Model2.proc_of]. exact Id.
        * destruct (held_tmp (pa w)) as [q|] eqn:Hq; [|exact I].
          unfold safe_event in Hs. cbn [negb Model2.proc_of] in Hs. rewrite Hq in Hs.
          unfold v, Model2.view in Hi; cbn [pc] in Hi. cbn [Model2.proc_of] in Hi. rewrite Hi in Hs.
          intro E. rewrite E in Hs. unfold v, Model2.view in Hs; cbn [cwd Model2.proc_of] in Hs.
          rewrite path_eqb_refl in Hs. discriminate.
    - cbn [Model2.run_event2]. unfold inv2. cbn [files2 pa pb].
      assert (Hf : forall (p : proc), pinv (files2 w) p ->
                   pinv (match e with RmDir d => rmdir d (files2 w) | MkDir _ => files2 w end) p).
      { intros p Hp. eapply pinv_frame; [|exact Hp]. intros q _. destruct e as [d|d]; [|left; reflexivity].
        destruct (N.eq_dec (fst q) d) as [E|E]; [right; apply lookup_rmdir_same; exact E | left; apply lookup_rmdir_other; exact E]. }
      split; [apply Hf; exact Ia|]. split; [apply Hf; exact Ib|]. exact Id.
  Qed.

  (* -- one event and the target -- *)
  Lemma target_step2 (w : world2) ev d :
    inv2 w ->
    target2 (run_event2 w ev) d = target2 w d \/
    (ev = Env2 (RmDir d) /\ target2 (run_event2 w ev) d = None) \/
    (exists who b, marshal (q_mem (proc_of w who)) = Some b /\ target2 (run_event2 w ev) d = Some b).
  Proof.
    intros (Ia & Ib & _). destruct ev as [who f r|e].
    - cbn [Model2.run_event2]. unfold target2, Model2.put; cbn [files2].
      set (v := view w who).
      assert (Hown : pinv (files v) (proc_of_world v)).
      { unfold v. rewrite view_proc. unfold Model2.view; cbn [files]. destruct who; assumption. }
      destruct (pc v) as [|j|j wok|j|o sv d' nb ok] eqn:Epc.
      + left. apply pstep_frame. unfold untouched. rewrite Epc. apply target_neq_tmp.
      + left. apply pstep_frame. unfold untouched. rewrite Epc. apply target_neq_tmp.
      + left. apply pstep_frame. unfold untouched. rewrite Epc. exact I.
      + destruct (N.eq_dec d (jd j)) as [E|E].
        * unfold Model.pstep. rewrite Epc.
          destruct (if is_nofault f && dir_ok (gone v) (jd j) then lookup (jtmp j) (files v) else None) as [content|] eqn:Ec;
            [|left; reflexivity].
          right; right. unfold pinv in Hown. unfold Model2.proc_of_world in Hown; cbn [q_pc q_mem] in Hown. rewrite Epc in Hown.
          destruct Hown as [Hm Hl].
          assert (content = jbuf j).
          { destruct (is_nofault f && dir_ok (gone v) (jd j)); [|discriminate].
            destruct Hl as [Hl|Hl]; rewrite Hl in Ec; [inversion Ec; reflexivity | discriminate]. }
          subst content. exists who, (jbuf j). split.
          -- unfold v, Model2.view in Hm; cbn [mem] in Hm. exact Hm.
          -- cbn [files]. subst d. unfold jtarget. apply lookup_upd_same.
        * left. apply pstep_frame. unfold untouched. rewrite Epc. split; [apply target_neq_tmp|].
          unfold jtarget. apply target_path_neq. exact E.
      + left. apply pstep_frame. unfold untouched. rewrite Epc. exact I.
    - cbn [Model2.run_event2]. unfold target2; cbn [files2]. destruct e as [d'|d'].
      + destruct (N.eq_dec d' d) as [E|E].
        * subst d'. right; left. split; [reflexivity | apply lookup_rmdir_same; reflexivity].
        * left. apply lookup_rmdir_other. simpl. congruence.
      + left; reflexivity.
  Qed.

  Lemma removed2_cons d ev evs : removed2 d (ev :: evs) = is_rm2 d ev || removed2 d evs.
  Proof. reflexivity. Qed.

  Lemma never_partial2_gen evs : forall (w : world2) d,
    inv2 w -> safe_run evs w = true ->
    target2 (run2 evs w) d = target2 w d \/
    (target2 (run2 evs w) d = None /\ removed2 d evs = true) \/
    (exists evs1 evs2 who b, evs = evs1 ++ evs2 /\
                             marshal (q_mem (proc_of (run2 evs1 w) who)) = Some b /\
                             target2 (run2 evs w) d = Some b).
  Proof.
    induction evs as [|ev evs IH]; intros w d Hi Hs; [left; reflexivity|].
    cbn [Model2.safe_run] in Hs. apply andb_true_iff in Hs. destruct Hs as [Hs1 Hs2].
    pose proof (inv2_step w ev Hi Hs1) as Hi'.
    change (run2 (ev :: evs) w) with (run2 evs (run_event2 w ev)).
    destruct (IH (run_event2 w ev) d Hi' Hs2) as [H|[[H1 H2]|(e1 & e2 & who & b & E1 & E2 & E3)]].
    - rewrite H. destruct (target_step2 w ev d Hi) as [T|[[T1 T2]|(who & b & T1 & T2)]].
      + left; exact T.
      + right; left. split; [exact T2|]. rewrite removed2_cons. subst ev. simpl. rewrite N.eqb_refl. reflexivity.
      + right; right. exists [], (ev :: evs), who, b. split; [reflexivity|]. split; [exact T1 | exact T2].
    - right; left. split; [exact H1|]. rewrite removed2_cons, H2. apply orb_true_r.
    - right; right. exists (ev :: e1), e2, who, b. split; [rewrite E1; reflexivity|]. split; [exact E2 | exact E3].
  Qed.

  (* Two writers, any interleaving, any faults, any crash point of either or both:
     the ClientConf of every directory is its initial content, or absent after a
     removal of the directory, or the COMPLETE marshalling of a configuration that
     one of the two processes had in memory (i.e. was storing) earlier. *)
  Theorem two_writers_never_partial (w0 : world2) evs d :
    q_pc (pa w0) = Idle -> q_pc (pb w0) = Idle ->
    safe_run evs w0 = true ->
    target2 (run2 evs w0) d = target2 w0 d \/
    (target2 (run2 evs w0) d = None /\ removed2 d evs = true) \/
    (exists evs1 evs2 who b, evs = evs1 ++ evs2 /\
                             marshal (q_mem (proc_of (run2 evs1 w0) who)) = Some b /\
                             target2 (run2 evs w0) d = Some b).
  Proof.
    intros Ha Hb Hs. apply never_partial2_gen; [|exact Hs].
    unfold inv2, pinv, distinct, held_tmp. rewrite Ha, Hb. auto.
  Qed.
End Proofs5.
