(* C20 non-vacuity: a concrete configuration type and concrete executions that
   meet the hypotheses of every theorem in Props.v and realise every disjunct of
   their conclusions (previous / new / directory removed; ok / error / rollback;
   temporary left behind). *)
From CJ Require Import Common.Base C20.Model C20.Props.

(* a configuration is a generation number; it marshals to 4 bytes; > 255 does not marshal *)
Definition cfgE := N.
Definition marshalE (g : cfgE) : option bytes := if g <? 256 then Some [1; g; g; g] else None.
Definition parseE (b : bytes) : option cfgE := match b with [1; g; _; _] => Some g | _ => None end.
Notation runE := (run cfgE marshalE parseE).

Definition w0 : world cfgE :=
  mkW [((0, Target), [1; 7; 7; 7]); ((0, Tmp 5), [9; 9])] [] 7 0
      [SetConf 9; Mutate (fun g => g + 1); SetConf 300; SetDir 1; SetConf 11] Idle [] [].

Example hyp_idle : pc w0 = Idle. Proof. reflexivity. Qed.
Example hyp_parse_marshal : forall c b, marshalE c = Some b -> parseE b = Some c.
Proof. intros c b. unfold marshalE. destruct (c <? 256); [|discriminate]. intro H; inversion H; reflexivity. Qed.

(* 1. killed while writing: 2 of 4 bytes landed; the file is the previous configuration,
      the temporary holds a prefix of the new one *)
Definition ev_kill_in_write := [Step NoFault 3; Step (FailAfter 2) 3].
Example crash_in_write :
  let w := runE ev_kill_in_write w0 in
  target w 0 = Some [1; 7; 7; 7] /\ lookup (0, Tmp 3) (files w) = Some [1; 9] /\ is_idle (pc w) = false.
Proof. vm_compute. auto. Qed.

(* 2. killed after the rename, before SetClientConf returned: the file is the complete new configuration *)
Example crash_after_rename :
  let w := runE (steps 4 3) w0 in
  target w 0 = Some [1; 9; 9; 9] /\ is_idle (pc w) = false /\ hist w = [] /\ lookup (0, Tmp 3) (files w) = None.
Proof. vm_compute. auto. Qed.

(* 3. a complete fault-free store: exactly save_steps, result ok *)
Example store_ok :
  let w := runE (steps 5 3) w0 in
  target w 0 = Some [1; 9; 9; 9] /\ mem w = 9 /\ hist w = [HDone 0 (Some [1; 9; 9; 9]) true] /\
  trace w = save_steps 0 3 [1; 9; 9; 9] /\ lookup (0, Tmp 5) (files w) = Some [9; 9].
Proof. vm_compute. auto. Qed.

(* 4. ENOSPC after 1 byte: the store fails, the file is untouched, the previous configuration is
      back in memory, the temporary stays behind with 1 byte *)
Definition ev_enospc := [Step NoFault 3; Step (FailAfter 1) 3; Step NoFault 3; Step NoFault 3].
Example failed_write_rolls_back :
  let w := runE ev_enospc w0 in
  is_idle (pc w) = true /\ hist w = [HDone 0 (Some [1; 9; 9; 9]) false] /\ mem w = 7 /\
  target w 0 = Some [1; 7; 7; 7] /\ lookup (0, Tmp 3) (files w) = Some [1].
Proof. vm_compute. auto. Qed.

(* 5. unwritable directory: Create fails, nothing on disk changes *)
Example unwritable_dir :
  let w := runE [Step FailNow 3; Step NoFault 3] w0 in
  hist w = [HDone 0 (Some [1; 9; 9; 9]) false] /\ mem w = 7 /\ files w = files w0 /\
  trace w = [TCreate (0, Tmp 3) false].
Proof. vm_compute. auto. Qed.

(* 6. the directory is removed between close and rename: the store fails; the file is gone with
      its directory (third disjunct of crash_atomic / store_result) *)
Definition ev_rm := [Step NoFault 3; Step NoFault 3; Step NoFault 3; Env (RmDir 0); Step NoFault 3; Step NoFault 3].
Example vanished_dir :
  let w := runE ev_rm w0 in
  hist w = [HDone 0 (Some [1; 9; 9; 9]) false] /\ mem w = 7 /\ target w 0 = None /\ removed 0 ev_rm = true.
Proof. vm_compute. auto. Qed.

(* 7. a mutator (SetGeneration ...) that fails keeps the new value in memory: no rollback there
      (the property only requires it for SetClientConf) *)
Example failed_mutator_keeps_new :
  let w := runE (steps 5 3 ++ [Step FailNow 4; Step NoFault 4]) w0 in
  hist w = [HDone 0 (Some [1; 9; 9; 9]) true; HDone 0 (Some [1; 10; 10; 10]) false] /\ mem w = 10 /\
  target w 0 = Some [1; 9; 9; 9].
Proof. vm_compute. auto. Qed.

(* 8. a configuration that does not marshal: error before any system call, rollback *)
Example marshal_error :
  let w := runE (steps 5 3 ++ steps 5 4 ++ [Step NoFault 6; Step NoFault 6]) w0 in
  hist w = [HDone 0 (Some [1; 9; 9; 9]) true; HDone 0 (Some [1; 10; 10; 10]) true; HDone 0 None false] /\
  mem w = 10 /\ target w 0 = Some [1; 10; 10; 10] /\ length (trace w) = 8%nat.
Proof. vm_compute. auto. Qed.

(* 9. switching to another directory and storing there leaves the first directory's file alone *)
Example two_directories :
  let w := runE (steps 5 3 ++ steps 5 4 ++ steps 2 6 ++ steps 1 0 ++ steps 5 8) w0 in
  target w 0 = Some [1; 10; 10; 10] /\ target w 1 = Some [1; 11; 11; 11] /\ cwd w = 1 /\ pend w = [].
Proof. vm_compute. auto. Qed.

(* 10. the Appendix-A statement instantiated: two complete stores and a third cut after the write *)
Example cut_instance :
  let w := mkW [((0, Target), [1; 7; 7; 7])] [] 7 0 (map SetConf ([8; 9] ++ [10])) Idle [] [] in
  target (runE (steps (5 * 2 + 2) 3) w) 0 = last_marshal cfgE marshalE [8; 9] (target w 0) /\
  last_marshal cfgE marshalE [8; 9] (target w 0) = Some [1; 9; 9; 9].
Proof. vm_compute. auto. Qed.

(* 11. the theorems apply to these executions (instantiation type-checks and the conclusion is informative) *)
Example crash_atomic_applies :
  exists evs1 evs2, ev_kill_in_write = evs1 ++ evs2 /\ pc (runE evs1 w0) = Idle.
Proof.
  destruct (C20_crash_atomic cfgE marshalE parseE w0 ev_kill_in_write hyp_idle) as (e1 & e2 & H1 & H2 & _).
  exists e1, e2. auto.
Qed.

Example parses_applies :
  forall content, target (runE ev_enospc w0) 0 = Some content -> parseE content = Some 7.
Proof. vm_compute. intros content H. inversion H. reflexivity. Qed.

(* ---------------------------------------------------------------- two writers *)
From CJ Require Import C20.Model2.
Notation run2E := (run2 cfgE marshalE parseE).
Definition w2 : world2 cfgE :=
  mkW2 [((0, Target), [1; 7; 7; 7])] []
       (mkP 7 0 [SetConf 9] Idle [] []) (mkP 7 0 [SetConf 20] Idle [] []).

(* 12. an interleaving with distinct temporary names: both stores complete, the file is one of the two *)
Definition ev_two := [Step2 true NoFault 3; Step2 false NoFault 4; Step2 true NoFault 3; Step2 false NoFault 4;
                      Step2 false NoFault 4; Step2 true NoFault 3; Step2 false NoFault 4; Step2 true NoFault 3;
                      Step2 true NoFault 3; Step2 false NoFault 4].
Example two_writers_ok :
  safe_run cfgE marshalE parseE ev_two w2 = true /\
  target2 (run2E ev_two w2) 0 = Some [1; 9; 9; 9] /\
  q_hist (pa (run2E ev_two w2)) = [HDone 0 (Some [1; 9; 9; 9]) true] /\
  q_hist (pb (run2E ev_two w2)) = [HDone 0 (Some [1; 20; 20; 20]) true].
Proof. vm_compute. auto. Qed.

(* 13. the name assumption is necessary: if both processes use the SAME temporary name, B's create
       truncates what A has written, A renames the empty file over ClientConf and reports success:
       the file is neither configuration (this is what a fixed temporary name would allow) *)
Definition ev_collide := [Step2 true NoFault 3; Step2 true NoFault 3; Step2 false NoFault 3;
                          Step2 true NoFault 3; Step2 true NoFault 3; Step2 true NoFault 3].
Example collision_breaks_atomicity :
  safe_run cfgE marshalE parseE ev_collide w2 = false /\
  target2 (run2E ev_collide w2) 0 = Some [] /\
  q_hist (pa (run2E ev_collide w2)) = [HDone 0 (Some [1; 9; 9; 9]) true].
Proof. vm_compute. auto. Qed.

Example two_writers_theorem_applies :
  forall d, target2 (run2E ev_two w2) d = target2 w2 d \/
            (target2 (run2E ev_two w2) d = None /\ removed2 d ev_two = true) \/
            (exists evs1 evs2 who b, ev_two = evs1 ++ evs2 /\
               marshalE (q_mem (proc_of (run2E evs1 w2) who)) = Some b /\ target2 (run2E ev_two w2) d = Some b).
Proof.
  intro d. apply C20_two_writers_never_partial; [reflexivity | reflexivity | vm_compute; reflexivity].
Qed.
