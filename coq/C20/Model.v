(* C20 model: the client's asset store (pkg/client/assets/assets.go) over a
   file system `path -> bytes` whose atomic steps are the system calls the
   real saveClientConf performs.  Definitions only; executable.

   The process (one client) executes a list of API calls.  Every `Step` event
   lets it perform exactly ONE atomic step (one system call, or the in-memory
   return) under an adversarially chosen fault; `Env` events are actions of
   the environment (the assets directory vanishing / being re-created).  A
   crash (SIGKILL, panic, power-cut of the process) is simply the end of the
   event list: every prefix of an execution is an execution.

   Trusted assumption named here: `rename(2)` is atomic (the Rename step
   replaces the target with the complete content of the source in one step or
   has no effect), and a failed `open` has no effect. *)
From CJ Require Export Common.Base.

Definition dir := N.
(* file names that matter inside an assets directory *)
Inductive fname :=
| Target                (* "ClientConf" *)
| Tmp (r : N)           (* ".ClientConf.<5 random chars>.tmp", r = the random part *)
| Other (n : N).        (* anything else (only produced by the trace projection) *)
Definition path := (dir * fname)%type.

Definition fname_eqb (a b : fname) : bool :=
  match a, b with
  | Target, Target => true
  | Tmp x, Tmp y => x =? y
  | Other x, Other y => x =? y
  | _, _ => false
  end.
Definition path_eqb (p q : path) : bool := (fst p =? fst q) && fname_eqb (snd p) (snd q).

(* the file system: an association list, first binding wins *)
Definition fsmap := list (path * bytes).
Fixpoint lookup (p : path) (m : fsmap) : option bytes :=
  match m with
  | [] => None
  | (q, b) :: r => if path_eqb p q then Some b else lookup p r
  end.
Definition remove (p : path) (m : fsmap) : fsmap := filter (fun e => negb (path_eqb p (fst e))) m.
Definition upd (p : path) (b : bytes) (m : fsmap) : fsmap := (p, b) :: remove p m.
Definition rmdir (d : dir) (m : fsmap) : fsmap := filter (fun e => negb (fst (fst e) =? d)) m.

(* faults an adversary may inject into one step *)
Inductive fault :=
| NoFault
| FailNow               (* the call fails without effect (EACCES, EROFS, ENOENT, EIO, ...) *)
| FailAfter (k : N).    (* a write lands the first k bytes, then fails (ENOSPC, EFBIG, EDQUOT, kill) *)
Definition is_nofault (f : fault) : bool := match f with NoFault => true | _ => false end.
Definition landed (f : fault) (buf : bytes) : bytes :=
  match f with NoFault => buf | FailNow => [] | FailAfter k => take k buf end.

Inductive envev := RmDir (d : dir) | MkDir (d : dir).
Inductive event := Step (f : fault) (r : N) | Env (e : envev).

(* the projected system-call alphabet (what strace shows for the assets directory) *)
Inductive tstep :=
| TCreate (p : path) (ok : bool)              (* openat(p, O_WRONLY|O_CREAT|O_TRUNC) *)
| TAppend (p : path) (n : N) (ok : bool)      (* write(s) on the descriptor of p: n bytes landed *)
| TClose (p : path) (ok : bool)
| TRename (s d : path) (ok : bool)
| TOther (n : N).                              (* any other modifying call (projection only) *)

Definition dir_ok (g : list dir) (d : dir) : bool := negb (existsb (N.eqb d) g).

Definition is_prefix {A} (p l : list A) : Prop := exists q, l = p ++ q.

(* n fault-free process steps, no interference *)
Definition steps (n : nat) (r : N) : list event := repeat (Step NoFault r) n.

Section Model.
  Variable cfg : Type.
  Variable marshal : cfg -> option bytes.     (* proto.Marshal: None = error (missing required field) *)
  Variable parse : bytes -> option cfg.       (* proto.Unmarshal *)

  (* API calls *)
  Inductive op :=
  | SetConf (c : cfg)             (* SetClientConf: replace the whole configuration, roll back on failure *)
  | Mutate (g : cfg -> cfg)       (* SetGeneration / SetPubkey / SetDecoys / SetPhantomSubnets: edit in place, store *)
  | SetDir (d : dir).             (* AssetsSetDir: switch directory and load its ClientConf *)

  (* (new in-memory configuration, value to roll back to) *)
  Definition begin_of (o : op) (m : cfg) : option (cfg * option cfg) :=
    match o with
    | SetConf c => Some (c, Some m)
    | Mutate g => Some (g m, None)
    | SetDir _ => None
    end.

  Record job := mkJob { jop : op; jsv : option cfg; jd : dir; jr : N; jbuf : bytes }.
  Definition jtmp (j : job) : path := (jd j, Tmp (jr j)).
  Definition jtarget (j : job) : path := (jd j, Target).

  Inductive pcst :=
  | Idle
  | Opened (j : job)                  (* temp file created, nothing written yet *)
  | Wrote (j : job) (wok : bool)      (* f.Write returned (ok / error) *)
  | Closed (j : job)                  (* written completely and closed *)
  | Returning (o : op) (sv : option cfg) (d : dir) (nb : option bytes) (ok : bool).
                                      (* saveClientConf returned; the API call has not returned yet *)

  Inductive hitem :=
  | HDone (d : dir) (nb : option bytes) (ok : bool)       (* a store returned: directory, bytes it tried to store, err == nil *)
  | HDir (d : dir) (changed : bool) (loaded : bool).      (* AssetsSetDir returned *)

  Record world := mkW {
    files : fsmap;
    gone : list dir;          (* directories that currently do not exist *)
    mem : cfg;                (* a.config *)
    cwd : dir;                (* a.path *)
    pend : list op;           (* API calls still to be made *)
    pc : pcst;
    hist : list hitem;        (* ghost: results returned so far *)
    trace : list tstep        (* ghost: system calls made so far *)
  }.

  Definition target (w : world) (d : dir) : option bytes := lookup (d, Target) (files w).

  Definition rollback (sv : option cfg) (m : cfg) : cfg := match sv with Some c0 => c0 | None => m end.

  (* one atomic step of the process under fault f; r is the random file-name suffix *)
  Definition pstep (f : fault) (r : N) (w : world) : world :=
    match pc w with
    | Idle =>
        match pend w with
        | [] => w
        | o :: rest =>
            match begin_of o (mem w) with
            | None =>
                (* AssetsSetDir d *)
                let d := match o with SetDir d => d | _ => cwd w end in
                if d =? cwd w then
                  mkW (files w) (gone w) (mem w) (cwd w) rest Idle (hist w ++ [HDir d false false]) (trace w)
                else if dir_ok (gone w) d then
                  let ld := match lookup (d, Target) (files w) with Some b => parse b | None => None end in
                  mkW (files w) (gone w) (match ld with Some c => c | None => mem w end) d rest Idle
                      (hist w ++ [HDir d true (match ld with Some _ => true | None => false end)]) (trace w)
                else
                  mkW (files w) (gone w) (mem w) (cwd w) rest Idle (hist w ++ [HDir d false false]) (trace w)
            | Some (m', sv) =>
                match marshal m' with
                | None =>
                    mkW (files w) (gone w) m' (cwd w) rest (Returning o sv (cwd w) None false) (hist w) (trace w)
                | Some buf =>
                    let j := mkJob o sv (cwd w) r buf in
                    if is_nofault f && dir_ok (gone w) (cwd w) then
                      mkW (upd (jtmp j) [] (files w)) (gone w) m' (cwd w) rest (Opened j) (hist w)
                          (trace w ++ [TCreate (jtmp j) true])
                    else
                      mkW (files w) (gone w) m' (cwd w) rest (Returning o sv (cwd w) (Some buf) false) (hist w)
                          (trace w ++ [TCreate (jtmp j) false])
                end
            end
        end
    | Opened j =>
        let l := landed f (jbuf j) in
        let files' := match lookup (jtmp j) (files w) with
                      | Some old => upd (jtmp j) (old ++ l) (files w)
                      | None => files w      (* the file was unlinked with its directory: the write goes nowhere visible *)
                      end in
        mkW files' (gone w) (mem w) (cwd w) (pend w) (Wrote j (is_nofault f)) (hist w)
            (trace w ++ [TAppend (jtmp j) (blen l) (is_nofault f)])
    | Wrote j wok =>
        let cok := is_nofault f in
        mkW (files w) (gone w) (mem w) (cwd w) (pend w)
            (if wok && cok then Closed j else Returning (jop j) (jsv j) (jd j) (Some (jbuf j)) false)
            (hist w) (trace w ++ [TClose (jtmp j) cok])
    | Closed j =>
        match (if is_nofault f && dir_ok (gone w) (jd j) then lookup (jtmp j) (files w) else None) with
        | Some content =>
            mkW (upd (jtarget j) content (remove (jtmp j) (files w))) (gone w) (mem w) (cwd w) (pend w)
                (Returning (jop j) (jsv j) (jd j) (Some (jbuf j)) true) (hist w)
                (trace w ++ [TRename (jtmp j) (jtarget j) true])
        | None =>
            mkW (files w) (gone w) (mem w) (cwd w) (pend w)
                (Returning (jop j) (jsv j) (jd j) (Some (jbuf j)) false) (hist w)
                (trace w ++ [TRename (jtmp j) (jtarget j) false])
        end
    | Returning o sv d nb ok =>
        mkW (files w) (gone w) (if ok then mem w else rollback sv (mem w)) (cwd w) (pend w) Idle
            (hist w ++ [HDone d nb ok]) (trace w)
    end.

  Definition estep (e : envev) (w : world) : world :=
    match e with
    | RmDir d => mkW (rmdir d (files w)) (d :: gone w) (mem w) (cwd w) (pend w) (pc w) (hist w) (trace w)
    | MkDir d => mkW (files w) (filter (fun x => negb (x =? d)) (gone w)) (mem w) (cwd w) (pend w) (pc w) (hist w) (trace w)
    end.

  Definition run_event (w : world) (ev : event) : world :=
    match ev with Step f r => pstep f r w | Env e => estep e w end.

  Definition run (evs : list event) (w : world) : world := fold_left run_event evs w.

  (* was directory d removed by one of these events? *)
  Definition is_rm (d : dir) (ev : event) : bool :=
    match ev with Env (RmDir d') => d' =? d | _ => false end.
  Definition removed (d : dir) (evs : list event) : bool := existsb (is_rm d) evs.

  Definition is_idle (p : pcst) : bool := match p with Idle => true | _ => false end.

  (* file content after a list of successful whole-configuration stores *)
  Definition last_marshal (cs : list cfg) (t0 : option bytes) : option bytes :=
    fold_left (fun _ c => marshal c) cs t0.

  (* the step list of one successful store, as a trace *)
  Definition save_steps (d : dir) (r : N) (buf : bytes) : list tstep :=
    [TCreate (d, Tmp r) true; TAppend (d, Tmp r) (blen buf) true; TClose (d, Tmp r) true;
     TRename (d, Tmp r) (d, Target) true].
End Model.

Arguments SetConf {cfg}. Arguments Mutate {cfg}. Arguments SetDir {cfg}.
Arguments Idle {cfg}. Arguments Opened {cfg}. Arguments Wrote {cfg}. Arguments Closed {cfg}. Arguments Returning {cfg}.
Arguments mkJob {cfg}. Arguments jop {cfg}. Arguments jsv {cfg}. Arguments jd {cfg}. Arguments jr {cfg}. Arguments jbuf {cfg}.
Arguments jtmp {cfg}. Arguments jtarget {cfg}.
Arguments mkW {cfg}. Arguments files {cfg}. Arguments gone {cfg}. Arguments mem {cfg}. Arguments cwd {cfg}.
Arguments pend {cfg}. Arguments pc {cfg}. Arguments hist {cfg}. Arguments trace {cfg}.
Arguments target {cfg}. Arguments begin_of {cfg}. Arguments rollback {cfg}. Arguments estep {cfg}.
Arguments is_idle {cfg}.
