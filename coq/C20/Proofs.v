(* C20 proofs, part 1: file-system lemmas and the per-store invariant. *)
From CJ Require Import Common.Base C20.Model.
From Coq Require Import Lia ZifyN ZifyNat ZifyBool.

(* ------------------------------------------------------------------ paths *)
Lemma fname_eqb_eq a b : fname_eqb a b = true <-> a = b.
Proof.
  destruct a, b; simpl; split; intro H; try discriminate; try reflexivity;
    try (apply N.eqb_eq in H; subst; reflexivity); inversion H; subst; apply N.eqb_refl.
Qed.

Lemma path_eqb_eq p q : path_eqb p q = true <-> p = q.
Proof.
  destruct p as [d a], q as [e b]; unfold path_eqb; simpl. rewrite andb_true_iff, N.eqb_eq, fname_eqb_eq.
  split; [intros [-> ->]; reflexivity | intro H; inversion H; auto].
Qed.

Lemma path_eqb_refl p : path_eqb p p = true.
Proof. apply path_eqb_eq; reflexivity. Qed.

Lemma path_eqb_sym p q : path_eqb p q = path_eqb q p.
Proof.
  destruct (path_eqb p q) eqn:E.
  - apply path_eqb_eq in E; subst; symmetry; apply path_eqb_refl.
  - destruct (path_eqb q p) eqn:E2; [|reflexivity]. apply path_eqb_eq in E2; subst. rewrite path_eqb_refl in E; discriminate.
Qed.

Lemma path_eqb_neq p q : path_eqb p q = false <-> p <> q.
Proof.
  split; intro H.
  - intro E; subst; rewrite path_eqb_refl in H; discriminate.
  - destruct (path_eqb p q) eqn:E; [apply path_eqb_eq in E; contradiction | reflexivity].
Qed.

Lemma target_neq_tmp d e r : path_eqb (d, Target) (e, Tmp r) = false.
Proof. unfold path_eqb; simpl; apply andb_false_r. Qed.
Lemma tmp_neq_target d e r : path_eqb (e, Tmp r) (d, Target) = false.
Proof. unfold path_eqb; simpl; apply andb_false_r. Qed.

(* ------------------------------------------------------------------ lookup *)
Lemma lookup_remove_same p m : lookup p (remove p m) = None.
Proof.
  induction m as [|[q b] m IH]; simpl; [reflexivity|].
  destruct (path_eqb p q) eqn:E; simpl; [exact IH | rewrite E; exact IH].
Qed.

Lemma lookup_remove_other p q m : path_eqb p q = false -> lookup p (remove q m) = lookup p m.
Proof.
  intro H. induction m as [|[s b] m IH]; simpl; [reflexivity|].
  destruct (path_eqb q s) eqn:E; simpl.
  - apply path_eqb_eq in E; subst s. rewrite H. exact IH.
  - destruct (path_eqb p s); [reflexivity | exact IH].
Qed.

Lemma lookup_upd_same p b m : lookup p (upd p b m) = Some b.
Proof. unfold upd; simpl; rewrite path_eqb_refl; reflexivity. Qed.

Lemma lookup_upd_other p q b m : path_eqb p q = false -> lookup p (upd q b m) = lookup p m.
Proof. intro H; unfold upd; simpl; rewrite H; apply lookup_remove_other; exact H. Qed.

Lemma lookup_rmdir_same p d m : fst p = d -> lookup p (rmdir d m) = None.
Proof.
  intro H. induction m as [|[q b] m IH]; [reflexivity|].
  change (rmdir d ((q, b) :: m)) with (if negb (fst q =? d) then (q, b) :: rmdir d m else rmdir d m).
  destruct (fst q =? d) eqn:E; simpl; [exact IH|].
  destruct (path_eqb p q) eqn:E2; [|exact IH].
  apply path_eqb_eq in E2; subst q. rewrite H, N.eqb_refl in E; discriminate.
Qed.

Lemma lookup_rmdir_other p d m : fst p <> d -> lookup p (rmdir d m) = lookup p m.
Proof.
  intro H. induction m as [|[q b] m IH]; [reflexivity|].
  change (rmdir d ((q, b) :: m)) with (if negb (fst q =? d) then (q, b) :: rmdir d m else rmdir d m).
  destruct (fst q =? d) eqn:E; simpl.
  - destruct (path_eqb p q) eqn:E2; [|exact IH].
    apply path_eqb_eq in E2; subst q. apply N.eqb_eq in E; contradiction.
  - destruct (path_eqb p q); [reflexivity | exact IH].
Qed.

Lemma take_prefix k (b : bytes) : is_prefix (take k b) b.
Proof. exists (drop k b). unfold take, drop. symmetry; apply firstn_skipn. Qed.

Lemma landed_prefix f b : is_prefix (landed f b) b.
Proof.
  destruct f; simpl.
  - exists []; symmetry; apply app_nil_r.
  - exists b; reflexivity.
  - apply take_prefix.
Qed.

Lemma landed_nofault f b : is_nofault f = true -> landed f b = b.
Proof. destruct f; simpl; intro H; try discriminate; reflexivity. Qed.

(* ------------------------------------------------------------------ runs *)
Section Proofs.
  Variable cfg : Type.
  Variable marshal : cfg -> option bytes.
  Variable parse : bytes -> option cfg.

  Notation world := (world cfg).
  Notation pstep := (pstep cfg marshal parse).
  Notation run_event := (run_event cfg marshal parse).
  Notation run := (run cfg marshal parse).

  Lemma run_app a b (w : world) : run (a ++ b) w = run b (run a w).
  Proof. unfold run; apply fold_left_app. Qed.

  Lemma run_snoc a e (w : world) : run (a ++ [e]) w = run_event (run a w) e.
  Proof. rewrite run_app; reflexivity. Qed.

  Lemma removed_snoc d evs e : removed d (evs ++ [e]) = removed d evs || is_rm d e.
  Proof. unfold removed; rewrite existsb_app; simpl; rewrite orb_false_r; reflexivity. Qed.

  Lemma removed_mono d evs e : removed d evs = true -> removed d (evs ++ [e]) = true.
  Proof. intro H; rewrite removed_snoc, H; reflexivity. Qed.

  (* ---------------------------------------------------------------- per-store invariant
     w1 is the (idle) world in which the store `o` begins; m' the new in-memory
     configuration, sv the value to roll back to, r the random suffix; evs the
     events since w1; w the current world. *)
  Section OneStore.
    Variable w1 : world.
    Variable o : op cfg.
    Variable rest : list (op cfg).
    Variable m' : cfg.
    Variable sv : option cfg.
    Variable r : N.

    Let d0 := cwd w1.
    Let tmp : path := (d0, Tmp r).
    Let tgt : path := (d0, Target).

    (* path p holds what it held when the store began, or its directory was removed *)
    Definition unch (evs : list event) (w : world) (p : path) : Prop :=
      lookup p (files w) = lookup p (files w1) \/ (lookup p (files w) = None /\ removed (fst p) evs = true).
    Definition holds (evs : list event) (w : world) (p : path) (b : bytes) : Prop :=
      lookup p (files w) = Some b \/ (lookup p (files w) = None /\ removed (fst p) evs = true).
    (* the temporary holds a prefix of the new bytes, or is as before the store, or vanished with its directory *)
    Definition tmp_any (nb : option bytes) (evs : list event) (w : world) : Prop :=
      (exists pre buf, nb = Some buf /\ lookup tmp (files w) = Some pre /\ is_prefix pre buf) \/ unch evs w tmp.

    Definition jgood (j : job cfg) : Prop :=
      jop j = o /\ jsv j = sv /\ jd j = d0 /\ jr j = r /\ marshal m' = Some (jbuf j).

    (* what is on disk once saveClientConf has returned ok / not ok *)
    Definition fileinv (ok : bool) (evs : list event) (w : world) : Prop :=
      if ok then
        exists buf, marshal m' = Some buf /\ holds evs w tgt buf /\ lookup tmp (files w) = None /\
                    forall p, path_eqb p tmp = false -> path_eqb p tgt = false -> unch evs w p
      else
        tmp_any (marshal m') evs w /\ forall p, path_eqb p tmp = false -> unch evs w p.

    Definition inflight (evs : list event) (w : world) : Prop :=
      pend w = rest /\ cwd w = d0 /\ mem w = m' /\ hist w = hist w1 /\
      match pc w with
      | Idle => False
      | Opened j => jgood j /\ holds evs w tmp [] /\ forall p, path_eqb p tmp = false -> unch evs w p
      | Wrote j wok => jgood j /\ (if wok then holds evs w tmp (jbuf j) else tmp_any (marshal m') evs w) /\
                       forall p, path_eqb p tmp = false -> unch evs w p
      | Closed j => jgood j /\ holds evs w tmp (jbuf j) /\ forall p, path_eqb p tmp = false -> unch evs w p
      | Returning o' sv' d nb ok => o' = o /\ sv' = sv /\ d = d0 /\ nb = marshal m' /\ fileinv ok evs w
      end.

    Definition returned (evs : list event) (w : world) : Prop :=
      pc w = Idle /\ pend w = rest /\ cwd w = d0 /\
      exists ok, hist w = hist w1 ++ [HDone d0 (marshal m') ok] /\
                 mem w = (if ok then m' else rollback sv m') /\ fileinv ok evs w.

    (* -- environment events preserve everything (only turning "held" into "vanished") -- *)
    Lemma unch_env evs w e p : unch evs w p -> unch (evs ++ [Env e]) (estep e w) p.
    Proof.
      unfold unch. intros H. destruct e as [d|d]; simpl.
      - destruct (N.eq_dec (fst p) d) as [E|E].
        + right. split; [apply lookup_rmdir_same; exact E|].
          rewrite removed_snoc; simpl. rewrite E, N.eqb_refl. apply orb_true_r.
        + rewrite lookup_rmdir_other by exact E. destruct H as [H|[H1 H2]]; [left; exact H|].
          right; split; [exact H1 | apply removed_mono; exact H2].
      - destruct H as [H|[H1 H2]]; [left; exact H | right; split; [exact H1 | apply removed_mono; exact H2]].
    Qed.

    Lemma holds_env evs w e p b : holds evs w p b -> holds (evs ++ [Env e]) (estep e w) p b.
    Proof.
      unfold holds. intros H. destruct e as [d|d]; simpl.
      - destruct (N.eq_dec (fst p) d) as [E|E].
        + right. split; [apply lookup_rmdir_same; exact E|].
          rewrite removed_snoc; simpl. rewrite E, N.eqb_refl. apply orb_true_r.
        + rewrite lookup_rmdir_other by exact E. destruct H as [H|[H1 H2]]; [left; exact H|].
          right; split; [exact H1 | apply removed_mono; exact H2].
      - destruct H as [H|[H1 H2]]; [left; exact H | right; split; [exact H1 | apply removed_mono; exact H2]].
    Qed.

    Lemma none_env (w : world) e p : lookup p (files w) = None -> lookup p (files (estep e w)) = None.
    Proof.
      intro H. destruct e as [d|d]; simpl; [|exact H].
      destruct (N.eq_dec (fst p) d) as [E|E]; [apply lookup_rmdir_same; exact E|].
      rewrite lookup_rmdir_other by exact E; exact H.
    Qed.

    Lemma tmp_any_env nb evs w e : tmp_any nb evs w -> tmp_any nb (evs ++ [Env e]) (estep e w).
    Proof.
      unfold tmp_any. intros [(pre & buf & Hn & Hl & Hp)|H]; [|right; apply unch_env; exact H].
      assert (Hh : holds evs w tmp pre) by (left; exact Hl).
      apply holds_env with (e := e) in Hh. destruct Hh as [Hh|[Hh1 Hh2]].
      - left; exists pre, buf; auto.
      - right. right. split; assumption.
    Qed.

    Lemma fileinv_env ok evs w e : fileinv ok evs w -> fileinv ok (evs ++ [Env e]) (estep e w).
    Proof.
      unfold fileinv. destruct ok.
      - intros (buf & Hm & Hh & Hn & Hp). exists buf. repeat split.
        + exact Hm.
        + apply holds_env; exact Hh.
        + apply none_env; exact Hn.
        + intros p H1 H2; apply unch_env; apply Hp; assumption.
      - intros [Ht Hp]. split; [apply tmp_any_env; exact Ht|].
        intros p H1; apply unch_env; apply Hp; exact H1.
    Qed.

    Lemma estep_fields e (w : world) :
      pend (estep e w) = pend w /\ cwd (estep e w) = cwd w /\ mem (estep e w) = mem w /\
      hist (estep e w) = hist w /\ pc (estep e w) = pc w.
    Proof. destruct e; simpl; auto. Qed.

    Lemma inflight_env evs w e : inflight evs w -> inflight (evs ++ [Env e]) (estep e w).
    Proof.
      unfold inflight. intros (Hp & Hc & Hm & Hh & Hpc).
      destruct (estep_fields e w) as (E1 & E2 & E3 & E4 & E5).
      rewrite E1, E2, E3, E4, E5. repeat split; try assumption.
      destruct (pc w) as [|j|j wok|j|o' sv' d nb ok]; [contradiction| | | |].
      - destruct Hpc as (Hj & Ht & Hu). split; [exact Hj | split; [apply holds_env; exact Ht |]].
        intros p Hne; apply unch_env; apply Hu; exact Hne.
      - destruct Hpc as (Hj & Ht & Hu). split; [exact Hj | split].
        + destruct wok; [apply holds_env; exact Ht | apply tmp_any_env; exact Ht].
        + intros p Hne; apply unch_env; apply Hu; exact Hne.
      - destruct Hpc as (Hj & Ht & Hu). split; [exact Hj | split; [apply holds_env; exact Ht |]].
        intros p Hne; apply unch_env; apply Hu; exact Hne.
      - destruct Hpc as (H1 & H2 & H3 & H4 & H5). do 4 (split; [assumption|]).
        apply fileinv_env; exact H5.
    Qed.

    Lemma returned_env evs w e : returned evs w -> returned (evs ++ [Env e]) (estep e w).
    Proof.
      unfold returned. intros (Hpc & Hp & Hc & ok & Hh & Hm & Hf).
      destruct (estep_fields e w) as (E1 & E2 & E3 & E4 & E5).
      rewrite E1, E2, E3, E4, E5. repeat split; try assumption.
      exists ok. repeat split; try assumption. apply fileinv_env; exact Hf.
    Qed.

    (* -- weakening of the event list by a process step (removed only grows) -- *)
    Lemma unch_more evs w p ev : unch evs w p -> unch (evs ++ [ev]) w p.
    Proof. intros [H|[H1 H2]]; [left; exact H | right; split; [exact H1 | apply removed_mono; exact H2]]. Qed.
    Lemma holds_more evs w p b ev : holds evs w p b -> holds (evs ++ [ev]) w p b.
    Proof. intros [H|[H1 H2]]; [left; exact H | right; split; [exact H1 | apply removed_mono; exact H2]]. Qed.

    (* unch / holds only look at `files` *)
    Lemma unch_files evs (w w' : world) p : lookup p (files w') = lookup p (files w) -> unch evs w p -> unch evs w' p.
    Proof. unfold unch; intros E H; rewrite E; exact H. Qed.
    Lemma holds_files evs (w w' : world) p b : lookup p (files w') = lookup p (files w) -> holds evs w p b -> holds evs w' p b.
    Proof. unfold holds; intros E H; rewrite E; exact H. Qed.

    (* -- a process step of an in-flight store -- *)
    Lemma jgood_tmp j : jgood j -> jtmp j = tmp.
    Proof. intros (_ & _ & J3 & J4 & _); unfold jtmp, tmp; rewrite J3, J4; reflexivity. Qed.
    Lemma jgood_tgt j : jgood j -> jtarget j = tgt.
    Proof. intros (_ & _ & J3 & _); unfold jtarget, tgt; rewrite J3; reflexivity. Qed.

    Lemma prefix_refl (b : bytes) : is_prefix b b.
    Proof. exists []; symmetry; apply app_nil_r. Qed.

    Lemma tmp_any_of_holds evs w b ev :
      marshal m' = Some b -> holds evs w tmp b -> tmp_any (marshal m') (evs ++ [ev]) w.
    Proof.
      intros Hm [Ht|[Ht1 Ht2]].
      - left. exists b, b. split; [exact Hm | split; [exact Ht | apply prefix_refl]].
      - right. right. split; [exact Ht1 | apply removed_mono; exact Ht2].
    Qed.

    Lemma tmp_any_more nb evs w ev : tmp_any nb evs w -> tmp_any nb (evs ++ [ev]) w.
    Proof.
      intros [(pre & buf & T1 & T2 & T3)|Ht]; [left; exists pre, buf; auto | right; apply unch_more; exact Ht].
    Qed.

    Lemma inflight_step evs w f r' :
      inflight evs w ->
      inflight (evs ++ [Step f r']) (pstep f r' w) \/ returned (evs ++ [Step f r']) (pstep f r' w).
    Proof.
      unfold inflight at 1. intros (Hp & Hc & Hm & Hh & Hpc).
      destruct (pc w) as [|j|j wok|j|o' sv' d nb ok] eqn:Epc; [contradiction| | | |].
      - (* Opened: the write *)
        left. destruct Hpc as (Hj & Ht & Hu).
        pose proof (jgood_tmp j Hj) as Ej.
        unfold pstep; rewrite Epc, Ej. unfold inflight. cbn [pend cwd mem hist pc files].
        do 4 (split; [assumption|]). split; [exact Hj|].
        destruct Ht as [Ht|[Ht1 Ht2]].
        + rewrite Ht. cbn [app]. split.
          * destruct (is_nofault f) eqn:Ef.
            -- left. cbn [files]. rewrite lookup_upd_same, landed_nofault by exact Ef. reflexivity.
            -- left. exists (landed f (jbuf j)), (jbuf j). destruct Hj as (_ & _ & _ & _ & J5).
               split; [exact J5 | split; [cbn [files]; apply lookup_upd_same | apply landed_prefix]].
          * intros p Hne. apply unch_more. eapply unch_files; [|apply Hu; exact Hne].
            cbn [files]. apply lookup_upd_other; exact Hne.
        + rewrite Ht1. split.
          * destruct (is_nofault f).
            -- right; split; [exact Ht1 | apply removed_mono; exact Ht2].
            -- right. right. split; [exact Ht1 | apply removed_mono; exact Ht2].
          * intros p Hne. apply unch_more. apply Hu; exact Hne.
      - (* Wrote: the close *)
        left. destruct Hpc as (Hj & Ht & Hu).
        unfold pstep; rewrite Epc. unfold inflight. cbn [pend cwd mem hist pc files].
        do 4 (split; [assumption|]).
        assert (Hu' : forall p, path_eqb p tmp = false -> unch (evs ++ [Step f r']) w p)
          by (intros p Hne; apply unch_more; apply Hu; exact Hne).
        destruct wok; cbn [andb].
        + destruct (is_nofault f).
          * split; [exact Hj | split; [apply holds_more; exact Ht | exact Hu']].
          * destruct Hj as (J1 & J2 & J3 & J4 & J5).
            do 3 (split; [assumption|]). split; [symmetry; exact J5|].
            split; [eapply tmp_any_of_holds; [exact J5 | exact Ht] | exact Hu'].
        + destruct Hj as (J1 & J2 & J3 & J4 & J5).
          do 3 (split; [assumption|]). split; [symmetry; exact J5|].
          split; [apply tmp_any_more; exact Ht | exact Hu'].
      - (* Closed: the rename *)
        left. destruct Hpc as (Hj & Ht & Hu).
        pose proof (jgood_tmp j Hj) as Ej. pose proof (jgood_tgt j Hj) as Eg.
        destruct Hj as (J1 & J2 & J3 & J4 & J5).
        unfold pstep; rewrite Epc, Ej, Eg.
        destruct (if is_nofault f && dir_ok (gone w) (jd j) then lookup tmp (files w) else None) as [content|] eqn:Ec;
          unfold inflight; cbn [pend cwd mem hist pc files];
          do 4 (split; [assumption|]); do 3 (split; [assumption|]); (split; [symmetry; exact J5|]).
        + (* renamed *)
          assert (Hl : lookup tmp (files w) = Some content).
          { destruct (is_nofault f && dir_ok (gone w) (jd j)); [exact Ec | discriminate]. }
          assert (content = jbuf j).
          { destruct Ht as [Ht|[Ht1 _]]; [rewrite Ht in Hl; inversion Hl; reflexivity | rewrite Ht1 in Hl; discriminate]. }
          subst content. exists (jbuf j).
          split; [exact J5|]. split; [left; cbn [files]; apply lookup_upd_same|].
          split.
          * cbn [files]. rewrite lookup_upd_other by apply tmp_neq_target. apply lookup_remove_same.
          * intros p N1 N2. apply unch_more. eapply unch_files; [|apply Hu; exact N1].
            cbn [files]. rewrite lookup_upd_other by exact N2. apply lookup_remove_other; exact N1.
        + split; [eapply tmp_any_of_holds; [exact J5 | exact Ht]|].
          intros p Hne; apply unch_more; apply Hu; exact Hne.
      - (* Returning: the API call returns *)
        right. destruct Hpc as (H1 & H2 & H3 & H4 & H5). subst o' sv' d nb.
        unfold pstep; rewrite Epc. unfold returned. cbn [pend cwd mem hist pc files].
        split; [reflexivity|]. do 2 (split; [assumption|]).
        exists ok. split; [rewrite Hh; reflexivity|]. split; [rewrite Hm; destruct ok; reflexivity|].
        unfold fileinv in *. destruct ok.
        + destruct H5 as (buf & B1 & B2 & B3 & B4). exists buf.
          split; [exact B1|]. split; [apply holds_more; exact B2|]. split; [exact B3|].
          intros p N1 N2; apply unch_more; apply B4; assumption.
        + destruct H5 as [B1 B2]. split; [apply tmp_any_more; exact B1|].
          intros p N1; apply unch_more; apply B2; exact N1.
    Qed.
  End OneStore.
End Proofs.
