(* C11, HTTP header dimension: strings.Split never returns an empty list, hence wf_req holds for raw header values *)
From CJ Require Import Common.Base C11.Prim C11.Msg C11.Hdr C11.ProofsMsg.
From Coq Require Import List NArith Bool.
Import ListNotations.

Lemma split_on_nonempty : forall sep s cur, split_on sep s cur <> [].
Proof.
  intros sep s. induction s as [|b r IH]; intros cur; cbn [split_on]; [discriminate|].
  destruct (N.eqb b sep); [discriminate|apply IH].
Qed.

Lemma split_on_length : forall sep s cur, length (split_on sep s cur) = S (count_sep sep s).
Proof.
  intros sep s. induction s as [|b r IH]; intros cur; cbn [split_on count_sep]; [reflexivity|].
  destruct (N.eqb b sep); cbn [length]; now rewrite IH.
Qed.

Lemma xff_items_wf : forall r classify values, wf_req (set_xff r (xff_items classify values)).
Proof.
  intros r classify values. unfold wf_req, set_xff, xff_items. cbn [h_xff].
  apply Forall_forall. intros items Hin. apply in_map_iff in Hin. destruct Hin as (v & <- & _).
  intro E. apply map_eq_nil in E. exact (split_on_nonempty comma v [] E).
Qed.

Lemma go_split_shape : forall sep s, go_split sep s <> [] /\ length (go_split sep s) = S (count_sep sep s).
Proof. intros; split; [apply split_on_nonempty|apply split_on_length]. Qed.

Lemma handle_register_status_raw : forall cfg o r (classify : bytes -> option bytes) (values : list bytes),
  wf_rpcfg cfg -> is_status (handle_register cfg o (set_xff r (xff_items classify values))).
Proof. intros. apply handle_register_status; [assumption|apply xff_items_wf]. Qed.

Lemma handle_register_bidi_status_raw : forall cfg o srv_gen r (classify : bytes -> option bytes) (values : list bytes),
  wf_rpcfg cfg -> wf_rporacle o -> is_status (handle_register_bidi cfg o srv_gen (set_xff r (xff_items classify values))).
Proof. intros. apply handle_register_bidi_status; [assumption|assumption|apply xff_items_wf]. Qed.
