(* C11 proofs, part 1: no panic on the message paths (transports, ZMQ ingest,
   registrar, HTTP handlers). *)
From Coq Require Import Lia ZifyN ZifyNat ZifyBool.
From CJ Require Import C11.Prim C11.Msg.

Lemma bind_np : forall {A B} (r : res A) (f : A -> res B),
  r <> Panic -> (forall a, r = Ok a -> f a <> Panic) -> bind r f <> Panic.
Proof. intros A B [a|e|] f H1 H2; cbn; auto; discriminate. Qed.

Lemma map_err_np : forall {A} e (r : res A), r <> Panic -> map_err e r <> Panic.
Proof. intros A e [a|e'|] H; cbn; auto; discriminate. Qed.

Lemma map_err_ok : forall {A} e (r : res A) a, map_err e r = Ok a -> r = Ok a.
Proof. intros A e [x|e'|] a; cbn; congruence. Qed.

Ltac np_step :=
  match goal with
  | |- bind _ _ <> Panic => apply bind_np; [ | intros ? ? ]
  | |- map_err _ _ <> Panic => apply map_err_np
  | |- Ok _ <> Panic => discriminate
  | |- deref (Some _) <> Panic => discriminate
  | |- Err _ <> Panic => discriminate
  | |- (if ?b then _ else _) <> Panic => destruct b eqn:?
  | |- (match ?x with _ => _ end) <> Panic => destruct x eqn:?
  | |- (let '(_, _) := ?x in _) <> Panic => destruct x eqn:?
  end.
Ltac np := repeat np_step.

(* ---------------------------------------------------------------- transports *)
Lemma unmarshal_gen_np : forall s, unmarshal_gen s <> Panic.
Proof. intros [a|]; cbn; np. Qed.
Lemma unmarshal_pref_np : forall s, unmarshal_pref s <> Panic.
Proof. intros [a|]; cbn; np. Qed.
Lemma unmarshal_dtls_np : forall s, unmarshal_dtls s <> Panic.
Proof. intros [a|]; cbn; np. Qed.

Lemma port_selector_range_np : forall lo hi, lo < hi -> port_selector_range lo hi <> Panic.
Proof.
  intros lo hi H. unfold port_selector_range, rand_int_guard.
  destruct (Z.of_N hi - Z.of_N lo <=? 0)%Z eqn:E; cbn; try discriminate. lia.
Qed.

Lemma parse_params_np : forall t libver data, parse_params t libver data <> Panic.
Proof.
  intros t libver data. destruct t; cbn; np;
    try apply unmarshal_gen_np; try apply unmarshal_pref_np; try apply unmarshal_dtls_np.
Qed.

Lemma get_dst_port_np : forall t libver p, get_dst_port t libver p <> Panic.
Proof.
  intros t libver p. destruct t; cbn; np; apply port_selector_range_np; reflexivity.
Qed.

(* ---------------------------------------------------------------- station *)
Lemma new_registration_np : forall cfg c sel,
  sel_not_nil sel -> c <> None -> new_registration cfg c sel <> Panic.
Proof.
  intros cfg c sel Hs Hc. unfold new_registration.
  destruct c as [c|]; [|congruence].
  destruct sel; try (cbn; discriminate); try (exfalso; apply Hs; reflexivity).
  cbn [bind]. np; try apply parse_params_np; try apply get_dst_port_np.
Qed.

Lemma new_reg_c2sw_np : forall cfg o w v6,
  wf_storacle o -> w_payload w <> None -> new_reg_c2sw cfg o w v6 <> Panic.
Proof.
  intros cfg o w v6 [H4 H6] Hp. unfold new_reg_c2sw.
  destruct (w_payload w) as [c|] eqn:Ec; [|congruence].
  apply bind_np.
  - destruct (w_resp w); cbn; np.
  - intros c1 Hc1.
    assert (c1 <> None) as Hn.
    { destruct (w_resp w) as [r|]; cbn in Hc1.
      - destruct (isSome (rr_params r) && negb (getb (cs_disable c))); cbn in Hc1; inversion Hc1; discriminate.
      - inversion Hc1; discriminate. }
    apply bind_np; [np|]. intros ipov _.
    apply bind_np.
    + apply new_registration_np; auto. destruct v6; auto.
    + intros [ip port] _. np.
Qed.

Lemma id_string_np : forall s, id_string s <> Panic.
Proof.
  intros s. unfold id_string. destruct (2 * Z.of_nat (length s) <? 16)%Z eqn:E; [discriminate|].
  apply bind_np; [|intros; discriminate].
  unfold slice. rewrite repeat_length.
  destruct ((0 <? 0)%Z || (16 <? 0)%Z || (Z.of_nat (Z.to_nat (2 * Z.of_nat (length s))) <? 16)%Z) eqn:E2; [|discriminate].
  exfalso. lia.
Qed.

Lemma oget_some : forall {A B} (o : option A) (f : A -> option B) b, oget o f = Some b -> o <> None.
Proof. intros A B [a|] f b; cbn; congruence. Qed.

Lemma getb_oget_true : forall {A} (o : option A) (f : A -> option bool), getb (oget o f) = true -> o <> None.
Proof. intros A [a|] f; cbn; [discriminate|discriminate]. Qed.

Theorem parse_reg_message_np : forall cfg o view,
  wf_storacle o -> parse_reg_message cfg o view <> Panic.
Proof.
  intros cfg o view Ho. unfold parse_reg_message.
  destruct view as [w0|]; [|discriminate].
  set (w := set_addrs w0 _ _).
  apply bind_np.
  - destruct (getb (oget (w_payload w) cs_v4) && sc_v4 cfg && isSome (to4 _)) eqn:E; [|discriminate].
    apply bind_np; [|intros; discriminate].
    apply new_reg_c2sw_np; auto.
    apply andb_prop in E as [E _]. apply andb_prop in E as [E _].
    apply getb_oget_true in E. exact E.
  - intros r4 _. apply bind_np.
    + destruct (getb (oget (w_payload w) cs_v6) && sc_v6 cfg) eqn:E; [|discriminate].
      apply bind_np; [|intros; discriminate].
      apply new_reg_c2sw_np; auto.
      apply andb_prop in E as [E _]. apply getb_oget_true in E. exact E.
    + intros r6 _. apply bind_np; [|intros; discriminate].
      destruct (r4 ++ r6); [discriminate|apply id_string_np].
Qed.

(* ---------------------------------------------------------------- registrar *)
Lemma exclusions_ok_np : forall l, Forall (fun s => os_nil s = false) l -> exclusions_ok l <> Panic.
Proof.
  induction l as [|s r IH]; cbn; intros H; [discriminate|].
  inversion H; subst. rewrite H2. auto.
Qed.

Lemma Forall_firstn : forall {A} (P : A -> Prop) n l, Forall P l -> Forall P (firstn n l).
Proof.
  intros A P n. induction n; intros l H; cbn; [constructor|].
  destruct l; [constructor|]. inversion H; subst. constructor; auto.
Qed.

Lemma index_np : forall {A} (l : list A) i, (0 <= i < Z.of_nat (length l))%Z -> index l i <> Panic.
Proof.
  intros A l i H. unfold index.
  destruct (i <? 0)%Z eqn:E; [lia|].
  destruct (nth_error l (Z.to_nat i)) eqn:E2; [discriminate|].
  apply nth_error_None in E2. lia.
Qed.

Lemma index_ok_in : forall {A} (l : list A) i a, index l i = Ok a -> In a l.
Proof.
  intros A l i a. unfold index. destruct (i <? 0)%Z; [discriminate|].
  destruct (nth_error l (Z.to_nat i)) eqn:E; [|discriminate].
  intros H; inversion H; subst. eapply nth_error_In; eauto.
Qed.

Lemma pick_subnet_np : forall subs n pick, (n <= length subs)%nat -> pick_subnet subs n pick <> Panic.
Proof.
  intros subs n [i|] H; unfold pick_subnet; [|discriminate].
  destruct (Nat.ltb i n) eqn:E; [|discriminate].
  apply bind_np; [|intros; discriminate].
  apply index_np. apply Nat.ltb_lt in E. lia.
Qed.

Lemma pick_subnet_in : forall subs n pick s, pick_subnet subs n pick = Ok (Some s) -> In s subs.
Proof.
  intros subs n [i|] s; unfold pick_subnet; [|discriminate].
  destruct (Nat.ltb i n); [|discriminate].
  destruct (index subs (Z.of_nat i)) eqn:E; cbn [bind]; try discriminate.
  intros H; inversion H; subst. eapply index_ok_in; eauto.
Qed.

Lemma rand_uint32_np : forall s, rand_uint32_ipv4 s <> Panic.
Proof.
  intros s. unfold rand_uint32_ipv4, rand_uint32_ipv4_gen. destruct (os_v4 s); cbn [negb]; [|discriminate].
  cbn [andb].
  set (h := if 32 <=? os_hostbits s then 0 else 2 ^ os_hostbits s).
  destruct (h =? 0) eqn:E; [discriminate|].
  unfold rand_int_guard.
  destruct (Z.of_N h <=? 0)%Z eqn:E2; cbn; [|discriminate].
  exfalso. lia.
Qed.

Lemma existsb_eqb_in : forall id ids, In id ids -> existsb (Z.eqb id) ids = true.
Proof.
  intros id ids H. apply existsb_exists. exists id. split; auto. apply Z.eqb_refl.
Qed.

Lemma try_from_id_np : forall ids id,
  (forall i, (0 <= i < Z.of_nat (length ids))%Z -> In i ids) -> try_from_id ids id <> Panic.
Proof.
  intros ids id H. unfold try_from_id, try_from_id_gen.
  destruct ((Z.of_nat (length ids) =? 0)%Z || (id <? -1)%Z || (Z.of_nat (length ids) <=? id)%Z) eqn:E; [discriminate|].
  destruct (id =? -1)%Z eqn:E1.
  - unfold rand_int_guard. destruct (Z.of_nat (length ids) <=? 0)%Z eqn:E2; cbn; [|discriminate]. exfalso. lia.
  - rewrite existsb_eqb_in; [discriminate|]. apply H. lia.
Qed.

Theorem process_bd_req_np : forall cfg o w,
  wf_rpcfg cfg -> wf_rporacle o -> process_bd_req cfg o w <> Panic.
Proof.
  intros cfg o w [Hk He] Ho. unfold process_bd_req.
  destruct (oget w w_payload) as [c|] eqn:Ec; [|discriminate].
  destruct w as [w|]; [|discriminate]. cbn [deref bind].
  destruct (Ho (getn (cs_gen c))) as [H4 H6].
  apply bind_np.
  { destruct (getb (cs_v4 c)); [|discriminate].
    destruct (ro_sel o (getn (cs_gen c)) false) as [ip rp| | |]; cbn in H4; try discriminate; try contradiction.
    destruct (to4 ip); [discriminate|congruence]. }
  intros r4 _. apply bind_np.
  { destruct (getb (cs_v6 c)); [|discriminate].
    destruct (ro_sel o (getn (cs_gen c)) true) as [ip rp| | |]; try discriminate.
    exfalso; apply H6; reflexivity. }
  intros r6 _. apply bind_np; [np|]. intros tr _.
  apply bind_np; [apply map_err_np, parse_params_np|]. intros params _.
  apply bind_np; [np|]. intros _ _.
  apply bind_np; [np; apply get_dst_port_np|]. intros port _.
  destruct (rp_enforce cfg) eqn:Een; cbn [negb]; [|discriminate].
  destruct (He eq_refl) as (Hex & Hmw & Hpw & Hids).
  apply bind_np.
  { apply exclusions_ok_np. destruct (ro_excluded o); auto. apply Forall_firstn; auto. }
  intros _ _. destruct (isSome (ro_excluded o)); [discriminate|].
  destruct (getn (cs_transport c) =? 1).
  { destruct (negb (ro_take_override o)); [discriminate|].
    destruct (rp_min_subnets cfg) as [|s0 rest] eqn:Esub; [discriminate|]. rewrite <- Esub in *.
    apply bind_np; [apply pick_subnet_np; auto|].
    intros [s|] Hs; [|discriminate].
    destruct (os_nil s) eqn:En; [discriminate|].
    apply bind_np; [apply rand_uint32_np|intros; discriminate]. }
  destruct (getn (cs_transport c) =? 4); [|discriminate].
  destruct (getb (cs_disable c) || negb (ro_take_override o)); [discriminate|].
  destruct (rp_prefix_subnets cfg) as [|s0 rest] eqn:Esub; [discriminate|]. rewrite <- Esub in *.
  apply bind_np; [apply pick_subnet_np; auto|].
  intros [s|] Hs; [|discriminate].
  destruct (os_nil s) eqn:En; [discriminate|].
  apply bind_np; [apply rand_uint32_np|].
  intros ok Hok. destruct ok; cbn [negb]; [|discriminate].
  apply bind_np; [apply try_from_id_np; exact Hids|]. intros; discriminate.
Qed.

Theorem process_c2s_wrapper_np : forall cfg w, wf_rpcfg cfg -> process_c2s_wrapper cfg w <> Panic.
Proof.
  intros cfg w [Hk _]. unfold process_c2s_wrapper. destruct w as [w|]; [|discriminate].
  destruct (blen _ <? 8); [discriminate|].
  destruct (rp_auth cfg) eqn:Ea; cbn; [|discriminate].
  rewrite (Hk eq_refl). rewrite andb_false_r. discriminate.
Qed.

Lemma register_bidirectional_np : forall cfg o w,
  wf_rpcfg cfg -> wf_rporacle o -> register_bidirectional cfg o w <> Panic.
Proof.
  intros. unfold register_bidirectional.
  apply bind_np; [apply process_bd_req_np; auto|]. intros r _.
  apply bind_np; [apply process_c2s_wrapper_np; auto|]. intros _ _. np.
Qed.

Lemma register_unidirectional_np : forall cfg o w,
  wf_rpcfg cfg -> register_unidirectional cfg o w <> Panic.
Proof.
  intros. unfold register_unidirectional.
  apply bind_np; [apply process_c2s_wrapper_np; auto|]. intros _ _. np.
Qed.

(* ---------------------------------------------------------------- HTTP *)
Lemma last_z_np : forall {A} (l : list A) back,
  (1 <= back <= Z.of_nat (length l))%Z -> last_z l back <> Panic.
Proof. intros. unfold last_z. apply index_np. lia. Qed.

Lemma get_remote_addr_np : forall r, wf_req r -> get_remote_addr r <> Panic.
Proof.
  intros r H. unfold get_remote_addr, wf_req in *.
  destruct (h_xff r) as [|v vs] eqn:E; [discriminate|].
  apply bind_np; [apply last_z_np; cbn [length]; lia|].
  intros items Hi.
  assert (items <> []) as Hne.
  { apply index_ok_in in Hi. rewrite Forall_forall in H. apply H; auto. }
  assert (1 <= Z.of_nat (length items))%Z by (destruct items; [congruence|cbn [length]; lia]).
  apply bind_np; [apply last_z_np; lia|].
  intros it _. apply bind_np; [|intros; discriminate].
  destruct ((1 <? Z.of_nat (length items))%Z && h_remote_loopback r) eqn:E2; [|discriminate].
  apply last_z_np. apply andb_prop in E2 as [E2 _]. lia.
Qed.

Lemma np_is_status : forall {A} (r : res A), (forall e, r <> Err e) -> r <> Panic -> is_status r.
Proof. intros A [a|e|] H1 H2; [eexists; eauto|exfalso; eapply H1; eauto|congruence]. Qed.

Theorem handle_register_status : forall cfg o r,
  wf_rpcfg cfg -> wf_req r -> is_status (handle_register cfg o r).
Proof.
  intros cfg o r Hc Hr. unfold handle_register.
  pose proof (get_remote_addr_np r Hr) as Hn.
  destruct (get_remote_addr r) as [a|e|] eqn:Ea; [| |congruence].
  - cbn. destruct a; [|eexists; eauto].
    destruct (get_c2s_from_req r); [eexists; eauto|].
    pose proof (register_unidirectional_np cfg o w Hc).
    destruct (register_unidirectional cfg o w); try congruence; eexists; eauto.
  - (* get_remote_addr never returns an error *)
    exfalso. unfold get_remote_addr in Ea.
    destruct (h_xff r); [discriminate|].
    repeat match type of Ea with
           | bind ?x _ = _ => destruct x eqn:?; cbn [bind] in Ea; try discriminate
           end.
    all: unfold last_z, index in *;
      repeat match goal with
             | H : (if ?b then _ else _) = Err _ |- _ => destruct b; try discriminate
             | H : (match ?x with _ => _ end) = Err _ |- _ => destruct x; try discriminate
             end.
Qed.

Theorem handle_register_bidi_status : forall cfg o g r,
  wf_rpcfg cfg -> wf_rporacle o -> wf_req r -> is_status (handle_register_bidi cfg o g r).
Proof.
  intros cfg o g r Hc Ho Hr. unfold handle_register_bidi, handle_register_bidi_gen.
  pose proof (get_remote_addr_np r Hr) as Hn.
  destruct (get_remote_addr r) as [a|e|] eqn:Ea; [| |congruence].
  - cbn [bind]. destruct a; [|eexists; eauto].
    destruct (get_c2s_from_req r); [eexists; eauto|].
    cbn [negb orb].
    destruct (match g with Some g0 => getn (oget (w_payload w) cs_gen) <? g0 | None => false end && isSome (w_payload w)) eqn:En.
    + apply andb_prop in En as [_ En]. destruct (w_payload w) as [c|] eqn:Ep; [|discriminate].
      cbn [deref bind].
      match goal with |- is_status (match register_bidirectional ?c ?o ?w with _ => _ end) =>
        pose proof (register_bidirectional_np c o w Hc Ho);
        destruct (register_bidirectional c o w) as [x|e|]; try congruence end.
      * eexists; eauto.
      * destruct e; eexists; eauto.
    + cbn [bind].
      match goal with |- is_status (match register_bidirectional ?c ?o ?w with _ => _ end) =>
        pose proof (register_bidirectional_np c o w Hc Ho);
        destruct (register_bidirectional c o w) as [x|e|]; try congruence end.
      * eexists; eauto.
      * destruct e; eexists; eauto.
  - exfalso. unfold get_remote_addr in Ea.
    destruct (h_xff r); [discriminate|].
    repeat match type of Ea with
           | bind ?x _ = _ => destruct x eqn:?; cbn [bind] in Ea; try discriminate
           end.
    all: unfold last_z, index in *;
      repeat match goal with
             | H : (if ?b then _ else _) = Err _ |- _ => destruct b; try discriminate
             | H : (match ?x with _ => _ end) = Err _ |- _ => destruct x; try discriminate
             end.
Qed.
