(* C11 model: umbrella file.  Prim.v: Go operations that can panic; Msg.v:
   messages, transports, ZMQ ingest, registrar, HTTP handlers; Flight.v:
   first-flight classification; Dns.v: DNS responder; Down.v: the ingest worker's
   body downstream of parseRegMessage, DTLS Connect's parameter use, work bounds;
   Stats.v: the statistics epoch (accounting of accepted registrations against the
   ticker's PrintAndReset) as a transition system over lock-protected regions;
   Hdr.v: strings.Split on the raw X-Forwarded-For values (discharges wf_req). *)
From CJ Require Export C11.Prim C11.Msg C11.Flight C11.Dns C11.Down C11.Stats C11.Hdr.
