(* C11 model, part 0: the Go operations that can panic, as explicit outcomes.
   Definitions only; executable. *)
From CJ Require Export Common.Base.

(* Error classes (coarse: the *site* that rejected the input). *)
Inductive ecls :=
  | EUnmarshal        (* proto.Unmarshal / anypb rejected the bytes *)
  | EKeys             (* core.GenSharedKeys *)
  | ESelect           (* phantom selection failed (unknown generation, ...) *)
  | ESelectLegacy     (* one of the three phantoms.ErrLegacy* sentinels *)
  | EUnknownTransport
  | EParams           (* transport ParseParams *)
  | EDstPort          (* transport GetDstPort *)
  | EV6ClientV4Phantom
  | EGeoIP
  | ENoC2SBody
  | ESharedSecret
  | EOverride
  | EZmq
  | EMarshal
  | EBadOverride      (* registrar-supplied ipv6 phantom override that is not a 16-byte IPv6 address *)
  | EBadRegAddr       (* registration address that is not 4 or 16 bytes *)
  (* first-flight classification *)
  | ETryAgain | ENotTransport | EWrongPrefix | EWrongTransport | EBrokenReg
  (* DNS *)
  | EEof | EReservedLabel | ETooManyPointers | ENameTooLong | ETrailing | EShort | EBadLabel.

Definition ecls_code (e : ecls) : N :=
  match e with
  | EUnmarshal => 1 | EKeys => 2 | ESelect => 3 | ESelectLegacy => 4 | EUnknownTransport => 5
  | EParams => 6 | EDstPort => 7 | EV6ClientV4Phantom => 8 | EGeoIP => 9 | ENoC2SBody => 10
  | ESharedSecret => 11 | EOverride => 12 | EZmq => 13 | EMarshal => 14 | EBadOverride => 15 | EBadRegAddr => 16
  | ETryAgain => 20 | ENotTransport => 21 | EWrongPrefix => 22 | EWrongTransport => 23 | EBrokenReg => 24
  | EEof => 30 | EReservedLabel => 31 | ETooManyPointers => 32 | ENameTooLong => 33 | ETrailing => 34
  | EShort => 35 | EBadLabel => 36
  end.

Definition res (A : Type) := result ecls A.

Definition bind {A B} (r : res A) (f : A -> res B) : res B :=
  match r with Ok a => f a | Err e => Err e | Panic => Panic end.
Notation "x <- e ;; f" := (bind e (fun x => f)) (at level 61, e at next level, right associativity).
Notation "' p <- e ;; f" := (bind e (fun p => f)) (at level 61, p pattern, e at next level, right associativity).

Definition is_panic {A} (r : res A) : bool := match r with Panic => true | _ => false end.

(* p.Field where p may be a nil pointer and Field is read directly (not through a
   nil-safe protobuf getter): nil pointer dereference. *)
Definition deref {A} (p : option A) : res A :=
  match p with Some a => Ok a | None => Panic end.

(* s[i] *)
Definition index {A} (l : list A) (i : Z) : res A :=
  if (i <? 0)%Z then Panic
  else match nth_error l (Z.to_nat i) with Some a => Ok a | None => Panic end.

(* s[lo:hi] on a slice whose capacity is not known to exceed its length:
   out of range when lo < 0, hi < lo or hi > len. *)
Definition slice {A} (l : list A) (lo hi : Z) : res (list A) :=
  if ((lo <? 0) || (hi <? lo) || (Z.of_nat (length l) <? hi))%Z then Panic
  else Ok (firstn (Z.to_nat (hi - lo)) (skipn (Z.to_nat lo) l)).

(* crypto/rand.Int(r, max): panics when max <= 0 *)
Definition rand_int_guard (max : Z) : res unit :=
  if (max <=? 0)%Z then Panic else Ok tt.

(* nil-safe protobuf getters *)
Definition getb (o : option bool) : bool := match o with Some b => b | None => false end.
Definition getn (o : option N) : N := match o with Some n => n | None => 0 end.
Definition getz (o : option Z) : Z := match o with Some n => n | None => 0%Z end.
Definition oget {A B} (o : option A) (f : A -> option B) : option B :=
  match o with Some a => f a | None => None end.

Definition isSome {A} (o : option A) : bool := match o with Some _ => true | None => false end.
