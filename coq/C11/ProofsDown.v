(* C11 proofs, part 4: downstream of the entry points, and work bounds. *)
From Coq Require Import Lia ZifyN ZifyNat ZifyBool.
From CJ Require Import C11.Prim C11.Msg C11.Flight C11.Down C11.ProofsMsg C11.ProofsFlight.

(* ingestRegistration never dereferences what ValidateRegistration did not check — for ANY registration
   object, not only those NewRegistration builds — provided its DTLS parameters, if any, came out of ParseParams *)
Definition connecting_ok (r : ireg) : Prop :=
  match ir_connecting r with Some (PDtls None) => False | _ => True end.

Lemma generate_c2s_wrapper_np : forall r, ir_keys r <> None -> ir_phantom r <> None -> generate_c2s_wrapper r <> Panic.
Proof.
  intros r Hk Hp. unfold generate_c2s_wrapper.
  destruct (ir_keys r); [|congruence]. destruct (ir_phantom r); [|congruence].
  cbn [deref bind]. np.
Qed.

Theorem ingest_registration_np : forall r o, ingest_registration r o <> Panic.
Proof.
  intros r o. unfold ingest_registration.
  destruct (ir_nil r); [discriminate|].
  destruct (ir_keys r) as [k|] eqn:Ek; [|discriminate].
  destruct (ir_phantom r) as [ph|] eqn:Ep; [|discriminate].
  destruct (ir_source r) as [s|] eqn:Es; [|discriminate].
  destruct (ir_transport_known r); cbn [negb]; [|discriminate].
  cbn [deref bind].
  destruct (negb (s =? 1) && io_blocklisted o); [discriminate|].
  destruct (io_exists o); [discriminate|].
  unfold reg_string. rewrite Ek. cbn [deref bind].
  destruct (negb (io_covert_ok o)); [discriminate|].
  destruct (negb (ir_prescanned r) && isSome (to4 ph) && io_live o); [discriminate|].
  apply bind_np.
  - destruct ((s =? 1) && io_share o); [|discriminate].
    apply generate_c2s_wrapper_np; congruence.
  - intros shared _. np.
Qed.

(* the Connect outcome recorded inside IAdded is never a Panic when the parameters came from dtls ParseParams *)
Theorem dtls_connect_after_parse_np : forall libver data p,
  parse_params TrDtls libver data = Ok p -> dtls_connect_params p <> Panic.
Proof.
  intros libver data p H. cbn in H.
  destruct (unmarshal_dtls data); cbn in H; inversion H; subst. discriminate.
Qed.

Theorem ingest_connect_np : forall r o shared c,
  connecting_ok r -> ingest_registration r o = Ok (IAdded shared (Some c)) -> c <> Panic.
Proof.
  intros r o shared c Hc H. unfold ingest_registration in H.
  repeat match type of H with
         | (if ?b then _ else _) = _ => destruct b; try discriminate
         | (match ?x with _ => _ end) = _ => destruct x eqn:?; try discriminate
         | bind ?e _ = _ => destruct e eqn:?; cbn [bind] in H; try discriminate
         end;
    inversion H as [[Hs Hcn]]; unfold connecting_ok in Hc;
    destruct (ir_connecting r) as [p|]; try discriminate;
    inversion Hcn; subst; destruct p as [|g|q|[d|]]; cbn; try discriminate; contradiction.
Qed.

(* ---------------------------------------------------------------- work bounds (termination arguments) *)
Theorem prefix_loop_iters_bounded : forall getreg data tbl,
  (prefix_loop_iters getreg data tbl <= length tbl)%nat.
Proof.
  intros getreg data tbl. induction tbl as [|x r IH]; cbn [prefix_loop_iters length]; [lia|].
  destruct (prefix_step getreg data x) as [[| | |v]|e|]; lia.
Qed.

Theorem prefix_step_work_bounded : forall data x, (0 <= prefix_step_work data x <= zlen data + 64)%Z.
Proof. intros. unfold prefix_step_work, zlen. lia. Qed.

Theorem obfs4_loop_iters_bounded : forall buflen regs, (obfs4_loop_iters buflen regs <= length regs)%nat.
Proof.
  intros buflen regs. induction regs as [|r rest IH]; cbn [obfs4_loop_iters length]; [lia|].
  destruct (or_nil r || negb (or_keys_ok r)); [lia|].
  destruct (find_mark_mac 16 buflen 109 8192 true (or_mark_eq r) None) as [p|e|]; [|lia|lia].
  destruct (p =? -1)%Z; lia.
Qed.

Theorem find_mark_mac_work_bounded : forall buflen startPos maxPos fromTail,
  (0 <= startPos)%Z -> (0 <= find_mark_mac_work buflen startPos maxPos fromTail <= Z.max 16 buflen)%Z.
Proof.
  intros buflen startPos maxPos fromTail H. unfold find_mark_mac_work.
  destruct ((buflen <? startPos)%Z || ((if (maxPos <? buflen)%Z then maxPos else buflen) - startPos <? 32)%Z) eqn:E; [lia|].
  destruct fromTail; [lia|].
  destruct (maxPos <? buflen)%Z eqn:E2; lia.
Qed.

Theorem prefix_flight_work : forall getreg data tbl,
  (prefix_loop_iters getreg data tbl <= length tbl)%nat /\
  (forall x, 0 <= prefix_step_work data x <= zlen data + 64)%Z.
Proof. intros; split; [apply prefix_loop_iters_bounded|intros; apply prefix_step_work_bounded]. Qed.
