(* C11 non-vacuity: concrete inputs that meet the hypotheses of each theorem and
   exercise the non-trivial branches; inputs on which the model DOES return Panic
   when a hypothesis is dropped (so the theorems are not true of a model that
   cannot panic); and the witness of finding #8 on the model of the handler as it
   was before commit 3969bad. *)
From Coq Require Import Lia.
From CJ Require Import Common.Base C11.Model C11.Run.

Definition gen_any (r : bool) : anyv :=
  {| a_url := UExact TGeneric; a_gen := Some {| g_rand := Some r |}; a_pref := Some {| p_id := None; p_rand := Some r |};
     a_dtls := Some {| d_rand := None |} |}.
Definition tbl0 : list pfx :=
  [ {| x_id := 0; x_static := []; x_offset := 0; x_minlen := 64; x_maxlen := 64; x_port := 443 |};
    {| x_id := 1; x_static := unhex "474554202f20485454502f312e310d0a"; x_offset := 16; x_minlen := 80; x_maxlen := 80; x_port := 80 |} ].
Definition trs0 : list (N * trk) := [(1, TrMin); (2, TrObfs4); (3, TrDtls); (4, TrPrefix tbl0)].
Definition c2s0 : c2s :=
  {| cs_gen := Some 957; cs_libver := Some 4; cs_disable := None; cs_transport := Some 1;
     cs_params := Some (gen_any true); cs_v4 := Some true; cs_v6 := Some true |}.
Definition w0 : wrapper :=
  {| w_secret := Some (repeat 7 32); w_payload := Some c2s0; w_source := None;
     w_regaddr := Some [10; 1; 2; 3]; w_decoyaddr := None; w_resp := None |}.
Definition w_nopayload : wrapper :=
  {| w_secret := Some (repeat 7 32); w_payload := None; w_source := None; w_regaddr := None; w_decoyaddr := None; w_resp := None |}.
Definition stcfg0 : stcfg := {| sc_v4 := true; sc_v6 := true; sc_transports := trs0 |}.
Definition v4ip : bytes := [192; 122; 190; 7].
Definition v6ip : bytes := [32; 1; 72; 168; 104; 127; 0; 1; 0; 0; 0; 0; 0; 0; 0; 9].
Definition sto0 : storacle := {| so_sel4 := SelOk v4ip true; so_sel6 := SelOk v6ip true; so_geo_ok := true |}.

(* ---- station: a well-formed registration yields two registrations with a randomised port *)
Example ex_station_ok :
  parse_reg_message stcfg0 sto0 (Some w0) =
  Ok [ {| rs_v6 := false; rs_ip := v4ip; rs_port := PRange 1024 65535 |};
       {| rs_v6 := true; rs_ip := v6ip; rs_port := PRange 1024 65535 |} ].
Proof. vm_compute. reflexivity. Qed.
Example ex_station_oracle_wf : wf_storacle sto0.
Proof. split; discriminate. Qed.

(* the hypothesis on the selector is needed: a (nil, nil) selection panics in NewRegistration *)
Example ex_station_selnil_panics :
  parse_reg_message stcfg0 {| so_sel4 := SelNil; so_sel6 := SelNil; so_geo_ok := true |} (Some w0) = Panic.
Proof. vm_compute. reflexivity. Qed.

(* NewRegistrationC2SWrapper is NOT safe on its own: with a registrar response carrying parameters
   and no registration payload it dereferences nil.  parseRegMessage never calls it that way. *)
Definition w_resp_nopayload : wrapper :=
  {| w_secret := Some (repeat 7 32); w_payload := None; w_source := None; w_regaddr := Some [10; 1; 2; 3]; w_decoyaddr := None;
     w_resp := Some {| rr_ipv4 := None; rr_ipv6 := None; rr_dstport := None; rr_params := Some (gen_any true); rr_portrand := None |} |}.
Example ex_newreg_nil_payload_panics : new_reg_c2sw stcfg0 sto0 w_resp_nopayload false = Panic.
Proof. vm_compute. reflexivity. Qed.
Example ex_ingest_same_message_is_ignored : parse_reg_message stcfg0 sto0 (Some w_resp_nopayload) = Ok [].
Proof. vm_compute. reflexivity. Qed.

(* ---- transports: mismatched parameter types are errors, typed nil pointers are handled *)
Example ex_dstport_mismatch : get_dst_port TrMin 4 (PPref (Some {| p_id := Some 0%Z; p_rand := None |})) = Err EDstPort.
Proof. reflexivity. Qed.
Example ex_dstport_typed_nil : get_dst_port (TrPrefix tbl0) 4 (PPref None) = Err EDstPort /\ get_dst_port TrMin 4 (PGen None) = Ok (PFixed 443).
Proof. split; reflexivity. Qed.
Example ex_params_wrong_url :
  parse_params TrDtls 4 (Some (gen_any true)) = Err EUnmarshal.
Proof. reflexivity. Qed.

(* ---- first flight *)
Example ex_tbl0_wf : tbl_wf tbl0 = true. Proof. reflexivity. Qed.
Example ex_min_short : min_wrap (fun _ => true) (repeat 1 31) = Err ETryAgain. Proof. reflexivity. Qed.
Example ex_min_found : min_wrap (fun _ => true) (repeat 1 40) = Ok 32%Z. Proof. reflexivity. Qed.
Definition reg_pref (id : Z) : regview := {| rv_is_prefix := true; rv_params := PPref (Some {| p_id := Some id; p_rand := None |}) |}.
Example ex_prefix_found :
  prefix_wrap (fun off => if (off =? 0)%Z then Some (reg_pref 0) else None) tbl0 (repeat 9 70) = Ok 64%Z.
Proof. vm_compute. reflexivity. Qed.
Example ex_prefix_wrong_prefix :
  prefix_wrap (fun off => if (off =? 0)%Z then Some (reg_pref 1) else None) tbl0 (repeat 9 70) = Err EWrongPrefix.
Proof. vm_compute. reflexivity. Qed.
(* the table hypothesis is needed: an entry whose MaxLen does not cover Offset+64 slices past the data *)
Definition tbl_bad : list pfx := [ {| x_id := 0; x_static := []; x_offset := 10; x_minlen := 64; x_maxlen := 64; x_port := 443 |} ].
Example ex_prefix_bad_table_panics : prefix_wrap (fun _ => None) tbl_bad (repeat 9 64) = Panic.
Proof. vm_compute. reflexivity. Qed.
Example ex_markmac_tail : find_mark_mac 16 200 109 8192 true true None = Ok 168%Z. Proof. reflexivity. Qed.
Example ex_markmac_badlen_panics : find_mark_mac 15 200 109 8192 true true None = Panic. Proof. reflexivity. Qed.
Example ex_markmac_negative_start_panics : find_mark_mac 16 20 (-33) 8192 true true None = Panic. Proof. reflexivity. Qed.
Example ex_obfs4_again : obfs4_wrap [ {| or_nil := false; or_keys_ok := true; or_mark_eq := false |} ] (repeat 3 200) = Err ETryAgain.
Proof. vm_compute. reflexivity. Qed.
Example ex_obfs4_found : obfs4_wrap [ {| or_nil := false; or_keys_ok := true; or_mark_eq := true |} ] (repeat 3 200) = Ok tt.
Proof. vm_compute. reflexivity. Qed.

(* ---- registrar *)
Definition sub24 : ovsubnet := {| os_nil := false; os_v4 := true; os_hostbits := 8; os_prefix_id := 0%Z |}.
Definition rpcfg_plain : rpcfg :=
  {| rp_transports := trs0; rp_overrides := true; rp_auth := true; rp_privkey_ok := true; rp_enforce := false;
     rp_min_subnets := []; rp_min_weights := 0; rp_prefix_subnets := []; rp_prefix_weights := 0; rp_exclusions := [];
     rp_prefix_ids := [0; 1]%Z |}.
Definition rpcfg_enf (s : ovsubnet) : rpcfg :=
  {| rp_transports := trs0; rp_overrides := true; rp_auth := true; rp_privkey_ok := true; rp_enforce := true;
     rp_min_subnets := [s]; rp_min_weights := 1; rp_prefix_subnets := [s]; rp_prefix_weights := 1; rp_exclusions := [sub24];
     rp_prefix_ids := [0; 1]%Z |}.
Definition tab0 : list (N * bool * selres) := [(957, false, SelOk v4ip true); (957, true, SelOk v6ip true); (1000, false, SelErr); (1000, true, SelErr)].

Example ex_rpcfg_plain_wf : wf_rpcfg rpcfg_plain.
Proof. split; [reflexivity|discriminate]. Qed.
Example ex_rpcfg_enf_wf : wf_rpcfg (rpcfg_enf sub24).
Proof.
  split; [reflexivity|]. intros _. cbn. repeat split; auto; try (repeat constructor; fail).
  intros id H. assert (id = 0 \/ id = 1)%Z as [->| ->] by lia; cbn; auto.
Qed.
(* every oracle the correspondence run builds from a table of well-formed selections is well-formed *)
Definition entry_wf (e : N * bool * selres) : Prop :=
  let '(_, f, r) := e in if f then sel_not_nil r else wf_sel4 r.
Lemma sel_of_wf : forall tab zmq, Forall entry_wf tab -> wf_rporacle (mk_oracle tab zmq).
Proof.
  intros tab zmq H gen. unfold mk_oracle; cbn [ro_sel]. unfold sel_of.
  induction tab as [|[[g f] r] rest IH]; cbn [find].
  - split; [exact I|discriminate].
  - inversion H as [|? ? He Hr]; subst. specialize (IH Hr). destruct IH as [IH4 IH6].
    split.
    + destruct ((g =? gen) && Bool.eqb f false) eqn:E; [|exact IH4].
      apply andb_prop in E as [_ E]. destruct f; [discriminate|]. exact He.
    + destruct ((g =? gen) && Bool.eqb f true) eqn:E; [|exact IH6].
      apply andb_prop in E as [_ E]. destruct f; [|discriminate]. exact He.
Qed.
Example ex_oracle_wf : wf_rporacle (mk_oracle tab0 true).
Proof.
  apply sel_of_wf. repeat constructor; cbn; try discriminate; exact I.
Qed.

Example ex_bdreq_ok :
  process_bd_req rpcfg_plain (mk_oracle tab0 true) (Some w0) =
  Ok {| q_has4 := true; q_has6 := true; q_port := PRange 1024 65535; q_overridden := false |}.
Proof. vm_compute. reflexivity. Qed.
Example ex_bdreq_no_body : process_bd_req rpcfg_plain (mk_oracle tab0 true) (Some w_nopayload) = Err ENoC2SBody.
Proof. reflexivity. Qed.
Example ex_bdreq_enforced_override :
  process_bd_req (rpcfg_enf sub24) (enf_oracle tab0) (Some w0) =
  Ok {| q_has4 := true; q_has6 := true; q_port := PRange 1024 65535; q_overridden := true |}.
Proof. vm_compute. reflexivity. Qed.
(* the two configuration panics fixed in /repo (e9db4b8, 04f7448): a /0 override subnet and a prefix id one past
   the table are now errors (the override is not applied) ... *)
Definition sub_slash0 : ovsubnet := {| os_nil := false; os_v4 := true; os_hostbits := 32; os_prefix_id := 0%Z |}.
Example ex_bdreq_slash0_no_override :
  process_bd_req (rpcfg_enf sub_slash0) (enf_oracle tab0) (Some w0) =
  Ok {| q_has4 := true; q_has6 := true; q_port := PRange 1024 65535; q_overridden := false |}.
Proof. vm_compute. reflexivity. Qed.
Definition w0_prefix : wrapper :=
  {| w_secret := Some (repeat 7 32);
     w_payload := Some {| cs_gen := Some 957; cs_libver := Some 4; cs_disable := None; cs_transport := Some 4;
                          cs_params := Some {| a_url := UExact TPrefix; a_gen := None; a_pref := Some {| p_id := Some 1%Z; p_rand := None |}; a_dtls := None |};
                          cs_v4 := Some true; cs_v6 := None |};
     w_source := None; w_regaddr := None; w_decoyaddr := None; w_resp := None |}.
Example ex_try_from_id : try_from_id [0; 1]%Z 2 = Ok false /\ try_from_id [0; 1]%Z 1 = Ok true /\ try_from_id [0; 1]%Z (-1) = Ok true
                         /\ try_from_id [0; 1]%Z (-2) = Ok false /\ try_from_id [0; 1]%Z 2147483647 = Ok false.
Proof. repeat split; reflexivity. Qed.
(* ... while the code as it was panics on exactly these configurations (the model of the old code is the same
   definition with the guard switched off) *)
Example ex_old_slash0_panics : rand_uint32_ipv4_gen false sub_slash0 = Panic.
Proof. reflexivity. Qed.
Example ex_old_try_from_id_past_table_panics : try_from_id_gen false [0; 1]%Z 2 = Panic.
Proof. reflexivity. Qed.
(* what remains a hypothesis: the keys of DefaultPrefixes are 0..n-1 (dump-checked on every run) and exclusions parsed *)
Example ex_try_from_id_hole_panics : try_from_id [0; 2]%Z 1 = Panic.
Proof. reflexivity. Qed.

(* ---- HTTP: statuses, and finding #8 *)
Definition req0 (body : option wrapper) : httpreq :=
  {| h_post := true; h_remote := Some (repeat 0 10 ++ [255; 255; 127; 0; 0; 1]); h_remote_loopback := true;
     h_xff := [[Some v6ip; None]]; h_clen := 40; h_blen := 40; h_read_ok := true; h_body := body |}.
Example ex_req0_wf : wf_req (req0 None). Proof. repeat constructor; discriminate. Qed.
Example ex_http_bidi_ok : handle_register_bidi rpcfg_plain (mk_oracle tab0 true) (Some 900) (req0 (Some w0)) = Ok (200, false).
Proof. vm_compute. reflexivity. Qed.
Example ex_http_bidi_newer_cc :
  handle_register_bidi rpcfg_plain (mk_oracle tab0 true) (Some 1000) (req0 (Some w0)) = Ok (500, false).   (* server generation unknown to the selector *)
Proof. vm_compute. reflexivity. Qed.
Example ex_http_bidi_no_payload_fixed :
  handle_register_bidi rpcfg_plain (mk_oracle tab0 true) (Some 1000) (req0 (Some w_nopayload)) = Ok (400, false).
Proof. vm_compute. reflexivity. Qed.
(* finding #8: the handler as it was before 3969bad gives this request no status line *)
Example ex_http_bidi_no_payload_unfixed_panics :
  api_unfixed rpcfg_plain tab0 (Some 1000) (req0 (Some w_nopayload)) = Panic.
Proof. vm_compute. reflexivity. Qed.
Example ex_http_body_too_large :
  handle_register_bidi rpcfg_plain (mk_oracle tab0 true) None
    {| h_post := true; h_remote := Some v6ip; h_remote_loopback := false; h_xff := []; h_clen := 1048577; h_blen := 1048577;
       h_read_ok := true; h_body := Some w0 |} = Ok (400, false).
Proof. vm_compute. reflexivity. Qed.
Example ex_http_uni : handle_register rpcfg_plain (mk_oracle tab0 true) (req0 (Some w_nopayload)) = Ok 204.
Proof. vm_compute. reflexivity. Qed.
Example ex_http_method : handle_register rpcfg_plain (mk_oracle tab0 true)
  {| h_post := false; h_remote := Some v6ip; h_remote_loopback := false; h_xff := []; h_clen := 40; h_blen := 40; h_read_ok := true; h_body := None |} = Ok 405.
Proof. vm_compute. reflexivity. Qed.
(* the Split hypothesis is needed *)
Example ex_http_empty_split_panics :
  handle_register rpcfg_plain (mk_oracle tab0 true)
  {| h_post := true; h_remote := Some v6ip; h_remote_loopback := false; h_xff := [[]]; h_clen := 40; h_blen := 40; h_read_ok := true; h_body := None |} = Panic.
Proof. vm_compute. reflexivity. Qed.

(* ---- DNS *)
Definition dom0 : name := [unhex "74"; unhex "6578616d706c65"; unhex "636f6d"].
(* header, one question "ab.t.example.com" TXT IN, one OPT record *)
Definition pkt0 : bytes :=
  unhex "000701000001000000000001026162017407" ++ unhex "6578616d706c6503636f6d0000100001" ++ unhex "0000291000000000000000".
Example ex_dns_parse :
  match message_from_wire pkt0 with
  | Ok (m, None) => (length (m_q m) =? 1)%nat && (length (m_ar m) =? 1)%nat
  | _ => false
  end = true.
Proof. vm_compute. reflexivity. Qed.
Example ex_dns_recv_process :
  dns_recv dom0 1232 (fun k => if Nat.eqb k 1 then Some [2; 7; 9] else None) pkt0 =
  Ok (DProcess {| dr_flags := 33792; dr_nadd := 1; dr_add_ttl := 0 |} [7; 9]).
Proof. vm_compute. reflexivity. Qed.
(* a name that points at itself: the pointer budget ends the loop *)
Definition pkt_loop : bytes := unhex "000500000001000000000000" ++ unhex "c00c" ++ unhex "00100001".
Example ex_dns_pointer_loop :
  match message_from_wire pkt_loop with Ok (_, Some ETooManyPointers) => true | _ => false end = true.
Proof. vm_compute. reflexivity. Qed.
Example ex_dns_pointer_loop_recv :
  dns_recv dom0 1232 (fun _ => None) pkt_loop = Ok (DRespond {| dr_flags := 32769; dr_nadd := 0; dr_add_ttl := 0 |}).
Proof. vm_compute. reflexivity. Qed.
(* NewName's guard is what makes WriteName safe: on an arbitrary name the guard does panic *)
Example ex_write_name_guard_panics : write_name_guard [[]] = Panic. Proof. reflexivity. Qed.
Example ex_remove_request_format : remove_request_format [3; 1; 2] = Err EShort /\ remove_request_format [2; 1; 2; 9] = Ok [1; 2].
Proof. split; reflexivity. Qed.
Example ex_dns_process_request :
  dns_process_request rpcfg_plain (mk_oracle tab0 true) (Some w_nopayload) = Ok true /\
  dns_process_request rpcfg_plain (mk_oracle tab0 true) None = Err EUnmarshal.
Proof. split; vm_compute; reflexivity. Qed.

(* ---- second wave: downstream *)
Definition ireg0 : ireg :=
  {| ir_nil := false; ir_keys := Some (repeat 7 32); ir_phantom := Some v4ip; ir_source := Some 1; ir_transport_known := true;
     ir_prescanned := false; ir_has_c2s := true; ir_c2s_v4 := true; ir_connecting := Some (PDtls (Some {| d_rand := None |})) |}.
Definition io0 : ioracle := {| io_blocklisted := false; io_exists := false; io_covert_ok := true; io_live := false; io_share := true |}.
Example ex_ingest_added : ingest_registration ireg0 io0 = Ok (IAdded true (Some (Ok tt))).
Proof. vm_compute. reflexivity. Qed.
Example ex_ingest_live_dropped :
  ingest_registration ireg0 {| io_blocklisted := false; io_exists := false; io_covert_ok := true; io_live := true; io_share := true |} = Ok (IDropped 6).
Proof. vm_compute. reflexivity. Qed.
(* ValidateRegistration is what makes the later dereferences safe: String() on a registration without keys panics *)
Example ex_reg_string_nil_keys_panics :
  reg_string {| ir_nil := false; ir_keys := None; ir_phantom := Some v4ip; ir_source := Some 1; ir_transport_known := true;
                ir_prescanned := false; ir_has_c2s := false; ir_c2s_v4 := false; ir_connecting := None |} = Panic.
Proof. reflexivity. Qed.
Example ex_ingest_nil_keys_dropped :
  ingest_registration {| ir_nil := false; ir_keys := None; ir_phantom := Some v4ip; ir_source := Some 1; ir_transport_known := true;
                         ir_prescanned := false; ir_has_c2s := false; ir_c2s_v4 := false; ir_connecting := None |} io0 = Ok (IDropped 1).
Proof. reflexivity. Qed.
(* Connect is NOT safe on a typed-nil parameter pointer; ParseParams never produces one *)
Example ex_dtls_connect_typed_nil_panics : dtls_connect_params (PDtls None) = Panic.
Proof. reflexivity. Qed.
Example ex_dtls_connect_wrong_type : dtls_connect_params PNil = Err EParams.
Proof. reflexivity. Qed.
Example ex_worker : worker stcfg0 sto0 (Some w0) {| io_blocklisted := false; io_exists := false; io_covert_ok := true; io_live := true; io_share := false |} = Ok (1, 0).
Proof. vm_compute. reflexivity. Qed.     (* the IPv4 phantom answers a probe: only the IPv6 registration is announced *)
(* work bounds are met with equality on some inputs *)
Example ex_prefix_iters : prefix_loop_iters (fun _ => None) (repeat 9 70) tbl0 = 2%nat.
Proof. vm_compute. reflexivity. Qed.

(* ---- statistics epoch *)
(* the split variant (lookup / create / increment in three regions) crashes when the epoch changes between
   "create" and "increment": worker steps twice, Reset runs, worker increments through a nil counter *)
Example ex_stats_split_epoch_panics :
  run_all [0; 0; 1; 1; 1]%nat [mkT false (addreg_split_prog (957, 1, 4)); thread_of (TReset 1)] s_empty = Panic.
Proof. vm_compute. reflexivity. Qed.
(* also with the counter already there when the worker looks (the remembered lookup is stale after the swap) *)
Example ex_stats_split_stale_lookup_panics :
  run_all [0; 1; 1; 1; 1]%nat [mkT false (addreg_split_prog (957, 1, 4)); thread_of (TTicker 1)] (mkS [(957, 5)] [] []) = Panic.
Proof. vm_compute. reflexivity. Qed.
(* the same schedules on the programs of the code *)
Example ex_stats_pinned_same_schedule :
  run_all [0; 0; 1; 1; 1]%nat [thread_of (TWorker [(957, 1, 4)]); thread_of (TReset 1)] s_empty = Ok (mkS [] [] [(4, 1)]).
Proof. vm_compute. reflexivity. Qed.
(* without an epoch change in the window the split variant counts like the code *)
Example ex_stats_split_no_reset_ok :
  run_all [0; 1; 0; 1; 0; 1]%nat [mkT false (addreg_split_prog (1, 2, 3)); mkT false (addreg_split_prog (1, 2, 3))] s_empty
  = Ok (mkS [(1, 2); (1, 0)] [(2, 2)] [(3, 2)]).
Proof. vm_compute. reflexivity. Qed.
Example ex_stats_two_workers_ticker :
  run_all [0; 2; 1; 2; 0; 1; 2; 2]%nat [thread_of (TWorker [(1, 2, 3); (1, 1, 3)]); thread_of (TWorker [(1, 2, 3)]); thread_of (TTicker 1)] s_empty
  = Ok (mkS [(1, 1)] [] []).
Proof. vm_compute. reflexivity. Qed.
(* connStats: accounting of a connection against the verbose ticker, one lock for both per-ASN maps *)
Example ex_connstats_epoch :
  run_all [0; 1; 0]%nat [thread_of (TConn true 64500 2); thread_of (TConnTicker 1)] s_empty = Ok (mkS5 [] [] [] [(64500, 1)] []).
Proof. vm_compute. reflexivity. Qed.
(* ... and what the same epoch change does to accounting that creates and increments in separate regions *)
Example ex_connstats_split_panics :
  run_all [0; 0; 1]%nat [mkT false (addreg_split_map MAsn4 64500); thread_of (TConnReset 1)] s_empty = Panic.
Proof. vm_compute. reflexivity. Qed.
