(* C11 property theorems: statements + `exact lemma` only.
   "No externally supplied bytes can crash a station or registrar process; an
   HTTP registration request always receives a status line."  One theorem per
   external entry point: for every input (and every verdict of the libraries
   and of the phantom selector, which are universally quantified oracles) the
   model returns Ok or Err, never Panic.  All model functions are total Coq
   functions, so termination is part of each statement; the one loop whose
   termination is not structural (dns.readName, which may jump backwards through
   compression pointers) has its own termination theorems. *)
From CJ Require Import Common.Base C11.Model C11.ProofsMsg C11.ProofsFlight C11.ProofsDns C11.ProofsDown C11.ProofsStats C11.ProofsHdr.

(* ---- transports: ParseParams / GetDstPort of min, obfs4, prefix, dtls *)
Theorem C11_entry_total_no_panic_parse_params :
  forall t libver data, parse_params t libver data <> Panic.
Proof. exact parse_params_np. Qed.
Print Assumptions C11_entry_total_no_panic_parse_params.

Theorem C11_entry_total_no_panic_get_dst_port :
  forall t libver params, get_dst_port t libver params <> Panic.
Proof. exact get_dst_port_np. Qed.
Print Assumptions C11_entry_total_no_panic_get_dst_port.

(* ---- station, ZMQ ingest: parseRegMessage / NewRegistrationC2SWrapper / NewRegistration *)
Theorem C11_entry_total_no_panic_zmq_ingest :
  forall cfg o view, wf_storacle o -> parse_reg_message cfg o view <> Panic.
Proof. exact parse_reg_message_np. Qed.
Print Assumptions C11_entry_total_no_panic_zmq_ingest.

(* ---- station, first flight: min / prefix / obfs4 WrapConnection, findMarkMac *)
Theorem C11_entry_total_no_panic_min_flight :
  forall lookup data, min_wrap lookup data <> Panic.
Proof. exact min_wrap_np. Qed.
Print Assumptions C11_entry_total_no_panic_min_flight.

Theorem C11_entry_total_no_panic_prefix_flight :
  forall getreg tbl data, tbl_wf tbl = true -> prefix_wrap getreg tbl data <> Panic.
Proof. exact prefix_wrap_np. Qed.
Print Assumptions C11_entry_total_no_panic_prefix_flight.

Theorem C11_entry_total_no_panic_find_mark_mac :
  forall buflen startPos maxPos fromTail tail_eq index_of,
    (0 <= startPos)%Z -> (0 <= buflen)%Z ->
    find_mark_mac 16 buflen startPos maxPos fromTail tail_eq index_of <> Panic.
Proof. exact find_mark_mac_np. Qed.
Print Assumptions C11_entry_total_no_panic_find_mark_mac.

Theorem C11_entry_total_no_panic_obfs4_flight :
  forall regs data, obfs4_wrap regs data <> Panic.
Proof. exact obfs4_wrap_np. Qed.
Print Assumptions C11_entry_total_no_panic_obfs4_flight.

(* ---- registrar: processBdReq / processC2SWrapper *)
Theorem C11_entry_total_no_panic_process_bd_req :
  forall cfg o w, wf_rpcfg cfg -> wf_rporacle o -> process_bd_req cfg o w <> Panic.
Proof. exact process_bd_req_np. Qed.
Print Assumptions C11_entry_total_no_panic_process_bd_req.

Theorem C11_entry_total_no_panic_process_c2s_wrapper :
  forall cfg w, wf_rpcfg cfg -> process_c2s_wrapper cfg w <> Panic.
Proof. exact process_c2s_wrapper_np. Qed.
Print Assumptions C11_entry_total_no_panic_process_c2s_wrapper.

(* ---- registrar, HTTP: every request gets a status line *)
Theorem C11_http_always_status_unidirectional :
  forall cfg o r, wf_rpcfg cfg -> wf_req r -> is_status (handle_register cfg o r).
Proof. exact handle_register_status. Qed.
Print Assumptions C11_http_always_status_unidirectional.

Theorem C11_http_always_status_bidirectional :
  forall cfg o srv_gen r, wf_rpcfg cfg -> wf_rporacle o -> wf_req r ->
    is_status (handle_register_bidi cfg o srv_gen r).
Proof. exact handle_register_bidi_status. Qed.
Print Assumptions C11_http_always_status_bidirectional.

(* ---- registrar, DNS: the name reader terminates (measure: pointer budget x (len+2) + bytes remaining) *)
Theorem C11_dns_read_name_measure_decreases :
  forall fuel msg pos labels nptr seekto,
    nptr <= pointer_limit -> rn_measure msg pos nptr < N.of_nat fuel ->
    read_name_fuel fuel msg pos labels nptr seekto <> None.
Proof. exact read_name_fuel_enough. Qed.
Print Assumptions C11_dns_read_name_measure_decreases.

Theorem C11_dns_read_name_terminates :
  forall msg pos, read_name_fuel (name_fuel msg) msg pos [] 0 0 <> None.
Proof. exact read_name_terminates. Qed.
Print Assumptions C11_dns_read_name_terminates.

Theorem C11_entry_total_no_panic_dns_read_name :
  forall msg pos, read_name msg pos <> Panic.
Proof. exact read_name_np. Qed.
Print Assumptions C11_entry_total_no_panic_dns_read_name.

Theorem C11_entry_total_no_panic_dns_read_message :
  forall pkt, message_from_wire pkt <> Panic.
Proof. exact message_from_wire_np. Qed.
Print Assumptions C11_entry_total_no_panic_dns_read_message.

Theorem C11_entry_total_no_panic_dns_response_for :
  forall q domain maxudp b32, response_for q domain maxudp b32 <> Panic.
Proof. exact response_for_np. Qed.
Print Assumptions C11_entry_total_no_panic_dns_response_for.

Theorem C11_entry_total_no_panic_remove_request_format :
  forall p, remove_request_format p <> Panic.
Proof. exact remove_request_format_np. Qed.
Print Assumptions C11_entry_total_no_panic_remove_request_format.

(* the goroutine body of Responder.RecvAndRespond up to the noise layer, including the
   WriteName guard on the way out: names parsed from the wire are always writable *)
Theorem C11_entry_total_no_panic_dns_recv :
  forall domain maxudp b32 pkt, dns_recv domain maxudp b32 pkt <> Panic.
Proof. exact dns_recv_np. Qed.
Print Assumptions C11_entry_total_no_panic_dns_recv.

Theorem C11_entry_total_no_panic_dns_process_request :
  forall cfg o view, wf_rpcfg cfg -> wf_rporacle o -> dns_process_request cfg o view <> Panic.
Proof. exact dns_process_request_np. Qed.
Print Assumptions C11_entry_total_no_panic_dns_process_request.

(* ---- second wave: downstream of the entry points *)
(* ingestRegistration (the ingest worker's body after parseRegMessage) on ANY registration object *)
Theorem C11_entry_total_no_panic_ingest_registration :
  forall r o, ingest_registration r o <> Panic.
Proof. exact ingest_registration_np. Qed.
Print Assumptions C11_entry_total_no_panic_ingest_registration.

(* dtls.Transport.Connect never meets a typed-nil parameter pointer: what ParseParams produced is safe to use *)
Theorem C11_dtls_connect_params_after_parse_no_panic :
  forall libver data p, parse_params TrDtls libver data = Ok p -> dtls_connect_params p <> Panic.
Proof. exact dtls_connect_after_parse_np. Qed.
Print Assumptions C11_dtls_connect_params_after_parse_no_panic.

Theorem C11_ingest_connect_no_panic :
  forall r o shared c, connecting_ok r -> ingest_registration r o = Ok (IAdded shared (Some c)) -> c <> Panic.
Proof. exact ingest_connect_np. Qed.
Print Assumptions C11_ingest_connect_no_panic.

(* prefix.TryFromID + the method calls overridePrefix makes on the result (bound check `>=`, 04f7448) *)
Theorem C11_try_from_id_no_panic :
  forall ids id, (forall i, (0 <= i < Z.of_nat (length ids))%Z -> In i ids) -> try_from_id ids id <> Panic.
Proof. exact try_from_id_np. Qed.
Print Assumptions C11_try_from_id_no_panic.

(* ---- "never hangs" for the first-flight scans: the loops run at most once per table entry / per registration
   of the phantom, and each iteration looks at a number of bytes bounded by the input length *)
Theorem C11_never_hangs_prefix_flight :
  forall getreg data tbl,
    (prefix_loop_iters getreg data tbl <= length tbl)%nat /\
    (forall x, 0 <= prefix_step_work data x <= zlen data + 64)%Z.
Proof. exact prefix_flight_work. Qed.
Print Assumptions C11_never_hangs_prefix_flight.

Theorem C11_never_hangs_obfs4_flight :
  forall buflen regs, (obfs4_loop_iters buflen regs <= length regs)%nat.
Proof. exact obfs4_loop_iters_bounded. Qed.
Print Assumptions C11_never_hangs_obfs4_flight.

Theorem C11_never_hangs_find_mark_mac :
  forall buflen startPos maxPos fromTail,
    (0 <= startPos)%Z -> (0 <= find_mark_mac_work buflen startPos maxPos fromTail <= Z.max 16 buflen)%Z.
Proof. exact find_mark_mac_work_bounded. Qed.
Print Assumptions C11_never_hangs_find_mark_mac.

(* ---- "never hangs" for the DNS section loops: whatever the counts in the header say (up to 65535 each), the
   loops stop at the first failed read and every successful read moves the reader forward *)
Theorem C11_never_hangs_dns_questions :
  forall msg count l e p,
    read_many read_question count msg 12 [] = Ok (l, e, p) -> 12 <= blen msg -> N.of_nat (length l) <= blen msg.
Proof. exact questions_bounded_by_length. Qed.
Print Assumptions C11_never_hangs_dns_questions.

Theorem C11_never_hangs_dns_records :
  forall count msg pos acc l e p,
    read_many read_rr count msg pos acc = Ok (l, e, p) -> N.of_nat (length l) + pos <= N.of_nat (length acc) + p.
Proof. exact read_many_rr_bounded. Qed.
Print Assumptions C11_never_hangs_dns_records.

(* ---- fourth wave: ingest of registrations running concurrently with the statistics epoch.
   Threads are lists of lock-protected regions (each one atomic step), a schedule picks the thread that
   takes the next step.  For any number of ingest workers accounting any registrations, any number of
   Reset callers and statistics tickers, every schedule and every initial content of the three maps: the
   run ends normally -- no interleaving reaches the nil dereference. *)
Theorem C11_stats_epoch_no_panic :
  forall (ks : list tkind) (sched : list nat) (s : sstate), exists s', run_all sched (map thread_of ks) s = Ok s'.
Proof. exact stats_epoch_ok. Qed.
Print Assumptions C11_stats_epoch_no_panic.

(* ... and no configuration reachable on the way is one (every prefix of a schedule is a schedule) *)
Theorem C11_stats_epoch_reachable_no_panic :
  forall (ks : list tkind) (sched : list nat) (s : sstate), run_sched sched (map thread_of ks) s <> Panic.
Proof. exact stats_epoch_reach_np. Qed.
Print Assumptions C11_stats_epoch_reachable_no_panic.

(* the class, not the three programs: ANY threads whose regions never increment a counter they did not
   ensure in the same region (double-checked creation, extra lookups, other orders of the maps, ...) *)
Theorem C11_stats_epoch_safe_regions_no_panic :
  forall (sched : list nat) (ts : list thread) (s : sstate),
    forallb safe_thread ts = true -> exists s', run_all sched ts s = Ok s'.
Proof. exact run_all_safe_ok. Qed.
Print Assumptions C11_stats_epoch_safe_regions_no_panic.

(* ---- fourth wave, HTTP header dimension: the precondition wf_req of the two status theorems is discharged for
   the concrete strings.Split -- for ANY raw X-Forwarded-For header values (absent, empty, separators only, any
   number of items, any number of header lines, any bytes) and whatever ParseIP makes of the items *)
Theorem C11_http_always_status_raw_headers_unidirectional :
  forall cfg o r (classify : bytes -> option bytes) (values : list bytes),
    wf_rpcfg cfg -> is_status (handle_register cfg o (set_xff r (xff_items classify values))).
Proof. exact handle_register_status_raw. Qed.
Print Assumptions C11_http_always_status_raw_headers_unidirectional.

Theorem C11_http_always_status_raw_headers_bidirectional :
  forall cfg o srv_gen r (classify : bytes -> option bytes) (values : list bytes),
    wf_rpcfg cfg -> wf_rporacle o -> is_status (handle_register_bidi cfg o srv_gen (set_xff r (xff_items classify values))).
Proof. exact handle_register_bidi_status_raw. Qed.
Print Assumptions C11_http_always_status_raw_headers_bidirectional.

Theorem C11_header_split_never_empty :
  forall sep s, go_split sep s <> [] /\ length (go_split sep s) = S (count_sep sep s).
Proof. exact go_split_shape. Qed.
Print Assumptions C11_header_split_never_empty.
