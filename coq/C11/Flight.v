(* C11 model, part 2: first-flight classification — the slicing of attacker
   bytes in min / prefix / obfs4 WrapConnection and findMarkMac.  Crypto and
   the registration map are oracles; every index/slice is explicit.
   Definitions only; executable. *)
From CJ Require Export C11.Prim C11.Msg.

Definition zlen {A} (l : list A) : Z := Z.of_nat (length l).

(* ------------------------------------------------------------------ min *)
(* lookup: does the registry of this phantom hold the 32-byte identifier? *)
Definition min_wrap (lookup : bytes -> bool) (data : bytes) : res Z (* bytes consumed *) :=
  if (zlen data <? 32)%Z then Err ETryAgain else
  id <- slice data 0 32 ;;
  if lookup id then Ok 32%Z else Err ENotTransport.

(* ------------------------------------------------------------------ CTRObfuscator.TryReveal *)
(* Ok true: revealed something (crypto outside the model) *)
Definition ctr_try_reveal (ct : bytes) : res bool :=
  if (zlen ct <? 32)%Z then Ok false else
  _ <- slice ct 0 32 ;;
  _ <- slice ct 32 (zlen ct) ;;
  Ok true.

(* ------------------------------------------------------------------ prefix *)
(* a registration as tryFindReg looks at it *)
Record regview := { rv_is_prefix : bool;     (* TransportType() == Prefix *)
                    rv_params : pval }.      (* TransportParams() *)

Inductive pstep := SSkip | SAgain | SWrongPrefix | SReturn (r : res Z).

(* one iteration of the loop over SupportedPrefixes; getreg: what getReg finds for the
   64 bytes at this prefix's offset *)
Definition prefix_step (getreg : Z -> option regview) (data : bytes) (x : pfx) : res pstep :=
  m <- (match x_static x with
        | [] => Ok true
        | st => let ml := Z.min (zlen st) (zlen data) in
                a <- slice st 0 ml ;; b <- slice data 0 ml ;; Ok (bytes_eqb a b)
        end) ;;
  if negb m then Ok SSkip else
  if (zlen data <? x_minlen x)%Z then Ok SAgain else
  if ((zlen data <? x_offset x + 64) && (zlen data <? x_maxlen x))%Z then Ok SAgain else
  if (zlen data <? x_maxlen x)%Z then Ok SSkip else
  id <- slice data (x_offset x) (x_offset x + 64) ;;
  _ <- ctr_try_reveal id ;;
  match getreg (x_offset x) with
  | None => Ok SSkip
  | Some reg =>
      if negb (rv_is_prefix reg) then Ok (SReturn (Err EWrongTransport)) else
      match rv_params reg with
      | PPref (Some p) => if (getz (p_id p) =? x_id x)%Z then Ok (SReturn (Ok (x_offset x + 64)%Z)) else Ok SWrongPrefix
      | _ => Ok SWrongPrefix      (* assertion !ok (also an untyped nil) or a nil pointer; GetPrefixId on nil is safe *)
      end
  end.

Fixpoint prefix_loop (getreg : Z -> option regview) (data : bytes) (tbl : list pfx) (again wrong : bool) : res Z :=
  match tbl with
  | [] => if negb again && wrong then Err EWrongPrefix
          else if again then Err ETryAgain else Err ENotTransport
  | x :: r =>
      s <- prefix_step getreg data x ;;
      match s with
      | SSkip => prefix_loop getreg data r again wrong
      | SAgain => prefix_loop getreg data r true wrong
      | SWrongPrefix => prefix_loop getreg data r again true
      | SReturn v => v
      end
  end.

Definition prefix_wrap (getreg : Z -> option regview) (tbl : list pfx) (data : bytes) : res Z :=
  if (zlen data <? 64)%Z then Err ETryAgain else
  if (zlen data =? 0)%Z then Err ETryAgain else
  prefix_loop getreg data tbl false false.

(* the table property the slicing relies on *)
Definition pfx_wf (x : pfx) : bool :=
  ((0 <=? x_offset x) && (x_offset x + 64 <=? x_maxlen x))%Z.
Definition tbl_wf (t : list pfx) : bool := forallb pfx_wf t.

(* ------------------------------------------------------------------ obfs4 *)
(* findMarkMac(mark, buf, startPos, maxPos, fromTail); mark_at: does buf[pos:pos+16] equal the mark /
   where does bytes.Index find it.  Returns pos (-1: not found). *)
Definition find_mark_mac (marklen : Z) (buflen : Z) (startPos maxPos : Z) (fromTail : bool)
                         (tail_eq : bool) (index_of : option Z) : res Z :=
  if negb (marklen =? 16)%Z then Panic else                  (* explicit panic("BUG: Invalid mark length") *)
  if (buflen <? startPos)%Z then Ok (-1)%Z else
  let endPos := if (maxPos <? buflen)%Z then maxPos else buflen in
  if (endPos - startPos <? 32)%Z then Ok (-1)%Z else
  if fromTail then
    let pos := (endPos - 32)%Z in
    (* buf[pos:pos+16] *)
    if ((pos <? 0) || (buflen <? pos + 16))%Z then Panic else
    if tail_eq then Ok pos else Ok (-1)%Z
  else
    (* buf[startPos:endPos] *)
    if ((startPos <? 0) || (endPos <? startPos) || (buflen <? endPos))%Z then Panic else
    match index_of with
    | None => Ok (-1)%Z
    | Some p => if (endPos <? startPos + p + 32)%Z then Ok (-1)%Z else Ok (p + startPos)%Z
    end.

(* the same with the buffer described by the position of the (unique) occurrence of the mark *)
Definition find_mark_mac_at (marklen buflen startPos maxPos : Z) (fromTail : bool) (mark_at : option Z) : res Z :=
  let endPos := if (maxPos <? buflen)%Z then maxPos else buflen in
  let tail_eq := match mark_at with Some a => (a =? endPos - 32)%Z | None => false end in
  let index_of := match mark_at with
                  | Some a => if ((startPos <=? a) && (a + marklen <=? endPos))%Z then Some (a - startPos)%Z else None
                  | None => None
                  end in
  find_mark_mac marklen buflen startPos maxPos fromTail tail_eq index_of.

(* one obfs4 registration of the phantom, as WrapConnection looks at it *)
Record oreg := { or_nil : bool; or_keys_ok : bool; or_mark_eq : bool }.

Fixpoint obfs4_loop (buflen : Z) (regs : list oreg) : res bool (* true: a registration matched *) :=
  match regs with
  | [] => Ok false
  | r :: rest =>
      if or_nil r then Err EBrokenReg else
      if negb (or_keys_ok r) then Err EBrokenReg else
      pos <- find_mark_mac 16 buflen 109 8192 true (or_mark_eq r) None ;;
      if (pos =? -1)%Z then obfs4_loop buflen rest else Ok true
  end.

Definition obfs4_wrap (regs : list oreg) (data : bytes) : res unit (* Ok: handed to the obfs4 library *) :=
  if (zlen data <? 64)%Z then Err ETryAgain else
  _ <- slice data 0 32 ;;
  m <- obfs4_loop (zlen data) regs ;;
  if m then Ok tt else
  if (zlen data <? 8192)%Z then Err ETryAgain else Err ENotTransport.
