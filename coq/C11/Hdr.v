(* C11 model, fourth wave: the header dimension of the registrar's HTTP front end.
   getRemoteAddr reads every X-Forwarded-For value the request carries, takes the LAST header line,
   splits it with strings.Split(value, ",") and indexes the result from the back.  Msg.v takes the split
   items as input and has the precondition wf_req ("no value splits into an empty list") -- here the split
   itself is modelled on the raw bytes of the header values, so that the precondition is a lemma. *)
From CJ Require Import Common.Base C11.Prim C11.Msg.
From Coq Require Import List NArith Bool.
Import ListNotations.

(* strings.Split(s, sep) for a one-byte separator: n separators give n+1 items, also for the empty string *)
Fixpoint split_on (sep : N) (s : bytes) (cur : bytes) : list bytes :=
  match s with
  | [] => [rev cur]
  | b :: r => if N.eqb b sep then rev cur :: split_on sep r [] else split_on sep r (b :: cur)
  end.

Definition go_split (sep : N) (s : bytes) : list bytes := split_on sep s [].

Definition comma : N := 44.

(* classify: net.ParseIP(strings.TrimSpace(item)) -- any function *)
Definition xff_items (classify : bytes -> option bytes) (values : list bytes) : list (list (option bytes)) :=
  map (fun v => map classify (go_split comma v)) values.

Definition set_xff (r : httpreq) (x : list (list (option bytes))) : httpreq :=
  {| h_post := h_post r; h_remote := h_remote r; h_remote_loopback := h_remote_loopback r; h_xff := x;
     h_clen := h_clen r; h_blen := h_blen r; h_read_ok := h_read_ok r; h_body := h_body r |}.

Fixpoint count_sep (sep : N) (s : bytes) : nat :=
  match s with [] => O | b :: r => if N.eqb b sep then S (count_sep sep r) else count_sep sep r end.

