(* C11 model, part 3: the DNS registrar's responder — dns.readName /
   readQuestion / readRR / readMessage / MessageFromWireFormat over raw bytes,
   Responder.responseFor, msgformat.RemoveRequestFormat, the name guard in
   WriteName on the way out, and dnsregserver.processRequest.
   Definitions only; executable. *)
From CJ Require Export C11.Prim C11.Msg.

(* ------------------------------------------------------------------ bytes.Reader *)
Definition read_u8 (msg : bytes) (pos : N) : option N := nth_error msg (N.to_nat pos).

Definition read_bytes (msg : bytes) (pos n : N) : option bytes :=
  if n =? 0 then Some []
  else if pos + n <=? blen msg then Some (take n (drop pos msg)) else None.

Definition read_u16 (msg : bytes) (pos : N) : option N :=
  match read_bytes msg pos 2 with
  | Some [a; b] => Some (a * 256 + b)
  | _ => None
  end.
Definition read_u32 (msg : bytes) (pos : N) : option N :=
  match read_bytes msg pos 4 with
  | Some [a; b; c; d] => Some (((a * 256 + b) * 256 + c) * 256 + d)
  | _ => None
  end.

(* ------------------------------------------------------------------ names *)
Definition name := list bytes.

Definition wire_len (n : name) : N := fold_right (fun l acc => 1 + blen l + acc) 1 n.

(* messageBuilder.WriteName: explicit panic(length) on a label of length 0 or > 63 *)
Fixpoint write_name_guard (n : name) : res unit :=
  match n with
  | [] => Ok tt
  | l :: r => if (blen l =? 0) || (63 <? blen l) then Panic else write_name_guard r
  end.

(* dns.NewName *)
Definition new_name (labels : name) : res name :=
  if existsb (fun l => (blen l =? 0) || (63 <? blen l)) labels then Err EBadLabel else
  _ <- write_name_guard labels ;;
  if 255 <? wire_len labels then Err ENameTooLong else Ok labels.

Definition pointer_limit : N := 10.

(* dns.readName.  None: out of fuel (never, see Proofs).  Ok (name, position after the name). *)
Fixpoint read_name_fuel (fuel : nat) (msg : bytes) (pos : N) (labels : name) (nptr seekto : N)
  : option (res (name * N)) :=
  match fuel with
  | O => None
  | S f =>
    match read_u8 msg pos with
    | None => Some (Err EEof)
    | Some lt =>
      let top := lt / 64 in
      if top =? 0 then
        let len := lt mod 64 in
        if len =? 0 then
          Some (n <- new_name labels ;; Ok (n, if 0 <? nptr then seekto else pos + 1))
        else match read_bytes msg (pos + 1) len with
             | None => Some (Err EEof)
             | Some label => read_name_fuel f msg (pos + 1 + len) (labels ++ [label]) nptr seekto
             end
      else if top =? 3 then
        match read_u8 msg (pos + 1) with
        | None => Some (Err EEof)
        | Some lower =>
          let offset := (lt mod 64) * 256 + lower in
          let seekto' := if nptr =? 0 then pos + 2 else seekto in
          if pointer_limit <? nptr + 1 then Some (Err ETooManyPointers)
          else read_name_fuel f msg offset labels (nptr + 1) seekto'
        end
      else Some (Err EReservedLabel)
    end
  end.

Definition name_fuel (msg : bytes) : nat := N.to_nat (11 * (blen msg + 2) + 1).

Definition read_name (msg : bytes) (pos : N) : res (name * N) :=
  match read_name_fuel (name_fuel msg) msg pos [] 0 0 with
  | Some r => r
  | None => Panic        (* cannot happen: read_name_fuel_enough *)
  end.

(* ------------------------------------------------------------------ messages *)
Record question := { q_name : name; q_type : N; q_class : N }.
Record rrec := { r_name : name; r_type : N; r_class : N; r_ttl : N; r_data : bytes }.
Record message := { m_id : N; m_flags : N; m_q : list question;
                    m_an : list rrec; m_ns : list rrec; m_ar : list rrec }.

Definition opt_eof {A} (o : option A) : res A := match o with Some a => Ok a | None => Err EEof end.

Definition read_question (msg : bytes) (pos : N) : res (question * N) :=
  '(n, p) <- read_name msg pos ;;
  t <- opt_eof (read_u16 msg p) ;;
  c <- opt_eof (read_u16 msg (p + 2)) ;;
  Ok ({| q_name := n; q_type := t; q_class := c |}, p + 4).

Definition read_rr (msg : bytes) (pos : N) : res (rrec * N) :=
  '(n, p) <- read_name msg pos ;;
  t <- opt_eof (read_u16 msg p) ;;
  c <- opt_eof (read_u16 msg (p + 2)) ;;
  ttl <- opt_eof (read_u32 msg (p + 4)) ;;
  rdl <- opt_eof (read_u16 msg (p + 8)) ;;
  d <- opt_eof (read_bytes msg (p + 10) rdl) ;;
  Ok ({| r_name := n; r_type := t; r_class := c; r_ttl := ttl; r_data := d |}, p + 10 + rdl).

(* `for i := 0; i < count; i++ { x, err := read(r); if err != nil { return } ; append }`:
   returns the items read, the error that stopped the loop (if any) and the position *)
Fixpoint read_many {A} (rd : bytes -> N -> res (A * N)) (count : nat) (msg : bytes) (pos : N) (acc : list A)
  : res (list A * option ecls * N) :=
  match count with
  | O => Ok (acc, None, pos)
  | S k => match rd msg pos with
           | Ok (a, p) => read_many rd k msg p (acc ++ [a])
           | Err e => Ok (acc, Some e, pos)
           | Panic => Panic
           end
  end.

Definition empty_message : message :=
  {| m_id := 0; m_flags := 0; m_q := []; m_an := []; m_ns := []; m_ar := [] |}.

(* dns.readMessage: the (possibly partial) message, the error, the position *)
Definition read_message (msg : bytes) : res (message * option ecls * N) :=
  (* header: six big-endian uint16; the fields read before a failure are kept *)
  let h k := read_u16 msg (2 * k) in
  match h 0 with None => Ok (empty_message, Some EEof, 0) | Some id =>
  match h 1 with None => Ok ({| m_id := id; m_flags := 0; m_q := []; m_an := []; m_ns := []; m_ar := [] |}, Some EEof, 2) | Some fl =>
  let m0 := {| m_id := id; m_flags := fl; m_q := []; m_an := []; m_ns := []; m_ar := [] |} in
  match h 2, h 3, h 4, h 5 with
  | Some qd, Some an, Some ns, Some ar =>
      '(qs, e, p) <- read_many read_question (N.to_nat qd) msg 12 [] ;;
      let m1 := {| m_id := id; m_flags := fl; m_q := qs; m_an := []; m_ns := []; m_ar := [] |} in
      match e with Some _ => Ok (m1, e, p) | None =>
      '(ans, e, p) <- read_many read_rr (N.to_nat an) msg p [] ;;
      let m2 := {| m_id := id; m_flags := fl; m_q := qs; m_an := ans; m_ns := []; m_ar := [] |} in
      match e with Some _ => Ok (m2, e, p) | None =>
      '(nss, e, p) <- read_many read_rr (N.to_nat ns) msg p [] ;;
      let m3 := {| m_id := id; m_flags := fl; m_q := qs; m_an := ans; m_ns := nss; m_ar := [] |} in
      match e with Some _ => Ok (m3, e, p) | None =>
      '(ars, e, p) <- read_many read_rr (N.to_nat ar) msg p [] ;;
      Ok ({| m_id := id; m_flags := fl; m_q := qs; m_an := ans; m_ns := nss; m_ar := ars |}, e, p)
      end end end
  | _, _, _, _ => Ok (m0, Some EEof, 4)
  end end end.

(* dns.MessageFromWireFormat *)
Definition message_from_wire (msg : bytes) : res (message * option ecls) :=
  '(m, e, p) <- read_message msg ;;
  match e with
  | Some e => Ok (m, Some e)
  | None => if p <? blen msg then Ok (m, Some ETrailing) else Ok (m, None)
  end.

(* ------------------------------------------------------------------ Responder.responseFor *)
Definition lower (b : N) : N := if (65 <=? b) && (b <=? 90) then b + 32 else b.
Definition label_eq_fold (a b : bytes) : bool := bytes_eqb (map lower a) (map lower b).

(* the loop `for i := 0; i < len(aft); i++ { if !eq(aft[i], suffix[i]) { return nil, false } }` *)
Fixpoint suffix_loop (aft suffix : name) (split : nat) (i fuel : nat) : res (option nat) :=
  match fuel with
  | O => Ok (Some split)
  | S f => if Nat.ltb i (length aft) then
             a <- index aft (Z.of_nat i) ;; s <- index suffix (Z.of_nat i) ;;
             if label_eq_fold a s then suffix_loop aft suffix split (S i) f else Ok None
           else Ok (Some split)
  end.

(* Name.TrimSuffix: the number of leading labels that remain, if the suffix is present *)
Definition trim_suffix (n suffix : name) : res (option nat) :=
  if Nat.ltb (length n) (length suffix) then Ok None else
  let split := (length n - length suffix)%nat in
  fore <- slice n 0 (Z.of_nat split) ;;
  aft <- slice n (Z.of_nat split) (Z.of_nat (length n)) ;;
  suffix_loop aft suffix split O (S (length aft)).

Record dnsresp := { dr_flags : N; dr_nadd : N; dr_add_ttl : N }.

Definition lor16 (a b : N) : N := N.lor a b.

(* the loop over query.Additional: Ok (inl early-response) or Ok (inr (nadd, payloadSize)) *)
Fixpoint opt_loop (ars : list rrec) (nadd : N) (psize : N) : dnsresp + (N * N) :=
  match ars with
  | [] => inr (nadd, psize)
  | rr :: rest =>
      if negb (r_type rr =? 41) then opt_loop rest nadd psize else
      if negb (nadd =? 0) then inl {| dr_flags := lor16 32768 1; dr_nadd := nadd; dr_add_ttl := 0 |} else
      let version := (r_ttl rr / 65536) mod 256 in
      if negb (version =? 0) then inl {| dr_flags := 32768; dr_nadd := 1; dr_add_ttl := 16777216 |} else
      opt_loop rest 1 (r_class rr)
  end.

(* b32: base32 decoding (library) of the upper-cased join of the first k labels of the question name *)
Definition response_for (q : message) (domain : name) (maxudp : N) (b32 : nat -> option bytes)
  : res (option (dnsresp * option bytes)) :=
  if N.testbit (m_flags q) 15 then Ok None else
  match opt_loop (m_ar q) 0 0 with
  | inl r => Ok (Some (r, None))
  | inr (nadd, psize) =>
    let psize := if psize <? 512 then 512 else psize in
    let mk fl := {| dr_flags := fl; dr_nadd := nadd; dr_add_ttl := 0 |} in
    if negb (Nat.eqb (length (m_q q)) 1) then Ok (Some (mk (lor16 32768 1), None)) else
    qu <- index (m_q q) 0 ;;
    t <- trim_suffix (q_name qu) domain ;;
    match t with
    | None => Ok (Some (mk (lor16 32768 3), None))
    | Some k =>
      let fl := lor16 32768 1024 in
      if negb ((m_flags q / 2048) mod 16 =? 0) then Ok (Some (mk (lor16 fl 4), None)) else
      if negb (q_type qu =? 16) then Ok (Some (mk (lor16 fl 3), None)) else
      match b32 k with
      | None => Ok (Some (mk (lor16 fl 3), None))
      | Some payload =>
          if psize <? maxudp then Ok (Some (mk (lor16 fl 1), None))
          else Ok (Some (mk fl, Some payload))
      end
    end
  end.

(* msgformat.RemoveRequestFormat *)
Definition remove_request_format (p : bytes) : res bytes :=
  match p with
  | [] => Err EShort
  | l :: _ => if (Z.of_nat (length p) <? 1 + Z.of_N l)%Z then Err EShort else slice p 1 (1 + Z.of_N l)
  end.

(* Responder.dnsRespToUDPResp + Message.WireFormat: the names that are written *)
Definition wire_guard (q : message) (r : dnsresp) : res unit :=
  _ <- (if (dr_flags r mod 16 =? 0) && Nat.eqb (length (m_q q)) 1
        then qu <- index (m_q q) 0 ;; write_name_guard (q_name qu)       (* the Answer RR carries the question name *)
        else Ok tt) ;;
  (fix go (qs : list question) : res unit :=
     match qs with [] => Ok tt | x :: r => _ <- write_name_guard (q_name x) ;; go r end) (m_q q).

Inductive dnsout :=
  | DNoResponse                           (* nothing is sent *)
  | DRespond (r : dnsresp)                (* a response without downstream data *)
  | DProcess (r : dnsresp) (p : bytes).   (* payload handed to noise + processRequest *)

(* the body of the goroutine in Responder.RecvAndRespond, up to craftResponse *)
Definition dns_recv (domain : name) (maxudp : N) (b32 : nat -> option bytes) (pkt : bytes) : res dnsout :=
  '(q, _) <- message_from_wire pkt ;;           (* a parse error is only logged *)
  r <- response_for q domain maxudp b32 ;;
  match r with
  | None => Ok DNoResponse
  | Some (resp, None) => _ <- wire_guard q resp ;; Ok (DRespond resp)
  | Some (resp, Some payload) =>
      match remove_request_format payload with
      | Ok p => _ <- wire_guard q resp ;; Ok (DProcess resp p)
      | Err _ => Ok DNoResponse
      | Panic => Panic
      end
  end.

(* ------------------------------------------------------------------ dnsregserver.processRequest *)
(* Ok success-flag: a DnsResponse is returned; Err: processRequest returns an error *)
Definition dns_process_request (cfg : rpcfg) (o : rporacle) (view : option wrapper) : res bool :=
  match view with
  | None => Err EUnmarshal
  | Some w =>
      (* c2sPayload.RegistrationPayload.GetDecoyListGeneration(): field of a non-nil message, nil-safe getter *)
      if getn (w_source w) =? 6
      then match register_bidirectional cfg o w with
           | Ok _ => Ok true | Err _ => Ok false | Panic => Panic end
      else match register_unidirectional cfg o w with
           | Ok _ => Ok true | Err _ => Ok false | Panic => Panic end
  end.
