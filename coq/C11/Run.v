(* C11: evaluation of the model on recorded cases (correspondence check).
   One check function per entry point; each compares the model's outcome class
   (Ok / Err class / Panic) and its projected observables with what the
   implementation did on the same input. *)
From CJ Require Import Common.Base C11.Model.

Fixpoint list_eqb2 {A B} (f : A -> B -> bool) (a : list A) (b : list B) : bool :=
  match a, b with
  | [], [] => true
  | x :: a', y :: b' => f x y && list_eqb2 f a' b'
  | _, _ => false
  end.

(* observed outcome classes *)
Inductive oclass := OOk | OErr (code : N) | OPanic.

Definition class_matches {A} (r : res A) (o : oclass) : bool :=
  match r, o with
  | Ok _, OOk => true
  | Err e, OErr c => (c =? 0) || (ecls_code e =? c)      (* 0: error site not classified by the driver *)
  | Panic, OPanic => true
  | _, _ => false
  end.

Definition port_matches (p : portobs) (obs : N) : bool :=
  match p with PFixed n => obs =? n | PRange lo hi => (lo <=? obs) && (obs <? hi) end.

(* ---------------------------------------------------------------- transports, direct *)
(* (transport, libver, data) -> class; on Ok the params are fed to GetDstPort -> class, port *)
Definition chk_params (c : trk * N * option anyv * oclass * oclass * N) : bool :=
  let '(t, libver, data, o1, o2, port) := c in
  let r := parse_params t libver data in
  class_matches r o1 &&
  match r with
  | Ok p => let r2 := get_dst_port t libver p in
            class_matches r2 o2 && match r2 with Ok po => port_matches po port | _ => true end
  | _ => true
  end.

(* GetDstPort on arbitrary (also mismatched / typed-nil) parameter values *)
Definition chk_dstport (c : trk * N * pval * oclass * N) : bool :=
  let '(t, libver, p, o, port) := c in
  let r := get_dst_port t libver p in
  class_matches r o && match r with Ok po => port_matches po port | _ => true end.

(* ---------------------------------------------------------------- station ingest *)
Definition regs_match (m : list regsum) (o : list (bytes * N)) : bool :=
  list_eqb2 (fun (a : regsum) (b : bytes * N) =>
              let '(ip, port) := b in bytes_eqb (rs_ip a) ip && port_matches (rs_port a) port) m o.

Definition chk_station (c : stcfg * storacle * option wrapper * oclass * list (bytes * N)) : bool :=
  let '(cfg, o, view, oc, regs) := c in
  let r := parse_reg_message cfg o view in
  class_matches r oc && match r with Ok l => regs_match l regs | _ => true end.

(* NewRegistrationC2SWrapper called directly (also with an absent payload) *)
Definition chk_newreg (c : stcfg * storacle * wrapper * bool * oclass) : bool :=
  let '(cfg, o, w, v6, oc) := c in class_matches (new_reg_c2sw cfg o w v6) oc.

(* ---------------------------------------------------------------- registrar *)
Definition sel_of (tab : list (N * bool * selres)) (gen : N) (v6 : bool) : selres :=
  match find (fun e => let '(g, f, _) := e in (g =? gen) && Bool.eqb f v6) tab with
  | Some (_, _, r) => r
  | None => SelErr
  end.

Definition mk_oracle (tab : list (N * bool * selres)) (zmq_ok : bool) : rporacle :=
  {| ro_sel := sel_of tab; ro_override_ok := true; ro_excluded := None; ro_take_override := false;
     ro_pick := None; ro_zmq_ok := zmq_ok |}.

(* processBdReq directly: class, response has v4 / v6, port *)
Definition chk_bdreq (c : rpcfg * list (N * bool * selres) * option wrapper * oclass * bool * bool * N) : bool :=
  let '(cfg, tab, w, oc, has4, has6, port) := c in
  let r := process_bd_req cfg (mk_oracle tab true) w in
  class_matches r oc &&
  match r with
  | Ok s => Bool.eqb (q_has4 s) has4 && Bool.eqb (q_has6 s) has6 && port_matches (q_port s) port
  | _ => true
  end.

(* processBdReq with enforceSubnetOverrides on a configuration that fixes the random draws
   (one override subnet, 100 %): outcome class only *)
Definition enf_oracle (tab : list (N * bool * selres)) : rporacle :=
  {| ro_sel := sel_of tab; ro_override_ok := true; ro_excluded := None; ro_take_override := true;
     ro_pick := Some 0%nat; ro_zmq_ok := true |}.
Definition chk_bdreq_enf (c : rpcfg * list (N * bool * selres) * option wrapper * oclass) : bool :=
  let '(cfg, tab, w, oc) := c in class_matches (process_bd_req cfg (enf_oracle tab) w) oc.

Definition chk_c2sw (c : rpcfg * option wrapper * oclass) : bool :=
  let '(cfg, w, oc) := c in class_matches (process_c2s_wrapper cfg w) oc.

(* HTTP handlers: observed (panicked / no status line, status, response carried a ClientConf, publications) *)
Definition chk_api (c : bool * rpcfg * list (N * bool * selres) * bool * option N * httpreq * (bool * N * bool * N)) : bool :=
  let '(bidi, cfg, tab, zmq_ok, srv_gen, req, obs) := c in
  let '(opanic, ostatus, occ, opub) := obs in
  let o := mk_oracle tab zmq_ok in
  let r := if bidi then handle_register_bidi cfg o srv_gen req
           else st <- handle_register cfg o req ;; Ok (st, false) in
  match r with
  | Ok (st, cc) => negb opanic && (ostatus =? st) && Bool.eqb occ cc &&
                   (opub =? (if (st =? 200) || (st =? 204) then 1 else 0))
  | Panic => opanic
  | Err _ => false
  end.

(* the recorder run of the same request: only panic / status / publications are observable *)
Definition chk_api_rec (c : bool * rpcfg * list (N * bool * selres) * bool * option N * httpreq * (bool * N * N)) : bool :=
  let '(bidi, cfg, tab, zmq_ok, srv_gen, req, obs) := c in
  let '(opanic, ostatus, opub) := obs in
  let o := mk_oracle tab zmq_ok in
  let r := if bidi then handle_register_bidi cfg o srv_gen req
           else st <- handle_register cfg o req ;; Ok (st, false) in
  match r with
  | Ok (st, _) => negb opanic && (ostatus =? st) && (opub =? (if (st =? 200) || (st =? 204) then 1 else 0))
  | Panic => opanic
  | Err _ => false
  end.

(* the same request against the model of the handler before commit 3969bad: used to show that the
   model exhibits the finding (Examples.v) *)
Definition api_unfixed (cfg : rpcfg) (tab : list (N * bool * selres)) (srv_gen : option N) (req : httpreq) :=
  handle_register_bidi_gen false cfg (mk_oracle tab true) srv_gen req.

(* DNS registrar, processRequest: Ok success flag / Err *)
Definition chk_dnsproc (c : rpcfg * list (N * bool * selres) * bool * option wrapper * oclass * bool) : bool :=
  let '(cfg, tab, zmq_ok, view, oc, success) := c in
  let r := dns_process_request cfg (mk_oracle tab zmq_ok) view in
  class_matches r oc && match r with Ok b => Bool.eqb b success | _ => true end.

(* ---------------------------------------------------------------- first flight *)
Definition assoc_z {A} (l : list (Z * A)) (k : Z) : option A :=
  match find (fun e => (fst e =? k)%Z) l with Some (_, v) => Some v | None => None end.

(* observed: class, bytes consumed from the buffer *)
Definition chk_min (c : bytes * bool * oclass * Z) : bool :=
  let '(data, found, oc, used) := c in
  let r := min_wrap (fun _ => found) data in
  class_matches r oc && match r with Ok n => (n =? used)%Z | _ => true end.

Definition chk_prefix (c : list pfx * bytes * list (Z * regview) * oclass * Z) : bool :=
  let '(tbl, data, regs, oc, used) := c in
  let r := prefix_wrap (assoc_z regs) tbl data in
  class_matches r oc && match r with Ok n => (n =? used)%Z | _ => true end.

Definition chk_markmac (c : Z * Z * Z * Z * bool * option Z * oclass * Z) : bool :=
  let '(marklen, buflen, startPos, maxPos, fromTail, mark_at, oc, pos) := c in
  let r := find_mark_mac_at marklen buflen startPos maxPos fromTail mark_at in
  class_matches r oc && match r with Ok p => (p =? pos)%Z | _ => true end.

Definition chk_obfs4 (c : list oreg * bytes * oclass) : bool :=
  let '(regs, data, oc) := c in class_matches (obfs4_wrap regs data) oc.

(* ---------------------------------------------------------------- DNS *)
Definition name_eqb (a b : name) : bool := list_eqb bytes_eqb a b.
Definition q_eqb (a : question) (b : name * N * N) : bool :=
  let '(n, t, c) := b in name_eqb (q_name a) n && (q_type a =? t) && (q_class a =? c).
Definition rr_eqb (a : rrec) (b : name * N * N * N * bytes) : bool :=
  let '(n, t, c, ttl, d) := b in
  name_eqb (r_name a) n && (r_type a =? t) && (r_class a =? c) && (r_ttl a =? ttl) && bytes_eqb (r_data a) d.

Definition msg_obs := (N * N * list (name * N * N) * list (name * N * N * N * bytes) *
                       list (name * N * N * N * bytes) * list (name * N * N * N * bytes))%type.
Definition msg_matches (m : message) (o : msg_obs) : bool :=
  let '(id, fl, qs, an, ns, ar) := o in
  (m_id m =? id) && (m_flags m =? fl) && list_eqb2 q_eqb (m_q m) qs &&
  list_eqb2 rr_eqb (m_an m) an && list_eqb2 rr_eqb (m_ns m) ns && list_eqb2 rr_eqb (m_ar m) ar.

(* MessageFromWireFormat: error code (0 none), the (partial) message *)
Definition chk_dnsmsg (c : bytes * oclass * N * msg_obs) : bool :=
  let '(pkt, oc, ecode, mo) := c in
  let r := message_from_wire pkt in
  class_matches r oc &&
  match r with
  | Ok (m, e) => (match e with None => ecode =? 0 | Some e => ecls_code e =? ecode end) && msg_matches m mo
  | _ => true
  end.

Definition resp_matches (d : dnsresp) (fl nadd attl : N) : bool :=
  (dr_flags d =? fl) && (dr_nadd d =? nadd) && (dr_add_ttl d =? attl).

(* the responder pipeline (MessageFromWireFormat, responseFor, RemoveRequestFormat, serialisation guard).
   b32tab[k]: base32 decoding (library) of the upper-cased join of the first k labels of the question.
   observed: kind 0 nothing sent / 1 response without data / 2 payload handed to the noise layer;
   response flags, number of Additional records and the TTL of the first; the payload *)
Definition chk_dnsrecv (c : name * N * list (option bytes) * bytes * oclass * (N * N * N * N * bytes)) : bool :=
  let '(domain, maxudp, b32tab, pkt, oc, obs) := c in
  let '(kind, fl, nadd, attl, payload) := obs in
  let r := dns_recv domain maxudp (fun k => nth k b32tab None) pkt in
  class_matches r oc &&
  match r with
  | Ok DNoResponse => kind =? 0
  | Ok (DRespond d) => (kind =? 1) && resp_matches d fl nadd attl
  | Ok (DProcess d p) => (kind =? 2) && resp_matches d fl nadd attl && bytes_eqb p payload
  | _ => true
  end.

(* the ingest worker's body: parseRegMessage, then ingestRegistration for every registration it returned.
   observed: class, announcements to the detector, requests the peer station's API received *)
Definition worker (cfg : stcfg) (o : storacle) (view : option wrapper) (io : ioracle) : res (N * N) :=
  regs <- parse_reg_message cfg o view ;;
  match view with
  | None => Ok (0, 0)
  | Some w =>
      fold_left (fun acc s =>
                   '(n, sh) <- acc ;;
                   r <- ingest_registration (ireg_of w cfg s None) io ;;
                   Ok (match r with IAdded shared _ => (n + 1, if shared then sh + 1 else sh) | _ => (n, sh) end))
                regs (Ok (0, 0))
  end.
Definition chk_worker (c : stcfg * storacle * option wrapper * ioracle * oclass * N * N) : bool :=
  let '(cfg, o, view, io, oc, ann, shares) := c in
  let r := worker cfg o view io in
  class_matches r oc && match r with Ok (n, sh) => (n =? ann) && (sh =? shares) | _ => true end.

(* ingestRegistration on a hand-built registration (any field may be nil) *)
Definition chk_rawreg (c : ireg * ioracle * oclass * bool) : bool :=
  let '(r, io, oc, announced) := c in
  let m := ingest_registration r io in
  class_matches m oc && match m with Ok (IAdded _ _) => announced | Ok _ => negb announced | _ => true end.

(* dtls.Transport.Connect up to the DNAT: Ok = the DNAT was asked for an entry *)
Definition chk_dtlsconn (c : bool * pval * oclass) : bool :=
  let '(is_dtls, p, oc) := c in
  if is_dtls then class_matches (dtls_connect_params p) oc
  else match oc with OErr 21 => true | _ => false end.

(* prefix.TryFromID + the calls overridePrefix makes on its result: class, and whether a prefix came back *)
Definition chk_tryid (c : list Z * Z * oclass * bool) : bool :=
  let '(ids, id, oc, known) := c in
  let r := try_from_id ids id in
  class_matches r oc && match r with Ok k => Bool.eqb k known | _ => true end.

(* the keys of DefaultPrefixes are 0 .. n-1 (hypothesis of wf_rpcfg, re-checked on the dumped table) *)
Definition ids_contiguous (ids : list Z) : bool :=
  forallb (fun i => existsb (Z.eqb (Z.of_nat i)) ids) (seq 0 (length ids)).

(* ---------------------------------------------------------------- statistics epoch under a forced schedule
   The driver parks every thread in front of each lock it takes (while holding none) and lets one thread at a time
   run one lock-protected region: that is one step of the schedule; afterwards every thread runs to its end, in
   order.  Compared: the outcome (0 returned normally, 1 panic, 2 hang or a lock left behind), and -- when every thread
   of the running code had as many regions as its program in the model -- the counters left under each worker's keys. *)
Definition sections_match (ks : list tkind) (secs : list N) : bool :=
  Nat.eqb (length ks) (length secs) &&
  forallb (fun p => N.eqb (N.of_nat (length (prog_of (fst p)))) (snd p)) (combine ks secs).

Definition counts_of (s : sstate) (k : tkind) : option N * option N * option N :=
  match k with
  | TWorker regs =>
      match last (map Some regs) None with
      | Some (g, t, l) => (sm_get (s_gen s) g, sm_get (s_tt s) t, sm_get (s_lv s) l)
      | None => (None, None, None)
      end
  | _ => (None, None, None)
  end.

Definition oN_eqb (a b : option N) : bool :=
  match a, b with Some x, Some y => N.eqb x y | None, None => true | _, _ => false end.

Fixpoint counts_eqb (a b : list (option N * option N * option N)) : bool :=
  match a, b with
  | [], [] => true
  | (x1, y1, z1) :: r, (x2, y2, z2) :: r' => oN_eqb x1 x2 && oN_eqb y1 y2 && oN_eqb z1 z2 && counts_eqb r r'
  | _, _ => false
  end.

Definition chk_stats (c : list tkind * list nat * list N * N * list (option N * option N * option N)) : bool :=
  let '(ks, sched, secs, out, counts) := c in
  match run_all sched (map thread_of ks) s_empty with
  | Ok s => N.eqb out 0 && (if sections_match ks secs then counts_eqb (map (counts_of s) ks) counts else true)
  | Panic => N.eqb out 1
  | Err _ => false
  end.

(* the X-Forwarded-For values of a request: the model's strings.Split gives as many items per value as the library's *)
Definition chk_xffsplit (c : list bytes * list N) : bool :=
  let '(values, lens) := c in
  Nat.eqb (length values) (length lens) &&
  forallb (fun p => N.eqb (N.of_nat (length (go_split comma (fst p)))) (snd p)) (combine values lens).

(* ---------------------------------------------------------------- all entry points in one case type *)
Inductive anycase :=
  | AParams (c : trk * N * option anyv * oclass * oclass * N)
  | ADstPort (c : trk * N * pval * oclass * N)
  | AStation (c : stcfg * storacle * option wrapper * oclass * list (bytes * N))
  | ANewReg (c : stcfg * storacle * wrapper * bool * oclass)
  | ABdReq (c : rpcfg * list (N * bool * selres) * option wrapper * oclass * bool * bool * N)
  | ABdReqE (c : rpcfg * list (N * bool * selres) * option wrapper * oclass)
  | AApiRec (c : bool * rpcfg * list (N * bool * selres) * bool * option N * httpreq * (bool * N * N))
  | AC2sw (c : rpcfg * option wrapper * oclass)
  | AApi (c : bool * rpcfg * list (N * bool * selres) * bool * option N * httpreq * (bool * N * bool * N))
  | ADnsProc (c : rpcfg * list (N * bool * selres) * bool * option wrapper * oclass * bool)
  | ATryId (c : list Z * Z * oclass * bool)
  | AWorker (c : stcfg * storacle * option wrapper * ioracle * oclass * N * N)
  | ARawReg (c : ireg * ioracle * oclass * bool)
  | ADtlsConn (c : bool * pval * oclass)
  | AMin (c : bytes * bool * oclass * Z)
  | APrefix (c : list pfx * bytes * list (Z * regview) * oclass * Z)
  | AMarkMac (c : Z * Z * Z * Z * bool * option Z * oclass * Z)
  | AObfs4 (c : list oreg * bytes * oclass)
  | ADnsMsg (c : bytes * oclass * N * msg_obs)
  | ADnsRecv (c : name * N * list (option bytes) * bytes * oclass * (N * N * N * N * bytes))
  | AStats (c : list tkind * list nat * list N * N * list (option N * option N * option N))
  | AXffSplit (c : list bytes * list N).

Definition chk (a : anycase) : bool :=
  match a with
  | AParams c => chk_params c | ADstPort c => chk_dstport c | AStation c => chk_station c
  | ABdReqE c => chk_bdreq_enf c | AApiRec c => chk_api_rec c
  | ANewReg c => chk_newreg c | ABdReq c => chk_bdreq c | AC2sw c => chk_c2sw c | AApi c => chk_api c
  | ATryId c => chk_tryid c | AWorker c => chk_worker c | ARawReg c => chk_rawreg c | ADtlsConn c => chk_dtlsconn c
  | ADnsProc c => chk_dnsproc c | AMin c => chk_min c | APrefix c => chk_prefix c
  | AMarkMac c => chk_markmac c | AObfs4 c => chk_obfs4 c | ADnsMsg c => chk_dnsmsg c
  | ADnsRecv c => chk_dnsrecv c | AStats c => chk_stats c | AXffSplit c => chk_xffsplit c
  end.
