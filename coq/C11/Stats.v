(* C11 model, fourth wave: the statistics epoch.

   pkg/station/lib/registration_stats.go keeps three maps from a statistics key (ClientConf
   generation, transport type, client library version) to a counter OBJECT.  The ingest
   workers account every accepted registration in them (AddRegStats, the last step of
   ingestRegistration, no recover()), the statistics ticker prints them and swaps them for
   empty maps (RegistrationManager.PrintAndReset -> Reset) from another goroutine.  A counter
   is incremented through the pointer the map lookup returns: when the key is absent that
   pointer is nil and the increment is a nil dereference in a goroutine that nothing recovers
   -- the station dies while handling a perfectly normal registration.

   The model is a small labelled transition system.  A lock-protected region of the code is
   ONE atomic step (the lock makes it so); a thread is the list of regions it still has to run
   plus what it remembers between regions (the result of an earlier lookup); a schedule says
   which thread takes the next step.  The regions are those of the code as it is:

     AddRegStats     [gen: ensure+increment] [tt: ensure+increment] [lv: ensure+increment]
     Reset           [gen: swap] [lv: swap] [tt: swap]
     PrintAndReset   [gen: range] [tt: range] [lv: range] ++ Reset

   The split variant (lookup under the read lock / create under the write lock / increment
   under the read lock again) is in the same language: SLookup, SEnsureIfMissing, SInc.  *)
From CJ Require Import Common.Base.
From Coq Require Import List NArith Bool.
Import ListNotations.

(* the three maps of RegistrationStats; the per-ASN maps of the application's connStats (IPv4 / IPv6) *)
Inductive mapid := MGen | MTt | MLv | MAsn4 | MAsn6.

(* key -> counter value; a key without an entry is a nil pointer on lookup *)
Definition smap := list (N * N).

Record sstate := mkS5 { s_gen : smap; s_tt : smap; s_lv : smap; s_a4 : smap; s_a6 : smap }.

Definition mkS (g t l : smap) : sstate := mkS5 g t l [] [].
Definition s_empty : sstate := mkS [] [] [].

Definition getm (s : sstate) (m : mapid) : smap :=
  match m with MGen => s_gen s | MTt => s_tt s | MLv => s_lv s | MAsn4 => s_a4 s | MAsn6 => s_a6 s end.

Definition setm (s : sstate) (m : mapid) (v : smap) : sstate :=
  match m with
  | MGen => mkS5 v (s_tt s) (s_lv s) (s_a4 s) (s_a6 s)
  | MTt => mkS5 (s_gen s) v (s_lv s) (s_a4 s) (s_a6 s)
  | MLv => mkS5 (s_gen s) (s_tt s) v (s_a4 s) (s_a6 s)
  | MAsn4 => mkS5 (s_gen s) (s_tt s) (s_lv s) v (s_a6 s)
  | MAsn6 => mkS5 (s_gen s) (s_tt s) (s_lv s) (s_a4 s) v
  end.

Fixpoint sm_get (m : smap) (k : N) : option N :=
  match m with
  | [] => None
  | (k', v) :: r => if N.eqb k' k then Some v else sm_get r k
  end.

(* s.generations[gen] = &generationStats{} *)
Definition sm_create (m : smap) (k : N) : smap := (k, 0%N) :: m.

(* if stats, ok := s.generations[gen]; !ok || stats == nil { create } *)
Definition sm_ensure (m : smap) (k : N) : smap :=
  match sm_get m k with Some _ => m | None => sm_create m k end.

Fixpoint sm_bump (m : smap) (k : N) : smap :=
  match m with
  | [] => []
  | (k', v) :: r => if N.eqb k' k then (k', N.succ v) :: r else (k', v) :: sm_bump r k
  end.

(* atomic.AddInt64(&s.generations[gen].newRegistrations, 1): index the map AGAIN, dereference *)
Definition sm_inc (m : smap) (k : N) : result unit smap :=
  match sm_get m k with
  | Some _ => Ok (sm_bump m k)
  | None => Panic
  end.

Inductive section :=
  | SEnsureInc (m : mapid) (k : N)        (* one region: create when missing, then increment through the map *)
  | SLookup (m : mapid) (k : N)           (* region: look the counter up, remember whether it was there *)
  | SEnsureIfMissing (m : mapid) (k : N)  (* region: create it if the remembered lookup missed (no step at all otherwise) *)
  | SInc (m : mapid) (k : N)              (* region: increment through the map *)
  | SRange (m : mapid)                    (* printer: range over the map, read every counter (entries are never nil) *)
  | SSwap (m : mapid)                     (* Reset: the map is replaced by an empty one *)
  | SBoth (a b : section).                (* one region doing both, in this order (connStats: one lock for both maps) *)

(* loc: what the thread remembers from its last lookup (true: a usable counter was there) *)
Fixpoint exec_section (sec : section) (loc : bool) (s : sstate) : result unit (sstate * bool) :=
  match sec with
  | SEnsureInc m k =>
      match sm_inc (sm_ensure (getm s m) k) k with
      | Ok mp => Ok (setm s m mp, loc)
      | Err e => Err e
      | Panic => Panic
      end
  | SLookup m k => Ok (s, match sm_get (getm s m) k with Some _ => true | None => false end)
  | SEnsureIfMissing m k => Ok (if loc then s else setm s m (sm_create (getm s m) k), loc)
  | SInc m k =>
      match sm_inc (getm s m) k with
      | Ok mp => Ok (setm s m mp, loc)
      | Err e => Err e
      | Panic => Panic
      end
  | SRange _ => Ok (s, loc)
  | SSwap m => Ok (setm s m [], loc)
  | SBoth a b =>
      match exec_section a loc s with
      | Ok (s', l') => exec_section b l' s'
      | Err e => Err e
      | Panic => Panic
      end
  end.

Record thread := mkT { t_loc : bool; t_prog : list section }.

(* thread i runs its next region; a thread that has finished does nothing *)
Fixpoint step_at (i : nat) (ts : list thread) (s : sstate) : result unit (sstate * list thread) :=
  match ts with
  | [] => Ok (s, [])
  | t :: r =>
      match i with
      | O =>
          match t_prog t with
          | [] => Ok (s, ts)
          | sec :: p =>
              match exec_section sec (t_loc t) s with
              | Ok (s', l') => Ok (s', mkT l' p :: r)
              | Err e => Err e
              | Panic => Panic
              end
          end
      | S j =>
          match step_at j r s with
          | Ok (s', r') => Ok (s', t :: r')
          | Err e => Err e
          | Panic => Panic
          end
      end
  end.

Fixpoint run_sched (sched : list nat) (ts : list thread) (s : sstate) : result unit (sstate * list thread) :=
  match sched with
  | [] => Ok (s, ts)
  | i :: r =>
      match step_at i ts s with
      | Ok (s', ts') => run_sched r ts' s'
      | Err e => Err e
      | Panic => Panic
      end
  end.

(* one thread to its end *)
Fixpoint run_prog (p : list section) (loc : bool) (s : sstate) : result unit sstate :=
  match p with
  | [] => Ok s
  | sec :: r =>
      match exec_section sec loc s with
      | Ok (s', l') => run_prog r l' s'
      | Err e => Err e
      | Panic => Panic
      end
  end.

(* after the schedule: every thread that is not done runs to its end, in order *)
Fixpoint drain (ts : list thread) (s : sstate) : result unit sstate :=
  match ts with
  | [] => Ok s
  | t :: r =>
      match run_prog (t_prog t) (t_loc t) s with
      | Ok s' => drain r s'
      | Err e => Err e
      | Panic => Panic
      end
  end.

Definition run_all (sched : list nat) (ts : list thread) (s : sstate) : result unit sstate :=
  match run_sched sched ts s with
  | Ok (s', ts') => drain ts' s'
  | Err e => Err e
  | Panic => Panic
  end.

(* ---------------------------------------------------------------- the programs of the code *)
Definition addreg_prog (k : N * N * N) : list section :=
  let '(g, t, l) := k in [SEnsureInc MGen g; SEnsureInc MTt t; SEnsureInc MLv l].

Definition reset_prog : list section := [SSwap MGen; SSwap MLv; SSwap MTt].

Definition print_reset_prog : list section := [SRange MGen; SRange MTt; SRange MLv] ++ reset_prog.

Fixpoint repeat_prog (n : nat) (p : list section) : list section :=
  match n with O => [] | S j => p ++ repeat_prog j p end.

Definition conn_reset_region : section := SBoth (SSwap MAsn4) (SSwap MAsn6).

(* what a goroutine of the station does with the statistics *)
Inductive tkind :=
  | TWorker (regs : list (N * N * N))   (* an ingest worker: accepted registrations, one after the other *)
  | TReset (n : nat)                     (* n calls of Reset *)
  | TTicker (n : nat)                    (* the statistics ticker: n epochs of PrintAndReset *)
  (* cmd/application connStats: one lock, two per-ASN maps *)
  | TConn (v4 : bool) (asn : N) (n : nat)   (* n accounting calls of a connection from that ASN (addCreated, createdToCheck, ...) *)
  | TConnReset (n : nat)                     (* connStats.Reset *)
  | TConnTicker (n : nat).                   (* connStats.PrintAndReset: print and swap under ONE write lock *)

Definition prog_of (k : tkind) : list section :=
  match k with
  | TWorker regs => flat_map addreg_prog regs
  | TReset n => repeat_prog n reset_prog
  | TTicker n => repeat_prog n print_reset_prog
  | TConn v4 asn n => repeat_prog n [SEnsureInc (if v4 then MAsn4 else MAsn6) asn]
  | TConnReset n => repeat_prog n [conn_reset_region]
  | TConnTicker n => repeat_prog n [SBoth (SRange MAsn4) (SBoth (SRange MAsn6) conn_reset_region)]
  end.

Definition thread_of (k : tkind) : thread := mkT false (prog_of k).

(* the variant with the counter ensured and incremented in separate regions *)
Definition addreg_split_map (m : mapid) (k : N) : list section := [SLookup m k; SEnsureIfMissing m k; SInc m k].
Definition addreg_split_prog (k : N * N * N) : list section :=
  let '(g, t, l) := k in addreg_split_map MGen g ++ addreg_split_map MTt t ++ addreg_split_map MLv l.

(* a region that cannot fail whatever the other threads did before it: everything except a bare increment *)
Fixpoint safe_section (sec : section) : bool :=
  match sec with SInc _ _ => false | SBoth a b => safe_section a && safe_section b | _ => true end.

Definition safe_thread (t : thread) : bool := forallb safe_section (t_prog t).
