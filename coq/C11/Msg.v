(* C11 model, part 1: registration messages as records of optional fields, the
   transports' ParseParams / GetDstPort, the station's ZMQ ingest
   (parseRegMessage, NewRegistrationC2SWrapper, NewRegistration), the registrar's
   processBdReq / processC2SWrapper / Register*, and the two HTTP handlers.
   Every Go operation on these paths that can panic is a [Panic] outcome (Prim.v).
   Definitions only; executable. *)
From CJ Require Export C11.Prim.

(* ------------------------------------------------------------------ messages *)
Inductive ptype := TGeneric | TPrefix | TDtls.
Definition ptype_eqb (a b : ptype) : bool :=
  match a, b with TGeneric, TGeneric | TPrefix, TPrefix | TDtls, TDtls => true | _, _ => false end.

(* The type URL of an Any, as far as conjure looks at it. *)
Inductive urlc :=
  | UEmpty                      (* "" *)
  | UExact (t : ptype)          (* type.googleapis.com/proto.<T> *)
  | UTapdance (t : ptype)       (* type.googleapis.com/tapdance.<T> (old clients) *)
  | UOther.

Record gparams := { g_rand : option bool }.
Record pparams := { p_id : option Z; p_rand : option bool }.
Record dparams := { d_rand : option bool }.

(* An Any: its URL class, and what the protobuf library makes of its value when
   asked to decode it as each parameter type (None: the library rejects it). *)
Record anyv := { a_url : urlc; a_gen : option gparams; a_pref : option pparams; a_dtls : option dparams }.

Record c2s := { cs_gen : option N; cs_libver : option N; cs_disable : option bool;
                cs_transport : option N; cs_params : option anyv;
                cs_v4 : option bool; cs_v6 : option bool }.
Record regresp := { rr_ipv4 : option N; rr_ipv6 : option bytes; rr_dstport : option N;
                    rr_params : option anyv; rr_portrand : option bool }.
Record wrapper := { w_secret : option bytes; w_payload : option c2s; w_source : option N;
                    w_regaddr : option bytes; w_decoyaddr : option bytes; w_resp : option regresp }.

Definition set_params (c : c2s) (p : option anyv) : c2s :=
  {| cs_gen := cs_gen c; cs_libver := cs_libver c; cs_disable := cs_disable c;
     cs_transport := cs_transport c; cs_params := p; cs_v4 := cs_v4 c; cs_v6 := cs_v6 c |}.
Definition set_gen (c : c2s) (g : option N) : c2s :=
  {| cs_gen := g; cs_libver := cs_libver c; cs_disable := cs_disable c;
     cs_transport := cs_transport c; cs_params := cs_params c; cs_v4 := cs_v4 c; cs_v6 := cs_v6 c |}.
Definition set_payload (w : wrapper) (p : option c2s) : wrapper :=
  {| w_secret := w_secret w; w_payload := p; w_source := w_source w;
     w_regaddr := w_regaddr w; w_decoyaddr := w_decoyaddr w; w_resp := w_resp w |}.
Definition set_resp (w : wrapper) (r : option regresp) : wrapper :=
  {| w_secret := w_secret w; w_payload := w_payload w; w_source := w_source w;
     w_regaddr := w_regaddr w; w_decoyaddr := w_decoyaddr w; w_resp := r |}.
Definition set_addrs (w : wrapper) (ra da : option bytes) : wrapper :=
  {| w_secret := w_secret w; w_payload := w_payload w; w_source := w_source w;
     w_regaddr := ra; w_decoyaddr := da; w_resp := w_resp w |}.

(* ------------------------------------------------- transports.UnmarshalAnypbTo *)
Definition norm_url (u : urlc) : urlc := match u with UTapdance t => UExact t | _ => u end.
Definition url_ok (u : urlc) (t : ptype) : bool :=
  match norm_url u with UEmpty => true | UExact t' => ptype_eqb t t' | _ => false end.

Definition empty_g := {| g_rand := None |}.
Definition empty_p := {| p_id := None; p_rand := None |}.
Definition empty_d := {| d_rand := None |}.

Definition unmarshal_gen (src : option anyv) : res gparams :=
  match src with
  | None => Ok empty_g
  | Some a => if url_ok (a_url a) TGeneric
              then match a_gen a with Some g => Ok g | None => Err EUnmarshal end
              else Err EUnmarshal
  end.
Definition unmarshal_pref (src : option anyv) : res pparams :=
  match src with
  | None => Ok empty_p
  | Some a => if url_ok (a_url a) TPrefix
              then match a_pref a with Some g => Ok g | None => Err EUnmarshal end
              else Err EUnmarshal
  end.
Definition unmarshal_dtls (src : option anyv) : res dparams :=
  match src with
  | None => Ok empty_d
  | Some a => if url_ok (a_url a) TDtls
              then match a_dtls a with Some g => Ok g | None => Err EUnmarshal end
              else Err EUnmarshal
  end.

(* ------------------------------------------------------------------ transports *)
(* the value of type `any` that ParseParams returns / GetDstPort receives:
   untyped nil, or a (possibly nil) pointer of one of the parameter types *)
Inductive pval := PNil | PGen (g : option gparams) | PPref (p : option pparams) | PDtls (d : option dparams).

Record pfx := { x_id : Z; x_static : bytes; x_offset : Z; x_minlen : Z; x_maxlen : Z; x_port : N }.
Inductive trk := TrMin | TrObfs4 | TrPrefix (tbl : list pfx) | TrDtls.

Fixpoint pfx_lookup (tbl : list pfx) (id : Z) : option pfx :=
  match tbl with
  | [] => None
  | x :: r => if (x_id x =? id)%Z then Some x else pfx_lookup r id
  end.

Inductive portobs := PFixed (n : N) | PRange (lo hi : N).   (* PRange: lo <= port < hi *)

(* transports.PortSelectorRange(min, max, seed): min + rand.Int(hkdf, max-min) *)
Definition port_selector_range (lo hi : N) : res portobs :=
  _ <- rand_int_guard (Z.of_N hi - Z.of_N lo) ;; Ok (PRange lo hi).

Definition map_err {A} (e : ecls) (r : res A) : res A :=
  match r with Err _ => Err e | x => x end.

Definition parse_params (t : trk) (libver : N) (data : option anyv) : res pval :=
  match t with
  | TrMin | TrObfs4 =>
      match data with
      | None => Ok PNil
      | Some _ => if libver <? 3 then Ok (PGen (Some {| g_rand := Some false |}))
                  else g <- unmarshal_gen data ;; Ok (PGen (Some g))
      end
  | TrPrefix tbl =>
      match data with
      | None => Ok PNil
      | Some _ => if libver <? 3 then Err EParams
                  else m <- unmarshal_pref data ;;
                       match pfx_lookup tbl (getz (p_id m)) with
                       | Some _ => Ok (PPref (Some m))
                       | None => Err EParams
                       end
      end
  | TrDtls => d <- unmarshal_dtls data ;; Ok (PDtls (Some d))
  end.

Definition get_dst_port (t : trk) (libver : N) (params : pval) : res portobs :=
  match t with
  | TrMin | TrObfs4 =>
      if libver <? 3 then Ok (PFixed 443) else
      match params with
      | PNil => Ok (PFixed 443)
      | PGen g => (* type assertion ok; GetRandomizeDstPort is nil-safe *)
          if getb (oget g g_rand)
          then port_selector_range (match t with TrMin => 1024 | _ => 22 end) 65535
          else Ok (PFixed 443)
      | _ => Err EDstPort
      end
  | TrPrefix tbl =>
      if libver <? 3 then Err EDstPort else
      match params with
      | PPref None => Err EDstPort                 (* typed nil: explicit check *)
      | PPref (Some m) =>
          match pfx_lookup tbl (getz (p_id m)) with
          | None => Err EDstPort
          | Some x => if getb (p_rand m) then port_selector_range 1024 65535 else Ok (PFixed (x_port x))
          end
      | _ => Err EDstPort                          (* assertion !ok, incl. untyped nil *)
      end
  | TrDtls =>
      match params with
      | PNil => Ok (PFixed 443)
      | PDtls d => if getb (oget d d_rand) then port_selector_range 1024 65535 else Ok (PFixed 443)
      | _ => Err EDstPort
      end
  end.

Fixpoint tr_lookup (m : list (N * trk)) (t : N) : option trk :=
  match m with
  | [] => None
  | (k, v) :: r => if k =? t then Some v else tr_lookup r t
  end.

(* ------------------------------------------------------------------ net.IP.To4 *)
Definition v4in6_prefix : bytes := [0;0;0;0;0;0;0;0;0;0;255;255].
Definition to4 (ip : bytes) : option bytes :=
  if blen ip =? 4 then Some ip
  else if (blen ip =? 16) && bytes_eqb (take 12 ip) v4in6_prefix then Some (drop 12 ip)
  else None.
Definition be32 (n : N) : bytes :=
  [ (n / 16777216) mod 256; (n / 65536) mod 256; (n / 256) mod 256; n mod 256 ].

(* ------------------------------------------------------------------ phantom selection (external, C14) *)
(* what PhantomSelector.Select returned: a phantom with its address bytes and
   its supports-random-port flag; (nil, nil); one of the ErrLegacy* sentinels;
   any other error *)
Inductive selres := SelOk (ip : bytes) (randport : bool) | SelNil | SelErrLegacy | SelErr.

(* ------------------------------------------------------------------ station: ZMQ ingest *)
Record stcfg := { sc_v4 : bool; sc_v6 : bool; sc_transports : list (N * trk) }.
Record storacle := { so_sel4 : selres; so_sel6 : selres; so_geo_ok : bool }.
Record regsum := { rs_v6 : bool; rs_ip : bytes; rs_port : portobs }.

(* RegistrationManager.NewRegistration *)
Definition new_registration (cfg : stcfg) (c : option c2s) (sel : selres) : res (bytes * portobs) :=
  let libver := getn (oget c cs_libver) in
  ph <- (match sel with
         | SelErr | SelErrLegacy => Err ESelect
         | SelNil => Ok None
         | SelOk ip rp => Ok (Some (ip, rp))
         end) ;;
  tr <- (match tr_lookup (sc_transports cfg) (getn (oget c cs_transport)) with
         | Some t => Ok t | None => Err EUnknownTransport end) ;;
  params <- map_err EParams (parse_params tr libver (oget c cs_params)) ;;
  '(ip, rp) <- deref ph ;;                                 (* phantomAddr.SupportRandomPort() *)
  port <- (if (libver <? 3) || negb rp then Ok (PFixed 443)
           else map_err EDstPort (get_dst_port tr libver params)) ;;
  _ <- deref c ;;                                          (* Flags: c2s.Flags *)
  Ok (ip, port).

(* RegistrationManager.NewRegistrationC2SWrapper *)
Definition new_reg_c2sw (cfg : stcfg) (o : storacle) (w : wrapper) (v6 : bool) : res regsum :=
  let c := w_payload w in
  let rr := w_resp w in
  c1 <- (match rr with
         | Some r => if isSome (rr_params r) && negb (getb (oget c cs_disable))
                     then c0 <- deref c ;; Ok (Some (set_params c0 (rr_params r)))   (* c2s.TransportParams = ... *)
                     else Ok c
         | None => Ok c
         end) ;;
  ipov <- (match rr with
           | Some r => if v6 then
                         match rr_ipv6 r with
                         | Some b => if negb (blen b =? 16) || isSome (to4 b) then Err EBadOverride else Ok (Some b)
                         | None => Ok None
                         end
                       else Ok (match rr_ipv4 r with
                                | Some n => if n =? 0 then None else Some (be32 n)
                                | None => None
                                end)
           | None => Ok None
           end) ;;
  '(ip, port) <- new_registration cfg c1 (if v6 then so_sel6 o else so_sel4 o) ;;
  let ip' := match ipov with Some x => x | None => ip end in
  let client := match w_regaddr w with Some a => a | None => [] end in
  if negb ((blen client =? 4) || (blen client =? 16)) then Err EBadRegAddr else
  if isSome (to4 ip') && negb (isSome (to4 client)) then Err EV6ClientV4Phantom else
  if negb (so_geo_ok o) then Err EGeoIP else
  let port' := match oget rr rr_dstport with Some p => PFixed (p mod 65536) | None => port end in
  Ok {| rs_v6 := v6; rs_ip := ip'; rs_port := port' |}.

Definition zeros16 : bytes := repeat 0 16.

(* DecoyRegistration.IDString on a registration with keys: secret[:16] of the hex form *)
Definition id_string (secret : bytes) : res unit :=
  let hexlen := (2 * Z.of_nat (length secret))%Z in
  if (hexlen <? 16)%Z then Ok tt
  else _ <- slice (repeat 0 (Z.to_nat hexlen)) 0 16 ;; Ok tt.

(* RegistrationManager.parseRegMessage; [view] is what proto.Unmarshal made of the ZMQ message *)
Definition parse_reg_message (cfg : stcfg) (o : storacle) (view : option wrapper) : res (list regsum) :=
  match view with
  | None => Err EUnmarshal
  | Some w0 =>
    let w := set_addrs w0 (match w_regaddr w0 with None => Some zeros16 | x => x end)
                          (match w_decoyaddr w0 with None => Some zeros16 | x => x end) in
    let src := match w_regaddr w with Some a => a | None => [] end in
    let c := w_payload w in
    r4 <- (if getb (oget c cs_v4) && sc_v4 cfg && isSome (to4 src)
           then r <- new_reg_c2sw cfg o w false ;; Ok [r] else Ok []) ;;
    r6 <- (if getb (oget c cs_v6) && sc_v6 cfg
           then r <- new_reg_c2sw cfg o w true ;; Ok [r] else Ok []) ;;
    _ <- (match r4 ++ r6 with
          | [] => Ok tt
          | _ => id_string (match w_secret w with Some s => s | None => [] end)
          end) ;;
    Ok (r4 ++ r6)
  end.

(* ------------------------------------------------------------------ registrar *)
(* one configured override subnet (regprocessor.Subnet), as far as the code dereferences it *)
Record ovsubnet := { os_nil : bool;      (* CIDR.IPNet == nil *)
                     os_v4 : bool;       (* IPNet.IP.To4() != nil *)
                     os_hostbits : N;    (* bits - ones of the mask *)
                     os_prefix_id : Z    (* PrefixId *) }.
Record rpcfg := { rp_transports : list (N * trk);
                  rp_overrides : bool;          (* regOverrides != nil *)
                  rp_auth : bool;               (* authenticated: responses are signed *)
                  rp_privkey_ok : bool;         (* len(privkey) == ed25519.PrivateKeySize *)
                  rp_enforce : bool;            (* enforceSubnetOverrides *)
                  rp_min_subnets : list ovsubnet; rp_min_weights : nat;     (* len(...CumulativeWeights) *)
                  rp_prefix_subnets : list ovsubnet; rp_prefix_weights : nat;
                  rp_exclusions : list ovsubnet;
                  rp_prefix_ids : list Z        (* the keys of prefix.DefaultPrefixes *) }.
(* library verdicts and random draws inside one request *)
Record rporacle := { ro_sel : N -> bool -> selres;       (* ipSelector.Select by generation and family *)
                     ro_override_ok : bool;      (* regOverrides.Override returned nil *)
                     ro_excluded : option nat;   (* index of the first exclusion containing the chosen IPv4 *)
                     ro_take_override : bool;    (* randNumFloat < prcnt...RegsToOverride *)
                     ro_pick : option nat;       (* the index the weighted loop ends on, if any *)
                     ro_zmq_ok : bool }.

Record respsum := { q_has4 : bool; q_has6 : bool; q_port : portobs; q_overridden : bool }.

(* getRandUint32IPv4 / randomInt: Ok false = error return, Ok true = an address was drawn.
   [guarded]: randomInt refuses an empty range (commit e9db4b8); before, rand.Int was called with it. *)
Definition rand_uint32_ipv4_gen (guarded : bool) (s : ovsubnet) : res bool :=
  if negb (os_v4 s) then Ok false else
  let hosts := if 32 <=? os_hostbits s then 0 else 2 ^ os_hostbits s in     (* uint32(1 << n) *)
  if guarded && (hosts =? 0) then Ok false else
  _ <- rand_int_guard (Z.of_N hosts) ;; Ok true.
Definition rand_uint32_ipv4 := rand_uint32_ipv4_gen true.

(* prefix.TryFromID followed by the method calls overridePrefix makes on the result.
   Ok true: a prefix; Ok false: ErrUnknownPrefix; Panic: (nil, nil) came back and FlushPolicy() was called on it.
   [strict]: the bound check is `>=` (commit 04f7448); before, it was `>`. *)
Definition try_from_id_gen (strict : bool) (ids : list Z) (id : Z) : res bool :=
  let n := Z.of_nat (length ids) in
  if (n =? 0)%Z || (id <? -1)%Z || (if strict then (n <=? id)%Z else (n <? id)%Z) then Ok false else
  if (id =? -1)%Z then _ <- rand_int_guard n ;; Ok true                      (* pickRandomPrefix *)
  else if existsb (Z.eqb id) ids then Ok true else Panic.
Definition try_from_id := try_from_id_gen true.

(* the weighted loop `for i, cw := range weights { if randVal < cw { ipNet = subnets[i]... } }` *)
Definition pick_subnet (subs : list ovsubnet) (nweights : nat) (pick : option nat) : res (option ovsubnet) :=
  match pick with
  | None => Ok None
  | Some i => if Nat.ltb i nweights then s <- index subs (Z.of_nat i) ;; Ok (Some s) else Ok None
  end.

Fixpoint exclusions_ok (l : list ovsubnet) : res unit :=
  match l with
  | [] => Ok tt
  | s :: r => if os_nil s then Panic else exclusions_ok r       (* subnet.CIDR.IPNet.Contains *)
  end.

(* RegProcessor.processBdReq; returns a summary of the response *)
Definition process_bd_req (cfg : rpcfg) (o : rporacle) (w : option wrapper) : res respsum :=
  match oget w w_payload with
  | None => Err ENoC2SBody
  | Some c =>
    _ <- deref w ;;                                        (* c2sPayload.SharedSecret *)
    let libver := getn (cs_libver c) in
    let gen := getn (cs_gen c) in
    r4 <- (if getb (cs_v4 c) then
             match ro_sel o gen false with
             | SelErr => Err ESelect | SelErrLegacy => Err ESelectLegacy
             | SelNil => Panic                              (* phantom4.To4() on nil *)
             | SelOk ip rp => match to4 ip with
                              | Some _ => Ok (Some rp)
                              | None => Panic               (* BigEndian.Uint32(nil) *)
                              end
             end
           else Ok None) ;;
    r6 <- (if getb (cs_v6 c) then
             match ro_sel o gen true with
             | SelErr => Err ESelect | SelErrLegacy => Err ESelectLegacy
             | SelNil => Panic                              (* *phantom6.IP() *)
             | SelOk ip rp => Ok (Some rp)
             end
           else Ok None) ;;
    let rp := (match r4 with Some b => b | None => true end) && (match r6 with Some b => b | None => true end) in
    tr <- (match tr_lookup (rp_transports cfg) (getn (cs_transport c)) with
           | Some t => Ok t | None => Err EUnknownTransport end) ;;
    params <- map_err EParams (parse_params tr libver (cs_params c)) ;;
    _ <- (if rp_overrides cfg && negb (getb (cs_disable c))
          then (if ro_override_ok o then Ok tt else Err EOverride)
          else Ok tt) ;;
    port <- (if rp then map_err EDstPort (get_dst_port tr libver params) else Ok (PFixed 443)) ;;
    let plain := {| q_has4 := isSome r4; q_has6 := isSome r6; q_port := port; q_overridden := false |} in
    let over := {| q_has4 := true; q_has6 := isSome r6; q_port := port; q_overridden := true |} in
    if negb (rp_enforce cfg) then Ok plain else
    _ <- exclusions_ok (match ro_excluded o with Some k => firstn (S k) (rp_exclusions cfg) | None => rp_exclusions cfg end) ;;
    if isSome (ro_excluded o) then Ok plain else
    let tt_ := getn (cs_transport c) in
    if (tt_ =? 1) then
      if negb (ro_take_override o) then Ok plain else
      match rp_min_subnets cfg with [] => Ok plain | _ =>
      s <- pick_subnet (rp_min_subnets cfg) (rp_min_weights cfg) (ro_pick o) ;;
      match s with
      | None => Ok plain
      | Some s => if os_nil s then Ok plain else
                  ok <- rand_uint32_ipv4 s ;; Ok (if ok then over else plain)
      end end
    else if (tt_ =? 4) then
      if getb (cs_disable c) || negb (ro_take_override o) then Ok plain else
      match rp_prefix_subnets cfg with [] => Ok plain | _ =>
      s <- pick_subnet (rp_prefix_subnets cfg) (rp_prefix_weights cfg) (ro_pick o) ;;
      match s with
      | None => Ok plain
      | Some s => if os_nil s then Ok plain else
                  ok <- rand_uint32_ipv4 s ;;
                  if negb ok then Ok plain else
                  (* overridePrefix *)
                  known <- try_from_id (rp_prefix_ids cfg) (os_prefix_id s) ;;
                  Ok (if known then over else plain)
      end end
    else Ok plain
  end.

(* RegProcessor.processC2SWrapper: Ok = bytes ready for ZMQ.  [has_resp]: the wrapper carries a
   registration response, which an authenticated registrar signs (ed25519.Sign panics on a key of
   the wrong size) *)
Definition process_c2s_wrapper (cfg : rpcfg) (w : option wrapper) : res unit :=
  match w with
  | None => Err ENoC2SBody
  | Some w => if blen (match w_secret w with Some s => s | None => [] end) <? 8
              then Err ESharedSecret
              else if rp_auth cfg && isSome (w_resp w) && negb (rp_privkey_ok cfg) then Panic
              else Ok tt
  end.

Definition dummy_resp : regresp :=
  {| rr_ipv4 := None; rr_ipv6 := None; rr_dstport := None; rr_params := None; rr_portrand := None |}.

(* RegProcessor.RegisterBidirectional / RegisterUnidirectional (the pointer is never nil here:
   the handlers pass the message they just allocated) *)
Definition register_bidirectional (cfg : rpcfg) (o : rporacle) (w : wrapper) : res respsum :=
  let w' := set_resp w None in
  r <- process_bd_req cfg o (Some w') ;;
  _ <- process_c2s_wrapper cfg (Some (set_resp w' (Some dummy_resp))) ;;   (* processBdReq stored its response *)
  if ro_zmq_ok o then Ok r else Err EZmq.

Definition register_unidirectional (cfg : rpcfg) (o : rporacle) (w : wrapper) : res unit :=
  _ <- process_c2s_wrapper cfg (Some (set_resp w None)) ;;
  if ro_zmq_ok o then Ok tt else Err EZmq.

(* ------------------------------------------------------------------ HTTP handlers *)
(* outcome of a handler: the status code it wrote; a [Panic] is a request that gets no status line *)
Record httpreq := { h_post : bool;
                    h_remote : option bytes;              (* parseIP(r.RemoteAddr) *)
                    h_remote_loopback : bool;             (* ip.Equal(127.0.0.1) || ip.Equal(::1) *)
                    h_xff : list (list (option bytes));   (* header values x comma-separated items, each ParseIP(TrimSpace(item)) *)
                    h_clen : Z;                           (* r.ContentLength *)
                    h_blen : Z;                           (* number of bytes the body really has *)
                    h_read_ok : bool;                     (* the transport delivered the body without error *)
                    h_body : option wrapper }.            (* proto.Unmarshal view *)

Definition last_z {A} (l : list A) (back : Z) : res A := index l (Z.of_nat (length l) - back).

(* getRemoteAddr *)
Definition get_remote_addr (r : httpreq) : res (option bytes) :=
  match h_xff r with
  | [] => Ok (h_remote r)
  | vs => items <- last_z vs 1 ;;
          it <- last_z items 1 ;;
          it' <- (if (1 <? Z.of_nat (length items))%Z && h_remote_loopback r then last_z items 2 else Ok it) ;;
          Ok (match it' with Some ip => Some ip | None => h_remote r end)
  end.

Definition max_request_length : Z := 1048576.

(* getC2SFromReq: Err carries no class, the status has been written; we return it as Ok (inl status) *)
Definition get_c2s_from_req (r : httpreq) : N + wrapper :=
  if negb (h_post r) then inl 405 else
  if (h_clen r <? 33)%Z then inl 400 else
  (* io.ReadAll(http.MaxBytesReader(w, r.Body, 1 MiB)), commit c331011 *)
  if negb (h_read_ok r) || (max_request_length <? h_blen r)%Z then inl 400 else
  match h_body r with None => inl 400 | Some w => inr w end.

Definition handle_register (cfg : rpcfg) (o : rporacle) (r : httpreq) : res N :=
  a <- get_remote_addr r ;;
  match a with
  | None => Ok 400
  | Some _ =>
    match get_c2s_from_req r with
    | inl st => Ok st
    | inr w => match register_unidirectional cfg o w with
               | Ok _ => Ok 204
               | Err _ => Ok 500
               | Panic => Panic
               end
    end
  end.

(* registerBidirectional; [srv_gen]: generation of the server's latest ClientConf (None: no ClientConf).
   [fixed]: whether the generation rewrite is guarded by a nil check of the payload (commit 3969bad). *)
Definition handle_register_bidi_gen (fixed : bool) (cfg : rpcfg) (o : rporacle) (srv_gen : option N) (r : httpreq)
  : res (N * bool) :=
  a <- get_remote_addr r ;;
  match a with
  | None => Ok (400, false)
  | Some _ =>
    match get_c2s_from_req r with
    | inl st => Ok (st, false)
    | inr w =>
      let gen := getn (oget (w_payload w) cs_gen) in
      let newer := match srv_gen with Some g => gen <? g | None => false end in
      w' <- (if newer && (negb fixed || isSome (w_payload w))
             then c <- deref (w_payload w) ;; Ok (set_payload w (Some (set_gen c srv_gen)))
             else Ok w) ;;
      match register_bidirectional cfg o w' with
      | Panic => Panic
      | Err ENoC2SBody | Err ESelectLegacy => Ok (400, false)
      | Err _ => Ok (500, false)
      | Ok _ => Ok (200, newer)        (* regResp is non-nil whenever err == nil *)
      end
    end
  end.
Definition handle_register_bidi := handle_register_bidi_gen true.

(* ------------------------------------------------------------------ preconditions of the theorems *)
(* what the phantom selector guarantees (C14): never (nil, nil); an IPv4 selection is an IPv4 address *)
Definition sel_not_nil (s : selres) : Prop := s <> SelNil.
Definition wf_storacle (o : storacle) : Prop := sel_not_nil (so_sel4 o) /\ sel_not_nil (so_sel6 o).

Definition wf_sel4 (s : selres) : Prop :=
  match s with SelOk ip _ => to4 ip <> None | SelNil => False | _ => True end.
Definition wf_rporacle (o : rporacle) : Prop :=
  forall gen, wf_sel4 (ro_sel o gen false) /\ sel_not_nil (ro_sel o gen true).

Definition wf_rpcfg (cfg : rpcfg) : Prop :=
  (rp_auth cfg = true -> rp_privkey_ok cfg = true) /\
  (rp_enforce cfg = true ->
     Forall (fun s => os_nil s = false) (rp_exclusions cfg) /\
     (rp_min_weights cfg <= length (rp_min_subnets cfg))%nat /\
     (rp_prefix_weights cfg <= length (rp_prefix_subnets cfg))%nat /\
     (* the keys of DefaultPrefixes are 0 .. n-1 *)
     (forall id, (0 <= id < Z.of_nat (length (rp_prefix_ids cfg)))%Z -> In id (rp_prefix_ids cfg))).

(* configuration accepted by NewRegProcessor / reg_config.toml: key size, override subnets *)
(* strings.Split never returns an empty slice *)
Definition wf_req (r : httpreq) : Prop := Forall (fun items => items <> []) (h_xff r).

(* a handler outcome that is a status line *)
Definition is_status {A} (r : res A) : Prop := exists a, r = Ok a.

