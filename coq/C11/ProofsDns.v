(* C11 proofs, part 3: the DNS responder terminates and never panics. *)
From Coq Require Import Lia ZifyN ZifyNat ZifyBool.
From CJ Require Import C11.Prim C11.Msg C11.Flight C11.Dns C11.ProofsMsg C11.ProofsFlight.

(* ---------------------------------------------------------------- names *)
Definition good_label (l : bytes) : bool := negb ((blen l =? 0) || (63 <? blen l)).
Definition good_name (n : name) : bool := forallb good_label n.

Lemma write_name_guard_good : forall n, good_name n = true -> write_name_guard n = Ok tt.
Proof.
  induction n as [|l r IH]; cbn; intros H; [reflexivity|].
  apply andb_prop in H as [Hl Hr]. unfold good_label in Hl.
  destruct ((blen l =? 0) || (63 <? blen l)); [discriminate|auto].
Qed.

Lemma existsb_false_good : forall n,
  existsb (fun l => (blen l =? 0) || (63 <? blen l)) n = false -> good_name n = true.
Proof.
  induction n as [|l r IH]; cbn; intros H; [reflexivity|].
  apply orb_false_elim in H as [H1 H2]. unfold good_label. rewrite H1. cbn. auto.
Qed.

Lemma new_name_np : forall labels, new_name labels <> Panic.
Proof.
  intros. unfold new_name.
  destruct (existsb _ labels) eqn:E; [discriminate|].
  rewrite (write_name_guard_good _ (existsb_false_good _ E)). cbn. np.
Qed.

Lemma new_name_ok : forall labels n, new_name labels = Ok n -> good_name n = true.
Proof.
  intros labels n. unfold new_name.
  destruct (existsb _ labels) eqn:E; [discriminate|].
  rewrite (write_name_guard_good _ (existsb_false_good _ E)). cbn.
  destruct (255 <? wire_len labels); [discriminate|].
  intros H; inversion H; subst. apply existsb_false_good; auto.
Qed.

(* ---------------------------------------------------------------- readName: termination *)
(* The measure: (pointers still allowed) x (len + 2)  +  bytes remaining  + 1.
   A label iteration consumes at least two bytes of the remaining input; a pointer
   iteration may move anywhere but uses up one unit of the pointer budget. *)
Definition rn_measure (msg : bytes) (pos nptr : N) : N :=
  (pointer_limit - nptr) * (blen msg + 2) + (blen msg - pos) + 1.

Lemma read_u8_some_lt : forall msg pos b, read_u8 msg pos = Some b -> pos < blen msg.
Proof.
  intros msg pos b H. unfold read_u8 in H.
  assert (nth_error msg (N.to_nat pos) <> None) as Hn by congruence.
  apply nth_error_Some in Hn. unfold blen. lia.
Qed.

Lemma read_bytes_some_le : forall msg pos n l, n <> 0 -> read_bytes msg pos n = Some l -> pos + n <= blen msg.
Proof.
  intros msg pos n l Hn H. unfold read_bytes in H.
  destruct (n =? 0) eqn:E; [lia|]. destruct (pos + n <=? blen msg) eqn:E2; [lia|discriminate].
Qed.

Lemma read_name_fuel_enough : forall fuel msg pos labels nptr seekto,
  nptr <= pointer_limit ->
  rn_measure msg pos nptr < N.of_nat fuel ->
  read_name_fuel fuel msg pos labels nptr seekto <> None.
Proof.
  induction fuel as [|f IH]; intros msg pos labels nptr seekto Hn Hm.
  - unfold rn_measure in Hm. nia.
  - cbn [read_name_fuel].
    destruct (read_u8 msg pos) as [lt|] eqn:Eb; [|discriminate].
    apply read_u8_some_lt in Eb.
    destruct (lt / 64 =? 0) eqn:Et.
    + destruct (lt mod 64 =? 0) eqn:El; [discriminate|].
      destruct (read_bytes msg (pos + 1) (lt mod 64)) as [label|] eqn:Er; [|discriminate].
      apply read_bytes_some_le in Er; [|lia].
      apply IH; auto. unfold rn_measure in *. lia.
    + destruct (lt / 64 =? 3); [|discriminate].
      destruct (read_u8 msg (pos + 1)) as [lower|]; [|discriminate].
      destruct (pointer_limit <? nptr + 1) eqn:Ep; [discriminate|].
      apply IH; [lia|]. unfold rn_measure, pointer_limit in *.
      (* the new position is arbitrary: bound its remaining bytes by the whole message *)
      assert (blen msg - (lt mod 64 * 256 + lower) <= blen msg) by lia.
      nia.
Qed.

Lemma read_name_terminates : forall msg pos,
  read_name_fuel (name_fuel msg) msg pos [] 0 0 <> None.
Proof.
  intros. apply read_name_fuel_enough; [unfold pointer_limit; lia|].
  unfold rn_measure, name_fuel, pointer_limit. lia.
Qed.

Lemma read_name_fuel_np : forall fuel msg pos labels nptr seekto r,
  read_name_fuel fuel msg pos labels nptr seekto = Some r -> r <> Panic.
Proof.
  induction fuel as [|f IH]; intros msg pos labels nptr seekto r H; cbn [read_name_fuel] in H; [discriminate|].
  destruct (read_u8 msg pos) as [lt|]; [|inversion H; discriminate].
  destruct (lt / 64 =? 0).
  - destruct (lt mod 64 =? 0).
    + inversion H; subst. apply bind_np; [apply new_name_np|intros; discriminate].
    + destruct (read_bytes msg (pos + 1) (lt mod 64)); [eapply IH; eauto|inversion H; discriminate].
  - destruct (lt / 64 =? 3); [|inversion H; discriminate].
    destruct (read_u8 msg (pos + 1)); [|inversion H; discriminate].
    destruct (pointer_limit <? nptr + 1); [inversion H; discriminate|eapply IH; eauto].
Qed.

Lemma read_name_fuel_good : forall fuel msg pos labels nptr seekto n p,
  read_name_fuel fuel msg pos labels nptr seekto = Some (Ok (n, p)) -> good_name n = true.
Proof.
  induction fuel as [|f IH]; intros msg pos labels nptr seekto n p H; cbn [read_name_fuel] in H; [discriminate|].
  destruct (read_u8 msg pos) as [lt|]; [|inversion H].
  destruct (lt / 64 =? 0).
  - destruct (lt mod 64 =? 0).
    + inversion H as [H1]. destruct (new_name labels) eqn:En; cbn in H1; try discriminate.
      inversion H1; subst. eapply new_name_ok; eauto.
    + destruct (read_bytes msg (pos + 1) (lt mod 64)); [eapply IH; eauto|inversion H].
  - destruct (lt / 64 =? 3); [|inversion H].
    destruct (read_u8 msg (pos + 1)); [|inversion H].
    destruct (pointer_limit <? nptr + 1); [inversion H|eapply IH; eauto].
Qed.

Theorem read_name_np : forall msg pos, read_name msg pos <> Panic.
Proof.
  intros. unfold read_name.
  destruct (read_name_fuel (name_fuel msg) msg pos [] 0 0) as [r|] eqn:E.
  - eapply read_name_fuel_np; eauto.
  - exfalso. eapply read_name_terminates; eauto.
Qed.

Lemma read_name_good : forall msg pos n p, read_name msg pos = Ok (n, p) -> good_name n = true.
Proof.
  intros msg pos n p. unfold read_name.
  destruct (read_name_fuel (name_fuel msg) msg pos [] 0 0) as [r|] eqn:E; [|discriminate].
  intros; subst. eapply read_name_fuel_good; eauto.
Qed.

(* ---------------------------------------------------------------- messages *)
Lemma opt_eof_np : forall {A} (o : option A), opt_eof o <> Panic.
Proof. intros A [a|]; discriminate. Qed.

Lemma read_question_np : forall msg pos, read_question msg pos <> Panic.
Proof.
  intros. unfold read_question. apply bind_np; [apply read_name_np|]. intros [n p] _.
  repeat (apply bind_np; [apply opt_eof_np|intros ? _]). discriminate.
Qed.

Lemma read_question_good : forall msg pos q p, read_question msg pos = Ok (q, p) -> good_name (q_name q) = true.
Proof.
  intros msg pos q p. unfold read_question.
  destruct (read_name msg pos) as [[n p0]| |] eqn:E; cbn [bind]; try discriminate.
  destruct (opt_eof (read_u16 msg p0)); cbn [bind]; try discriminate.
  destruct (opt_eof (read_u16 msg (p0 + 2))); cbn [bind]; try discriminate.
  intros H; inversion H; subst. cbn. eapply read_name_good; eauto.
Qed.

Lemma read_rr_np : forall msg pos, read_rr msg pos <> Panic.
Proof.
  intros. unfold read_rr. apply bind_np; [apply read_name_np|]. intros [n p] _.
  repeat (apply bind_np; [apply opt_eof_np|intros ? _]). discriminate.
Qed.

Lemma read_many_np : forall {A} (rd : bytes -> N -> res (A * N)) count msg pos acc,
  (forall m p, rd m p <> Panic) -> read_many rd count msg pos acc <> Panic.
Proof.
  intros A rd count. induction count as [|k IH]; intros msg pos acc H; cbn; [discriminate|].
  specialize (H msg pos) as Hp. destruct (rd msg pos) as [[a p]|e|]; [apply IH; auto|discriminate|congruence].
Qed.

Lemma read_many_forall : forall {A} (rd : bytes -> N -> res (A * N)) (P : A -> Prop) count msg pos acc l e p,
  (forall m p a p', rd m p = Ok (a, p') -> P a) ->
  Forall P acc -> read_many rd count msg pos acc = Ok (l, e, p) -> Forall P l.
Proof.
  intros A rd P count. induction count as [|k IH]; intros msg pos acc l e p Hrd Hacc H; cbn in H.
  - inversion H; subst; auto.
  - destruct (rd msg pos) as [[a p1]|e1|] eqn:E; [| |discriminate].
    + apply (IH msg p1 (acc ++ [a]) l e p Hrd); [|exact H].
      apply Forall_app; split; auto. constructor; [|constructor]. eapply Hrd; eauto.
    + inversion H; subst; auto.
Qed.

Definition good_message (m : message) : Prop := Forall (fun q => good_name (q_name q) = true) (m_q m).

Lemma read_message_np : forall msg, read_message msg <> Panic.
Proof.
  intros. unfold read_message.
  destruct (read_u16 msg (2 * 0)); [|discriminate].
  destruct (read_u16 msg (2 * 1)); [|discriminate].
  destruct (read_u16 msg (2 * 2)); [|discriminate].
  destruct (read_u16 msg (2 * 3)); [|discriminate].
  destruct (read_u16 msg (2 * 4)); [|discriminate].
  destruct (read_u16 msg (2 * 5)); [|discriminate].
  apply bind_np; [apply read_many_np, read_question_np|]. intros [[qs e] p] _.
  destruct e; [discriminate|].
  apply bind_np; [apply read_many_np, read_rr_np|]. intros [[ans e] p1] _.
  destruct e; [discriminate|].
  apply bind_np; [apply read_many_np, read_rr_np|]. intros [[nss e] p2] _.
  destruct e; [discriminate|].
  apply bind_np; [apply read_many_np, read_rr_np|]. intros [[ars e] p3] _. discriminate.
Qed.

Lemma read_message_good : forall msg m e p, read_message msg = Ok (m, e, p) -> good_message m.
Proof.
  intros msg m e p. unfold read_message, good_message.
  destruct (read_u16 msg (2 * 0)); [|intros H; inversion H; constructor].
  destruct (read_u16 msg (2 * 1)); [|intros H; inversion H; constructor].
  destruct (read_u16 msg (2 * 2)); [|intros H; inversion H; constructor].
  destruct (read_u16 msg (2 * 3)); [|intros H; inversion H; constructor].
  destruct (read_u16 msg (2 * 4)); [|intros H; inversion H; constructor].
  destruct (read_u16 msg (2 * 5)); [|intros H; inversion H; constructor].
  destruct (read_many read_question (N.to_nat n1) msg 12 []) as [[[qs e0] p0]| |] eqn:Eq; cbn [bind]; try discriminate.
  assert (Forall (fun q => good_name (q_name q) = true) qs) as Hq.
  { eapply (read_many_forall read_question); [|constructor|exact Eq].
    intros. eapply read_question_good; eauto. }
  destruct e0; [intros H; inversion H; subst; exact Hq|].
  destruct (read_many read_rr (N.to_nat n2) msg p0 []) as [[[ans e1] p1]| |]; cbn [bind]; try discriminate.
  destruct e1; [intros H; inversion H; subst; exact Hq|].
  destruct (read_many read_rr (N.to_nat n3) msg p1 []) as [[[nss e2] p2]| |]; cbn [bind]; try discriminate.
  destruct e2; [intros H; inversion H; subst; exact Hq|].
  destruct (read_many read_rr (N.to_nat n4) msg p2 []) as [[[ars e3] p3]| |]; cbn [bind]; try discriminate.
  intros H; inversion H; subst; exact Hq.
Qed.

Theorem message_from_wire_np : forall msg, message_from_wire msg <> Panic.
Proof.
  intros. unfold message_from_wire. apply bind_np; [apply read_message_np|].
  intros [[m e] p] _. np.
Qed.

Lemma message_from_wire_good : forall msg m e, message_from_wire msg = Ok (m, e) -> good_message m.
Proof.
  intros msg m e. unfold message_from_wire.
  destruct (read_message msg) as [[[m0 e0] p0]| |] eqn:E; cbn [bind]; try discriminate.
  apply read_message_good in E.
  destruct e0; [intros H; inversion H; subst; auto|].
  destruct (p0 <? blen msg); intros H; inversion H; subst; auto.
Qed.

(* ---------------------------------------------------------------- responseFor *)
Lemma trim_suffix_np : forall n suffix, trim_suffix n suffix <> Panic.
Proof.
  intros. unfold trim_suffix.
  destruct (Nat.ltb (length n) (length suffix)) eqn:E; [discriminate|].
  apply Nat.ltb_ge in E.
  apply bind_np; [apply slice_np; unfold zlen; lia|]. intros fore _.
  apply bind_np; [apply slice_np; unfold zlen; lia|]. intros aft Ha.
  apply slice_ok_len in Ha. unfold zlen in Ha.
  assert (length aft = length suffix) as Hl by lia.
  generalize (S (length aft)) as fuel. intros fuel. generalize O as i.
  induction fuel as [|f IH]; intros i; cbn [suffix_loop]; [discriminate|].
  destruct (Nat.ltb i (length aft)) eqn:Ei; [|discriminate].
  apply Nat.ltb_lt in Ei.
  apply bind_np; [apply index_np; lia|]. intros a _.
  apply bind_np; [apply index_np; lia|]. intros s _.
  destruct (label_eq_fold a s); [apply IH|discriminate].
Qed.

Theorem response_for_np : forall q domain maxudp b32, response_for q domain maxudp b32 <> Panic.
Proof.
  intros. unfold response_for.
  destruct (N.testbit (m_flags q) 15); [discriminate|].
  destruct (opt_loop (m_ar q) 0 0) as [r|[nadd psize]]; [discriminate|].
  destruct (negb (Nat.eqb (length (m_q q)) 1)) eqn:E; [discriminate|].
  apply negb_false_iff, Nat.eqb_eq in E.
  apply bind_np; [apply index_np; lia|]. intros qu _.
  apply bind_np; [apply trim_suffix_np|]. intros t _. np.
Qed.

Theorem remove_request_format_np : forall p, remove_request_format p <> Panic.
Proof.
  intros [|l r]; cbn [remove_request_format]; [discriminate|].
  destruct (Z.of_nat (length (l :: r)) <? 1 + Z.of_N l)%Z eqn:E; [discriminate|].
  apply slice_np; unfold zlen; lia.
Qed.

Lemma wire_guard_np : forall q r, good_message q -> wire_guard q r <> Panic.
Proof.
  intros q r Hg. unfold wire_guard, good_message in *.
  apply bind_np.
  - destruct ((dr_flags r mod 16 =? 0) && Nat.eqb (length (m_q q)) 1) eqn:E; [|discriminate].
    apply andb_prop in E as [_ E]. apply Nat.eqb_eq in E.
    apply bind_np; [apply index_np; lia|]. intros qu Hq.
    apply index_ok_in in Hq. rewrite Forall_forall in Hg.
    rewrite (write_name_guard_good _ (Hg _ Hq)). discriminate.
  - intros _ _. induction (m_q q) as [|x rest IH]; [discriminate|].
    inversion Hg; subst. rewrite (write_name_guard_good _ H1). cbn [bind]. auto.
Qed.

Theorem dns_recv_np : forall domain maxudp b32 pkt, dns_recv domain maxudp b32 pkt <> Panic.
Proof.
  intros. unfold dns_recv.
  apply bind_np; [apply message_from_wire_np|]. intros [q e] Hq.
  apply message_from_wire_good in Hq.
  apply bind_np; [apply response_for_np|]. intros r _.
  destruct r as [[resp [payload|]]|]; [| |discriminate].
  - pose proof (remove_request_format_np payload).
    destruct (remove_request_format payload); [|discriminate|congruence].
    apply bind_np; [apply wire_guard_np; auto|]. intros; discriminate.
  - apply bind_np; [apply wire_guard_np; auto|]. intros; discriminate.
Qed.

Theorem dns_process_request_np : forall cfg o view,
  wf_rpcfg cfg -> wf_rporacle o -> dns_process_request cfg o view <> Panic.
Proof.
  intros cfg o view Hc Ho. unfold dns_process_request.
  destruct view as [w|]; [|discriminate].
  destruct (getn (w_source w) =? 6).
  - pose proof (register_bidirectional_np cfg o w Hc Ho).
    destruct (register_bidirectional cfg o w); [discriminate|discriminate|congruence].
  - pose proof (register_unidirectional_np cfg o w Hc).
    destruct (register_unidirectional cfg o w); [discriminate|discriminate|congruence].
Qed.

(* ---------------------------------------------------------------- "never hangs": the section loops *)
(* a name that was read successfully ends strictly after the position it started at: just past its last
   label, or just past its first compression pointer *)
Lemma read_name_fuel_progress : forall fuel msg pos labels nptr seekto n p,
  read_name_fuel fuel msg pos labels nptr seekto = Some (Ok (n, p)) ->
  (nptr = 0 -> pos < p) /\ (0 < nptr -> p = seekto).
Proof.
  induction fuel as [|f IH]; intros msg pos labels nptr seekto n p H; cbn [read_name_fuel] in H; [discriminate|].
  destruct (read_u8 msg pos) as [lt|]; [|inversion H].
  destruct (lt / 64 =? 0).
  - destruct (lt mod 64 =? 0) eqn:El.
    + inversion H as [H1]. destruct (new_name labels); cbn in H1; try discriminate.
      inversion H1; subst. destruct (0 <? nptr) eqn:E0; split; intros; lia.
    + destruct (read_bytes msg (pos + 1) (lt mod 64)); [|inversion H].
      apply IH in H as [H0 H1]. split; intros; [specialize (H0 H); lia|auto].
  - destruct (lt / 64 =? 3); [|inversion H].
    destruct (read_u8 msg (pos + 1)); [|inversion H].
    destruct (pointer_limit <? nptr + 1); [inversion H|].
    apply IH in H as [_ H1]. assert (0 < nptr + 1) as Hp by lia. specialize (H1 Hp).
    destruct (nptr =? 0) eqn:E0; split; intros; lia.
Qed.

Lemma read_name_progress : forall msg pos n p, read_name msg pos = Ok (n, p) -> pos < p.
Proof.
  intros msg pos n p. unfold read_name.
  destruct (read_name_fuel (name_fuel msg) msg pos [] 0 0) as [r|] eqn:E; [|discriminate].
  intros; subst. apply read_name_fuel_progress in E as [H _]. auto.
Qed.

Lemma read_u16_some_le : forall msg p v, read_u16 msg p = Some v -> p + 2 <= blen msg.
Proof.
  intros msg p v. unfold read_u16, read_bytes. cbn [N.eqb].
  destruct (p + 2 <=? blen msg) eqn:E; [lia|discriminate].
Qed.

Lemma read_question_progress : forall msg pos q p, read_question msg pos = Ok (q, p) -> pos < p <= blen msg.
Proof.
  intros msg pos q p. unfold read_question.
  destruct (read_name msg pos) as [[n p0]| |] eqn:E; cbn [bind]; try discriminate.
  apply read_name_progress in E.
  destruct (read_u16 msg p0) eqn:E1; cbn [opt_eof bind]; try discriminate.
  destruct (read_u16 msg (p0 + 2)) eqn:E2; cbn [opt_eof bind]; try discriminate.
  apply read_u16_some_le in E2. intros H; inversion H; subst. lia.
Qed.

Lemma read_rr_progress : forall msg pos r p, read_rr msg pos = Ok (r, p) -> pos < p.
Proof.
  intros msg pos r p. unfold read_rr.
  destruct (read_name msg pos) as [[n p0]| |] eqn:E; cbn [bind]; try discriminate.
  apply read_name_progress in E.
  repeat match goal with
         | |- bind (opt_eof ?x) _ = _ -> _ => destruct x; cbn [opt_eof bind]; try discriminate
         end.
  intros H; inversion H; subst. lia.
Qed.

(* the loops over the header's counts (up to 65535 each) stop at the first failed read, and every successful
   read moves forward: with a reader that never passes the end, at most one entry per remaining byte *)
Lemma read_many_bounded : forall {A} (rd : bytes -> N -> res (A * N)) count msg pos acc l e p,
  (forall m q a q', rd m q = Ok (a, q') -> q < q' <= blen m) ->
  pos <= blen msg ->
  read_many rd count msg pos acc = Ok (l, e, p) ->
  N.of_nat (length l) + pos <= N.of_nat (length acc) + p /\ p <= blen msg.
Proof.
  intros A rd count. induction count as [|k IH]; intros msg pos acc l e p Hrd Hpos H; cbn in H.
  - inversion H; subst. lia.
  - destruct (rd msg pos) as [[a p1]|e1|] eqn:E; [| |discriminate].
    + apply Hrd in E. apply IH in H; auto; [|lia]. rewrite app_length in H. cbn in H. lia.
    + inversion H; subst. lia.
Qed.

Theorem questions_bounded_by_length : forall msg count l e p,
  read_many read_question count msg 12 [] = Ok (l, e, p) -> 12 <= blen msg ->
  N.of_nat (length l) <= blen msg.
Proof.
  intros msg count l e p H H12.
  apply (read_many_bounded read_question) in H; [cbn in H; lia| |lia].
  intros. eapply read_question_progress; eauto.
Qed.

(* resource records: each successful read moves forward (the reader may stand past the end only after a
   zero-length RDATA, and then the next read fails), so the loop runs at most once per position *)
Lemma read_many_rr_bounded : forall count msg pos acc l e p,
  read_many read_rr count msg pos acc = Ok (l, e, p) ->
  N.of_nat (length l) + pos <= N.of_nat (length acc) + p.
Proof.
  induction count as [|k IH]; intros msg pos acc l e p H; cbn in H.
  - inversion H; subst. lia.
  - destruct (read_rr msg pos) as [[a p1]|e1|] eqn:E; [| |discriminate].
    + apply read_rr_progress in E. apply IH in H. rewrite app_length in H. cbn in H. lia.
    + inversion H; subst. lia.
Qed.
