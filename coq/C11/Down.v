(* C11 model, part 4: what happens downstream of the entry points of parts 1-3 with
   attacker-influenced values — the ingest worker's body after parseRegMessage
   (ingestRegistration, sharing over the API, handleConnectingTpReg /
   dtls.Transport.Connect's use of the client's parameters) — and the amount of
   work ("never hangs") of the first-flight scans.  Definitions only; executable. *)
From CJ Require Export C11.Prim C11.Msg C11.Flight.

(* ------------------------------------------------------------------ ingestRegistration *)
(* a *DecoyRegistration as ingestRegistration dereferences it *)
Record ireg := { ir_nil : bool;                 (* reg == nil *)
                 ir_keys : option bytes;        (* Keys (nil or the shared secret) *)
                 ir_phantom : option bytes;     (* PhantomIp (nil slice or bytes) *)
                 ir_source : option N;          (* RegistrationSource (pointer) *)
                 ir_transport_known : bool;     (* transports[reg.Transport] exists *)
                 ir_prescanned : bool;          (* Flags != nil && Flags.GetPrescanned() *)
                 ir_has_c2s : bool;             (* originalC2S != nil *)
                 ir_c2s_v4 : bool;              (* originalC2S.GetV4Support() *)
                 ir_connecting : option pval }. (* Some params: reg.Transport is a connecting (DTLS) transport *)

Record ioracle := { io_blocklisted : bool;      (* IsBlocklistedPhantom *)
                    io_exists : bool;           (* TrackRegIfNotExists: already tracked *)
                    io_covert_ok : bool;        (* ParseOrResolveBlocklisted returned a literal (C06) *)
                    io_live : bool;             (* PhantomIsLive *)
                    io_share : bool }.          (* EnableShareOverAPI *)

Inductive iout :=
  | IDropped (why : N)       (* 1 incomplete, 2 transport, 3 blocklisted, 4 duplicate, 5 covert, 6 live, 7 blocklisted (detector) *)
  | IAdded (shared : bool) (connect : option (res unit)).   (* announced; shared over the API; outcome of Connect's parameter use *)

(* DecoyRegistration.String(): reg.Keys.SharedSecret without a nil check on Keys *)
Definition reg_string (r : ireg) : res unit := _ <- deref (ir_keys r) ;; Ok tt.

(* GenerateC2SWrapper (tryShareRegistrationOverAPI): Ok true = something is posted.  The peer's HTTP
   response is only looked at for its status code; its body is closed unread. *)
Definition generate_c2s_wrapper (r : ireg) : res bool :=
  if negb (ir_has_c2s r) then Ok false else
  p <- deref (ir_phantom r) ;;                                   (* reg.PhantomIp.To4(): nil slice is fine, kept for symmetry *)
  if negb (isSome (to4 p)) && ir_c2s_v4 r then Ok false else
  _ <- deref (ir_keys r) ;;                                      (* reg.Keys.SharedSecret *)
  Ok true.

(* dtls.Transport.Connect, the part that touches the client's parameters (before DNAT / sockets):
   comma-ok assertion of reg.TransportParams() to the DTLS parameter message, then params.SrcAddr4.GetIP() ... *)
Definition dtls_connect_params (p : pval) : res unit :=
  match p with
  | PDtls (Some _) => Ok tt            (* field reads of a non-nil message, nil-safe getters on the Addr sub-messages *)
  | PDtls None => Panic                (* typed nil pointer: params.SrcAddr4 *)
  | _ => Err EParams                   (* assertion !ok *)
  end.

Definition ingest_registration (r : ireg) (o : ioracle) : res iout :=
  (* ValidateRegistration *)
  if ir_nil r then Ok (IDropped 1) else
  match ir_keys r, ir_phantom r, ir_source r with
  | None, _, _ | _, None, _ | _, _, None => Ok (IDropped 1)
  | Some _, Some ph, Some _ =>
    if negb (ir_transport_known r) then Ok (IDropped 2) else
    src <- deref (ir_source r) ;;                                 (* *reg.RegistrationSource *)
    if negb (src =? 1) && io_blocklisted o then Ok (IDropped 3) else
    if io_exists o then Ok (IDropped 4) else
    _ <- reg_string r ;;                                          (* Debugf("New registration", reg.String()) *)
    if negb (io_covert_ok o) then Ok (IDropped 5) else
    if negb (ir_prescanned r) && isSome (to4 ph) && io_live o then Ok (IDropped 6) else
    src <- deref (ir_source r) ;;                                 (* *reg.RegistrationSource == Detector *)
    shared <- (if (src =? 1) && io_share o then generate_c2s_wrapper r else Ok false) ;;
    if (src =? 1) && io_blocklisted o then Ok (IDropped 7) else
    _ <- deref (ir_source r) ;;                                   (* Stat().AddReg(..., reg.RegistrationSource): *source *)
    Ok (IAdded shared (match ir_connecting r with Some p => Some (dtls_connect_params p) | None => None end))
  end.

(* the registrations parseRegMessage hands to ingestRegistration: built by NewRegistration *)
Definition ireg_of (w : wrapper) (cfg : stcfg) (s : regsum) (params : option pval) : ireg :=
  {| ir_nil := false; ir_keys := Some (match w_secret w with Some x => x | None => [] end);
     ir_phantom := Some (rs_ip s); ir_source := Some (getn (w_source w)); ir_transport_known := true;
     ir_prescanned := false; ir_has_c2s := true; ir_c2s_v4 := getb (oget (w_payload w) cs_v4);
     ir_connecting := params |}.

(* ------------------------------------------------------------------ work done by the first-flight scans *)
(* number of loop iterations / bytes looked at; the theorems bound them by the size of the (fixed) tables
   and the length of the input, which is the termination argument of these loops *)
Fixpoint prefix_loop_iters (getreg : Z -> option regview) (data : bytes) (tbl : list pfx) : nat :=
  match tbl with
  | [] => O
  | x :: r => match prefix_step getreg data x with
              | Ok (SReturn _) | Err _ | Panic => 1
              | Ok _ => S (prefix_loop_iters getreg data r)
              end
  end.

(* bytes compared / copied by one iteration: the static match and the 64-byte tag *)
Definition prefix_step_work (data : bytes) (x : pfx) : Z := Z.min (zlen (x_static x)) (zlen data) + 64.

Fixpoint obfs4_loop_iters (buflen : Z) (regs : list oreg) : nat :=
  match regs with
  | [] => O
  | r :: rest =>
      if or_nil r || negb (or_keys_ok r) then 1%nat else
      match find_mark_mac 16 buflen 109 8192 true (or_mark_eq r) None with
      | Ok p => if (p =? -1)%Z then S (obfs4_loop_iters buflen rest) else 1%nat
      | _ => 1%nat
      end
  end.

(* findMarkMac has no loop of its own: hmac.Equal looks at 16 bytes, bytes.Index at buf[startPos:endPos] *)
Definition find_mark_mac_work (buflen startPos maxPos : Z) (fromTail : bool) : Z :=
  let endPos := if (maxPos <? buflen)%Z then maxPos else buflen in
  if (buflen <? startPos)%Z || (endPos - startPos <? 32)%Z then 0%Z
  else if fromTail then 16%Z else (endPos - startPos)%Z.
