(* C11 proofs, part 2: the first-flight slicing never panics. *)
From Coq Require Import Lia ZifyN ZifyNat ZifyBool.
From CJ Require Import C11.Prim C11.Msg C11.Flight C11.ProofsMsg.

Lemma slice_np : forall {A} (l : list A) lo hi,
  (0 <= lo <= hi)%Z -> (hi <= zlen l)%Z -> slice l lo hi <> Panic.
Proof.
  intros A l lo hi H1 H2. unfold slice, zlen in *.
  destruct ((lo <? 0)%Z || (hi <? lo)%Z || (Z.of_nat (length l) <? hi)%Z) eqn:E; [lia|discriminate].
Qed.

Lemma slice_ok_len : forall {A} (l r : list A) lo hi,
  slice l lo hi = Ok r -> zlen r = (hi - lo)%Z.
Proof.
  intros A l r lo hi. unfold slice, zlen.
  destruct ((lo <? 0)%Z || (hi <? lo)%Z || (Z.of_nat (length l) <? hi)%Z) eqn:E; [discriminate|].
  intros H; inversion H; subst. rewrite firstn_length, skipn_length. lia.
Qed.

Theorem min_wrap_np : forall lookup data, min_wrap lookup data <> Panic.
Proof.
  intros. unfold min_wrap. destruct (zlen data <? 32)%Z eqn:E; [discriminate|].
  apply bind_np; [apply slice_np; lia|]. intros; np.
Qed.

Lemma ctr_try_reveal_np : forall ct, ctr_try_reveal ct <> Panic.
Proof.
  intros. unfold ctr_try_reveal. destruct (zlen ct <? 32)%Z eqn:E; [discriminate|].
  apply bind_np; [apply slice_np; lia|]. intros ? _.
  apply bind_np; [apply slice_np; lia|]. intros; discriminate.
Qed.

Lemma prefix_step_np : forall getreg data x, pfx_wf x = true -> prefix_step getreg data x <> Panic.
Proof.
  intros getreg data x Hwf. unfold pfx_wf in Hwf. unfold prefix_step.
  apply bind_np.
  { destruct (x_static x) as [|b st] eqn:Es; [discriminate|].
    apply bind_np; [apply slice_np; unfold zlen; lia|]. intros ? _.
    apply bind_np; [apply slice_np; unfold zlen; lia|]. intros; discriminate. }
  intros m _. destruct (negb m); [discriminate|].
  destruct (zlen data <? x_minlen x)%Z; [discriminate|].
  destruct ((zlen data <? x_offset x + 64)%Z && (zlen data <? x_maxlen x)%Z) eqn:E1; [discriminate|].
  destruct (zlen data <? x_maxlen x)%Z eqn:E2; [discriminate|].
  apply bind_np; [apply slice_np; lia|]. intros id _.
  apply bind_np; [apply ctr_try_reveal_np|]. intros ? _.
  np.
Qed.

Lemma prefix_loop_np : forall getreg data tbl again wrong,
  tbl_wf tbl = true -> prefix_loop getreg data tbl again wrong <> Panic.
Proof.
  intros getreg data tbl. induction tbl as [|x r IH]; intros again wrong H; cbn [prefix_loop].
  - np.
  - cbn in H. apply andb_prop in H as [Hx Hr].
    apply bind_np; [apply prefix_step_np; auto|].
    intros s Hs. destruct s; try (apply IH; auto).
    (* SReturn carries Ok or Err only *)
    unfold prefix_step in Hs.
    repeat match type of Hs with
           | bind ?e _ = _ => destruct e; cbn [bind] in Hs; try discriminate
           | (if ?b then _ else _) = _ => destruct b; try discriminate
           | (match ?e with _ => _ end) = _ => destruct e; try discriminate
           end; inversion Hs; discriminate.
Qed.

Theorem prefix_wrap_np : forall getreg tbl data, tbl_wf tbl = true -> prefix_wrap getreg tbl data <> Panic.
Proof.
  intros. unfold prefix_wrap. np. apply prefix_loop_np; auto.
Qed.

Theorem find_mark_mac_np : forall buflen startPos maxPos fromTail tail_eq index_of,
  (0 <= startPos)%Z -> (0 <= buflen)%Z ->
  find_mark_mac 16 buflen startPos maxPos fromTail tail_eq index_of <> Panic.
Proof.
  intros. unfold find_mark_mac. cbn [Z.eqb negb Pos.eqb].
  destruct (buflen <? startPos)%Z eqn:E1; [discriminate|].
  set (endPos := if (maxPos <? buflen)%Z then maxPos else buflen).
  assert (endPos <= buflen)%Z by (unfold endPos; destruct (maxPos <? buflen)%Z eqn:E; lia).
  destruct (endPos - startPos <? 32)%Z eqn:E2; [discriminate|].
  destruct fromTail.
  - destruct ((endPos - 32 <? 0)%Z || (buflen <? endPos - 32 + 16)%Z) eqn:E3; [lia|]. np.
  - destruct ((startPos <? 0)%Z || (endPos <? startPos)%Z || (buflen <? endPos)%Z) eqn:E3; [lia|]. np.
Qed.

Lemma obfs4_loop_np : forall buflen regs, (0 <= buflen)%Z -> obfs4_loop buflen regs <> Panic.
Proof.
  intros buflen regs H. induction regs as [|r rest IH]; cbn [obfs4_loop]; [discriminate|].
  destruct (or_nil r); [discriminate|]. destruct (negb (or_keys_ok r)); [discriminate|].
  apply bind_np; [apply find_mark_mac_np; lia|]. intros pos _.
  destruct (pos =? -1)%Z; [exact IH|discriminate].
Qed.

Theorem obfs4_wrap_np : forall regs data, obfs4_wrap regs data <> Panic.
Proof.
  intros. unfold obfs4_wrap. destruct (zlen data <? 64)%Z eqn:E; [discriminate|].
  apply bind_np; [apply slice_np; lia|]. intros ? _.
  apply bind_np; [apply obfs4_loop_np; unfold zlen; lia|]. intros; np.
Qed.
