(* C11, statistics epoch: no interleaving of accounting and epoch changes reaches the nil dereference,
   as long as every increment sits in the region that ensured its counter. *)
From CJ Require Import Common.Base C11.Stats.
From Coq Require Import List NArith Bool Lia.
Import ListNotations.

Lemma sm_get_create : forall m k, sm_get (sm_create m k) k = Some 0%N.
Proof. intros; unfold sm_create; cbn [sm_get]. now rewrite N.eqb_refl. Qed.

Lemma sm_get_ensure : forall m k, exists v, sm_get (sm_ensure m k) k = Some v.
Proof.
  intros m k. unfold sm_ensure. destruct (sm_get m k) eqn:E.
  - exists n. exact E.
  - exists 0%N. apply sm_get_create.
Qed.

(* the heart: ensure-then-increment inside one region never sees a nil counter *)
Lemma sm_inc_ensure_ok : forall m k, exists mp, sm_inc (sm_ensure m k) k = Ok mp.
Proof.
  intros m k. unfold sm_inc. destruct (sm_get_ensure m k) as [v E]. rewrite E. eauto.
Qed.

Lemma exec_safe_ok : forall sec loc s, safe_section sec = true -> exists r, exec_section sec loc s = Ok r.
Proof.
  induction sec as [m k|m k|m k|m k|m|m|a IHa b IHb]; intros loc s H; cbn [safe_section] in H; try discriminate; cbn [exec_section]; eauto.
  - destruct (sm_inc_ensure_ok (getm s m) k) as [mp E]. rewrite E. eauto.
  - apply andb_true_iff in H. destruct H as [Ha Hb].
    destruct (IHa loc s Ha) as [[s' l'] E]. rewrite E. apply IHb. exact Hb.
Qed.

Lemma step_at_safe_ok : forall i ts s, forallb safe_thread ts = true ->
  exists s' ts', step_at i ts s = Ok (s', ts') /\ forallb safe_thread ts' = true.
Proof.
  intros i ts. revert i. induction ts as [|t r IH]; intros i s H.
  - destruct i; cbn; eauto.
  - cbn [forallb] in H. apply andb_true_iff in H. destruct H as [Ht Hr].
    destruct i; cbn [step_at].
    + destruct (t_prog t) as [|sec p] eqn:E.
      * exists s, (t :: r). split; [reflexivity|]. cbn [forallb]. now rewrite Ht, Hr.
      * unfold safe_thread in Ht. rewrite E in Ht. cbn [forallb] in Ht. apply andb_true_iff in Ht. destruct Ht as [Hs Hp].
        destruct (exec_safe_ok sec (t_loc t) s Hs) as [[s' l'] Ex]. rewrite Ex.
        exists s', (mkT l' p :: r). split; [reflexivity|]. cbn [forallb]. unfold safe_thread at 1. cbn [t_prog]. now rewrite Hp, Hr.
    + destruct (IH i s Hr) as (s' & r' & E & Hr'). rewrite E. exists s', (t :: r'). split; [reflexivity|].
      cbn [forallb]. now rewrite Ht, Hr'.
Qed.

Lemma run_sched_safe_ok : forall sched ts s, forallb safe_thread ts = true ->
  exists s' ts', run_sched sched ts s = Ok (s', ts') /\ forallb safe_thread ts' = true.
Proof.
  induction sched as [|i r IH]; intros ts s H; cbn [run_sched].
  - eauto.
  - destruct (step_at_safe_ok i ts s H) as (s' & ts' & E & H'). rewrite E. apply IH. exact H'.
Qed.

Lemma run_prog_safe_ok : forall p loc s, forallb safe_section p = true -> exists s', run_prog p loc s = Ok s'.
Proof.
  induction p as [|sec r IH]; intros loc s H; cbn [run_prog].
  - eauto.
  - cbn [forallb] in H. apply andb_true_iff in H. destruct H as [Hs Hr].
    destruct (exec_safe_ok sec loc s Hs) as [[s' l'] E]. rewrite E. apply IH. exact Hr.
Qed.

Lemma drain_safe_ok : forall ts s, forallb safe_thread ts = true -> exists s', drain ts s = Ok s'.
Proof.
  induction ts as [|t r IH]; intros s H; cbn [drain].
  - eauto.
  - cbn [forallb] in H. apply andb_true_iff in H. destruct H as [Ht Hr].
    destruct (run_prog_safe_ok (t_prog t) (t_loc t) s Ht) as [s' E]. rewrite E. apply IH. exact Hr.
Qed.

Lemma run_all_safe_ok : forall sched ts s, forallb safe_thread ts = true -> exists s', run_all sched ts s = Ok s'.
Proof.
  intros sched ts s H. unfold run_all.
  destruct (run_sched_safe_ok sched ts s H) as (s' & ts' & E & H'). rewrite E. apply drain_safe_ok. exact H'.
Qed.

(* the programs of the code consist of safe regions *)
Lemma forallb_app_true : forall (A : Type) (f : A -> bool) a b, forallb f a = true -> forallb f b = true -> forallb f (a ++ b) = true.
Proof. intros. rewrite forallb_app. now rewrite H, H0. Qed.

Lemma addreg_prog_safe : forall k, forallb safe_section (addreg_prog k) = true.
Proof. intros [[g t] l]. reflexivity. Qed.

Lemma repeat_prog_safe : forall n p, forallb safe_section p = true -> forallb safe_section (repeat_prog n p) = true.
Proof. induction n; intros p H; cbn [repeat_prog]; [reflexivity|]. apply forallb_app_true; auto. Qed.

Lemma prog_of_safe : forall k, forallb safe_section (prog_of k) = true.
Proof.
  destruct k; cbn [prog_of].
  - induction regs as [|x r IH]; cbn [flat_map]; [reflexivity|]. apply forallb_app_true; [apply addreg_prog_safe|exact IH].
  - apply repeat_prog_safe. reflexivity.
  - apply repeat_prog_safe. reflexivity.
  - apply repeat_prog_safe. reflexivity.
  - apply repeat_prog_safe. reflexivity.
  - apply repeat_prog_safe. reflexivity.
Qed.

Lemma threads_of_safe : forall ks, forallb safe_thread (map thread_of ks) = true.
Proof.
  induction ks as [|k r IH]; cbn [map forallb]; [reflexivity|].
  rewrite IH, andb_true_r. unfold safe_thread, thread_of. cbn [t_prog]. apply prog_of_safe.
Qed.

Lemma stats_epoch_ok : forall ks sched s, exists s', run_all sched (map thread_of ks) s = Ok s'.
Proof. intros. apply run_all_safe_ok, threads_of_safe. Qed.

Lemma stats_epoch_np : forall ks sched s, run_all sched (map thread_of ks) s <> Panic.
Proof. intros ks sched s. destruct (stats_epoch_ok ks sched s) as [s' E]. rewrite E. discriminate. Qed.

(* no reachable configuration is a crash either: every prefix of a schedule is a schedule *)
Lemma stats_epoch_reach_np : forall ks sched s, run_sched sched (map thread_of ks) s <> Panic.
Proof.
  intros ks sched s. destruct (run_sched_safe_ok sched (map thread_of ks) s (threads_of_safe ks)) as (s' & ts' & E & _).
  rewrite E. discriminate.
Qed.

