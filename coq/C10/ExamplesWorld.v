(* C10 non-vacuity for the world theorems: concrete histories with duplicates, use, sweeps and faults. *)
From CJ Require Import Common.Base C10.Model C10.Proofs C10.ModelWorld C10.ProofsWorld C10.RunWorld.

Definition k1 : S.regkey := {| S.k_secret := 7; S.k_tr := S.Min; S.k_ph := 1 |}.
Definition r1 : reg := {| r_phantom := unhex "20010db8000000000000000000000001"; r_addr := unhex "cb007107"; r_port := 443; r_proto := PTcp |}.
Definition keys1 := [(k1, r1)].
Definition min : N := 60 * 1000000000.

Example r1_ok : reg_ok r1 = true. Proof. vm_compute. reflexivity. Qed.

(* New at 0, duplicate at 8 min (both entry points), station and detector swept at 9 min 59 s: accepted and forwarded *)
Definition hist_dup : list mevent :=
  [MRecv [k1] []; MSt [(S.Advance (8 * min))] []; MRecv [k1] []; MSt [(S.Track k1)] [];
   MSt [(S.Advance (119 * 1000000000))] []; MSt [S.Sweep] []; MDet ESweep].
Definition w_dup := fold_left (mstep keys1 4) hist_dup (S.init, []).
Example dup_accepted_and_forwarded :
  station_accepts (fst w_dup) k1 = true /\ detector_forwards r1 (snd w_dup) = true /\
  life_of (fst w_dup) k1 = Some (8 * min + 119 * 1000000000, false).
Proof. vm_compute. repeat split; reflexivity. Qed.

(* two minutes later both have let go: the duplicate did not restart the station's clock *)
Definition w_dup2 := fold_left (mstep keys1 4) [MSt [(S.Advance (2 * min))] []; MSt [S.Sweep] []; MDet ESweep] w_dup.
Example dup_expired_together :
  station_accepts (fst w_dup2) k1 = false /\ detector_forwards r1 (snd w_dup2) = false.
Proof. vm_compute. split; reflexivity. Qed.

(* used at 1 min, duplicate at 5 h, probe at 5 h 59 min: accepted and forwarded; hypotheses of the theorem met *)
Definition hist_used : list mevent :=
  [MRecv [k1] [FLostBefore; FLostAfter]; MSt [(S.Advance min)] []; MSt [(S.MarkActive k1)] [FLostBefore];
   MSt [(S.Advance (299 * min))] []; MRecv [k1] []; MSt [(S.Advance (58 * min))] []; MSt [S.Sweep] []; MDet ESweep].
Definition w_used := fold_left (mstep keys1 4) hist_used (S.init, []).
Example used_accepted_and_forwarded :
  station_accepts (fst w_used) k1 = true /\ detector_forwards r1 (snd w_used) = true /\
  life_of (fst w_used) k1 = Some (358 * min, true).
Proof. vm_compute. repeat split; reflexivity. Qed.

(* with a single attempt (MaxRetries -1) the same New is lost to one connection fault: accepted, not forwarded *)
Definition w_lost := fold_left (mstep keys1 1) [MRecv [k1] [FLostBefore]] (S.init, []).
Example single_attempt_loses_announcement :
  station_accepts (fst w_lost) k1 = true /\ detector_forwards r1 (snd w_lost) = false.
Proof. vm_compute. split; reflexivity. Qed.

(* the world theorem instantiated on a concrete history (its hypotheses are satisfiable) *)
Example theorem_applies :
  detector_forwards (fields_of keys1 k1)
    (snd (wrun (fields_of keys1) 4 []
            [WSt (S.TrackNX k1) []; WSt (S.Validate k1) [FLostBefore]; WSt (S.Advance (8 * min)) [];
             WSt (S.TrackNX k1) []; WDet ESweep])) = true.
Proof. vm_compute. reflexivity. Qed.

Example chk_publish : chkw (CPublish 3 [FLostBefore; FLostAfter; FLostBefore] 4 2) = true /\
                      chkw (CPublish 0 [FLostBefore] 1 0) = true /\ chkw (CPublish 3 [FRefused] 1 0) = true.
Proof. vm_compute. repeat split; reflexivity. Qed.
