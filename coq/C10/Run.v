(* C10: evaluation of the model on recorded cases (correspondence check). *)
From CJ Require Import Common.Base C10.Model.

(* wire numbers of the two enums (proto/signalling.proto; compared with the generated Go and Rust
   code on every run) *)
Definition wire_op (n : N) : sop :=
  match n with 1 => ONew | 2 => OUpdate | 3 => OClear | _ => OUnknown end.
Definition wire_proto (n : N) : proto :=
  match n with 1 => PTcp | 2 => PUdp | _ => PUnk end.

(* an observed message: text classes as the detector's parser reported them, enums by number *)
Definition mk_msg (ph cl : option iptxt) (t o d s p : option N) : s2d :=
  {| phantom_t := ph; client_t := cl; tmo := t; op := option_map wire_op o;
     dst := d; src := s; pr := option_map wire_proto p |}.

Definition iptxt_eqb (a b : iptxt) : bool :=
  match a, b with
  | V4Text x, V4Text y => x =? y
  | V6Text x, V6Text y => x =? y
  | Unparsable, Unparsable => true
  | _, _ => false
  end.
Definition proto_eqb (a b : proto) : bool :=
  match a, b with PUnk, PUnk => true | PTcp, PTcp => true | PUdp, PUdp => true | _, _ => false end.
Definition sop_eqb (a b : sop) : bool :=
  match a, b with
  | OUnknown, OUnknown => true | ONew, ONew => true | OUpdate, OUpdate => true | OClear, OClear => true
  | _, _ => false
  end.
Definition s2d_eqb (a b : s2d) : bool :=
  option_eqb iptxt_eqb (phantom_t a) (phantom_t b) && option_eqb iptxt_eqb (client_t a) (client_t b) &&
  option_eqb N.eqb (tmo a) (tmo b) && option_eqb sop_eqb (op a) (op b) &&
  option_eqb N.eqb (dst a) (dst b) && option_eqb N.eqb (src a) (src b) &&
  option_eqb proto_eqb (pr a) (pr b).

Definition reg_eqb (a b : reg) : bool :=
  bytes_eqb (r_phantom a) (r_phantom b) && bytes_eqb (r_addr a) (r_addr b) &&
  (r_port a =? r_port b) && proto_eqb (r_proto a) (r_proto b).

Definition serr_eqb (a b : serr) : bool :=
  match a, b with
  | InvalidPhantom, InvalidPhantom => true | InvalidClient, InvalidClient => true
  | MixedV4V6Error, MixedV4V6Error => true | UnrecognizedProto, UnrecognizedProto => true
  | _, _ => false
  end.
Definition session_eqb (a b : session) : bool :=
  ipaddr_eqb (s_client a) (s_client b) && ipaddr_eqb (s_phantom a) (s_phantom b) &&
  (s_dst a =? s_dst b) && (s_src a =? s_src b) && nproto_eqb (s_proto a) (s_proto b) &&
  (s_timeout a =? s_timeout b).
Definition conv_eqb (a b : result serr session) : bool :=
  match a, b with
  | Ok x, Ok y => session_eqb x y
  | Err x, Err y => serr_eqb x y
  | _, _ => false
  end.

(* the three detector states the Rust harness starts from (harness.rs main) *)
Definition NOW : N := 1000000000000.
Definition start_maps (c : result serr session) : list dmap :=
  let other := (KOther 0, 7) in
  match c with
  | Ok s => [[other]; [other; (tag s, NOW + 1)]; [other; (tag s, NOW + s_timeout s + 5)]]
  | _ => [[other]; [other]; [other]]
  end.
(* a table as the harness reports it: entries under this message's session key first *)
Definition canon (c : result serr session) (m : dmap) : list (bool * N) :=
  let mine (kv : dkey * N) := match c with Ok s => dkey_eqb (fst kv) (tag s) | _ => false end in
  map (fun kv => (true, snd kv)) (filter mine m) ++
  map (fun kv => (false, snd kv)) (filter (fun kv => negb (mine kv)) m).
Definition entry_eqb (a b : bool * N) : bool := Bool.eqb (fst a) (fst b) && (snd a =? snd b).

(* --- histories against one real SessionTracker (harness.rs run_history) ---
   keys are compared through the position of the first event of the history that names them *)
Definition ev_tag (e : devent) : option dkey :=
  match e with
  | EMsg m | EAdd m | EPacket m | EQuery m => match session_of m with Ok s => Some (tag s) | _ => None end
  | ESweep => None
  end.
Fixpoint key_index (k : dkey) (tags : list (option dkey)) (i : N) : N :=
  match tags with
  | [] => 99999
  | Some k' :: r => if dkey_eqb k' k then i else key_index k r (i + 1)
  | None :: r => key_index k r (i + 1)
  end.
Definition pair_eqb (a b : N * N) : bool := (fst a =? fst b) && (snd a =? snd b).
(* the table as a set of (key index, expiry) *)
Definition table_matches (tags : list (option dkey)) (m : dmap) (obs : list (N * N)) : bool :=
  let l := map (fun kv => (key_index (fst kv) tags 0, snd kv)) m in
  (N.of_nat (length l) =? N.of_nat (length obs)) && forallb (fun o => existsb (pair_eqb o) l) obs.
(* auxiliary answer of a command, 0 = none: sweep -> 1 + dropped, lookup -> 1 + tracked *)
Definition daux (now : N) (st : dmap) (e : devent) : N :=
  match e with
  | ESweep => 1 + (N.of_nat (length st) - N.of_nat (length (sweep now st)))
  | EQuery m => match session_of m with Ok s => 1 + (if tracked (tag s) st then 1 else 0) | _ => 0 end
  | _ => 0
  end.
Fixpoint history_matches (tags : list (option dkey)) (st : dmap) (h : list (N * devent)) (obs : list (N * list (N * N))) : bool :=
  match h, obs with
  | [], [] => true
  | (t, e) :: h', (a, tab) :: obs' =>
      let st' := dstep t st e in
      (daux t st e =? a) && table_matches tags st' tab && history_matches tags st' h' obs'
  | _, _ => false
  end.
Definition ptag (e : pevent) : option dkey :=
  match e with PMsg m => match session_of m with Ok s => Some (tag s) | _ => None end | _ => None end.

Inductive case :=
| CSend (r : reg) (dur o : N) (obs : s2d)          (* sendToDetector(reg, dur, op) published obs *)
| CAnnounce (r : reg) (upd : bool) (obs : s2d)     (* registerForDetector / updateInDetector published obs *)
| CClear (obs : s2d)                               (* clearDetector / Cleanup published obs *)
| CIngest (c : stcfg) (w : c2sw) (s : sel) (obs : list reg)   (* parseRegMessage returned obs *)
| CNewReg (w : c2sw) (s : sel) (v6 : bool) (obs : option reg)  (* NewRegistrationC2SWrapper on the zero-filled message *)
| CDetect (m : s2d) (conv : result serr session) (maps : list (list (bool * N)))
| CHistory (h : list (N * devent)) (obs : list (N * list (N * N)))   (* real SessionTracker, answer + table after every command *)
| CPubsub (h : list (N * pevent)) (obs : list (N * N))                (* real ingest_from_pubsub over a scripted connection: final table *)
| CShutdown (obs : list s2d)                 (* the Clear messages published by Cleanup() after cancel() + wg.Wait() *)
| CPublishFail (usable announced : bool)                              (* register() with a failing PUBLISH *)
| CLifetimes (unused active : N)                   (* RegisteredDecoys.timeoutUnused / timeoutActive, ns *)
| CProto (t : transport) (p : N).                  (* Transport.GetProto() *)

Definition chk (c : case) : bool :=
  match c with
  | CSend r dur o obs => s2d_eqb (s2d_of r dur (wire_op o)) obs
  | CAnnounce r upd obs => s2d_eqb (announce r (if upd then OUpdate else ONew)) obs
  | CClear obs => s2d_eqb clear_msg obs
  | CIngest c w s obs => list_eqb reg_eqb (ingest c w s) obs
  | CNewReg w s v6 obs =>
      option_eqb reg_eqb (new_reg w s (match w_addr w with Some a => a | None => zeros16 end) v6) obs
  | CDetect m conv maps =>
      let mc := session_of m in
      conv_eqb mc conv &&
      list_eqb (list_eqb entry_eqb)
               (map (fun st => canon mc (detector_step NOW st m)) (start_maps mc)) maps
  | CHistory h obs => history_matches (map (fun te => ev_tag (snd te)) h) [] h obs
  | CPubsub h obs => table_matches (map (fun te => ptag (snd te)) h) (prun [] h) obs
  | CShutdown obs => list_eqb s2d_eqb (cleanup true) obs
  | CPublishFail u a => let '(mu, ma) := register_outcome false in Bool.eqb mu u && Bool.eqb ma a
  | CLifetimes u a => (station_lifetime false =? u) && (station_lifetime true =? a)
  | CProto t p => proto_eqb (transport_proto t) (wire_proto p)
  end.
