(* C10, the station and the detector side by side over time.

   Station: the registration table of pkg/station/lib/registration.go as modelled (and tied to the code, with the
   runtime's clock under the driver's control) by coq/C08: S.step over Track / TrackNX (the two ingest entry points,
   a duplicate is counted and nothing else), Validate (AddRegistration), MarkActive, Advance (the clock), Sweep
   (RemoveOldRegistrations), with S.emits = the registerForDetector / updateInDetector calls an operation makes.
   Detector: the session table of src/sessions.rs (C10/Model.v).  The two are connected by what the station
   publishes: every emitted notification becomes the message sendToDetector builds for that registration and goes
   through client.Publish (attempt loop, connection faults) to the detector, which processes it at the same clock
   reading.  Definitions only; executable. *)
From CJ Require Export Common.Base C10.Model.
From CJ Require C08.Model.

Module S := CJ.C08.Model.

Section World.
  (* the announced fields of the registration a table key stands for (phantom, registrant, port, protocol);
     duplicates of a registration carry the same fields *)
  Variable fields : S.regkey -> reg.
  (* attempts client.Publish makes per command *)
  Variable attempts : nat.

  Definition ev_msgs (e : S.event) : list s2d :=
    match e with
    | S.EvNew k => [announce (fields k) ONew]
    | S.EvUpdate k => [announce (fields k) OUpdate]
    | S.EvExpired _ _ => []
    end.

  (* what happens in the world: an operation on the station's table (with the fate of the connection attempts of
     the publication it may cause), something local to the detector (its periodic sweep, a packet of a flow, a
     lookup, a direct insert, a message from elsewhere), the station's Cleanup() at shutdown *)
  Inductive wevent :=
  | WSt (o : S.rop) (sc : list fault)
  | WDet (e : devent)
  | WCleanup (sc : list fault).

  Definition world := (S.st * dmap)%type.

  Definition wstep (w : world) (e : wevent) : world :=
    let (s, D) := w in
    match e with
    | WSt o sc => (S.step s o, deliver (S.now s) D (flat_map (publish attempts sc) (flat_map ev_msgs (S.emits s o))))
    | WDet e => (s, dstep (S.now s) D e)
    | WCleanup sc => (s, deliver (S.now s) D (flat_map (publish attempts sc) (cleanup true)))
    end.

  Definition wrun (D0 : dmap) (ws : list wevent) : world := fold_left wstep ws (S.init, D0).

  (* the station's side of a world history *)
  Definition st_hist (ws : list wevent) : list S.rop :=
    flat_map (fun e => match e with WSt o _ => [o] | _ => [] end) ws.
End World.

(* the life of a registration as the table records it: (time since it was tracked, used) *)
Definition life_of (s : S.st) (k : S.regkey) : option (N * bool) :=
  if S.enabled (S.k_tr k) then
    match S.aget S.tkey_eqb (S.tkey_of k) (S.timeouts s) with
    | Some t => Some (S.now s - S.t_born t, S.t_used t)
    | None => None
    end
  else None.

(* "the station accepts the registration": a connection to its phantom finds it (getRegistrations returns it: tracked and
   validated) and the station's own expiry rule keeps it (the sweep's test, getExpiredRegistrations) *)
Definition station_keeps (s : S.st) (k : S.regkey) : bool :=
  match S.aget S.tkey_eqb (S.tkey_of k) (S.timeouts s) with
  | Some t => negb (S.rec_expired (S.now s) t)
  | None => false
  end.
Definition station_accepts (s : S.st) (k : S.regkey) : bool := S.matches s k && station_keeps s k.

(* the detector's key of a registration's session *)
Definition reg_dkey (r : reg) : option dkey :=
  match handle_s2d (announce r ONew) with DAdd s => Some (tag s) | _ => None end.
Definition detector_forwards (r : reg) (D : dmap) : bool :=
  match reg_dkey r with Some k => tracked k D | None => false end.

(* ------------------------------------------------------------------ ingestRegistration *)
(* One registration message through the ingest worker (after ValidateRegistration; covert-address and liveness
   checks taken to pass): TrackRegIfNotExists for every registration the message produced, and only a registration
   that was not tracked goes on to AddRegistration with the object just tracked.  A duplicate stops after the
   first step.  The fault script applies to the first publication the message causes. *)
Fixpoint recv_events (s : S.st) (ks : list S.regkey) (sc : list fault) : list wevent :=
  match ks with
  | [] => []
  | k :: r =>
    if S.tracked s k then WSt (S.TrackNX k) [] :: recv_events s r sc
    else WSt (S.TrackNX k) [] :: WSt (S.Validate k) sc :: recv_events s r []
  end.
