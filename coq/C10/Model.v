(* C10 model: what the station publishes on the detector channel (Go,
   pkg/station/lib/registration.go sendToDetector / clearDetector, and the slice of
   registration_ingest.go that decides which phantom / registrant / port / protocol a
   registration carries) and what the detector does with it (Rust, src/sessions.rs:
   SessionDetails::new, From<&StationToDetector>, pubsub_handle_s2d,
   pubsub_add_or_update_session, pubsub_clear).  Definitions only; executable. *)
From CJ Require Export Common.Base.

(* ------------------------------------------------------------------ addresses *)
Inductive ipaddr := A4 (a : N) | A6 (a : N).

Fixpoint be_to_N_acc (acc : N) (b : bytes) : N :=
  match b with [] => acc | x :: r => be_to_N_acc (acc * 256 + x) r end.
Definition be_to_N (b : bytes) : N := be_to_N_acc 0 b.

Definition all_zero (b : bytes) : bool := forallb (fun x => x =? 0) b.

(* net.IP.To4 *)
Definition to4 (ip : bytes) : option bytes :=
  if blen ip =? 4 then Some ip
  else if (blen ip =? 16) && all_zero (firstn 10 ip) && (nth 10 ip 0 =? 255) && (nth 11 ip 0 =? 255)
       then Some (skipn 12 ip)
       else None.

(* The address a Go net.IP value denotes (the station's own reading of it: To4-able
   values are IPv4 addresses, other 16-byte values IPv6 addresses, anything else none). *)
Definition ip_value (ip : bytes) : option ipaddr :=
  match to4 ip with
  | Some q => Some (A4 (be_to_N q))
  | None => if blen ip =? 16 then Some (A6 (be_to_N ip)) else None
  end.

(* Text abstraction.  net.IP.String yields "<nil>" for the empty value, "?hex" for lengths other
   than 4/16, dotted quad for To4-able values and RFC 5952 text otherwise.  The texts are
   abstracted to what an IP-literal parser (Rust IpAddr::from_str) makes of them; that this
   abstraction is right for the strings Go really prints is checked on every run. *)
Inductive iptxt := V4Text (a : N) | V6Text (a : N) | Unparsable.

Definition ip_string (ip : bytes) : iptxt :=
  if blen ip =? 0 then Unparsable                      (* "<nil>" *)
  else if negb (blen ip =? 4) && negb (blen ip =? 16) then Unparsable   (* "?" + hex *)
  else match to4 ip with
       | Some q => V4Text (be_to_N q)
       | None => V6Text (be_to_N ip)
       end.

(* ------------------------------------------------------------------ the message *)
Inductive proto := PUnk | PTcp | PUdp.
Inductive sop := OUnknown | ONew | OUpdate | OClear.

(* proto.StationToDetector as a record of optional fields (None = not on the wire) *)
Record s2d := {
  phantom_t : option iptxt;
  client_t : option iptxt;
  tmo : option N;
  op : option sop;
  dst : option N;
  src : option N;
  pr : option proto;
}.

(* ------------------------------------------------------------------ station side *)
(* the fields of a DecoyRegistration that reach the detector *)
Record reg := { r_phantom : bytes; r_addr : bytes; r_port : N; r_proto : proto }.

(* sendToDetector(reg, duration, op) *)
Definition s2d_of (r : reg) (dur : N) (o : sop) : s2d :=
  {| phantom_t := Some (ip_string (r_phantom r));
     client_t := Some (ip_string (r_addr r));
     tmo := Some dur;
     op := Some o;
     dst := Some (r_port r);
     src := None;
     pr := Some (r_proto r) |}.

(* clearDetector() *)
Definition clear_msg : s2d :=
  {| phantom_t := None; client_t := None; tmo := None; op := Some OClear; dst := None; src := None; pr := None |}.

Definition ns_per_s : N := 1000000000.
Definition timeout_unused : N := 600 * ns_per_s.     (* defaultUnusedTimeout = 10 min *)
Definition timeout_active : N := 21600 * ns_per_s.   (* defaultActiveTimeout = 6 h *)

(* The station's own expiry rule (getExpiredRegistrations): an unused registration is kept while
   its age is <= timeout_unused, a used one while its age is <= timeout_active. *)
Definition station_lifetime (used : bool) : N := if used then timeout_active else timeout_unused.

(* registerForDetector (on validation: the registration is unused) and updateInDetector
   (markActive: the registration has just become used) *)
Definition announce (r : reg) (o : sop) : s2d :=
  match o with
  | ONew => s2d_of r timeout_unused ONew
  | _ => s2d_of r timeout_active OUpdate
  end.
Definition used_after (o : sop) : bool := match o with ONew => false | _ => true end.

(* ---- which registrations exist: parseRegMessage / NewRegistrationC2SWrapper ---- *)
Inductive transport := TMin | TObfs4 | TPrefix | TDtls.
Definition transport_proto (t : transport) : proto :=
  match t with TDtls => PUdp | _ => PTcp end.

(* the fields of the C2SWrapper that decide the four announced values *)
Record c2sw := {
  w_addr : option bytes;      (* registration_address (None: absent) *)
  w_v4 : bool;                (* v4_support *)
  w_v6 : bool;                (* v6_support *)
  w_tr : option transport;    (* the transport, None if it is not enabled on the station *)
  w_ov4 : option N;           (* registration_response.ipv4addr *)
  w_ov6 : option bytes;       (* registration_response.ipv6addr *)
  w_odst : option N;          (* registration_response.dst_port *)
}.
Record stcfg := { en4 : bool; en6 : bool }.

(* What phantom selection and the transport's port rule derive from the seed (C01/C14);
   None = selection failed. *)
Record derived := { d_ip : bytes; d_port : N }.
Record sel := { sel4 : option derived; sel6 : option derived }.

Definition be4 (n : N) : bytes :=
  [n / 16777216 mod 256; n / 65536 mod 256; n / 256 mod 256; n mod 256].

Definition is_some {A} (o : option A) : bool := match o with Some _ => true | None => false end.
Definition ip_len_ok (b : bytes) : bool := (blen b =? 4) || (blen b =? 16).

(* NewRegistrationC2SWrapper(c2sw, includeV6) on an already zero-filled registrant address;
   None = error (the whole message is then dropped) *)
Definition new_reg (w : c2sw) (s : sel) (addr : bytes) (v6 : bool) : option reg :=
  match w_tr w, (if v6 then sel6 s else sel4 s) with
  | Some t, Some d =>
    let ov := if v6 then w_ov6 w
              else match w_ov4 w with
                   | Some n => if n =? 0 then None else Some (be4 n)
                   | None => None
                   end in
    let ov_ok := match ov with
                 | Some o => if v6 then (blen o =? 16) && negb (is_some (to4 o)) else true
                 | None => true
                 end in
    let ph := match ov with Some o => o | None => d_ip d end in
    if negb ov_ok then None
    else if negb (ip_len_ok addr) then None
    else if is_some (to4 ph) && negb (is_some (to4 addr)) then None
    else Some {| r_phantom := ph; r_addr := addr;
                 r_port := match w_odst w with Some p => p mod 65536 | None => d_port d end;
                 r_proto := transport_proto t |}
  | _, _ => None
  end.

Definition zeros16 : bytes := repeat 0 16.

(* parseRegMessage: the registrations one message gives rise to *)
Definition ingest (c : stcfg) (w : c2sw) (s : sel) : list reg :=
  let addr := match w_addr w with Some a => a | None => zeros16 end in
  let r4 := if w_v4 w && en4 c && is_some (to4 addr)
            then option_map (fun r => [r]) (new_reg w s addr false) else Some [] in
  match r4 with
  | None => []
  | Some l4 =>
    let r6 := if w_v6 w && en6 c
              then option_map (fun r => [r]) (new_reg w s addr true) else Some [] in
    match r6 with
    | None => []
    | Some l6 => l4 ++ l6
    end
  end.

(* ------------------------------------------------------------------ detector side *)
Inductive serr := InvalidPhantom | InvalidClient | MixedV4V6Error | UnrecognizedProto.
Inductive nproto := NTcp | NUdp.            (* IpNextHeaderProtocols::{Tcp,Udp} *)
Record session := {
  s_client : ipaddr; s_phantom : ipaddr; s_dst : N; s_src : N; s_proto : nproto; s_timeout : N
}.

Definition get {A} (d : A) (o : option A) : A := match o with Some x => x | None => d end.
Definition u16 (n : N) : N := n mod 65536.

(* str::parse::<IpAddr> on a getter's result: an absent field reads as "" *)
Definition parse_ip (t : option iptxt) : option ipaddr :=
  match t with
  | Some (V4Text a) => Some (A4 a)
  | Some (V6Text a) => Some (A6 a)
  | _ => None
  end.
Definition is_v6 (a : ipaddr) : bool := match a with A6 _ => true | A4 _ => false end.
Definition is_v4 (a : ipaddr) : bool := negb (is_v6 a).
Definition loopback6 : ipaddr := A6 1.      (* "::1" *)

(* SessionDetails::new *)
Definition session_new (client phantom : option iptxt) (timeout sport dport : N) (p : nproto)
  : result serr session :=
  match parse_ip phantom with
  | None => Err InvalidPhantom
  | Some ph =>
    let c := match parse_ip client with
             | Some a => Some a
             | None => match client with
                       | None => if is_v6 ph then Some loopback6 else None   (* empty text *)
                       | Some _ => None
                       end
             end in
    match c with
    | None => Err InvalidClient
    | Some cl =>
      if is_v4 ph && negb (is_v4 cl) then Err MixedV4V6Error
      else Ok {| s_client := cl; s_phantom := ph; s_dst := dport; s_src := sport;
                 s_proto := p; s_timeout := timeout |}
    end
  end.

(* impl From<&StationToDetector> for SessionResult *)
Definition session_of (m : s2d) : result serr session :=
  let mk := session_new (client_t m) (phantom_t m) (get 0 (tmo m)) (u16 (get 0 (src m))) (u16 (get 0 (dst m))) in
  match get PUnk (pr m) with
  | PTcp => mk NTcp
  | PUdp => mk NUdp
  | PUnk => Err UnrecognizedProto
  end.

Inductive effect := DAdd (s : session) | DClear | DNothing.

(* pubsub_handle_s2d: the operation decides; New/Update need a convertible message, Clear and
   Unknown need nothing else. *)
Definition handle_s2d (m : s2d) : effect :=
  match get OUnknown (op m) with
  | ONew | OUpdate => match session_of m with Ok s => DAdd s | _ => DNothing end
  | OClear => DClear
  | OUnknown => DNothing
  end.

(* The same function as it was in the pinned tree: the conversion ran before the operation was
   looked at (kept for the record of finding #6; see Refuted.v). *)
Definition handle_s2d_conversion_first (m : s2d) : effect :=
  match session_of m with
  | Ok s => match get OUnknown (op m) with
            | ONew | OUpdate => DAdd s
            | OClear => DClear
            | OUnknown => DNothing
            end
  | _ => DNothing
  end.

(* --- the detector's session table: key string -> expiry time --- *)
Inductive dkey := KSess (p : nproto) (client : option ipaddr) (phantom : ipaddr) (port : N) | KOther (n : N).

(* Taggable for SessionDetails: IPv6 phantoms are keyed without the client *)
Definition tag (s : session) : dkey :=
  if is_v6 (s_phantom s) then KSess (s_proto s) None (s_phantom s) (s_dst s)
  else KSess (s_proto s) (Some (s_client s)) (s_phantom s) (s_dst s).

Definition ipaddr_eqb (a b : ipaddr) : bool :=
  match a, b with A4 x, A4 y => x =? y | A6 x, A6 y => x =? y | _, _ => false end.
Definition nproto_eqb (a b : nproto) : bool :=
  match a, b with NTcp, NTcp => true | NUdp, NUdp => true | _, _ => false end.
Definition dkey_eqb (a b : dkey) : bool :=
  match a, b with
  | KSess p c ph po, KSess p' c' ph' po' =>
      nproto_eqb p p' && option_eqb ipaddr_eqb c c' && ipaddr_eqb ph ph' && (po =? po')
  | KOther x, KOther y => x =? y
  | _, _ => false
  end.

Definition dmap := list (dkey * N).

Fixpoint lookup (k : dkey) (m : dmap) : option N :=
  match m with
  | [] => None
  | (k', v) :: r => if dkey_eqb k' k then Some v else lookup k r
  end.

(* pubsub_add_or_update_session: insert, or keep the later of the two expiry times *)
Fixpoint add_or_update (k : dkey) (e : N) (m : dmap) : dmap :=
  match m with
  | [] => [(k, e)]
  | (k', v) :: r => if dkey_eqb k' k then (k', N.max v e) :: r else (k', v) :: add_or_update k e r
  end.

Definition apply_effect (now : N) (m : dmap) (e : effect) : dmap :=
  match e with
  | DAdd s => add_or_update (tag s) (now + s_timeout s) m
  | DClear => []
  | DNothing => m
  end.

(* the detector processing one message at time `now` *)
Definition detector_step (now : N) (m : dmap) (msg : s2d) : dmap := apply_effect now m (handle_s2d msg).

(* ------------------------------------------------------------------ the session table over time *)
(* SessionTracker::drop_stale_sessions: retain |_, v| v > now *)
Definition sweep (now : N) (m : dmap) : dmap := filter (fun kv => now <? snd kv) m.

(* try_update_session_timeout: only an existing key is touched, the later expiry is kept *)
Fixpoint refresh (k : dkey) (e : N) (m : dmap) : dmap :=
  match m with
  | [] => []
  | (k', v) :: r => if dkey_eqb k' k then (k', N.max v e) :: r else (k', v) :: refresh k e r
  end.

Definition timeout_phantoms : N := 300 * ns_per_s.   (* TIMEOUT_PHANTOMS_NS: extension while packets are seen *)
Definition tracked (k : dkey) (m : dmap) : bool := is_some (lookup k m).   (* is_tracked_session *)

(* what can happen to the table: a message from the station (pubsub_handle_s2d), a direct insert
   (add_session / insert_session), a packet of a flow (update_session), a lookup, the periodic sweep.
   Flows are described by the message whose session they belong to. *)
Inductive devent := EMsg (m : s2d) | EAdd (m : s2d) | EPacket (m : s2d) | EQuery (m : s2d) | ESweep.

Definition dstep (now : N) (st : dmap) (e : devent) : dmap :=
  match e with
  | EMsg m => detector_step now st m
  | EAdd m => match session_of m with Ok s => add_or_update (tag s) (now + s_timeout s) st | _ => st end
  | EPacket m => match session_of m with Ok s => refresh (tag s) (now + timeout_phantoms) st | _ => st end
  | EQuery _ => st
  | ESweep => sweep now st
  end.

(* a history: events with the detector's clock reading at each *)
Fixpoint drun (st : dmap) (h : list (N * devent)) : dmap :=
  match h with
  | [] => st
  | (t, e) :: r => drun (dstep t st e) r
  end.

(* ingest_from_pubsub: receive errors, unreadable payloads and undecodable payloads are skipped,
   every decoded message goes to pubsub_handle_s2d *)
Inductive pevent := PRecvErr | PPayloadErr | PDecodeErr | PMsg (m : s2d).
Definition pstep (now : N) (st : dmap) (e : pevent) : dmap :=
  match e with PMsg m => detector_step now st m | _ => st end.
Fixpoint prun (st : dmap) (h : list (N * pevent)) : dmap :=
  match h with
  | [] => st
  | (t, e) :: r => prun (pstep t st e) r
  end.

(* ------------------------------------------------------------------ publication failures *)
(* register(): `reg.Valid = true; r.registerForDetector(reg)`; sendToDetector ignores what
   client.Publish returns.  Outcome for the registration: (usable by the station, known to the detector). *)
Definition register_outcome (publish_ok : bool) : bool * bool := (true, publish_ok).

(* ------------------------------------------------------------------ the shutdown sequence *)
(* cmd/application/main.go: `defer regManager.Cleanup()` ... signal ... `cancel()` ... `wg.Wait()` ... return.
   Cleanup therefore runs after the pipeline's context has been cancelled.  It publishes with a
   context of its own (context.Background()), so what it publishes does not depend on that. *)
Definition cleanup (pipeline_ctx_cancelled : bool) : list s2d := [clear_msg].

(* ------------------------------------------------------------------ publication over a connection that may break *)
(* client.Publish (go-redis baseClient.process): the command is attempted up to MaxRetries + 1 times; each
   attempt takes a connection from the pool, writes the PUBLISH and reads the reply.  What can happen to one
   attempt (the fault script names the fate of the successive attempts; no entry = the attempt succeeds):
     FLostBefore  the connection breaks before the server has processed the command (reset / EOF on the
                  write or on the reply): nothing is delivered, the error is retryable (shouldRetry);
     FLostAfter   the server processed the command (the subscribers have the message) but the connection
                  breaks before the reply is read: delivered, and the client retries all the same;
     FRefused     the server answers with an error reply (-ERR ...): nothing delivered, not retryable.
   sendToDetector / clearDetector ignore the error Publish returns, so the only thing that matters to the
   property is what was delivered.  [publish] = the copies of m the server processed, in order. *)
Inductive fault := FLostBefore | FLostAfter | FRefused.

Fixpoint publish (attempts : nat) (sc : list fault) (m : s2d) : list s2d :=
  match attempts with
  | O => []
  | S n =>
    match sc with
    | [] => [m]
    | FLostBefore :: r => publish n r m
    | FLostAfter :: r => m :: publish n r m
    | FRefused :: _ => []
    end
  end.

(* the faults of this script are all transient and fewer than the attempts the client makes *)
Fixpoint survivable (attempts : nat) (sc : list fault) : bool :=
  match attempts with
  | O => false
  | S n =>
    match sc with
    | [] => true
    | FRefused :: _ => false
    | _ :: r => survivable n r
    end
  end.

(* the client's attempt budget: Options().MaxRetries as the constructed client reports it (go-redis
   normalises the configured value: -1 -> 0, 0 -> 3) plus the first attempt *)
Definition client_attempts (max_retries : N) : nat := S (N.to_nat max_retries).

(* the detector consuming what was delivered, all at one clock reading *)
Definition deliver (now : N) (st : dmap) (ms : list s2d) : dmap := fold_left (detector_step now) ms st.

(* PUBLISH commands the server sees for one Publish call *)
Fixpoint attempts_used (attempts : nat) (sc : list fault) : nat :=
  match attempts with
  | O => O
  | S n =>
    match sc with
    | [] => 1
    | FRefused :: _ => 1
    | _ :: r => S (attempts_used n r)
    end
  end.
