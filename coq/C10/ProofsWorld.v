(* C10 lemmas about the station and the detector side by side (ModelWorld.v).  The station side is reasoned
   about through coq/C08's refinement theorems (table = per-registration life as a function of the history). *)
From CJ Require Import Common.Base C10.Model C10.Proofs C10.ModelWorld.
From CJ Require C08.Proofs C08.Invariant C08.Sweep C08.History C08.Counters.
From Coq Require Import Lia ZifyN ZifyNat ZifyBool.

Module SI := CJ.C08.Invariant.
Module SH := CJ.C08.History.
Module SC := CJ.C08.Counters.

(* ------------------------------------------------------------------ the station's clock *)
Lemma now_sweep_in order : forall s, S.now (S.sweep_in order s) = S.now s.
Proof.
  induction order as [|i order IH]; intros s; unfold S.sweep_in; cbn [fold_left]; [reflexivity|].
  fold (S.sweep_in order (S.remove_registration s i)). rewrite IH.
  unfold S.remove_registration. destruct (S.aget S.tkey_eqb i (S.timeouts s)); [|reflexivity].
  destruct (S.get2 (S.decoys s) (S.t_ph t) (S.t_id t)); reflexivity.
Qed.

Lemma now_validate s k : S.now (S.validate s k) = S.now s.
Proof.
  unfold S.validate. cbv zeta.
  set (s1 := match S.registration_exists s k with Some _ => s | None => fst (S.track s k) end).
  assert (H : S.now s1 = S.now s) by (unfold s1; destruct (S.registration_exists s k); [reflexivity|apply SI.now_track]).
  destruct (S.registration_exists s1 k); [cbn; exact H|exact H].
Qed.

Lemma now_step s o : S.now (S.step s o) = match o with S.Advance d => S.now s + d | _ => S.now s end.
Proof.
  destruct o; cbn [S.step]; try reflexivity.
  - apply SI.now_track.
  - apply SI.now_track.
  - apply now_validate.
  - unfold S.validate_stale. destruct (S.registration_exists s k); [reflexivity|apply now_validate].
  - unfold S.mark_active. destruct (S.enabled (S.k_tr k)); [|reflexivity].
    destruct (S.aget S.tkey_eqb (S.tkey_of k) (S.timeouts s)); reflexivity.
  - unfold S.sweep. apply now_sweep_in.
Qed.

(* ------------------------------------------------------------------ the world's station side is C08's run *)
Lemma wrun_snoc fields att D0 ws e :
  wrun fields att D0 (ws ++ [e]) = wstep fields att (wrun fields att D0 ws) e.
Proof. unfold wrun. rewrite fold_left_app. reflexivity. Qed.

Lemma st_hist_snoc ws e : st_hist (ws ++ [e]) = st_hist ws ++ match e with WSt o _ => [o] | _ => [] end.
Proof. unfold st_hist. rewrite flat_map_app. cbn [flat_map]. rewrite app_nil_r. reflexivity. Qed.

Lemma wrun_fst fields att D0 ws : fst (wrun fields att D0 ws) = S.run (st_hist ws).
Proof.
  induction ws as [|e ws IH] using rev_ind; [reflexivity|].
  rewrite wrun_snoc, st_hist_snoc. destruct (wrun fields att D0 ws) as [s D]. cbn [fst] in IH. subst s.
  destruct e; cbn [wstep fst].
  - rewrite SH.run_snoc. reflexivity.
  - rewrite app_nil_r. reflexivity.
  - rewrite app_nil_r. reflexivity.
Qed.

(* ------------------------------------------------------------------ the detector under announcements *)
Lemma announce_not_clear r o : (o = ONew \/ o = OUpdate) -> handle_s2d (announce r o) <> DClear.
Proof.
  intros [-> | ->]; unfold handle_s2d; cbn [announce s2d_of op get];
    match goal with |- context [session_of ?m] => destruct (session_of m) end; discriminate.
Qed.

Lemma step_msg_keeps now D m k v :
  lookup k D = Some v -> handle_s2d m <> DClear ->
  exists v', lookup k (detector_step now D m) = Some v' /\ v <= v'.
Proof.
  intros L NC. unfold detector_step. destruct (handle_s2d m) as [s| |] eqn:H; cbn [apply_effect].
  - destruct (dkey_eqb (tag s) k) eqn:EQ.
    + apply dkey_eqb_eq in EQ. subst k.
      destruct (lookup_add_same (tag s) (now + s_timeout s) D) as (e' & L' & _ & UP & _).
      exists e'. split; [exact L'|]. apply UP. exact L.
    + exists v. split; [|lia]. rewrite lookup_add_other; [exact L|].
      intros ->. rewrite dkey_eqb_refl in EQ. discriminate.
  - congruence.
  - exists v. split; [exact L|lia].
Qed.

Lemma deliver_keeps now ms : forall D k v,
  lookup k D = Some v -> (forall m, In m ms -> handle_s2d m <> DClear) ->
  exists v', lookup k (deliver now D ms) = Some v' /\ v <= v'.
Proof.
  induction ms as [|m ms IH]; intros D k v L NC; unfold deliver; cbn [fold_left].
  - exists v. split; [exact L|lia].
  - destruct (step_msg_keeps now D m k v L (NC m (or_introl eq_refl))) as (v1 & L1 & G1).
    destruct (IH (detector_step now D m) k v1 L1 (fun m' I => NC m' (or_intror I))) as (v2 & L2 & G2).
    exists v2. split; [exact L2|lia].
Qed.

Lemma deliver_adds now ms m s : forall D,
  In m ms -> handle_s2d m = DAdd s -> (forall m', In m' ms -> handle_s2d m' <> DClear) ->
  exists e, lookup (tag s) (deliver now D ms) = Some e /\ now + s_timeout s <= e.
Proof.
  induction ms as [|x ms IH]; intros D I H NC; [destruct I|].
  unfold deliver. cbn [fold_left]. destruct I as [-> | I].
  - destruct (step_add now D m s H) as [(e & L & G) _].
    destruct (deliver_keeps now ms _ _ _ L (fun m' I' => NC m' (or_intror I'))) as (e' & L' & G').
    exists e'. split; [exact L'|lia].
  - apply IH; [exact I|exact H|intros m' I'; apply NC; right; exact I'].
Qed.

(* the two announcements of a registration name the same session of the detector and ask for 10 min / 6 h *)
Lemma announce_sessions r : reg_ok r = true ->
  exists sN sU, handle_s2d (announce r ONew) = DAdd sN /\ handle_s2d (announce r OUpdate) = DAdd sU /\
                tag sU = tag sN /\ s_timeout sN = timeout_unused /\ s_timeout sU = timeout_active.
Proof.
  intros OK.
  destruct (handle_announce r ONew OK (or_introl eq_refl)) as (cl & ph & np & A & B & C & HN).
  destruct (handle_announce r OUpdate OK (or_intror eq_refl)) as (cl' & ph' & np' & A' & B' & C' & HU).
  rewrite A in A'. rewrite B in B'. rewrite C in C'. inversion A'; inversion B'; inversion C'; subst cl' ph' np'.
  eexists _, _. split; [exact HN|]. split; [exact HU|]. repeat split; reflexivity.
Qed.

(* everything a station operation publishes is a New or an Update of some registration *)
Section Published.
  Variable fields : S.regkey -> reg.
  Variable att : nat.

  Definition published (sc : list fault) (evs : list S.event) : list s2d :=
    flat_map (publish att sc) (flat_map (ev_msgs fields) evs).

  Lemma published_not_clear sc evs m : In m (published sc evs) -> handle_s2d m <> DClear.
  Proof.
    unfold published. intros I. apply in_flat_map in I as (m0 & I0 & I1).
    apply publish_only_copies in I1. subst m0.
    apply in_flat_map in I0 as (ev & _ & I2). destruct ev; cbn [ev_msgs] in I2.
    - destruct I2 as [<-|[]]. apply announce_not_clear. left; reflexivity.
    - destruct I2 as [<-|[]]. apply announce_not_clear. right; reflexivity.
    - destruct I2.
  Qed.

  Lemma published_has sc evs ev m :
    survivable att sc = true -> In ev evs -> In m (ev_msgs fields ev) -> In m (published sc evs).
  Proof.
    intros SV I1 I2. unfold published. apply in_flat_map. exists m. split.
    - apply in_flat_map. exists ev. split; assumption.
    - apply publish_survivable. exact SV.
  Qed.
End Published.

(* ------------------------------------------------------------------ one registration along a history *)
Lemma gvalid_dead h k : S.ghost h k = None -> S.gvalid h k = false.
Proof.
  intros G. rewrite <- SC.valid_ghost. apply SC.valid_untracked. rewrite SH.tracked_ghost, G. reflexivity.
Qed.

Lemma regkey_eqb_true a b : S.regkey_eqb a b = true -> a = b.
Proof.
  intros H. destruct (SI.regkey_eq_dec a b) as [E|NE]; [exact E|]. rewrite (SI.regkey_eqb_neq a b NE) in H. discriminate.
Qed.

(* how the premise "alive, validated or used" can come to hold after one more operation: it held before (and
   only the clock moved), or the registration was announced (New / Update) by this very operation *)
Ltac carry x := left; exists x, 0; repeat split; auto; lia.

Lemma premise_step h o k a' u' :
  S.ghost (h ++ [o]) k = Some (a', u') -> (u' = true \/ S.gvalid (h ++ [o]) k = true) ->
  (exists a d, S.ghost h k = Some (a, u') /\ (u' = true \/ S.gvalid h k = true) /\ a' = a + d /\
               S.now (S.run (h ++ [o])) = S.now (S.run h) + d) \/
  (u' = false /\ In (S.EvNew k) (S.gemits h o) /\ S.now (S.run (h ++ [o])) = S.now (S.run h)) \/
  (u' = true /\ In (S.EvUpdate k) (S.gemits h o) /\ S.now (S.run (h ++ [o])) = S.now (S.run h)).
Proof.
  rewrite SH.ghost_snoc, SC.gvalid_snoc, SH.run_snoc, now_step.
  pose proof (gvalid_dead h k) as DEAD.
  pose proof (SC.ghost_disabled h k) as DIS.
  destruct (S.ghost h k) as [[a u]|] eqn:G; unfold S.gvstep; cbn [fst snd].
  - (* alive before *)
    destruct o; cbn [S.gstep S.starts S.gemits].
    + (* Track *) destruct (S.regkey_eqb k k0 && S.enabled (S.k_tr k)); intros E P; inversion E; subst;
        carry a'.
    + destruct (S.regkey_eqb k k0 && S.enabled (S.k_tr k)); intros E P; inversion E; subst;
        carry a'.
    + (* Validate *)
      destruct (S.regkey_eqb k k0) eqn:EQ; cbn [andb].
      * apply regkey_eqb_true in EQ. subst k0.
        assert (EN : S.enabled (S.k_tr k) = true).
        { destruct (S.enabled (S.k_tr k)) eqn:EN; [reflexivity|]. specialize (DIS eq_refl). discriminate. }
        rewrite EN. cbv beta iota. intros E P; inversion E; subst a' u'.
        destruct (S.gvalid h k) eqn:V.
        -- carry a.
        -- destruct u.
           ++ carry a.
           ++ right; left. split; [reflexivity|]. split; [|lia]. cbn. left; reflexivity.
      * intros E P; inversion E; subst a' u'. carry a.
    + (* ValidateStale *)
      destruct (S.regkey_eqb k k0 && S.enabled (S.k_tr k)); intros E P; inversion E; subst a' u'; carry a.
    + (* MarkActive *)
      destruct (S.regkey_eqb k k0) eqn:EQ.
      * apply regkey_eqb_true in EQ. subst k0. intros E P; inversion E; subst a' u'.
        right; right. split; [reflexivity|]. split; [|lia]. rewrite G. cbn. left; reflexivity.
      * intros E P; inversion E; subst a' u'. carry a.
    + (* Advance *) intros E P; inversion E; subst a' u'. left; exists a, ns; repeat split; auto; lia.
    + (* Sweep *) destruct (S.kept a u); intros E P; [|discriminate]. inversion E; subst a' u'.
      carry a.
    + intros E P; inversion E; subst. carry a'.
    + intros E P; inversion E; subst. carry a'.
  - (* not alive before: a life can only begin now, unused *)
    specialize (DEAD eq_refl).
    destruct o; cbn [S.gstep S.starts S.gemits]; try discriminate.
    + destruct (S.regkey_eqb k k0 && S.enabled (S.k_tr k)); [|discriminate].
      intros E [P|P]; inversion E; subst; discriminate.
    + destruct (S.regkey_eqb k k0 && S.enabled (S.k_tr k)); [|discriminate].
      intros E [P|P]; inversion E; subst; discriminate.
    + (* Validate begins the life and announces it *)
      destruct (S.regkey_eqb k k0) eqn:EQ; cbn [andb]; [|discriminate].
      apply regkey_eqb_true in EQ. subst k0.
      destruct (S.enabled (S.k_tr k)) eqn:EN; [|discriminate].
      intros E P; inversion E; subst a' u'.
      right; left. split; [reflexivity|]. split; [|lia]. rewrite DEAD. cbn. left; reflexivity.
    + destruct (S.regkey_eqb k k0) eqn:EQ; cbn [andb]; [|discriminate].
      apply regkey_eqb_true in EQ. subst k0.
      destruct (S.enabled (S.k_tr k)) eqn:EN; [|discriminate].
      intros E P; inversion E; subst a' u'.
      right; left. split; [reflexivity|]. split; [|lia]. rewrite G. cbn. left; reflexivity.
    + destruct (S.regkey_eqb k k0); discriminate.
Qed.

(* ------------------------------------------------------------------ the invariant *)
Section Invariant.
  Variable fields : S.regkey -> reg.
  Variable att : nat.
  Variable k : S.regkey.
  Variable dk : dkey.
  Variables sN sU : session.
  Hypothesis HN : handle_s2d (announce (fields k) ONew) = DAdd sN.
  Hypothesis HU : handle_s2d (announce (fields k) OUpdate) = DAdd sU.
  Hypothesis TN : tag sN = dk.
  Hypothesis TU : tag sU = dk.
  Hypothesis LN : s_timeout sN = timeout_unused.
  Hypothesis LU : s_timeout sU = timeout_active.

  (* while the registration is alive, validated or used, and younger than its lifetime, the detector holds its
     session with an expiry no earlier than (the time it was tracked) + (the station's lifetime for its state) *)
  Definition holds (h : list S.rop) (D : dmap) : Prop :=
    forall a u, S.ghost h k = Some (a, u) -> (u = true \/ S.gvalid h k = true) -> a < station_lifetime u ->
    exists e, lookup dk D = Some e /\ S.now (S.run h) + station_lifetime u <= e + a.

  Lemma holds_station_step h D o sc :
    holds h D -> survivable att sc = true ->
    holds (h ++ [o]) (deliver (S.now (S.run h)) D (published fields att sc (S.emits (S.run h) o))).
  Proof.
    intros IH SV a' u' G' P' A'.
    set (T := S.now (S.run h)) in *.
    set (ms := published fields att sc (S.emits (S.run h) o)).
    assert (NC : forall m, In m ms -> handle_s2d m <> DClear) by (intros m I; eapply published_not_clear; exact I).
    assert (EM : forall ev, In ev (S.gemits h o) -> In ev (S.emits (S.run h) o)).
    { intros ev I. pose proof (SC.emits_ghost h o) as X. destruct o; try (rewrite X; exact I). destruct I. }
    destruct (premise_step h o k a' u' G' P') as [(a & d & G & P & -> & NOW)|[(-> & I & NOW)|(-> & I & NOW)]].
    - assert (A : a < station_lifetime u') by lia.
      destruct (IH a u' G P A) as (e & L & LE).
      destruct (deliver_keeps T ms D dk e L NC) as (e' & L' & G2).
      exists e'. split; [exact L'|]. rewrite NOW. fold T. lia.
    - assert (IM : In (announce (fields k) ONew) ms).
      { eapply published_has; [exact SV|apply EM; exact I|left; reflexivity]. }
      destruct (deliver_adds T ms _ sN D IM HN NC) as (e & L & G2).
      rewrite TN in L. exists e. split; [exact L|]. rewrite NOW. fold T. rewrite LN in G2.
      cbn [station_lifetime]. lia.
    - assert (IM : In (announce (fields k) OUpdate) ms).
      { eapply published_has; [exact SV|apply EM; exact I|left; reflexivity]. }
      destruct (deliver_adds T ms _ sU D IM HU NC) as (e & L & G2).
      rewrite TU in L. exists e. split; [exact L|]. rewrite NOW. fold T. rewrite LU in G2.
      cbn [station_lifetime]. lia.
  Qed.

  Lemma holds_detector_step h D e :
    holds h D -> not_clear e -> holds h (dstep (S.now (S.run h)) D e).
  Proof.
    intros IH NC a u G P A.
    destruct (IH a u G P A) as (v & L & LE).
    destruct (dstep_keeps (S.now (S.run h)) D e dk v v L (N.le_refl v)) as (v' & L' & G'); [lia|exact NC|].
    exists v'. split; [exact L'|lia].
  Qed.

  (* the events of a history the theorem covers: publications hit by fewer transient faults than the client
     makes attempts; anything at the detector but a Clear; no shutdown in between *)
  Definition wok (e : wevent) : Prop :=
    match e with
    | WSt _ sc => survivable att sc = true
    | WDet e => not_clear e
    | WCleanup _ => False
    end.

  Lemma holds_wrun D0 ws :
    Forall wok ws -> holds (st_hist ws) (snd (wrun fields att D0 ws)).
  Proof.
    induction ws as [|e ws IH] using rev_ind; intros F.
    - intros a u G. discriminate.
    - apply Forall_app in F as [F1 F2]. inversion F2 as [|? ? W _]; subst.
      specialize (IH F1). rewrite wrun_snoc, st_hist_snoc.
      pose proof (wrun_fst fields att D0 ws) as FS.
      destruct (wrun fields att D0 ws) as [s D]. cbn [fst snd] in *. subst s.
      destruct e; cbn [wstep snd wok] in *.
      + apply holds_station_step; assumption.
      + rewrite app_nil_r. apply holds_detector_step; assumption.
      + destruct W.
  Qed.
End Invariant.

(* ------------------------------------------------------------------ in the table's own terms *)
Lemma life_of_view s k : life_of s k = SI.view s k.
Proof. reflexivity. Qed.

Lemma life_of_run h k : life_of (S.run h) k = S.ghost h k.
Proof. rewrite life_of_view. apply SH.refinement. Qed.

Lemma station_lifetime_kept a u : S.kept a u = true -> a <= station_lifetime u.
Proof.
  unfold S.kept, S.ten_min, S.six_h, station_lifetime, timeout_active, timeout_unused, ns_per_s.
  destruct u; cbn [andb]; lia.
Qed.

(* a registration the station accepts is alive, validated, and no older than the station's lifetime for its state *)
Lemma station_accepts_life h k :
  station_accepts (S.run h) k = true ->
  exists a u, life_of (S.run h) k = Some (a, u) /\ a <= station_lifetime u /\ S.gvalid h k = true.
Proof.
  unfold station_accepts, station_keeps. intros H. apply andb_true_iff in H as [M K].
  rewrite SC.matches_ghost in M.
  assert (EN : S.enabled (S.k_tr k) = true).
  { destruct (S.enabled (S.k_tr k)) eqn:EN; [reflexivity|].
    rewrite (gvalid_dead h k (SC.ghost_disabled h k EN)) in M. discriminate. }
  unfold life_of. rewrite EN.
  destruct (S.aget S.tkey_eqb (S.tkey_of k) (S.timeouts (S.run h))) as [t|]; [|discriminate].
  exists (S.now (S.run h) - S.t_born t), (S.t_used t). split; [reflexivity|]. split; [|exact M].
  apply station_lifetime_kept. rewrite C08.Sweep.rec_expired_kept in K. destruct (S.kept _ _); [reflexivity|discriminate].
Qed.

Theorem held_over_histories fields att D0 ws k a u :
  (forall k, reg_ok (fields k) = true) -> Forall (wok att) ws ->
  life_of (fst (wrun fields att D0 ws)) k = Some (a, u) ->
  (u = true \/ S.matches (fst (wrun fields att D0 ws)) k = true) ->
  a < station_lifetime u ->
  exists sess e, handle_s2d (announce (fields k) ONew) = DAdd sess /\
                 lookup (tag sess) (snd (wrun fields att D0 ws)) = Some e /\
                 S.now (fst (wrun fields att D0 ws)) + station_lifetime u <= e + a.
Proof.
  intros OK F L P A.
  destruct (announce_sessions (fields k) (OK k)) as (sN & sU & HN & HU & TU & LN & LU).
  pose proof (holds_wrun fields att k (tag sN) sN sU HN HU eq_refl TU LN LU D0 ws F) as H.
  rewrite wrun_fst in *. rewrite life_of_run in L. rewrite SC.matches_ghost in P.
  destruct (H a u L P A) as (e & LK & LE).
  exists sN, e. auto.
Qed.

Lemma forwarded_over_histories fields att D0 ws k :
  (forall k, reg_ok (fields k) = true) -> Forall (wok att) ws ->
  station_accepts (fst (wrun fields att D0 ws)) k = true ->
  (forall u, life_of (fst (wrun fields att D0 ws)) k <> Some (station_lifetime u, u)) ->
  detector_forwards (fields k) (snd (wrun fields att D0 ws)) = true.
Proof.
  intros OK F ACC NB.
  pose proof (wrun_fst fields att D0 ws) as FS.
  rewrite FS in ACC. destruct (station_accepts_life _ _ ACC) as (a & u & L & LE & V).
  rewrite <- FS in L.
  assert (A : a < station_lifetime u).
  { assert (a <> station_lifetime u) by (intros ->; exact (NB u L)). lia. }
  destruct (held_over_histories fields att D0 ws k a u OK F L) as (sess & e & H & LK & _); [|exact A|].
  - right. rewrite FS, SC.matches_ghost. exact V.
  - unfold detector_forwards, reg_dkey. rewrite H. unfold tracked. rewrite LK. reflexivity.
Qed.

(* a duplicate of a tracked registration, through either entry point, is a no-op on the table (in particular on
   the registration's clock) and announces nothing *)
Lemma duplicate_is_noop s k :
  S.tracked s k = true ->
  S.step s (S.TrackNX k) = s /\ S.step s (S.Track k) = s /\
  S.emits s (S.TrackNX k) = [] /\ S.emits s (S.Track k) = [].
Proof.
  unfold S.tracked. intros T. destruct (S.registration_exists s k) as [v|] eqn:E; [|discriminate].
  cbn [S.step S.emits]. rewrite (SI.track_exists s k v E). auto.
Qed.

(* shutdown after any history: the Clear of Cleanup(), hit by fewer transient faults than the client makes
   attempts, leaves the detector with nothing *)
Lemma cleanup_over_histories fields att D0 ws sc :
  survivable att sc = true -> snd (wstep fields att (wrun fields att D0 ws) (WCleanup sc)) = [].
Proof.
  intros SV. destruct (wrun fields att D0 ws) as [s D]. cbn [wstep snd].
  apply clear_survives_faults. exact SV.
Qed.

(* ------------------------------------------------------------------ the converse bound *)
(* nothing in the detector's table reaches further than 6 h beyond the present: if the table starts within that
   bound and only this station's announcements, packets, lookups and sweeps happen, every expiry is at most
   now + 6 h -- the detector outlives the station's acceptance by at most one active lifetime after the last
   announcement (every connection re-announces) plus its sweep period *)
Definition within (b : N) (D : dmap) : Prop := forall k v, In (k, v) D -> v <= b.

Lemma within_add b k e D : within b D -> e <= b -> within b (add_or_update k e D).
Proof.
  intros W LE. induction D as [|[k' v] D IH]; cbn [add_or_update].
  - intros k0 v0 [H|[]]. inversion H; subst. exact LE.
  - assert (W' : within b D) by (intros a c I; apply (W a c); right; exact I).
    destruct (dkey_eqb k' k).
    + intros k0 v0 [H|I]; [inversion H; subst; specialize (W k0 v (or_introl eq_refl)); lia|apply (W k0 v0); right; exact I].
    + intros k0 v0 [H|I]; [inversion H; subst; apply (W k0 v0); left; reflexivity|apply (IH W' k0 v0 I)].
Qed.

Lemma within_refresh b k e D : within b D -> e <= b -> within b (refresh k e D).
Proof.
  intros W LE. induction D as [|[k' v] D IH]; cbn [refresh]; [intros ? ? []|].
  assert (W' : within b D) by (intros a c I; apply (W a c); right; exact I).
  destruct (dkey_eqb k' k).
  - intros k0 v0 [H|I]; [inversion H; subst; specialize (W k0 v (or_introl eq_refl)); lia|apply (W k0 v0); right; exact I].
  - intros k0 v0 [H|I]; [inversion H; subst; apply (W k0 v0); left; reflexivity|apply (IH W' k0 v0 I)].
Qed.

Lemma within_mono b b' D : within b D -> b <= b' -> within b' D.
Proof. intros W LE k v I. specialize (W k v I). lia. Qed.

Lemma announce_timeout_le r o s : handle_s2d (announce r o) = DAdd s -> s_timeout s <= timeout_active.
Proof.
  intros H. pose proof (announce_adds_le r o 0 (tag s) s H eq_refl) as X.
  unfold station_lifetime, timeout_active, timeout_unused, ns_per_s in *. destruct (used_after o); lia.
Qed.

(* detector-local events that only this station's traffic causes *)
Definition local_only (e : devent) : Prop :=
  match e with EPacket _ | EQuery _ | ESweep => True | EMsg _ | EAdd _ => False end.

Section Converse.
  Variable fields : S.regkey -> reg.
  Variable att : nat.

  Definition wlocal (e : wevent) : Prop :=
    match e with WSt _ _ => True | WDet e => local_only e | WCleanup _ => True end.

  Lemma within_deliver b now : forall ms D,
    within b D -> now + timeout_active <= b ->
    (forall m, In m ms -> exists r o, m = announce r o) -> within b (deliver now D ms).
  Proof.
    induction ms as [|m ms IH]; intros D W LE AN; unfold deliver; cbn [fold_left]; [exact W|].
    change (within b (deliver now (detector_step now D m) ms)).
    apply IH; [|exact LE|intros m' I; apply AN; right; exact I].
    unfold detector_step. destruct (handle_s2d m) as [s| |] eqn:H; cbn [apply_effect].
    - apply within_add; [exact W|]. destruct (AN m (or_introl eq_refl)) as (r & o & ->).
      pose proof (announce_timeout_le r o s H). lia.
    - intros ? ? [].
    - exact W.
  Qed.

  Lemma within_deliver_published b now sc evs D :
    within b D -> now + timeout_active <= b -> within b (deliver now D (published fields att sc evs)).
  Proof.
    intros W LE. apply within_deliver; [exact W|exact LE|].
    intros m I. unfold published in I. apply in_flat_map in I as (m0 & I0 & I1).
    apply publish_only_copies in I1. subst m0. apply in_flat_map in I0 as (ev & _ & I2).
    destruct ev; cbn [ev_msgs] in I2; [destruct I2 as [<-|[]]; eauto|destruct I2 as [<-|[]]; eauto|destruct I2].
  Qed.

  Lemma within_wrun D0 ws :
    within timeout_active D0 -> Forall wlocal ws ->
    within (S.now (fst (wrun fields att D0 ws)) + timeout_active) (snd (wrun fields att D0 ws)).
  Proof.
    intros W0. induction ws as [|e ws IH] using rev_ind; intros F.
    - cbn. exact W0.
    - apply Forall_app in F as [F1 F2]. inversion F2 as [|? ? WL _]; subst. specialize (IH F1).
      rewrite wrun_snoc. destruct (wrun fields att D0 ws) as [s D]. cbn [fst snd] in *.
      destruct e; cbn [wstep fst snd wlocal] in *.
      + assert (MONO : S.now s <= S.now (S.step s o)) by (rewrite now_step; destruct o; lia).
        eapply within_mono; [|apply N.add_le_mono_r; exact MONO].
        apply within_deliver_published; [exact IH|lia].
      + destruct e; cbn [dstep local_only] in *; try destruct WL.
        * destruct (session_of m) as [s0|?|]; [|exact IH|exact IH].
          apply within_refresh; [exact IH|]. unfold timeout_phantoms, timeout_active, ns_per_s. lia.
        * exact IH.
        * intros k0 v0 I. unfold sweep in I. apply filter_In in I as [I _]. exact (IH k0 v0 I).
      + unfold cleanup. cbn [flat_map]. rewrite app_nil_r.
        generalize (publish_only_copies att sc clear_msg).
        induction (publish att sc clear_msg) as [|m ms IHm]; intros C; unfold deliver; cbn [fold_left]; [exact IH|].
        assert (m = clear_msg) by (apply C; left; reflexivity). subst m.
        assert (E : detector_step (S.now s) D clear_msg = []) by reflexivity. rewrite E.
        clear IHm. revert C. clear. intros C.
        assert (X : forall l, (forall x, In x l -> x = clear_msg) -> fold_left (detector_step (S.now s)) l [] = []).
        { induction l as [|x l IHl]; intros A; [reflexivity|]. cbn [fold_left].
          rewrite (A x (or_introl eq_refl)). apply IHl. intros y I; apply A; right; exact I. }
        rewrite X; [intros ? ? []|intros x I; apply C; right; exact I].
  Qed.
End Converse.

(* ------------------------------------------------------------------ discharging the hypotheses for the concrete functions *)
(* the ingest worker's steps for one message are within the theorem's scope whenever the fault script of the
   publication it may cause is survivable *)
Lemma recv_events_wok att s sc : forall ks,
  survivable att sc = true -> Forall (wok att) (recv_events s ks sc).
Proof.
  intros ks SV.
  assert (NIL : survivable att [] = true) by (destruct att; [discriminate|reflexivity]).
  revert sc SV. induction ks as [|k r IH]; intros sc SV; cbn [recv_events]; [constructor|].
  destruct (S.tracked s k).
  - constructor; [exact NIL|apply IH; exact SV].
  - constructor; [exact NIL|]. constructor; [exact SV|apply IH; exact NIL].
Qed.

(* the fields hypothesis holds for everything the ingest path produces *)
Lemma forwarded_over_histories_ingested fields att D0 ws k :
  (forall k, exists c w s, sel_wf s /\ In (fields k) (ingest c w s)) -> Forall (wok att) ws ->
  station_accepts (fst (wrun fields att D0 ws)) k = true ->
  (forall u, life_of (fst (wrun fields att D0 ws)) k <> Some (station_lifetime u, u)) ->
  detector_forwards (fields k) (snd (wrun fields att D0 ws)) = true.
Proof.
  intros ING. apply forwarded_over_histories.
  intros k0. destruct (ING k0) as (c & w & s & W & I). eapply ingest_ok; eauto.
Qed.
